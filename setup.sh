#!/bin/bash
# Builds the harness once (warms the Go build cache, including the race-instrumented std) from files on disk only.
set -u
export GOFLAGS=-mod=mod GOPROXY=off GOSUMDB=off GOTOOLCHAIN=local
ROOT=$(cd "$(dirname "$0")" && pwd)
cd "$ROOT/harness" || exit 1
mkdir -p "$ROOT/.build" "$ROOT/evidence" "$ROOT/runs"
go build -tags verif ./... || exit 1
go build -tags verif -race ./... || exit 1
echo setup ok
