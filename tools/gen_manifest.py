#!/usr/bin/env python3
"""Regenerates /verif/MANIFEST.json from the table below (single source of truth)."""
import json, os
V = '/verif'
props = [json.loads(l) for l in open(f'{V}/properties.jsonl')]

# id -> (category, technique, level text, level note, design ref)
CHECKS = {}
def reg(pid, cat, tech, text, note, ref=None):
    CHECKS[pid] = dict(cat=cat, tech=tech, text=text, note=note, ref=ref or f'DESIGN.md section 5 {pid}')

exec(open(f'{V}/tools/checks_table.py').read())

hooks_commits = [l.strip() for l in open(f'{V}/tools/hook_commits.txt') if l.strip()]
m = {
 "version": 1,
 "setup_cmd": "cd /verif && ./setup.sh",
 "hooks": {
  "guard": "verif",
  "enable": "go build -tags verif in the harness module /verif/harness (replace storj.io/drpc => /repo); ./check <ID> <tier> rebuilds the monitor from /repo's working tree on every invocation",
  "baseline_off_cmd": "export GOPROXY=off; for m in . ./internal/backcompat ./internal/backcompat/newservice ./internal/backcompat/newservicedefs ./internal/backcompat/oldservice ./internal/backcompat/oldservicedefs ./internal/backcompat/servicedefs ./internal/grpccompat ./internal/integration ./internal/twirpcompat; do (cd /repo/$m && go test -mod=mod -json -vet=off -count=1 -timeout 25m ./...); done",
  "source_commits": hooks_commits,
  "add_only": True,
 },
 "engines": [{
  "name": "verifharness", "path": "/verif/harness",
  "serves_properties": sorted(CHECKS),
  "kind_free_text": "Go runtime monitors over the real code built from /repo: instrumented in-memory transport with tap/gates/faults, independent reference codec and reassembler, blocked-goroutine census (quiescence verdicts), drpcdebug.Point director (park/perturb), Go race detector and checkptr, porcupine linearizability checker over recorded histories",
 }],
 "checks": [],
 "notes": "Technique family: runtime monitoring and sanitizers only. Every check exits 0 (held on what was explored), 1 with VIOLATION lines, or 2 (harness failure / observed too little: inconclusive, never a violation). Known findings: /verif/known_findings.json.",
 "not_applicable": [],
}
for p in props:
    pid = p['id']
    if pid in CHECKS:
        c = CHECKS[pid]
        m['checks'].append({
            "property_id": pid,
            "quick_cmd": f"./check {pid} quick",
            "thorough_cmd": f"./check {pid} thorough",
            "evidence_file": f"/verif/evidence/{pid}.json",
            "replay_cmd_template": f"./check {pid} quick -replay {{path}}",
            "engine": "verifharness",
            "level_claimed": {"category": c['cat'], "text": c['text'], "design_ref": c['ref']},
            "level_note": c['note'],
            "technique": c['tech'],
        })
    else:
        m['not_applicable'].append({"property_id": pid, "reason": NA.get(pid, "check not built yet (work in progress; see DESIGN.md section 9)")})
json.dump(m, open(f'{V}/MANIFEST.json', 'w'), indent=1)
print("checks:", sorted(CHECKS), "not_applicable:", [x['property_id'] for x in m['not_applicable']])
