#!/bin/bash
# runs every round-15 change found under /tmp/mutout15 against its own property's quick check (scratch worktrees)
for d in /tmp/mutout15/C*/[ab]; do
  [ -f $d/patch.diff ] || continue
  id=$(basename $(dirname $d)); x=$(basename $d)
  [ -n "${1:-}" ] && [ "$1" != "$id" ] && continue
  res=$(LINES_MAX=3 timeout 1500 /verif/tools/trymut2.sh $d/patch.diff $id 2>&1 | tr '\n' ' ' | cut -c1-330)
  echo "$id/$x: $res"
done
