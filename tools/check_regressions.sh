#!/bin/bash
# Re-applies the reverse of every fix: commit to a scratch worktree of /repo HEAD and runs the
# property's quick check against it (never touches /repo). Every line must say "detected".
cd /verif || exit 2
python3 -c "
import json
for r in json.load(open('regressions/index.json'))['regressions']: print(r['fix_commit'], r['property'], r['revert_patch'])" | while read c p f; do
  out=$(LINES_MAX=3 tools/trymut2.sh /verif/$f $p 2>&1)
  if echo "$out" | grep -q "^VIOLATION property=$p"; then echo "$c $p detected"; else echo "$c $p NOT-DETECTED: $(echo "$out" | tail -2 | tr '\n' ' ' | cut -c1-200)"; fi
done
