#!/bin/bash
# Re-runs every seeded change (scratch worktree, never /repo) against the quick check of its own
# property and prints "<id> <property> detected|MISSED". usage: recheck_detection.sh [parallelism]
cd /verif || exit 2
one() {
  id=$1; p=${id:0:3}
  out=$(LINES_MAX=3 /verif/tools/trymut2.sh /verif/seeded/$id/patch.diff $p 2>&1)
  if echo "$out" | grep -q "^VIOLATION property=$p"; then echo "$id $p detected"; else echo "$id $p MISSED: $(echo "$out" | tail -2 | tr '\n' ' ' | cut -c1-160)"; fi
}
export -f one
ls seeded | grep '^C[0-9][0-9][a-z]$' | xargs -P ${1:-3} -I{} bash -c 'one {}'
