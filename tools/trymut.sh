#!/bin/bash
# usage: trymut.sh <patch.diff> <ID> [tier] — apply a seeded change to /repo, run the check, undo it.
set -u
P=$1; ID=$2; TIER=${3:-quick}
cd /repo || exit 2
if [ -n "$(git status --porcelain)" ]; then echo "/repo not clean"; exit 2; fi
git apply "$P" || { echo "patch does not apply"; exit 2; }
trap 'git -C /repo checkout -- . ; git -C /repo clean -fdq' EXIT
cd /verif && ./check "$ID" "$TIER" 2>&1 | grep -v '^DONE shard' | head -${LINES_MAX:-30}
echo "exit=${PIPESTATUS[0]}"
