#!/bin/bash
# usage: adhoc.sh <ID> <file> <python-replace-old> <python-replace-new>  — ad-hoc mutation on /repo, run check, revert
ID=$1; F=$2; OLD=$3; NEW=$4; TIER=${5:-quick}
cd /repo || exit 2
[ -n "$(git status --porcelain)" ] && { echo "/repo not clean"; exit 2; }
trap 'git -C /repo checkout -- . ; git -C /repo clean -fdq' EXIT
python3 - "$F" "$OLD" "$NEW" <<'PY' || exit 2
import sys
f,old,new=sys.argv[1:4]
s=open(f).read()
assert s.count(old)>=1, "old text not found"
open(f,'w').write(s.replace(old,new,1))
PY
export GOFLAGS=-mod=mod GOPROXY=off
go build ./... || { echo "mutant does not build"; exit 2; }
cd /verif && ./check "$ID" "$TIER" 2>&1 | grep -v '^DONE shard' | cut -c1-400 | head -${LINES_MAX:-12}
