#!/bin/bash
# usage: confirm_seeded.sh <ID> <a|b>  — confirm one seeded change in a scratch worktree of /repo HEAD:
# applies, builds, existing suite passes, demo passes without and fails with the change.
set -u
ID=$1; X=$2
SRC=${MUT:-/tmp/mutout}/$ID/$X
WT=/tmp/wt-confirm-$ID-$X-$$
export GOPROXY=off GOFLAGS=-mod=mod
P=$SRC/patch.diff; [ -f $SRC/patch_rebased.diff ] && P=$SRC/patch_rebased.diff
git -C /repo worktree remove --force $WT 2>/dev/null
git -C /repo worktree add -q --detach $WT HEAD || exit 2
trap 'git -C /repo worktree remove --force '$WT' 2>/dev/null' EXIT
cd $WT
f=$(ls $SRC/demo/*demo*_test.go $SRC/demo/*_test.go 2>/dev/null | grep -v stress | head -1)
pkg=$(grep -m1 '^package ' $f | awk '{print $2}'); pkg=${pkg%_test}
case $pkg in
  integration) dir=internal/integration;;
  main) dir=cmd/protoc-gen-go-drpc;;
  *) dir=$pkg;;
esac
cp $f $dir/
run_demo() { (cd $WT/$dir && timeout 300 go test -mod=mod -vet=off -count=1 -run 'TestC|TestDemo|TestHuge|TestMalformed' . >/tmp/confirm-$ID-$X.$1.log 2>&1; echo $?); }
without=$(run_demo without)
git apply $P || { echo "$ID/$X APPLY-FAILED"; exit 1; }
go build ./... || { echo "$ID/$X BUILD-FAILED"; exit 1; }
with=$(run_demo with)
rm -f $dir/$(basename $f)
suite=ok
for m in . ./internal/backcompat ./internal/grpccompat ./internal/integration ./internal/twirpcompat; do
  out=$(cd $WT/$m && go test -mod=mod -vet=off -count=1 ./... 2>&1 | grep -v "no test files\|^ok" | grep -v TestCancelRepeatedPooled)
  if echo "$out" | grep -q "^--- FAIL\|^FAIL\|panic:"; then
     # tolerate the known flaky test only
     if echo "$out" | grep "^--- FAIL" | grep -vq TestCancelRepeatedPooled; then suite="FAIL($m)"; fi
  fi
done
echo "$ID/$X demo_without_change_exit=$without demo_with_change_exit=$with suite=$suite patch=$(basename $P)"
