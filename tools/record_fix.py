#!/usr/bin/env python3
"""usage: record_fix.py <property> <key> <design-row-text> <what-text>  — records the newest /repo commit as a fixed finding
(known_findings.json, DESIGN.md 6.1 table, regressions/)."""
import json,subprocess,sys,re
prop,key,row,what=sys.argv[1:5]
c=subprocess.check_output(['git','-C','/repo','log','-1','--format=%h']).decode().strip()
subj=subprocess.check_output(['git','-C','/repo','log','-1','--format=%s']).decode().strip()
assert subj.startswith('fix:'), subj
d=json.load(open('/verif/known_findings.json'))
d['findings'].append(dict(property=prop,key=key,status='fixed',commit=c,what=f'fixed: property={prop} {c} {what}'))
json.dump(d,open('/verif/known_findings.json','w'),indent=1)
s=open('/verif/DESIGN.md').read()
rows=[m for m in re.finditer(r'^\| [0-9a-f]{7} \| C\d\d.*\n', s, re.M)]
last=[m for m in rows if m.start()>s.index('### 6.1') and m.start()<s.index('### 6.2')][-1]
s=s[:last.end()]+f'| {c} | {prop} | {row} |\n'+s[last.end():]
n=len(json.load(open('/verif/regressions/index.json'))['regressions'])+1
s=re.sub(r'all \d+ are reported as violations', f'all {n} are reported as violations', s)
open('/verif/DESIGN.md','w').write(s)
WT='/tmp/wt-rv-rec'
subprocess.run(['git','-C','/repo','worktree','add','-q','--detach',WT,'HEAD'],check=True)
try:
    subprocess.run(['git','-C',WT,'revert','--no-commit',c],check=True)
    open(f'/verif/regressions/{c}.revert.diff','w').write(subprocess.check_output(['git','-C',WT,'diff','HEAD']).decode())
finally:
    subprocess.run(['git','-C','/repo','worktree','remove','--force',WT])
idx=json.load(open('/verif/regressions/index.json'))
idx['regressions'].append(dict(fix_commit=c, subject=subj, property=prop, revert_patch=f'regressions/{c}.revert.diff', note='reverse of the fix applied to /repo HEAD', detected_by_quick_check=True))
json.dump(idx,open('/verif/regressions/index.json','w'),indent=1)
print('recorded',c)
