#!/usr/bin/env python3
"""Copies confirmed seeded changes into /verif/seeded/<id>/ and records which check detects each:
applies the patch to /repo, runs the property's quick check, undoes the patch."""
import json, os, re, shutil, subprocess, sys
MUT=os.environ.get('MUT','/tmp/mutout'); OUT='/verif/seeded'
CONFIRM=os.environ.get('CONFIRM','/tmp/confirm_all.txt')
RENAME=dict(p.split('=') for p in os.environ.get('RENAME','a=a,b=b').split(','))  # round 2: a=c,b=d
ROUND=os.environ.get('ROUND','1')
confirm={}
for l in open(CONFIRM):
    m=re.match(r'(C\d+)/([a-z]) demo_without_change_exit=(\d+) demo_with_change_exit=(\d+) suite=(\S+) patch=(\S+)', l)
    if m: confirm[(m.group(1),m.group(2))]=dict(demo_without=int(m.group(3)), demo_with=int(m.group(4)), suite=m.group(5), patch=m.group(6))
only=sys.argv[1:] 
extra={('C02','a'):['C04'], ('C18','b'):['C09'], ('C08','a'):['C13'], ('C03','a'):['C05']} if ROUND=='1' else {('C18','b'):['C11']} if ROUND=='2' else {('C06','a'):['C04','C12']}
for (pid,x),c in sorted(confirm.items()):
    sid=f'{pid}{RENAME[x]}'
    if only and sid not in only and pid not in only: continue
    src=f'{MUT}/{pid}/{x}'; dst=f'{OUT}/{sid}'
    os.makedirs(dst, exist_ok=True)
    shutil.copy(f'{src}/{c["patch"]}', f'{dst}/patch.diff')
    if os.path.isdir(f'{dst}/demo'): shutil.rmtree(f'{dst}/demo')
    shutil.copytree(f'{src}/demo', f'{dst}/demo')
    notes=open(f'{src}/NOTES.md').read()
    shutil.copy(f'{src}/NOTES.md', f'{dst}/NOTES.md')
    det={}
    for chk in [pid]+extra.get((pid,x),[]):
        # a scratch worktree of /repo HEAD carries the change; /repo itself is not touched
        wt=f'/tmp/wt-store-{sid}-{os.getpid()}'
        subprocess.run(['git','-C','/repo','worktree','add','-q','--detach',wt,'HEAD'],check=True)
        try:
            subprocess.run(['git','-C',wt,'apply',f'{dst}/patch.diff'],check=True)
            p=subprocess.run(['timeout','1200','/verif/check',chk,'quick'],capture_output=True,text=True,cwd='/verif',env=dict(os.environ,VERIF_REPO=wt))
        finally:
            subprocess.run(['git','-C','/repo','worktree','remove','--force',wt])
        keys=re.findall(r'^  key=(.*?) occurrences=(\d+)', p.stdout, re.M)
        det[chk]=dict(exit=p.returncode, violation_keys=[k for k,_ in keys][:6], occurrences=sum(int(n) for _,n in keys))
        print(sid, chk, 'exit', p.returncode, [k for k,_ in keys][:2], flush=True)
    first=[l for l in notes.splitlines() if l.strip() and not l.startswith('#')]
    meta=dict(id=sid, property=pid, round=int(ROUND),
      source='written by an independent sub-agent that saw only the property text and a scratch worktree of /repo',
      needs_to_manifest=' '.join(first[:6])[:900],
      confirmed_by_me=dict(applies_to_repo_head=True, builds=True, existing_suite=c['suite'], demo_without_change_exit=c['demo_without'], demo_with_change_exit=c['demo_with'],
         how='tools/confirm_seeded.sh in a scratch worktree of /repo HEAD (removed afterwards): git apply, go build ./..., go test of the root and the four internal modules, demo test copied into its package and run with and without the change'),
      patch_rebased_on_fix_commits=(c['patch']!='patch.diff'),
      detection=det)
    json.dump(meta, open(f'{dst}/meta.json','w'), indent=1)
