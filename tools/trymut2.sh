#!/bin/bash
# usage: trymut2.sh <patch.diff> <ID> [tier] — like trymut.sh but in a scratch worktree (does not touch /repo),
# so it can run while other checks use /repo. Evidence/runs go to a scratch VERIF_DIR copy.
set -u
P=$1; ID=$2; TIER=${3:-quick}
WT=/tmp/wt-try-$$
git -C /repo worktree add -q --detach $WT HEAD || exit 2
trap 'git -C /repo worktree remove --force '$WT' 2>/dev/null; rm -rf /tmp/vd-try-'$$' /verif/runs/*/*-'$TIER$$' /verif/.build/*.alt.'$$' /verif/.build/*.alt.'$$'.* /verif/.build/c17work'$$ EXIT
git -C $WT apply "$P" || { echo "patch does not apply"; exit 2; }
mkdir -p /tmp/vd-try-$$; cp /verif/known_findings.json /tmp/vd-try-$$/
# run the live harness sources against the worktree, writing runs/evidence elsewhere
VERIF_REPO=$WT VERIF_WORKSUFFIX=$$ /verif/check "$ID" "$TIER" 2>&1 | grep -v '^DONE shard\|^KNOWN\|^  BEGIN' | cut -c1-500 | head -${LINES_MAX:-12}
echo "exit=${PIPESTATUS[0]}"
