// Package rig wires a real drpcconn.Conn to a real drpcserver.Server over the
// instrumented simnet transport and keeps a registry of application operations
// (call/return events stamped by the logical clock) for the monitors.
package rig

import (
	"context"
	"errors"
	"fmt"
	"io"
	"strings"
	"sync"
	"time"

	"storj.io/drpc"
	"storj.io/drpc/drpcconn"
	"storj.io/drpc/drpcerr"
	"storj.io/drpc/drpcmanager"
	"storj.io/drpc/drpcserver"

	"verifharness/census"
	"verifharness/director"
	"verifharness/simnet"
)

// HandlerFunc adapts a function to drpc.Handler.
type HandlerFunc func(stream drpc.Stream, rpc string) error

// HandleRPC implements drpc.Handler.
func (f HandlerFunc) HandleRPC(stream drpc.Stream, rpc string) error { return f(stream, rpc) }

// Config describes a rig.
type Config struct {
	Net    simnet.Opts
	Client drpcmanager.Options
	Server drpcmanager.Options
	// CollectStats turns on per-rpc statistics on the client connection and on the server.
	CollectStats bool
	NoConn       bool // do not create the client conn (raw client side)
	NoSrv        bool // do not start the server (raw server side)
	// Real, if set, supplies real transports (net.Pipe, sockets) instead of simnet:
	// no tap, no gates, and the census cannot be used (goroutines sit in IO wait).
	Real func() (client, server drpc.Transport, cleanup func())
}

// Rig is one client/server pair.
type Rig struct {
	Pair       *simnet.Pair
	Conn       *drpcconn.Conn
	Srv        *drpcserver.Server
	Dir        *director.Director
	ServeOp    *Op
	ServeCtx   context.Context
	StopServe  context.CancelFunc
	ServerLogs []error
	mu         sync.Mutex

	realCleanup func()
}

// RoleOf maps point objects to roles for interleaving signatures.
func RoleOf(who interface{}) string {
	if e, ok := who.(*simnet.End); ok && e != nil {
		return e.Role
	}
	return ""
}

// New builds the rig and starts ServeOne on the server endpoint.
func New(cfg Config, h drpc.Handler) *Rig {
	r := &Rig{Pair: simnet.New(cfg.Net)}
	var trA, trB drpc.Transport = r.Pair.A, r.Pair.B
	if cfg.Real != nil {
		trA, trB, r.realCleanup = cfg.Real()
	}
	r.Dir = director.New(RoleOf)
	director.Install(r.Dir)
	r.ServeCtx, r.StopServe = context.WithCancel(context.Background())
	if !cfg.NoSrv {
		r.Srv = drpcserver.NewWithOptions(h, drpcserver.Options{Manager: cfg.Server, CollectStats: cfg.CollectStats, Log: func(err error) {
			r.mu.Lock()
			r.ServerLogs = append(r.ServerLogs, err)
			r.mu.Unlock()
		}})
		r.ServeOp = Go("ServeOne", func() (interface{}, error) { return nil, r.Srv.ServeOne(r.ServeCtx, trB) })
	}
	if !cfg.NoConn {
		r.Conn = drpcconn.NewWithOptions(trA, drpcconn.Options{Manager: cfg.Client, CollectStats: cfg.CollectStats})
	}
	return r
}

// Teardown releases everything the scenario may still hold and closes both
// sides. It does not judge anything.
func (r *Rig) Teardown() {
	r.Dir.ReleaseAll()
	r.Pair.A.ReleaseClose()
	r.Pair.B.ReleaseClose()
	r.Pair.A.StallWrites(false)
	r.Pair.B.StallWrites(false)
	r.Pair.A.StallReads(false)
	r.Pair.B.StallReads(false)
	r.StopServe()
	if r.Conn != nil {
		go r.Conn.Close()
	}
	r.Pair.A.Close()
	r.Pair.B.Close()
	if r.realCleanup != nil {
		r.realCleanup()
		time.Sleep(5 * time.Millisecond)
	}
	census.Quiesce(10 * time.Second)
	director.Install(nil)
}

// Op is one application-level operation running in its own goroutine.
type Op struct {
	Name      string
	Call, Ret int64
	Err       error
	Val       interface{}
	done      chan struct{}
	Gid       int64
}

// Go starts f in a goroutine and records its call/return.
func Go(name string, f func() (interface{}, error)) *Op {
	op := &Op{Name: name, done: make(chan struct{}), Call: simnet.Tick()}
	started := make(chan struct{})
	go func() {
		op.Gid = census.Self()
		close(started)
		v, err := f()
		op.Val, op.Err = v, err
		op.Ret = simnet.Tick()
		close(op.done)
	}()
	<-started
	return op
}

// Done is closed when the operation returned.
func (o *Op) Done() <-chan struct{} { return o.done }

// Returned reports whether the operation returned.
func (o *Op) Returned() bool {
	select {
	case <-o.done:
		return true
	default:
		return false
	}
}

// Wait blocks until the op returned or the process is quiescent (or the
// watchdog fired). It reports whether the op returned.
func (o *Op) Wait() bool { return WaitAny(o.done) == "ready" }

// Watchdog is the generous wall-clock limit around every wait; its firing is
// inconclusive, never a verdict.
var Watchdog = 60 * time.Second

// WaitAny waits until ch is closed or the process is quiescent. It returns
// "ready", "quiescent" or "watchdog".
func WaitAny(ch <-chan struct{}) string {
	st, _ := census.QuiesceOr(ch, Watchdog)
	return st
}

// Cat classifies an error by category (never by exact text).
func Cat(err error) string {
	switch {
	case err == nil:
		return "nil"
	case errors.Is(err, io.EOF):
		return "eof"
	case errors.Is(err, context.Canceled):
		return "canceled"
	case errors.Is(err, context.DeadlineExceeded):
		return "deadline"
	case drpc.ClosedError.Has(err):
		return "closed"
	case strings.Contains(err.Error(), "manager closed"):
		return "mgrclosed"
	case drpc.ProtocolError.Has(err):
		return "protocol"
	case drpc.InternalError.Has(err):
		return "internal"
	case drpcerr.Code(err) != 0:
		return fmt.Sprintf("code:%d", drpcerr.Code(err))
	}
	return "other"
}

// ErrStr renders an error for witnesses.
func ErrStr(err error) string {
	if err == nil {
		return "<nil>"
	}
	s := err.Error()
	if len(s) > 200 {
		s = s[:200] + "..."
	}
	return s
}

// IsClosed reports whether ch is closed.
func IsClosed(ch <-chan struct{}) bool {
	select {
	case <-ch:
		return true
	default:
		return false
	}
}
