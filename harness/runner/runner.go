// Package runner is the shared driver of all property checks: it generates the
// deterministic scenario list for (tier, seed), shards it over child processes
// (so one crash ends one shard, not the run), collects three-valued verdicts,
// classifies crashes and race-detector reports, applies the known-findings
// file, writes replay files and the evidence JSON, and sets the exit code.
package runner

import (
	"bufio"
	"encoding/json"
	"flag"
	"fmt"
	"hash/fnv"
	"os"
	"os/exec"
	"path/filepath"
	"regexp"
	"runtime"
	"runtime/debug"
	"sort"
	"strconv"
	"strings"
	"sync"
	"syscall"
	"time"
)

// Verdicts.
const (
	Held         = "held"
	Violated     = "violated"
	Inconclusive = "inconclusive"
)

// Result is the outcome of one scenario.
type Result struct {
	ID         string              `json:"id"`
	Verdict    string              `json:"verdict"`
	Key        string              `json:"key,omitempty"`    // identifies the failing input/program/history class (known-findings key)
	Detail     string              `json:"detail,omitempty"` // witness
	Nontrivial bool                `json:"nontrivial"`
	Sig        string              `json:"sig,omitempty"` // distinctness signature
	Events     int64               `json:"events,omitempty"`
	Distinct   int64               `json:"distinct,omitempty"` // distinct non-trivial cases inside this scenario, counted by the scenario (batches)
	Sample     interface{}         `json:"sample,omitempty"`
	Stats      map[string]int64    `json:"stats,omitempty"` // additive counters
	Sets       map[string][]string `json:"sets,omitempty"`  // sets to union across scenarios (e.g. interleaving signatures)
	More       []Result            `json:"more,omitempty"`  // additional violations found by the same scenario
	extra      bool
}

// Scenario is one unit of work.
type Scenario struct {
	ID  string
	Run func() Result
}

// Check describes a property check.
type Check struct {
	Property      string
	Level         string // exploration | fault_enumeration
	Rule          string
	Assumptions   []string
	Gen           func(tier string, seed uint64) []Scenario
	Shards        int  // child processes (default 14)
	InProc        bool // run everything in this process (pure-function checks)
	Parallel      int  // goroutines per process running scenarios concurrently (default 1)
	Procs         int  // GOMAXPROCS per child (default 4)
	MinNontrivial int  // fewer distinct non-trivial conclusive scenarios => exit 2 ("observed nothing")
	Exhaustive    func(tier string) bool
	ShardTimeout  func(tier string) time.Duration
	Extra         func(tier string) map[string]interface{} // extra coverage keys
	// UnstableList: the scenario list is derived from a dry run of the code under test and may differ by a
	// few cases from process to process. Shards then pick their scenarios by a hash of the scenario id
	// instead of by position (no scenario runs twice; one that is missing from its owner's list is skipped),
	// and the list fingerprint is not enforced.
	UnstableList bool
}

// Hold builds a held result.
func Hold(id, sig string, nontrivial bool) Result {
	return Result{ID: id, Verdict: Held, Sig: sig, Nontrivial: nontrivial}
}

// Violation builds a violated result.
func Violation(id, key, detail string) Result {
	return Result{ID: id, Verdict: Violated, Key: key, Detail: detail}
}

// Inconcl builds an inconclusive result.
func Inconcl(id, why string) Result {
	return Result{ID: id, Verdict: Inconclusive, Detail: why}
}

type finding struct {
	Property string `json:"property"`
	Key      string `json:"key"`
	Status   string `json:"status"` // known | fixed
	Commit   string `json:"commit,omitempty"`
	What     string `json:"what"`
}

func verifDir() string {
	if d := os.Getenv("VERIF_DIR"); d != "" {
		return d
	}
	return "/verif"
}

func loadFindings() []finding {
	var fs []finding
	b, err := os.ReadFile(filepath.Join(verifDir(), "known_findings.json"))
	if err != nil {
		return nil
	}
	var doc struct {
		Findings []finding `json:"findings"`
	}
	if json.Unmarshal(b, &doc) == nil {
		fs = doc.Findings
	}
	return fs
}

func matchKey(pattern, key string) bool {
	if strings.HasSuffix(pattern, "*") {
		return strings.HasPrefix(key, strings.TrimSuffix(pattern, "*"))
	}
	return pattern == key
}

// Main runs the check and exits.
func Main(c Check) {
	tier := flag.String("tier", envOr("VERIF_TIER", "quick"), "quick|thorough")
	seedS := flag.String("seed", envOr("VERIF_SEED", "1"), "seed")
	shard := flag.String("shard", "", "i/n (child mode)")
	out := flag.String("out", "", "child result file")
	replay := flag.String("replay", "", "replay file")
	only := flag.String("only", "", "run only scenarios whose id contains this (debug)")
	list := flag.Bool("list", false, "list scenario ids")
	flag.Parse()
	seed, _ := strconv.ParseUint(*seedS, 10, 64)
	if *tier != "quick" && *tier != "thorough" {
		*tier = "quick"
	}

	if *replay != "" {
		os.Exit(doReplay(c, *replay))
	}
	if *list {
		for _, s := range c.Gen(*tier, seed) {
			fmt.Println(s.ID)
		}
		return
	}
	if *shard != "" {
		os.Exit(child(c, *tier, seed, *shard, *out, *only))
	}
	os.Exit(parent(c, *tier, seed, *only))
}

func envOr(k, d string) string {
	if v := os.Getenv(k); v != "" {
		return v
	}
	return d
}

func runOne(s Scenario) (res Result) {
	defer func() {
		if r := recover(); r != nil {
			st := string(debug.Stack())
			key := "panic:" + firstDrpcFrame(st)
			if !strings.Contains(st, "storj.io/drpc") {
				key = "harness-panic"
			}
			res = Result{ID: s.ID, Verdict: Violated, Key: key, Detail: fmt.Sprintf("panic: %v\n%s", r, st)}
			if key == "harness-panic" {
				res.Verdict = "harness-failure"
			}
		}
	}()
	res = s.Run()
	res.ID = s.ID
	if res.Verdict == "" {
		res.Verdict = Held
	}
	return res
}

var frameRe = regexp.MustCompile(`storj\.io/drpc[\w./]*\.[\w.()*\[\]{},· ]+`)

func firstDrpcFrame(stack string) string {
	for _, l := range strings.Split(stack, "\n") {
		l = strings.TrimSpace(l)
		if strings.HasPrefix(l, "storj.io/drpc") {
			if p := strings.LastIndexByte(l, '('); p > 0 {
				l = l[:p]
			}
			return l
		}
	}
	return "unknown"
}

// listFingerprint identifies a scenario list by the ids in order.
func listFingerprint(all []Scenario) string {
	h := fnv.New64a()
	for _, s := range all {
		h.Write([]byte(s.ID))
		h.Write([]byte{0})
	}
	return fmt.Sprintf("%d-%x", len(all), h.Sum64())
}

func child(c Check, tier string, seed uint64, shard, out, only string) int {
	parts := strings.Split(shard, "/")
	i, _ := strconv.Atoi(parts[0])
	n, _ := strconv.Atoi(parts[1])
	procs := c.Procs
	if procs == 0 {
		procs = 4
	}
	runtime.GOMAXPROCS(procs)
	all := c.Gen(tier, seed)
	// every process must derive the same scenario list from (tier, seed): if this child's list differs
	// from the parent's, scenarios would be skipped or run twice without anybody noticing
	if want := os.Getenv("VERIF_LIST_FINGERPRINT"); want != "" && want != listFingerprint(all) && !c.UnstableList {
		fmt.Fprintf(os.Stderr, "HARNESS-FAILURE: the scenario list of this shard differs from the parent's (generator is not a function of tier and seed)\n")
		return 3
	}
	f, err := os.OpenFile(out, os.O_CREATE|os.O_WRONLY|os.O_APPEND, 0o644)
	if err != nil {
		fmt.Fprintln(os.Stderr, "cannot open out:", err)
		return 2
	}
	defer f.Close()
	var mu sync.Mutex
	emit := func(r Result) {
		b, _ := json.Marshal(r)
		mu.Lock()
		f.Write(append(b, '\n'))
		mu.Unlock()
	}
	var mine []Scenario
	for k, s := range all {
		if c.UnstableList {
			h := fnv.New64a()
			h.Write([]byte(s.ID))
			if int(h.Sum64()%uint64(n)) != i {
				continue
			}
		} else if k%n != i {
			continue
		}
		if only != "" && !strings.Contains(s.ID, only) {
			continue
		}
		mine = append(mine, s)
	}
	par := c.Parallel
	if par <= 1 {
		for _, s := range mine {
			fmt.Fprintf(os.Stderr, "BEGIN %s\n", s.ID)
			emit(runOne(s))
		}
	} else {
		ch := make(chan Scenario)
		var wg sync.WaitGroup
		for w := 0; w < par; w++ {
			wg.Add(1)
			go func() {
				defer wg.Done()
				for s := range ch {
					emit(runOne(s))
				}
			}()
		}
		for _, s := range mine {
			ch <- s
		}
		close(ch)
		wg.Wait()
	}
	fmt.Fprintf(os.Stderr, "DONE shard %s\n", shard)
	return 0
}

type aggregate struct {
	results      []Result
	crashes      []Result
	harnessFails []string
	races        []raceReport
}

type raceReport struct {
	Key   string
	Block string
	Drpc  bool
}

func parent(c Check, tier string, seed uint64, only string) int {
	start := time.Now()
	// (VERIF_WORKSUFFIX is set by development tools that run several instances of one check at once
	// against scratch worktrees; registered commands never set it)
	runDir := filepath.Join(verifDir(), "runs", c.Property, fmt.Sprintf("%d-%s%s", seed, tier, os.Getenv("VERIF_WORKSUFFIX")))
	os.RemoveAll(runDir)
	os.MkdirAll(runDir, 0o755)

	agg := &aggregate{}
	parentList := c.Gen(tier, seed)
	nsc := len(parentList)
	fingerprint := listFingerprint(parentList)
	{
		shards := c.Shards
		if shards == 0 {
			shards = 14
		}
		if c.InProc {
			shards = 1 // one child process running scenarios on Parallel goroutines
		}
		if shards > nsc && nsc > 0 {
			shards = nsc
		}
		timeout := 6 * time.Minute
		if tier == "thorough" {
			timeout = 60 * time.Minute
		}
		if c.ShardTimeout != nil {
			timeout = c.ShardTimeout(tier)
		}
		var wg sync.WaitGroup
		var mu sync.Mutex
		for i := 0; i < shards; i++ {
			wg.Add(1)
			go func(i int) {
				defer wg.Done()
				outf := filepath.Join(runDir, fmt.Sprintf("shard-%d.jsonl", i))
				logf := filepath.Join(runDir, fmt.Sprintf("shard-%d.log", i))
				lf, _ := os.Create(logf)
				args := []string{"-tier", tier, "-seed", strconv.FormatUint(seed, 10), "-shard", fmt.Sprintf("%d/%d", i, shards), "-out", outf}
				if only != "" {
					args = append(args, "-only", only)
				}
				cmd := exec.Command(os.Args[0], args...)
				cmd.Stdout = lf
				cmd.Stderr = lf
				cmd.Env = append(os.Environ(),
					"GORACE=halt_on_error=0 exitcode=0 log_path="+filepath.Join(runDir, fmt.Sprintf("race-%d", i)),
					"GOTRACEBACK=all", "VERIF_LIST_FINGERPRINT="+fingerprint)
				err := cmd.Start()
				if err != nil {
					mu.Lock()
					agg.harnessFails = append(agg.harnessFails, "start: "+err.Error())
					mu.Unlock()
					return
				}
				done := make(chan error, 1)
				go func() { done <- cmd.Wait() }()
				timedOut := false
				select {
				case err = <-done:
				case <-time.After(timeout):
					timedOut = true
					cmd.Process.Signal(syscall.SIGQUIT)
					select {
					case err = <-done:
					case <-time.After(20 * time.Second):
						cmd.Process.Kill()
						err = <-done
					}
				}
				lf.Close()
				rs := readResults(outf)
				mu.Lock()
				defer mu.Unlock()
				agg.results = append(agg.results, rs...)
				if timedOut {
					last := lastBegin(logf)
					agg.results = append(agg.results, Result{ID: last, Verdict: Inconclusive, Detail: "shard watchdog fired (wall clock) while running this scenario; log " + logf})
					return
				}
				if err != nil {
					logb, _ := os.ReadFile(logf)
					logs := string(logb)
					last := lastBegin(logf)
					if strings.Contains(logs, "storj.io/drpc") && (strings.Contains(logs, "panic:") || strings.Contains(logs, "fatal error:")) {
						key := "crash:" + crashKey(logs)
						agg.crashes = append(agg.crashes, Result{ID: last, Verdict: Violated, Key: key, Detail: tail(logs, 6000)})
					} else {
						agg.harnessFails = append(agg.harnessFails, fmt.Sprintf("shard %d died (%v) in scenario %s; log %s", i, err, last, logf))
					}
				}
			}(i)
		}
		wg.Wait()
		agg.races = collectRaces(runDir)
	}

	return finish(c, tier, seed, agg, runDir, start, nsc)
}

func tail(s string, n int) string {
	if len(s) > n {
		return s[len(s)-n:]
	}
	return s
}

func crashKey(logs string) string {
	// first drpc frame after the panic/fatal line
	idx := strings.Index(logs, "panic:")
	if j := strings.Index(logs, "fatal error:"); j >= 0 && (idx < 0 || j < idx) {
		idx = j
	}
	if idx < 0 {
		idx = 0
	}
	line := logs[idx:]
	if nl := strings.IndexByte(line, '\n'); nl > 0 {
		line = line[:nl]
	}
	if len(line) > 80 {
		line = line[:80]
	}
	return firstDrpcFrame(logs[idx:]) + ":" + strings.TrimSpace(line)
}

func lastBegin(logf string) string {
	f, err := os.Open(logf)
	if err != nil {
		return "?"
	}
	defer f.Close()
	last := "?"
	sc := bufio.NewScanner(f)
	sc.Buffer(make([]byte, 1<<20), 1<<26)
	for sc.Scan() {
		if strings.HasPrefix(sc.Text(), "BEGIN ") {
			last = strings.TrimPrefix(sc.Text(), "BEGIN ")
		}
	}
	return last
}

func readResults(path string) []Result {
	f, err := os.Open(path)
	if err != nil {
		return nil
	}
	defer f.Close()
	var out []Result
	sc := bufio.NewScanner(f)
	sc.Buffer(make([]byte, 1<<20), 1<<28)
	for sc.Scan() {
		var r Result
		if json.Unmarshal(sc.Bytes(), &r) == nil && r.ID != "" {
			out = append(out, r)
		}
	}
	return out
}

var lineNoRe = regexp.MustCompile(`:\d+ \+0x[0-9a-f]+`)

func collectRaces(runDir string) []raceReport {
	files, _ := filepath.Glob(filepath.Join(runDir, "race-*"))
	seen := map[string]bool{}
	var out []raceReport
	for _, f := range files {
		b, err := os.ReadFile(f)
		if err != nil {
			continue
		}
		for _, blk := range strings.Split(string(b), "==================") {
			if !strings.Contains(blk, "WARNING: DATA RACE") {
				continue
			}
			// key: the two innermost non-runtime functions of the two accesses
			var fns []string
			lines := strings.Split(blk, "\n")
			for i, l := range lines {
				if strings.HasPrefix(l, "Read at") || strings.HasPrefix(l, "Write at") || strings.HasPrefix(l, "Previous read at") || strings.HasPrefix(l, "Previous write at") ||
					strings.HasPrefix(l, "Atomic") || strings.HasPrefix(l, "Previous atomic") {
					for j := i + 1; j < len(lines); j++ {
						fl := strings.TrimSpace(lines[j])
						if fl == "" {
							break
						}
						if strings.HasPrefix(fl, "/") || strings.HasPrefix(fl, "runtime.") {
							continue
						}
						if p := strings.LastIndexByte(fl, '('); p > 0 {
							fl = fl[:p]
						}
						fns = append(fns, fl)
						break
					}
				}
			}
			sort.Strings(fns)
			key := strings.Join(fns, "|")
			if seen[key] {
				continue
			}
			seen[key] = true
			drpc := false
			for _, fn := range fns {
				if strings.HasPrefix(fn, "storj.io/drpc") {
					drpc = true
				}
			}
			out = append(out, raceReport{Key: key, Block: blk, Drpc: drpc})
		}
	}
	return out
}

func finish(c Check, tier string, seed uint64, agg *aggregate, runDir string, start time.Time, nsc int) int {
	findings := loadFindings()
	known := func(key string) *finding {
		for i := range findings {
			if findings[i].Property == c.Property && findings[i].Status == "known" && matchKey(findings[i].Key, key) {
				return &findings[i]
			}
		}
		return nil
	}

	// flatten
	var flat []Result
	for _, r := range agg.results {
		more := r.More
		r.More = nil
		flat = append(flat, r)
		for _, m := range more {
			if m.ID == "" {
				m.ID = r.ID
			}
			m.extra = true
			flat = append(flat, m)
		}
	}
	flat = append(flat, agg.crashes...)
	for _, rr := range agg.races {
		if rr.Drpc {
			flat = append(flat, Result{ID: "race-detector", Verdict: Violated, Key: "race:" + rr.Key, Detail: rr.Block})
		} else {
			agg.harnessFails = append(agg.harnessFails, "data race outside storj.io/drpc (harness bug): "+rr.Key)
		}
	}

	evals := 0
	distinct := map[string]bool{}
	var distinctExtra int64
	inconcl := 0
	var events int64
	stats := map[string]int64{}
	sets := map[string]map[string]bool{}
	var samples []interface{}
	violByKey := map[string][]Result{}
	var keys []string
	knownSeen := map[string]*finding{}
	knownCount := map[string]int{}
	for _, r := range flat {
		switch r.Verdict {
		case "harness-failure":
			agg.harnessFails = append(agg.harnessFails, r.ID+": "+tail(r.Detail, 2000))
			continue
		case Inconclusive:
			inconcl++
			evals++
			continue
		case Violated:
			if !r.extra {
				evals++
			}
			if kf := known(r.Key); kf != nil {
				knownSeen[kf.Key] = kf
				knownCount[kf.Key]++
				// a known finding still counts as an explored non-trivial case
				if r.Sig != "" {
					distinct[r.Sig] = true
				}
			} else {
				if _, ok := violByKey[r.Key]; !ok {
					keys = append(keys, r.Key)
				}
				violByKey[r.Key] = append(violByKey[r.Key], r)
			}
		default:
			evals++
			if r.Distinct > 0 {
				distinctExtra += r.Distinct
			} else if r.Nontrivial {
				sig := r.Sig
				if sig == "" {
					sig = r.ID
				}
				distinct[sig] = true
			}
		}
		events += r.Events
		for k, v := range r.Stats {
			stats[k] += v
		}
		for k, vs := range r.Sets {
			if sets[k] == nil {
				sets[k] = map[string]bool{}
			}
			for _, v := range vs {
				sets[k][v] = true
			}
		}
		if r.Sample != nil && len(samples) < 4 {
			samples = append(samples, r.Sample)
		}
	}
	sort.Strings(keys)

	// output lines
	kkeys := make([]string, 0, len(knownSeen))
	for k := range knownSeen {
		kkeys = append(kkeys, k)
	}
	sort.Strings(kkeys)
	for _, k := range kkeys {
		fmt.Printf("KNOWN-FINDING: property=%s %s [key=%s, %d occurrences this run]\n", c.Property, knownSeen[k].What, k, knownCount[k])
	}
	nviol := 0
	for n, k := range keys {
		rs := violByKey[k]
		path := filepath.Join(runDir, fmt.Sprintf("replay-%d.json", n))
		doc := map[string]interface{}{
			"property": c.Property, "tier": tier, "seed": seed, "scenario": rs[0].ID, "key": k,
			"detail": rs[0].Detail, "sample": rs[0].Sample, "occurrences": len(rs),
		}
		var ids []string
		for i, r := range rs {
			if i < 20 {
				ids = append(ids, r.ID)
			}
		}
		doc["scenarios"] = ids
		b, _ := json.MarshalIndent(doc, "", " ")
		os.WriteFile(path, b, 0o644)
		fmt.Printf("VIOLATION property=%s replay=%s\n", c.Property, path)
		fmt.Printf("  key=%s occurrences=%d first=%s\n  %s\n", k, len(rs), rs[0].ID, firstLines(rs[0].Detail, 12))
		nviol += len(rs)
	}

	if len(samples) == 0 {
		for _, r := range flat {
			if len(samples) < 3 {
				samples = append(samples, map[string]interface{}{"scenario": r.ID, "verdict": r.Verdict, "sig": r.Sig})
			}
		}
	}
	cov := map[string]interface{}{
		"evaluations":         evals,
		"distinct_nontrivial": int64(len(distinct)) + distinctExtra,
		"rule":                c.Rule,
		"samples":             samples,
		"inconclusive":        inconcl,
		"scenarios_generated": nsc,
		"events_observed":     events,
		"race_reports":        len(agg.races),
		"known_findings_seen": kkeys,
	}
	if c.Exhaustive != nil && c.Exhaustive(tier) {
		cov["exhaustive"] = true
	}
	if len(stats) > 0 {
		cov["counters"] = stats
	}
	for k, m := range sets {
		cov["distinct_"+k] = len(m)
	}
	if c.Extra != nil {
		for k, v := range c.Extra(tier) {
			cov[k] = v
		}
	}
	ev := map[string]interface{}{
		"property_id": c.Property,
		"tier":        tier,
		"seed":        seed,
		"level":       c.Level,
		"coverage":    cov,
		"assumptions": c.Assumptions,
		"wall_s":      time.Since(start).Seconds(),
		"violations":  nviol,
	}
	os.MkdirAll(filepath.Join(verifDir(), "evidence"), 0o755)
	b, _ := json.MarshalIndent(ev, "", " ")
	evName := c.Property + ".json"
	if sfx := os.Getenv("VERIF_WORKSUFFIX"); sfx != "" {
		// a development run against a scratch worktree: keep it away from the real evidence file
		evName = c.Property + ".dev" + sfx + ".json"
		defer os.Remove(filepath.Join(verifDir(), "evidence", evName))
	}
	os.WriteFile(filepath.Join(verifDir(), "evidence", evName), append(b, '\n'), 0o644)

	fmt.Printf("%s %s seed=%d: %d scenarios, %d distinct non-trivial, %d inconclusive, %d violations (%d keys), %d known-finding keys, %d race reports, %.1fs\n",
		c.Property, tier, seed, evals, int64(len(distinct))+distinctExtra, inconcl, nviol, len(keys), len(kkeys), len(agg.races), time.Since(start).Seconds())

	if len(keys) > 0 {
		return 1
	}
	if len(agg.harnessFails) > 0 {
		for _, h := range agg.harnessFails {
			fmt.Println("HARNESS-FAILURE:", firstLines(h, 30))
		}
		return 2
	}
	if int64(len(distinct))+distinctExtra < int64(c.MinNontrivial) {
		fmt.Printf("INCONCLUSIVE: only %d distinct non-trivial conclusive scenarios (< %d): the run observed too little\n", int64(len(distinct))+distinctExtra, c.MinNontrivial)
		return 2
	}
	return 0
}

func firstLines(s string, n int) string {
	ls := strings.Split(s, "\n")
	if len(ls) > n {
		ls = append(ls[:n], "...")
	}
	return strings.Join(ls, "\n  ")
}

func doReplay(c Check, path string) int {
	b, err := os.ReadFile(path)
	if err != nil {
		fmt.Println("cannot read replay file:", err)
		return 2
	}
	var doc struct {
		Tier     string `json:"tier"`
		Seed     uint64 `json:"seed"`
		Scenario string `json:"scenario"`
		Key      string `json:"key"`
	}
	if err := json.Unmarshal(b, &doc); err != nil {
		fmt.Println("bad replay file:", err)
		return 2
	}
	var sc *Scenario
	for _, s := range c.Gen(doc.Tier, doc.Seed) {
		if s.ID == doc.Scenario {
			s := s
			sc = &s
			break
		}
	}
	if sc == nil {
		fmt.Printf("scenario %q is not a generated scenario (crash/race findings are replayed by rerunning the check with the same seed)\n", doc.Scenario)
		return 2
	}
	const reps = 20
	hit := 0
	var last Result
	for i := 0; i < reps; i++ {
		r := runOne(*sc)
		if r.Verdict == Violated {
			hit++
			last = r
		}
		for _, m := range r.More {
			if m.Verdict == Violated && r.Verdict != Violated {
				hit++
				last = m
				break
			}
		}
	}
	fmt.Printf("replay of %s: violated in %d of %d repetitions\n", doc.Scenario, hit, reps)
	if hit > 0 {
		fmt.Printf("VIOLATION property=%s replay=%s\n  key=%s\n  %s\n", c.Property, path, last.Key, firstLines(last.Detail, 40))
		return 1
	}
	return 0
}
