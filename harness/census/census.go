// Package census takes blocked-goroutine censuses of the running process and
// decides quiescence: a state in which no goroutine other than the sampler can
// make a step. In a closed system (in-memory transports, no pending timers)
// that is a fact about the state, not about elapsed time.
package census

import (
	"bytes"
	"runtime"
	"strconv"
	"strings"
	"sync"
	"sync/atomic"
	"time"
)

// G is one goroutine of a snapshot.
type G struct {
	ID     int64
	State  string   // e.g. "chan receive", "select", "sync.Cond.Wait", "running"
	Frames []string // function names, innermost first
	Raw    string
}

// samplers holds the ids of goroutines currently inside QuiesceOr. Two
// goroutines may sample at once (a scripted 'wait for quiescence' action and
// the scenario's own wait); each treats the other as waiting.
var (
	samplersMu sync.Mutex
	samplers   = map[int64]int{}
)

// exempt lists frame substrings of background goroutines that are outside the
// system under test and never interact with it (e.g. a metrics ticker of a
// vendored dependency that sleeps in a loop); they are treated as waiting.
var exempt []string

// Exempt registers a background goroutine (by a frame substring) as irrelevant to quiescence.
func Exempt(frame string) { exempt = append(exempt, frame) }

// Activity is bumped by instrumented components (transports, directors, op
// registries) whenever something happens. Quiescence requires it to be stable.
var Activity int64

// Bump records activity.
func Bump() { atomic.AddInt64(&Activity, 1) }

var waitStates = []string{
	"chan receive", "chan send", "select", "sync.Cond.Wait", "sync.Mutex.Lock",
	"sync.RWMutex.RLock", "sync.RWMutex.Lock", "sync.WaitGroup.Wait",
	"finalizer wait", "GC worker (idle)", "GC sweep wait", "GC scavenge wait",
	"force gc (idle)", "cleanup wait",
}

// Waiting reports whether a goroutine state is a blocked state that only another
// goroutine's action can end. States the runtime ends by itself ("GC assist
// wait", "sleep", "runnable", "syscall", "IO wait", runtime-internal "semacquire")
// are deliberately not listed.
func Waiting(state string) bool {
	for _, w := range waitStates {
		if strings.HasPrefix(state, w) {
			return true
		}
	}
	return false
}

// waiting is Waiting with the stack in hand. A plain "semacquire" is a blocked state only when the
// semaphore belongs to the sync package; the runtime's own semaphores (a goroutine starting a GC cycle
// or waiting for the world to restart while this very sampler holds it stopped) are released by the
// runtime itself, so such a goroutine is about to run.
func (g G) waiting() bool {
	if strings.HasPrefix(g.State, "semacquire") {
		return g.Has("sync.runtime_Semacquire") || g.Has("sync.(*")
	}
	return Waiting(g.State)
}

// Snapshot returns all goroutines of the process (including the caller, whose
// state is "running").
func Snapshot() []G {
	buf := make([]byte, 1<<16)
	for {
		n := runtime.Stack(buf, true)
		if n < len(buf) {
			buf = buf[:n]
			break
		}
		buf = make([]byte, 2*len(buf))
	}
	return Parse(buf)
}

// Parse parses the output of runtime.Stack(all).
func Parse(buf []byte) []G {
	var out []G
	for _, blk := range bytes.Split(buf, []byte("\n\n")) {
		blk = bytes.TrimSpace(blk)
		if !bytes.HasPrefix(blk, []byte("goroutine ")) {
			continue
		}
		lines := strings.Split(string(blk), "\n")
		hdr := lines[0]
		// goroutine 12 [chan receive, 2 minutes, locked to thread]:
		rest := strings.TrimPrefix(hdr, "goroutine ")
		sp := strings.IndexByte(rest, ' ')
		if sp < 0 {
			continue
		}
		id, _ := strconv.ParseInt(rest[:sp], 10, 64)
		st := rest[sp+1:]
		st = strings.TrimSuffix(strings.TrimPrefix(st, "["), "]:")
		if c := strings.Index(st, ","); c >= 0 {
			st = st[:c]
		}
		g := G{ID: id, State: st, Raw: string(blk)}
		for _, l := range lines[1:] {
			if strings.HasPrefix(l, "\t") || strings.HasPrefix(l, "created by ") {
				continue
			}
			// function line: pkg.Func(args...)
			if p := strings.LastIndexByte(l, '('); p > 0 {
				l = l[:p]
			}
			g.Frames = append(g.Frames, l)
		}
		out = append(out, g)
	}
	return out
}

// Self returns the id of the calling goroutine.
func Self() int64 {
	var b [64]byte
	n := runtime.Stack(b[:], false)
	s := strings.TrimPrefix(string(b[:n]), "goroutine ")
	if sp := strings.IndexByte(s, ' '); sp > 0 {
		id, _ := strconv.ParseInt(s[:sp], 10, 64)
		return id
	}
	return -1
}

// Has reports whether any frame of g contains sub.
func (g G) Has(sub string) bool {
	for _, f := range g.Frames {
		if strings.Contains(f, sub) {
			return true
		}
	}
	return false
}

// Quiesce waits until the process is quiescent: in two consecutive snapshots
// every goroutine other than the caller is in a wait state and the Activity
// counter did not move. It returns false if maxWait (a generous wall-clock
// watchdog) elapsed first; that outcome is inconclusive, never a verdict.
func Quiesce(maxWait time.Duration) (bool, []G) {
	st, snap := QuiesceOr(nil, maxWait)
	return st == "quiescent", snap
}

// QuiesceOr is Quiesce that also returns early ("ready") when ch is closed.
// It returns "ready", "quiescent" or "watchdog".
func QuiesceOr(ch <-chan struct{}, maxWait time.Duration) (string, []G) {
	start := time.Now()
	self := Self()
	samplersMu.Lock()
	samplers[self]++
	samplersMu.Unlock()
	defer func() {
		samplersMu.Lock()
		if samplers[self]--; samplers[self] <= 0 {
			delete(samplers, self)
		}
		samplersMu.Unlock()
	}()
	consecutive := 0
	var lastAct int64 = -1
	pause := 20 * time.Microsecond
	for {
		for i := 0; i < 4; i++ {
			runtime.Gosched()
		}
		if ch != nil {
			select {
			case <-ch:
				return "ready", nil
			default:
			}
		}
		act := atomic.LoadInt64(&Activity)
		snap := Snapshot()
		quiet := true
		samplersMu.Lock()
		others := make(map[int64]bool, len(samplers))
		for id := range samplers {
			others[id] = true
		}
		samplersMu.Unlock()
		delete(others, self)
		if ch != nil && len(others) > 0 {
			// another goroutine is waiting for quiescence as part of the workload
			// and will continue afterwards: the workload has not come to rest
			quiet = false
		}
		for _, g := range snap {
			if g.ID == self || others[g.ID] {
				continue
			}
			if !g.waiting() {
				ex := false
				for _, f := range exempt {
					if g.Has(f) {
						ex = true
					}
				}
				if ex {
					continue
				}
				quiet = false
				break
			}
		}
		if quiet && act == atomic.LoadInt64(&Activity) && (consecutive == 0 || act == lastAct) {
			consecutive++
			lastAct = act
			if consecutive >= 2 {
				if ch != nil {
					select {
					case <-ch:
						return "ready", nil
					default:
					}
				}
				return "quiescent", snap
			}
			continue
		}
		consecutive = 0
		if time.Since(start) > maxWait {
			return "watchdog", snap
		}
		time.Sleep(pause)
		if pause < time.Millisecond {
			pause *= 2
		}
	}
}

// InDRPC returns the goroutines that have a storj.io/drpc frame (library code)
// on their stack.
func InDRPC(snap []G) []G {
	var out []G
	for _, g := range snap {
		if g.Has("storj.io/drpc/") || g.Has("storj.io/drpc.") {
			out = append(out, g)
		}
	}
	return out
}

// IDs returns the set of goroutine ids of a snapshot (a baseline for leak checks).
func IDs(snap []G) map[int64]bool {
	out := make(map[int64]bool, len(snap))
	for _, g := range snap {
		out[g.ID] = true
	}
	return out
}

// NewSince filters out the goroutines that already existed in the baseline.
func NewSince(gs []G, base map[int64]bool) []G {
	var out []G
	for _, g := range gs {
		if !base[g.ID] {
			out = append(out, g)
		}
	}
	return out
}

// Dump renders goroutines compactly for witnesses.
func Dump(gs []G) string {
	var b strings.Builder
	for _, g := range gs {
		b.WriteString("goroutine ")
		b.WriteString(strconv.FormatInt(g.ID, 10))
		b.WriteString(" [")
		b.WriteString(g.State)
		b.WriteString("]: ")
		n := len(g.Frames)
		if n > 8 {
			n = 8
		}
		b.WriteString(strings.Join(g.Frames[:n], " < "))
		b.WriteString("\n")
	}
	return b.String()
}
