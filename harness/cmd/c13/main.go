// C13: no bytes from a peer and no handler error can crash a receive path.
// Monitor: every entry point that consumes remote-controlled data or handler
// results is executed on structured enumerations and seeded hostile inputs; the
// oracle is "returns (no panic, no runtime fatal, checkptr clean) and allocates
// no more than the configured limit allows". Library goroutines (manager reader)
// cannot be wrapped in recover, so live-manager cases run in child processes and
// a dead child with drpc frames on the panic stack is the violation.
package main

import (
	"bytes"
	"context"
	"encoding/base64"
	"encoding/binary"
	"errors"
	"fmt"
	"io"
	"net/http"
	"net/http/httptest"
	"os"
	"runtime"
	"runtime/trace"
	"sort"
	"strings"
	"sync"
	"sync/atomic"
	"syscall"
	"time"

	"storj.io/drpc"
	"storj.io/drpc/drpcerr"
	"storj.io/drpc/drpchttp"
	"storj.io/drpc/drpcmanager"
	"storj.io/drpc/drpcmetadata"
	"storj.io/drpc/drpcstream"
	"storj.io/drpc/drpcwire"

	"verifharness/census"
	"verifharness/payload"
	"verifharness/refwire"
	"verifharness/rig"
	"verifharness/runner"
	"verifharness/simnet"
	"verifharness/wiregen"
)

type acc struct {
	id     string
	n      int64
	viol   []runner.Result
	sample interface{}
	stats  map[string]int64
	spun   bool // a call of this batch never returned: its goroutine is still burning CPU, end the batch
}

func (a *acc) fail(key, format string, args ...interface{}) {
	if len(a.viol) < 6 {
		a.viol = append(a.viol, runner.Violation(a.id, key, fmt.Sprintf(format, args...)))
	}
}

func (a *acc) result() runner.Result {
	r := runner.Result{ID: a.id, Verdict: runner.Held, Nontrivial: true, Sig: a.id, Events: a.n, Distinct: a.n, Stats: a.stats, Sample: a.sample}
	if len(a.viol) > 0 {
		r = a.viol[0]
		r.Events = a.n
		r.More = a.viol[1:]
	}
	return r
}

// guard runs f, converting a panic into a violation. The input is written to
// disk first so that a process-fatal error (checkptr, runtime throw) leaves it.
func (a *acc) guard(key string, input func() string, f func()) (ok bool) {
	a.n++
	defer func() {
		if r := recover(); r != nil {
			buf := make([]byte, 4096)
			buf = buf[:runtime.Stack(buf, false)]
			k := key + "-panic"
			if !strings.Contains(string(buf), "storj.io/drpc") {
				k = "harness-panic"
			}
			a.fail(k, "%s panicked on input %s: %v\n%s", key, input(), r, buf)
			ok = false
		}
	}()
	f()
	return true
}

// guardBounded is guard for entry points that walk data structures the input controls (error
// chains): besides panics it notices a call that never returns. The call runs on its own OS
// thread and the verdict is taken on the CPU time that thread has consumed (a measure of the work
// done, not of how loaded the machine is): calls that normally take microseconds and have burnt
// spinLimit of CPU without returning are reported. The spinning goroutine cannot be stopped; it is
// left behind until the child process of this batch ends.
const spinLimit = 10 * time.Second

func threadCPU(tid int) time.Duration {
	b, err := os.ReadFile(fmt.Sprintf("/proc/self/task/%d/stat", tid))
	if err != nil {
		return 0
	}
	// fields after the command name, which is in parentheses and may contain spaces
	rest := string(b[bytes.LastIndexByte(b, ')')+1:])
	f := strings.Fields(rest)
	if len(f) < 13 {
		return 0
	}
	var ut, st int64
	fmt.Sscan(f[11], &ut)
	fmt.Sscan(f[12], &st)
	return time.Duration(ut+st) * (time.Second / 100) // USER_HZ is 100 on Linux
}

func (a *acc) guardBounded(key string, input func() string, f func()) (ok bool) {
	done := make(chan bool, 1)
	tidc := make(chan int, 1)
	go func() {
		runtime.LockOSThread() // not unlocked on purpose if the call never returns; a thread that returns is reused
		tidc <- syscall.Gettid()
		r := a.guard(key, input, f)
		runtime.UnlockOSThread()
		done <- r
	}()
	tid := <-tidc
	start := time.Now()
	for {
		select {
		case r := <-done:
			return r
		case <-time.After(100 * time.Millisecond):
		}
		if cpu := threadCPU(tid); cpu > spinLimit {
			a.spun = true
			a.fail(key+"-does-not-return", "%s has consumed %v of CPU on input %s without returning (calls on ordinary inputs take microseconds): it does not return", key, cpu, input())
			return false
		}
		if time.Since(start) > 10*time.Minute {
			a.fail("harness-watchdog", "%s neither returned nor consumed CPU for 10 minutes on input %s", key, input())
			return false
		}
	}
}

var lastInputFile = os.Getenv("VERIF_DIR") + "/.build/c13-last-input"

func allocDelta(f func()) uint64 {
	var m1, m2 runtime.MemStats
	runtime.ReadMemStats(&m1)
	f()
	runtime.ReadMemStats(&m2)
	return m2.TotalAlloc - m1.TotalAlloc
}

func hexs(b []byte) string {
	if len(b) > 64 {
		return fmt.Sprintf("%x...(%d bytes)", b[:64], len(b))
	}
	return fmt.Sprintf("%x", b)
}

// ---- hostile error values ----

type nilUnwrap struct{ msg string }

func (e *nilUnwrap) Error() string { return e.msg }
func (e *nilUnwrap) Unwrap() error { return nil }

type nilCause struct{ msg string }

func (e *nilCause) Error() string { return e.msg }
func (e *nilCause) Cause() error  { return nil }

type wrapU struct {
	msg string
	in  error
}

func (e *wrapU) Error() string { return e.msg }
func (e *wrapU) Unwrap() error { return e.in }

type wrapC struct {
	msg string
	in  error
}

func (e *wrapC) Error() string { return e.msg }
func (e *wrapC) Cause() error  { return e.in }

type codeInt struct{ error }

func (codeInt) Code() int { return 7 }

type codeArg struct{ error }

func (codeArg) Code(x int) string { return "x" }

type codeTwo struct{ error }

func (codeTwo) Code() (string, error) { return "x", nil }

type codeStr struct {
	error
	c string
}

func (c codeStr) Code() string { return c.c }

type codeU64 struct {
	error
	c uint64
}

func (c codeU64) Code() uint64 { return c.c }

type valueErr struct{ s string }

func (v valueErr) Error() string { return v.s }
func (v valueErr) Unwrap() error { return v } // self cycle by value

type sliceErr []error // uncomparable dynamic type

func (s sliceErr) Error() string { return "slice" }
func (s sliceErr) Unwrap() error {
	if len(s) > 0 {
		return s[0]
	}
	return nil
}

// multiErr is an error with a list of causes (the errors.Join shape: Unwrap() []error); the list may
// be empty, nil, or hold nils.
type multiErr struct {
	msg  string
	list []error
}

func (m *multiErr) Error() string   { return m.msg }
func (m *multiErr) Unwrap() []error { return m.list }

// detailErr is a value-type error whose interface field can hold something that does not support ==
// (a slice): comparing two of them with == compiles and panics at run time.
type detailErr struct {
	Details interface{}
	Inner   error
}

func (d detailErr) Error() string { return "detail" }
func (d detailErr) Unwrap() error { return d.Inner }

func hostileErrors() map[string]error {
	base := errors.New("base")
	out := map[string]error{
		"plain":            base,
		"nil-unwrap":       &nilUnwrap{"nu"},
		"nil-cause":        &nilCause{"nc"},
		"wrap-nil-unwrap":  &wrapU{"w", &nilUnwrap{"nu"}},
		"cause-nil-unwrap": &wrapC{"w", &nilUnwrap{"nu"}},
		"fmt-wrap-nilU":    fmt.Errorf("x: %w", &nilUnwrap{"nu"}),
		"code-int":         codeInt{base},
		"code-arg":         codeArg{base},
		"code-two":         codeTwo{base},
		"code-str":         codeStr{base, "not_found"},
		"code-str-empty":   codeStr{base, ""},
		"code-str-weird":   codeStr{base, "\r\nx: y\x00\xff"},
		"code-u64-max":     codeU64{base, ^uint64(0)},
		"code-u64-zero":    codeU64{base, 0},
		"withcode":         drpcerr.WithCode(base, 5),
		"value-selfcycle":  valueErr{"v"},
		"slice-err":        sliceErr{base},
		"slice-err-empty":  sliceErr{},
		"wrapped-slice":    &wrapU{"w", sliceErr{sliceErr{}}},
		"joined":           errors.Join(base, &nilUnwrap{"nu"}),
		"empty-msg":        errors.New(""),
		"crlf-msg":         errors.New("a\r\ngrpc-status: 0\r\n\r\n"),
		"binary-msg":       errors.New(string([]byte{0, 1, 2, 0xff, 0xfe, '"', '\\'})),
	}
	// long error texts of every byte class: only continuation bytes, only lead bytes, four-byte characters
	// ending at and across the powers of two, invalid bytes
	for _, n := range []int{255, 256, 257, 1023, 1024, 1025, 1026, 4095, 4097, 65537} {
		out[fmt.Sprintf("long-continuation-bytes-%d", n)] = errors.New(strings.Repeat("\x80", n))
		out[fmt.Sprintf("long-bf-bytes-%d", n)] = errors.New(strings.Repeat("\xbf", n))
		out[fmt.Sprintf("long-lead-bytes-%d", n)] = errors.New(strings.Repeat("\xf0", n))
		out[fmt.Sprintf("long-ff-bytes-%d", n)] = errors.New(strings.Repeat("\xff", n))
		out[fmt.Sprintf("long-four-byte-characters-%d", n)] = errors.New(strings.Repeat("\U0001F600", n/4+1)[:n])
		out[fmt.Sprintf("long-ascii-then-continuation-%d", n)] = errors.New("a" + strings.Repeat("\x80", n))
		out[fmt.Sprintf("long-ascii-%d", n)] = errors.New(strings.Repeat("e", n))
	}
	out["multi-empty-list"] = &multiErr{"quota exceeded", []error{}}
	out["multi-nil-list"] = &multiErr{"validation", nil}
	out["multi-list-of-nils"] = &multiErr{"m", []error{nil, nil}}
	out["multi-coded-second"] = &multiErr{"m", []error{base, drpcerr.WithCode(base, 9)}}
	out["multi-in-multi-empty"] = &multiErr{"m", []error{&multiErr{"inner", nil}}}
	out["wrapped-multi-empty"] = fmt.Errorf("ctx: %w", &multiErr{"m", []error{}})
	out["coded-multi-empty"] = drpcerr.WithCode(&multiErr{"m", nil}, 3)
	out["join-of-nothing-wrapped"] = &wrapU{"w", &multiErr{"m", []error{}}}
	out["value-with-slice-in-interface-field-x2"] = detailErr{Details: []string{"a"}, Inner: detailErr{Details: []string{"a"}, Inner: base}}
	out["value-with-map-in-interface-field-x3"] = detailErr{Details: map[string]int{"a": 1}, Inner: detailErr{Details: map[string]int{"a": 1}, Inner: detailErr{Details: map[string]int{"a": 1}}}}
	out["value-with-func-in-interface-field-coded"] = detailErr{Details: func() {}, Inner: detailErr{Details: func() {}, Inner: drpcerr.WithCode(base, 4)}}
	// cycles of length 1..3
	c1 := &wrapU{msg: "c1"}
	c1.in = c1
	out["cycle1"] = c1
	a, b := &wrapU{msg: "a"}, &wrapC{msg: "b"}
	a.in, b.in = b, a
	out["cycle2"] = a
	x, y, z := &wrapU{msg: "x"}, &wrapU{msg: "y"}, &wrapC{msg: "z"}
	x.in, y.in, z.in = y, z, x
	out["cycle3"] = x
	// deep chains with a code at the bottom
	for _, depth := range []int{1, 50, 99, 100, 101, 500} {
		var e error = codeU64{base, 9}
		for i := 0; i < depth; i++ {
			if i%2 == 0 {
				e = &wrapU{"d", e}
			} else {
				e = &wrapC{"d", e}
			}
		}
		out[fmt.Sprintf("deep%d", depth)] = e
		var s error = codeStr{base, "aborted"}
		for i := 0; i < depth; i++ {
			s = &wrapU{"d", s}
		}
		out[fmt.Sprintf("deepstr%d", depth)] = s
	}
	return out
}

// ---- scripted handlers ----

type scriptHandler struct {
	reads int
	sends [][]byte
	ret   error
}

func (h scriptHandler) HandleRPC(stream drpc.Stream, rpc string) error {
	for i := 0; i < h.reads; i++ {
		var m []byte
		if err := stream.MsgRecv(&m, payload.Enc{}); err != nil {
			return err
		}
	}
	for _, s := range h.sends {
		s := s
		if err := stream.MsgSend(&s, payload.Enc{}); err != nil {
			return err
		}
	}
	return h.ret
}

var contentTypes = []string{"application/proto", "application/json", "application/grpc-web+proto", "application/grpc-web+json",
	"application/grpc-web-text+proto", "application/grpc-web-text+json", "text/plain", ""}

// requestTargets: what a peer may put in the request line. Every fourth request uses one of the odd ones.
var requestTargets = []string{"http://example.com", "http://example.com/", "/", "//", "/svc/Method/", "/a/b/c/d", "http://example.com?x=1", "/%2F%00", "*"}

func serve(h drpc.Handler, ct string, body io.Reader, hdr []string) *httptest.ResponseRecorder {
	target := "/svc/Method"
	if n := atomic.AddUint64(&serveTargets, 1); n%4 == 0 {
		target = requestTargets[(n/4)%uint64(len(requestTargets))]
	}
	req := httptest.NewRequest("POST", target, body)
	if target == "*" {
		req.URL.Path = "" // what the server hands over for "OPTIONS *"-style targets: no path at all
	}
	if ct != "" {
		req.Header.Set("Content-Type", ct)
	}
	if hdr != nil {
		req.Header["X-Drpc-Metadata"] = hdr
	}
	rec := httptest.NewRecorder()
	// every other call the gateway gets a ResponseWriter that is only that (no Flush, as behind
	// http.TimeoutHandler or a middleware that wraps the writer in a struct of its own)
	if atomic.AddUint64(&serveCalls, 1)%2 == 0 {
		drpchttp.New(h).ServeHTTP(plainWriter{rec}, req)
		return rec
	}
	drpchttp.New(h).ServeHTTP(rec, req)
	return rec
}

var serveCalls, serveTargets uint64

// plainWriter hides every optional interface of the recorder.
type plainWriter struct{ rec *httptest.ResponseRecorder }

func (p plainWriter) Header() http.Header         { return p.rec.Header() }
func (p plainWriter) Write(b []byte) (int, error) { return p.rec.Write(b) }
func (p plainWriter) WriteHeader(code int)        { p.rec.WriteHeader(code) }

// sizedReader yields n bytes of a repeating pattern without allocating them.
type sizedReader struct {
	n    int64
	head []byte
}

func (s *sizedReader) Read(p []byte) (int, error) {
	if len(s.head) > 0 {
		n := copy(p, s.head)
		s.head = s.head[n:]
		return n, nil
	}
	if s.n <= 0 {
		return 0, io.EOF
	}
	n := int64(len(p))
	if n > s.n {
		n = s.n
	}
	for i := int64(0); i < n; i++ {
		p[i] = 'A'
	}
	s.n -= n
	return int(n), nil
}

func gen(tier string, seed uint64) []runner.Scenario {
	var out []runner.Scenario
	add := func(id string, f func(a *acc)) {
		out = append(out, runner.Scenario{ID: id, Run: func() runner.Result {
			a := &acc{id: id, stats: map[string]int64{}}
			f(a)
			return a.result()
		}})
	}
	thorough := tier == "thorough"
	scale := 1
	if thorough {
		scale = 20
	}

	// A. frame and varint parsers
	for part := 0; part < 4; part++ {
		part := part
		add(fmt.Sprintf("wire/parse/%d", part), func(a *acc) {
			r := payload.SplitMix{S: payload.Hash(seed, 0x13A, uint64(part))}
			if part == 0 {
				for x := 0; x < 256; x++ {
					for y := 0; y < 256; y++ {
						b := []byte{byte(x), byte(y)}
						a.guard("ParseFrame", func() string { return hexs(b) }, func() { drpcwire.ParseFrame(b) })
						a.guard("ReadVarint", func() string { return hexs(b) }, func() { drpcwire.ReadVarint(b) })
					}
				}
			}
			for i := 0; i < 50000*scale; i++ {
				b := make([]byte, r.Intn(40))
				for j := range b {
					b[j] = byte(r.Next())
					if r.Intn(3) == 0 {
						b[j] |= 0x80
					}
					if r.Intn(5) == 0 {
						b[j] = 0xff
					}
				}
				a.guard("ParseFrame", func() string { return hexs(b) }, func() {
					rem, fr, ok, err := drpcwire.ParseFrame(b)
					if ok && err == nil && len(rem)+len(fr.Data) > len(b) {
						a.fail("ParseFrame-oob", "ParseFrame(%s) returned more bytes than the input holds", hexs(b))
					}
				})
				a.guard("ReadVarint", func() string { return hexs(b) }, func() { drpcwire.ReadVarint(b) })
			}
		})
	}

	// B. packet reader over hostile streams
	for part := 0; part < 8; part++ {
		part := part
		add(fmt.Sprintf("wire/reader/%d", part), func(a *acc) {
			maxes := []int{1, 29, 100, 4096, 65536}
			for i := 0; i < 150*scale; i++ {
				r := &payload.SplitMix{S: payload.Hash(seed, 0x13B, uint64(part), uint64(i))}
				max := maxes[i%len(maxes)]
				st := wiregen.GenStream(r, max)
				var cuts []int
				if i%2 == 0 {
					for p := 0; p < len(st.Data); {
						p += 1 + r.Intn(500)
						cuts = append(cuts, p)
					}
				}
				var m1, m2 runtime.MemStats
				runtime.ReadMemStats(&m1)
				a.guard("Reader.ReadPacket", func() string { return fmt.Sprintf("max=%d stream=[%s] hex=%s", max, st.Desc, hexs(st.Data)) }, func() {
					sr := &wiregen.Scripted{Data: st.Data, Cuts: cuts, Final: io.EOF}
					rd := drpcwire.NewReaderWithOptions(sr, drpcwire.ReaderOptions{MaximumBufferSize: max})
					var buf []byte
					for k := 0; k < 100000; k++ {
						pkt, err := rd.ReadPacketUsing(buf[:0])
						if c, _, _ := rd.VerifBufCap(); c > 4*max+64*1024 {
							a.fail("reader-buffer-bound", "max=%d stream=[%s]: buffer capacity %d", max, st.Desc, c)
						}
						if err != nil {
							return
						}
						if len(pkt.Data) > max {
							a.fail("reader-oversize-packet", "max=%d stream=[%s]: packet of %d bytes delivered", max, st.Desc, len(pkt.Data))
						}
						buf = pkt.Data
					}
					a.fail("reader-runaway", "max=%d stream=[%s]: 100000 packets from %d bytes", max, st.Desc, len(st.Data))
				})
				// everything the reader allocated for this stream (read buffer and the packet under
				// assembly, including append growth) stays within a small multiple of the limit
				runtime.ReadMemStats(&m2)
				if allocated, limit := m2.TotalAlloc-m1.TotalAlloc, uint64(12*max+256*1024); allocated > limit {
					a.fail("reader-alloc-bound", "max=%d stream=[%s] (%d bytes): the reader allocated %d bytes (> %d)", max, st.Desc, len(st.Data), allocated, limit)
				}
			}
		})
	}

	// B2. a single frame that announces more than the limit and then trickles in: the reader gives up
	// on it long before the announced amount has arrived, having buffered and pulled a bounded amount
	add("wire/reader/announced-and-trickled", func(a *acc) {
		for _, max := range []int{1, 1000, 4096, 65536} {
			for _, announced := range []uint64{uint64(max) + 1, uint64(10 * max), 1 << 20, 1 << 30, 1<<63 - 1} {
				for _, piece := range []int{7, 64, 1024, 65536} {
					supplied := 4 << 20
					if announced < uint64(supplied) {
						supplied = int(announced)
					}
					hdr := []byte{byte(drpcwire.KindMessage)<<1 | 1}
					hdr = refwire.PutUvarint(hdr, 1)
					hdr = refwire.PutUvarint(hdr, 1)
					hdr = refwire.PutUvarint(hdr, announced)
					data := append(hdr, make([]byte, supplied)...)
					var cuts []int
					for p := 1; p < len(data); p += piece {
						cuts = append(cuts, p)
					}
					a.n++
					desc := fmt.Sprintf("max=%d: one frame announcing %d bytes, %d bytes of it supplied in pieces of %d", max, announced, supplied, piece)
					var m1, m2 runtime.MemStats
					runtime.ReadMemStats(&m1)
					a.guard("Reader.ReadPacket(trickled)", func() string { return desc }, func() {
						sr := &wiregen.Scripted{Data: data, Cuts: cuts, Final: io.EOF}
						rd := drpcwire.NewReaderWithOptions(sr, drpcwire.ReaderOptions{MaximumBufferSize: max})
						_, err := rd.ReadPacketUsing(nil)
						if err == nil {
							a.fail("reader-oversize-packet", "%s: a packet was delivered", desc)
						}
						if c, _, _ := rd.VerifBufCap(); c > 4*max+64*1024 {
							a.fail("reader-buffer-bound", "%s: buffer capacity %d", desc, c)
						}
						if sr.Pulled > 8*max+128*1024 && sr.Pulled > len(data)/2 {
							a.fail("reader-pulls-oversized-frame", "%s: the reader took %d bytes from the transport before it gave up (%v)", desc, sr.Pulled, err)
						}
					})
					runtime.ReadMemStats(&m2)
					if allocated, limit := m2.TotalAlloc-m1.TotalAlloc, uint64(12*max+512*1024); allocated > limit {
						a.fail("reader-alloc-bound", "%s: the reader allocated %d bytes (> %d)", desc, allocated, limit)
					}
				}
			}
		}
	})

	// C. error decoder
	add("wire/unmarshal-error", func(a *acc) {
		r := payload.SplitMix{S: payload.Hash(seed, 0x13C)}
		try := func(b []byte) {
			a.guard("UnmarshalError", func() string { return hexs(b) }, func() {
				err := drpcwire.UnmarshalError(b)
				if err == nil {
					a.fail("UnmarshalError-nil", "UnmarshalError(%s) returned nil", hexs(b))
					return
				}
				_ = err.Error()
				code := drpcerr.Code(err)
				if len(b) >= 8 && code != binary.BigEndian.Uint64(b[:8]) {
					a.fail("UnmarshalError-code", "UnmarshalError(%s): code %d", hexs(b), code)
				}
			})
		}
		try(nil)
		for x := 0; x < 256; x++ {
			try([]byte{byte(x)})
			for y := 0; y < 256; y += 5 {
				try([]byte{byte(x), byte(y)})
			}
		}
		for i := 0; i < 20000*scale; i++ {
			b := make([]byte, r.Intn(64))
			for j := range b {
				b[j] = byte(r.Next())
			}
			try(b)
		}
	})

	// D. metadata decoder
	for part := 0; part < 4; part++ {
		part := part
		add(fmt.Sprintf("metadata/decode/%d", part), func(a *acc) {
			r := payload.SplitMix{S: payload.Hash(seed, 0x13D, uint64(part))}
			try := func(b []byte) {
				a.guard("metadata.Decode", func() string { return hexs(b) }, func() {
					m, err := drpcmetadata.Decode(b)
					if err == nil {
						tot := 0
						for k, v := range m {
							tot += len(k) + len(v)
						}
						if tot > len(b) {
							a.fail("metadata-oob", "Decode(%s) returned %d bytes of strings from %d input bytes", hexs(b), tot, len(b))
						}
					}
				})
			}
			if part == 0 {
				try(nil)
				for x := 0; x < 256; x++ {
					try([]byte{byte(x)})
					for y := 0; y < 256; y++ {
						try([]byte{byte(x), byte(y)})
					}
				}
				// all 3..6 byte strings over the interesting alphabet
				alpha := []byte{0, 1, 2, 3, 10, 18, 0x7f, 0x80, 0xff}
				var rec func(b []byte, l int)
				rec = func(b []byte, l int) {
					if len(b) == l {
						try(b)
						return
					}
					for _, c := range alpha {
						rec(append(b, c), l)
					}
				}
				for l := 3; l <= 6; l++ {
					rec(nil, l)
				}
			}
			for i := 0; i < 20000*scale; i++ {
				m := map[string]string{}
				for k := 0; k < r.Intn(4); k++ {
					kk := make([]byte, r.Intn(6))
					vv := make([]byte, r.Intn(200))
					for j := range kk {
						kk[j] = byte(r.Next())
					}
					for j := range vv {
						vv[j] = byte(r.Next())
					}
					m[string(kk)] = string(vv)
				}
				b, _ := drpcmetadata.Encode(nil, m)
				for k := 0; k < 1+r.Intn(3) && len(b) > 0; k++ {
					switch r.Intn(5) {
					case 0:
						b[r.Intn(len(b))] ^= byte(1 << uint(r.Intn(8)))
					case 1:
						b = b[:r.Intn(len(b)+1)]
					case 2:
						p := r.Intn(len(b))
						b = append(b[:p:p], append([]byte{byte(r.Next())}, b[p:]...)...)
					case 3:
						b[r.Intn(len(b))] = 0xff
					case 4:
						p := r.Intn(len(b))
						b = append(b[:p:p], append(bytes.Repeat([]byte{0x80}, r.Intn(11)), b[p:]...)...)
					}
				}
				try(b)
			}
		})
	}

	// E. gateway metadata headers
	for part := 0; part < 5; part++ {
		part := part
		add(fmt.Sprintf("http/header/%d", part), func(a *acc) {
			alpha := []byte{'%', '=', 'a', '0', 'G'}
			h := scriptHandler{reads: 0, sends: [][]byte{[]byte("x")}}
			var rec func(b []byte, l int)
			rec = func(b []byte, l int) {
				if len(b) == l {
					s := string(b)
					a.guard("drpchttp.Context", func() string { return fmt.Sprintf("%q", s) }, func() {
						req := httptest.NewRequest("POST", "/x", nil)
						req.Header["X-Drpc-Metadata"] = []string{s}
						drpchttp.Context(req)
					})
					return
				}
				for _, c := range alpha {
					rec(append(b, c), l)
				}
			}
			// first byte fixed by the part: every string over the alphabet up to length 6 (7 thorough)
			maxl := 6
			if thorough {
				maxl = 8
			}
			if part == 0 {
				rec(nil, 0)
			}
			for l := 1; l <= maxl; l++ {
				rec([]byte{alpha[part]}, l)
			}
			// through the whole gateway, several header values
			r := payload.SplitMix{S: payload.Hash(seed, 0x13E, uint64(part))}
			for i := 0; i < 2000*scale; i++ {
				var hs []string
				for k := 0; k < 1+r.Intn(3); k++ {
					b := make([]byte, r.Intn(12))
					for j := range b {
						switch r.Intn(4) {
						case 0:
							b[j] = '%'
						case 1:
							b[j] = "0123456789abcdefABCDEFgG=%"[r.Intn(26)]
						default:
							b[j] = byte(r.Next())
						}
					}
					hs = append(hs, string(b))
				}
				ct := contentTypes[r.Intn(len(contentTypes))]
				a.guard("ServeHTTP(headers)", func() string { return fmt.Sprintf("ct=%q headers=%q", ct, hs) }, func() {
					serve(h, ct, bytes.NewReader(nil), hs)
				})
			}
		})
	}

	// E2. many metadata header lines: what the gateway allocates for them stays proportional to their size
	add("http/header/many", func(a *acc) {
		h := scriptHandler{reads: 0, sends: [][]byte{[]byte("x")}}
		for _, n := range []int{10, 100, 500, 2000} {
			for _, same := range []bool{false, true} {
				var hs []string
				total := 0
				for i := 0; i < n; i++ {
					k := fmt.Sprintf("key-%d", i)
					if same {
						k = "key"
					}
					e := k + "=value%20" + fmt.Sprint(i)
					hs = append(hs, e)
					total += len(e)
				}
				limit := uint64(200*total + 1<<20)
				var d uint64
				ok := a.guard("ServeHTTP(many headers)", func() string { return fmt.Sprintf("%d metadata header lines", n) }, func() {
					d = allocDelta(func() { serve(h, "application/proto", bytes.NewReader(nil), hs) })
				})
				if ok && d > limit {
					a.fail("http-header-alloc-bound", "%d X-Drpc-Metadata lines (%d bytes, distinct keys=%v): the request allocated %d bytes (> %d = 200 x the header bytes + 1 MiB)", n, total, !same, d, limit)
				}
			}
		}
	})

	// F. gateway bodies
	for ci, ct := range contentTypes {
		ct := ct
		add(fmt.Sprintf("http/body/%d", ci), func(a *acc) {
			r := payload.SplitMix{S: payload.Hash(seed, 0x13F, uint64(ci))}
			h := scriptHandler{reads: 2, sends: [][]byte{[]byte("r1"), []byte("r2")}}
			try := func(desc string, body io.Reader, limit uint64) {
				var d uint64
				ok := a.guard("ServeHTTP(body)", func() string { return fmt.Sprintf("ct=%q body=%s", ct, desc) }, func() {
					d = allocDelta(func() { serve(h, ct, body, nil) })
				})
				if ok && limit > 0 && d > limit {
					a.fail("http-alloc-bound", "ct=%q body=%s allocated %d bytes (> %d)", ct, desc, d, limit)
				}
			}
			frame := func(flag byte, claim uint32, actual []byte) []byte {
				b := []byte{flag, 0, 0, 0, 0}
				binary.BigEndian.PutUint32(b[1:], claim)
				return append(b, actual...)
			}
			enc := func(b []byte) []byte {
				if strings.Contains(ct, "text") {
					return []byte(base64.StdEncoding.EncodeToString(b))
				}
				return b
			}
			const lim = 4 << 20
			bound := uint64(8*(lim) + 1<<20)
			try("empty", bytes.NewReader(nil), bound)
			for _, claim := range []uint32{0, 1, 5, 100, lim - 1, lim, lim + 1, 1 << 31, 1<<32 - 1} {
				for _, actual := range []int{0, 1, 5, 100} {
					b := enc(frame(byte(r.Intn(256)), claim, bytes.Repeat([]byte{'x'}, actual)))
					try(fmt.Sprintf("frame(claim=%d,actual=%d)", claim, actual), bytes.NewReader(b), bound)
				}
			}
			for _, n := range []int64{lim - 1, lim, lim + 1, lim + (1 << 20)} {
				try(fmt.Sprintf("raw %d bytes", n), &sizedReader{n: n}, bound)
				hd := enc(frame(0, uint32(n), nil))
				if !strings.Contains(ct, "text") {
					try(fmt.Sprintf("framed %d bytes", n), &sizedReader{n: n, head: hd}, bound)
				}
			}
			for i := 0; i < 1500*scale; i++ {
				b := make([]byte, r.Intn(60))
				for j := range b {
					switch r.Intn(3) {
					case 0:
						b[j] = "ABCDEFGHIJKLMNOPQRSTUVWXYZabcdefghijklmnopqrstuvwxyz0123456789+/=\n "[r.Intn(67)]
					case 1:
						b[j] = byte(r.Intn(3))
					default:
						b[j] = byte(r.Next())
					}
				}
				try("seeded "+hexs(b), bytes.NewReader(b), bound)
			}
		})
	}

	// G. hostile handler errors
	add("errors/hostile", func(a *acc) {
		for name, e := range hostileErrors() {
			name, e := name, e
			if a.spun {
				break
			}
			a.guardBounded("drpcerr.Code", func() string { return name }, func() { drpcerr.Code(e) })
			a.guardBounded("drpcwire.MarshalError", func() string { return name }, func() {
				b := drpcwire.MarshalError(e)
				drpcwire.UnmarshalError(b)
			})
			for _, ct := range contentTypes {
				ct := ct
				if a.spun {
					break
				}
				a.guardBounded("ServeHTTP(handler error)", func() string { return fmt.Sprintf("error=%s ct=%q", name, ct) }, func() {
					serve(scriptHandler{ret: e}, ct, bytes.NewReader(nil), nil)
				})
			}
		}
		a.sample = map[string]interface{}{"batch": a.id, "errors": len(hostileErrors()), "content_types": contentTypes}
	})
	// hostile errors through the real server path (SendError on a live connection)
	i := 0
	hostile := hostileErrors()
	var hostileNames []string
	for name := range hostile {
		hostileNames = append(hostileNames, name)
	}
	sort.Strings(hostileNames) // every process must derive the same scenario list: no map order in it
	for _, name := range hostileNames {
		name, e := name, hostile[name]
		if !thorough && i%3 != int(seed%3) && !strings.Contains(name, "nil") && !strings.Contains(name, "cycle") {
			i++
			continue
		}
		i++
		add("errors/live/"+name, func(a *acc) {
			a.n++
			r := rig.New(rig.Config{Net: simnet.Opts{Cap: -1}}, scriptHandler{reads: 1, ret: e})
			defer r.Teardown()
			in := []byte("req")
			var outb []byte
			op := rig.Go("invoke", func() (interface{}, error) {
				return nil, r.Conn.Invoke(context.Background(), "/x", payload.Enc{}, &in, &outb)
			})
			if !op.Wait() {
				a.fail("hostile-error-hang", "Invoke did not return after the handler returned error %s", name)
			} else if op.Err == nil {
				a.fail("hostile-error-lost", "handler returned error %s but Invoke succeeded", name)
			}
		})
	}

	// H. packet dispatch on a stream
	add("stream/handlepacket", func(a *acc) {
		ids := []uint64{0, 1, 2, 5, 6, 1 << 63, ^uint64(0)}
		datas := [][]byte{nil, {0}, make([]byte, 7), make([]byte, 8), make([]byte, 9), bytes.Repeat([]byte{0xff}, 300)}
		for kind := 0; kind < 64; kind++ {
			if kind == int(drpcwire.KindMessage) {
				continue // needs a consumer; covered by the live cases
			}
			for _, ctl := range []bool{false, true} {
				for _, sid := range ids {
					for _, d := range datas {
						pkt := drpcwire.Packet{Data: d, ID: drpcwire.ID{Stream: sid, Message: 3}, Kind: drpcwire.Kind(kind), Control: ctl}
						a.guard("Stream.HandlePacket", func() string { return fmt.Sprintf("kind=%d control=%v stream=%d data=%s", kind, ctl, sid, hexs(d)) }, func() {
							var sink bytes.Buffer
							st := drpcstream.New(context.Background(), 5, drpcwire.NewWriter(&sink, 0))
							st.HandlePacket(pkt)
							st.HandlePacket(pkt)
							st.Close()
						})
					}
				}
			}
		}
	})

	// H1b. the same dispatch while the process is being traced (runtime/trace, as /debug/pprof/trace
	// switches on): the stream takes other paths then, for streams made before and after the trace began
	add("stream/handlepacket-while-tracing", func(a *acc) {
		datas := [][]byte{nil, make([]byte, 8), bytes.Repeat([]byte{0xff}, 30)}
		for _, startFirst := range []bool{true, false} {
			for kind := 0; kind < 64; kind++ {
				if kind == int(drpcwire.KindMessage) || (kind > 9 && kind < 62) {
					continue
				}
				for _, ctl := range []bool{false, true} {
					for _, d := range datas {
						pkt := drpcwire.Packet{Data: d, ID: drpcwire.ID{Stream: 5, Message: 3}, Kind: drpcwire.Kind(kind), Control: ctl}
						a.guard("Stream.HandlePacket(traced)", func() string {
							return fmt.Sprintf("kind=%d control=%v data=%s trace-started-before-the-stream=%v", kind, ctl, hexs(d), startFirst)
						}, func() {
							var sink bytes.Buffer
							var st *drpcstream.Stream
							if startFirst {
								if trace.Start(io.Discard) != nil {
									return
								}
								defer trace.Stop()
								st = drpcstream.New(context.Background(), 5, drpcwire.NewWriter(&sink, 0))
							} else {
								st = drpcstream.New(context.Background(), 5, drpcwire.NewWriter(&sink, 0))
								if trace.Start(io.Discard) != nil {
									return
								}
								defer trace.Stop()
							}
							st.HandlePacket(pkt)
							st.HandlePacket(pkt)
							st.Close()
						})
					}
				}
			}
		}
	})

	// H2. message packets with a consumer: what the peer sends may be something the local decoder
	// rejects; the dispatch of that packet and of everything after it must still return
	add("stream/handlepacket-messages", func(a *acc) {
		bodies := [][]byte{payload.Undecodable(0), payload.Undecodable(40), payload.Make(5, 0, 0, 0, 20), nil}
		for mask := 0; mask < 1<<6; mask++ {
			a.n++
			var sink bytes.Buffer
			st := drpcstream.New(context.Background(), 5, drpcwire.NewWriter(&sink, 0))
			var seq []int
			for k := 0; k < 3; k++ {
				seq = append(seq, (mask>>(2*uint(k)))&3)
			}
			reader := rig.Go("reader", func() (interface{}, error) {
				for k, b := range seq {
					st.HandlePacket(drpcwire.Packet{Data: bodies[b], ID: drpcwire.ID{Stream: 5, Message: uint64(k + 1)}, Kind: drpcwire.KindMessage})
				}
				st.HandlePacket(drpcwire.Packet{ID: drpcwire.ID{Stream: 5, Message: 9}, Kind: drpcwire.KindCloseSend})
				return nil, nil
			})
			consumer := rig.Go("consumer", func() (interface{}, error) {
				// bounded: a stream that hands out the same undecodable message again and again
				// must not turn this loop into a spin that keeps the process from coming to rest
				for i := 0; i < 1000; i++ {
					var m []byte
					if err := st.MsgRecv(&m, payload.Enc{}); err == io.EOF {
						return nil, nil
					}
				}
				return nil, errors.New("no end of stream after 1000 receives")
			})
			if !reader.Wait() || !consumer.Wait() || consumer.Err != nil {
				a.fail("Stream.HandlePacket-does-not-return", "message packets %v (0,1 = rejected by the decoder) followed by a half-close: dispatch returned=%v, receiver reached end of stream=%v", seq, reader.Returned(), consumer.Returned())
				break // the stream is wedged: nothing on it can be trusted to return, leave it
			}
			st.Close()
		}
	})

	add("live/server-directed", liveDirected)

	// I. live managers fed hostile byte streams (child process isolation matters here)
	nlive := 150
	if thorough {
		nlive = 4000
	}
	for k := 0; k < nlive; k++ {
		k := k
		role := []string{"server", "client"}[k%2]
		add(fmt.Sprintf("live/%s/%d", role, k), func(a *acc) { liveCase(a, role, payload.Hash(seed, 0x131, uint64(k))) })
	}
	return out
}

// liveDirected feeds a live server sessions a conforming client can emit around the metadata packet:
// several metadata packets for one stream (empty payloads included), metadata never followed by its
// invoke, with and without the cancel packet a soft-cancelling client sends. The dispatch must neither
// crash the process nor stop: the complete call at the end of each session must reach its handler.
func liveDirected(a *acc) {
	md := func(pairs ...string) []byte {
		m := map[string]string{}
		for i := 0; i+1 < len(pairs); i += 2 {
			m[pairs[i]] = pairs[i+1]
		}
		b, _ := drpcmetadata.Encode(nil, m)
		return b
	}
	fr := func(sid, mid uint64, kind drpcwire.Kind, ctl bool, data []byte) []byte {
		return refwire.Encode(nil, refwire.Frame{Stream: sid, Message: mid, Kind: uint8(kind), Done: true, Control: ctl, Data: data})
	}
	call := func(sid uint64, first uint64) []byte {
		b := fr(sid, first, drpcwire.KindInvoke, false, []byte("/svc/Method"))
		b = append(b, fr(sid, first+1, drpcwire.KindMessage, false, payload.Make(sid, 0, 0, 0, 4))...)
		return append(b, fr(sid, first+2, drpcwire.KindCloseSend, false, nil)...)
	}
	type session struct {
		name   string
		chunks [][]byte
		last   uint64 // stream id of the complete call at the end
	}
	sessions := []session{
		{"metadata-only then soft-cancel packet then a call", [][]byte{fr(1, 1, drpcwire.KindInvokeMetadata, false, md("k", "v")), fr(1, 2, drpcwire.KindCancel, true, nil), append(fr(2, 1, drpcwire.KindInvokeMetadata, false, md("a", "b")), call(2, 2)...)}, 2},
		{"metadata-only then a call", [][]byte{fr(1, 1, drpcwire.KindInvokeMetadata, false, md("k", "v")), call(2, 1)}, 2},
		{"empty metadata then filled metadata for one stream", [][]byte{append(append(fr(1, 1, drpcwire.KindInvokeMetadata, false, nil), fr(1, 2, drpcwire.KindInvokeMetadata, false, md("k", "v"))...), call(1, 3)...)}, 1},
		{"filled metadata then empty metadata for one stream", [][]byte{append(append(fr(1, 1, drpcwire.KindInvokeMetadata, false, md("k", "v")), fr(1, 2, drpcwire.KindInvokeMetadata, false, nil)...), call(1, 3)...)}, 1},
		{"three metadata packets for one stream", [][]byte{append(append(append(fr(1, 1, drpcwire.KindInvokeMetadata, false, md("a", "1")), fr(1, 2, drpcwire.KindInvokeMetadata, false, md("b", "2"))...), fr(1, 3, drpcwire.KindInvokeMetadata, false, md())...), call(1, 4)...)}, 1},
		{"empty metadata twice then metadata-only stream then a call", [][]byte{fr(1, 1, drpcwire.KindInvokeMetadata, false, nil), fr(1, 2, drpcwire.KindInvokeMetadata, false, nil), append(fr(2, 1, drpcwire.KindInvokeMetadata, false, md("z", "")), call(2, 2)...)}, 2},
	}
	// rpc names a peer can put into an invoke packet, on a server that keeps per-rpc statistics
	for _, name := range []string{"", "/", "x", "//", "\x00", strings.Repeat("n", 70000), "/svc/Method"} {
		a.n++
		h := rig.HandlerFunc(func(stream drpc.Stream, rpc string) error { return nil })
		rg := rig.New(rig.Config{Net: simnet.Opts{Cap: -1}, CollectStats: true, NoConn: true}, h)
		raw := rg.Pair.A
		rig.Go("drain", func() (interface{}, error) {
			buf := make([]byte, 4096)
			for {
				if _, err := raw.Read(buf); err != nil {
					return nil, nil
				}
			}
		})
		var b []byte
		for sid := uint64(1); sid <= 2; sid++ {
			b = append(b, fr(sid, 1, drpcwire.KindInvoke, false, []byte(name))...)
			b = append(b, fr(sid, 2, drpcwire.KindCloseSend, false, nil)...)
		}
		os.WriteFile(lastInputFile, []byte(fmt.Sprintf("server-stats rpc-name %q\n", clipName(name))), 0o644)
		raw.Write(b)
		census.Quiesce(rig.Watchdog)
		rg.Teardown()
	}
	for _, soft := range []bool{false, true} {
		for _, ss := range sessions {
			a.n++
			var mu sync.Mutex
			served := map[string]bool{}
			h := rig.HandlerFunc(func(stream drpc.Stream, rpc string) error {
				var m []byte
				if err := stream.MsgRecv(&m, payload.Enc{}); err == nil {
					if hd, perr := payload.Parse(m); perr == nil {
						mu.Lock()
						served[fmt.Sprint(hd.Tag)] = true
						mu.Unlock()
					}
				}
				return nil
			})
			rg := rig.New(rig.Config{Net: simnet.Opts{Cap: -1}, Server: drpcmanager.Options{SoftCancel: soft}, NoConn: true}, h)
			raw := rg.Pair.A
			rig.Go("drain", func() (interface{}, error) {
				buf := make([]byte, 4096)
				for {
					if _, err := raw.Read(buf); err != nil {
						return nil, nil
					}
				}
			})
			var all []byte
			for _, c := range ss.chunks {
				all = append(all, c...)
				os.WriteFile(lastInputFile, []byte(fmt.Sprintf("server-directed %x\n", all)), 0o644)
				raw.Write(c)
				census.Quiesce(rig.Watchdog)
			}
			mu.Lock()
			ok := served[fmt.Sprint(ss.last)]
			mu.Unlock()
			if !ok && !rig.IsClosed(rg.ServeOp.Done()) {
				_, snap := census.Quiesce(rig.Watchdog)
				a.fail("manager-dispatch-does-not-return", "session %q (soft=%v): with everything delivered and the connection open, the complete call for stream %d has not reached its handler: the dispatch stopped\n%s", ss.name, soft, ss.last, census.Dump(census.InDRPC(snap)))
			}
			rg.Teardown()
		}
	}
	a.sample = map[string]interface{}{"batch": a.id, "sessions": len(sessions)}
}

func clipName(s string) string {
	if len(s) > 40 {
		return s[:40] + "..."
	}
	return s
}

func liveCase(a *acc, role string, seed uint64) {
	a.n++
	r := &payload.SplitMix{S: seed}
	bytesIn := wiregen.Mutate(r, wiregen.ValidSession(r, role == "server"))
	os.WriteFile(lastInputFile, []byte(fmt.Sprintf("%s %x\n", role, bytesIn)), 0o644)
	opts := drpcmanager.Options{SoftCancel: r.Intn(2) == 0}
	chunk := simnet.Chunker(simnet.ChunkAll{})
	if r.Intn(2) == 0 {
		chunk = &simnet.ChunkRand{K: 1 + r.Intn(40), State: seed}
	}
	echo := rig.HandlerFunc(func(stream drpc.Stream, rpc string) error {
		for {
			var m []byte
			if err := stream.MsgRecv(&m, payload.Enc{}); err != nil {
				return nil
			}
			if err := stream.MsgSend(&m, payload.Enc{}); err != nil {
				return err
			}
		}
	})
	var rg *rig.Rig
	var raw *simnet.End
	var ops []*rig.Op
	if role == "server" {
		rg = rig.New(rig.Config{Net: simnet.Opts{Cap: -1, ChunkB: chunk}, Server: opts, NoConn: true}, echo)
		raw = rg.Pair.A
		ops = append(ops, rg.ServeOp)
	} else {
		rg = rig.New(rig.Config{Net: simnet.Opts{Cap: -1, ChunkA: chunk}, Client: opts, NoSrv: true}, nil)
		raw = rg.Pair.B
		ctx, cancel := context.WithCancel(context.Background())
		defer cancel()
		ops = append(ops, rig.Go("client", func() (interface{}, error) {
			for i := 0; i < 3; i++ {
				st, err := rg.Conn.NewStream(ctx, "/svc/Method", payload.Enc{})
				if err != nil {
					return nil, err
				}
				m := payload.Make(uint64(i), 0, 0, 0, 10)
				_ = st.MsgSend(&m, payload.Enc{})
				for k := 0; k < 4; k++ {
					var out []byte
					if err := st.MsgRecv(&out, payload.Enc{}); err != nil {
						break
					}
				}
				_ = st.Close()
			}
			return nil, nil
		}))
	}
	defer rg.Teardown()
	// drain whatever the endpoint under test writes
	rig.Go("drain", func() (interface{}, error) {
		buf := make([]byte, 4096)
		for {
			if _, err := raw.Read(buf); err != nil {
				return nil, nil
			}
		}
	})
	raw.Write(bytesIn)
	census.Quiesce(rig.Watchdog)
	raw.Close()
	for _, op := range ops {
		if !op.Wait() {
			// a hang after the peer vanished is C05/C12 territory; here it only
			// matters that nothing crashed. Record it as a statistic.
			a.stats["not_returned_after_peer_close"]++
		}
	}
	if a.sample == nil {
		a.sample = map[string]interface{}{"role": role, "bytes_hex": hexs(bytesIn)}
	}
}

func main() {
	runner.Main(runner.Check{
		Property: "C13",
		Level:    "exploration",
		Rule:     "one case = one (entry point, input): ParseFrame/ReadVarint (all 2-byte strings + seeded), Reader over hostile streams x read partitions, UnmarshalError, drpcmetadata.Decode (all strings <= 2 bytes, all 3..6-byte strings over a 9-byte alphabet, mutated valid encodings), drpchttp.Context on every header string over {%,=,a,0,G} up to length 6 (8 thorough), ServeHTTP for 8 content types x bodies (length claims vs actual bytes, sizes at the 4 MiB limit +-1, base64 garbage, seeded), ~50 hostile error values (nil Unwrap/Cause, cycles 1-3, foreign Code signatures, uncomparable types, deep chains) through drpcerr.Code, MarshalError, both gateway protocols and a live server, Stream.HandlePacket for kinds 0..63 x control x ids x payloads, and live client/server managers fed mutated-valid and random byte streams over simnet in child processes. Batches partition the inputs; distinct_nontrivial counts inputs executed. Handler errors through the gateway include texts of 255 to 65537 bytes of every byte class (continuation bytes only, lead bytes only, 0xff, four-byte characters cut anywhere, ASCII).",
		Assumptions: []string{
			"a panic or runtime fatal with storj.io/drpc frames on its stack is the violation; direct calls are wrapped in recover, library goroutines are watched through child-process death",
			"allocation bound asserted for gateway bodies: TotalAlloc delta of one ServeHTTP call <= 8*4MiB + 1MiB",
			"binaries are built with -race (which implies checkptr)",
		},
		Gen:           gen,
		Shards:        14,
		MinNontrivial: 10000,
	})
}
