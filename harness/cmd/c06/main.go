// C06: a connection whose RPCs have ended accepts the next RPC.
// Monitor: client program x handler program x cancel point x schedule are run
// on a real connection; once the client side has ended and the handler has
// returned, a tagged unary probe is issued. Verdict at quiescence: the probe
// completed with its own response, or the connection reports closed. A
// quiescent, not-closed connection with the probe pending (or failing) is the
// violation; the census shows where the reader and the server are parked.
package main

import (
	"context"
	"errors"
	"fmt"
	"strings"
	"sync/atomic"
	"time"

	"storj.io/drpc/drpcmux"
	"storj.io/drpc/drpcstream"
	"storj.io/drpc/drpcwire"

	"storj.io/drpc"

	"verifharness/census"
	"verifharness/director"
	"verifharness/payload"
	"verifharness/prog"
	"verifharness/rig"
	"verifharness/runner"
	"verifharness/simnet"
)

var cancelPoints = []string{"", "stream.msgrecv.held", "manager.sem.acquired", "conn.newstream.afterCreate", "conn.newstream.afterMeta", "manager.newstream.beforeSet", "conn.invoke.afterCreate", "conn.invoke.afterMeta", "conn.invoke.afterInvoke", "conn.invoke.afterMessage", "stream.rawwrite.locked", "stream.msgsend.locked", "stream.closesend.emit"}

func actsString(a []prog.Act) string {
	var b strings.Builder
	for _, x := range a {
		b.WriteByte(x.Op)
		if x.Op == 's' || x.Op == 'S' {
			fmt.Fprintf(&b, "%d", x.Size)
		}
	}
	return b.String()
}

func describe(s *prog.Script) string {
	ret := "nil"
	if s.Ret != nil {
		ret = "err"
	}
	if s.Unary {
		return fmt.Sprintf("unary(req=%d) handler=[%s] ret=%s", s.ReqSize, actsString(s.Handler), ret)
	}
	return fmt.Sprintf("client=[%s] handler=[%s] ret=%s", actsString(s.Client), actsString(s.Handler), ret)
}

// classify reduces a program to the class used as known-finding key.
func classify(s *prog.Script, point string) string {
	cl := "client:"
	h := "handler:"
	for _, a := range s.Client {
		switch a.Op {
		case 'x':
			cl += "cancel"
		case 'c':
			cl += "close"
		}
	}
	if s.Unary {
		cl += "unary"
	}
	if cl == "client:" {
		cl += "graceful"
	}
	drains := false
	for _, a := range s.Handler {
		if a.Op == 'R' {
			drains = true
		}
	}
	if s.Ret != nil {
		h += "error"
	} else {
		h += "nil"
	}
	if !drains {
		h += ",no-drain"
	}
	if point != "" {
		cl += "@" + point
	}
	return cl + " " + h
}

func scenario(id string, seed uint64) runner.Result {
	r := &payload.SplitMix{S: seed}
	cfg := prog.GenConfig(r, false)
	if r.Intn(4) != 0 {
		cfg.Client.SoftCancel, cfg.Server.SoftCancel = true, true
	}
	// buffered transports are essential: with a rendezvous transport the
	// misbehaving side simply blocks and the RPC never "ends"
	if cfg.Net.Cap == 0 {
		cfg.Net.Cap = -1
	}
	if r.Intn(2) == 0 {
		cfg.Net.Cap = -1
	}
	nrpc := 1 + r.Intn(2)
	var scripts []*prog.Script
	for i := 0; i < nrpc; i++ {
		if r.Intn(5) == 0 {
			scripts = append(scripts, prog.GenClean(r, uint64(i+1), cfg))
		} else {
			scripts = append(scripts, prog.GenAbort(r, uint64(i+1), cfg, payload.Pick(r, prog.AbortKinds)))
		}
	}
	// a handler that half-closes by itself before it returns (with or without an error, drained or not)
	for _, sc := range scripts {
		if !sc.Unary && (r.Intn(4) == 0 || (sc.Ret != nil && r.Intn(2) == 0)) {
			p := r.Intn(len(sc.Handler) + 1)
			sc.Handler = append(append(append([]prog.Act{}, sc.Handler[:p]...), prog.Act{Op: 'h'}), sc.Handler[p:]...)
			for i := p + 1; i < len(sc.Handler); i++ {
				if op := sc.Handler[i].Op; op == 's' || op == 'S' || op == 'u' {
					sc.Handler = sc.Handler[:i] // nothing is sent after the half-close
					break
				}
			}
			sc.Clean = false
		}
	}
	// sometimes one message of a streaming RPC is one the peer's decoder rejects
	if r.Intn(4) == 0 {
		s := scripts[r.Intn(len(scripts))]
		acts := &s.Client
		if r.Intn(2) == 0 {
			acts = &s.Handler
		}
		for k, a := range *acts {
			if a.Op == 's' {
				(*acts)[k] = prog.Act{Op: 'u', Size: r.Intn(40)}
				s.Clean = false
				break
			}
		}
	}
	// optionally: soft cancel landing at an internal point of the first RPC
	point := ""
	if cfg.Client.SoftCancel && r.Intn(2) == 0 {
		point = payload.Pick(r, cancelPoints)
		// the points after the metadata write exist only for RPCs that carry metadata
		if strings.HasSuffix(point, ".afterMeta") {
			for _, sc := range scripts {
				if sc.Unary == strings.HasPrefix(point, "conn.invoke.") {
					if sc.Meta == nil {
						sc.Meta = map[string]string{"rpc": fmt.Sprint(sc.Tag)}
					}
					break
				}
			}
		}
	}
	x := prog.New(cfg, scripts)
	defer x.Rig.Teardown()
	var park *director.Park
	cancelled := map[uint64]bool{}
	if point != "" {
		park = x.Rig.Dir.ParkAt(point, x.Rig.Pair.A, 1)
	} else if r.Intn(2) == 0 {
		x.Rig.Dir.Perturb(seed, 3)
	}
	x.Start([][]*prog.Script{scripts})
	var desc []string
	for _, s := range scripts {
		desc = append(desc, describe(s))
	}
	hist := cfg.Desc + " | " + strings.Join(desc, " ; ")
	if park != nil {
		hist += " | cancel@" + point
		st, _ := census.QuiesceOr(park.Reached(), rig.Watchdog)
		if st == "ready" {
			// cancel the RPC whose goroutine is parked there, then let it continue
			for _, l := range x.Logs() {
				if l.Cancel != nil && !l.ClientDone {
					l.Cancel()
					cancelled[l.Script.Tag] = true
				}
			}
			census.Quiesce(rig.Watchdog)
		}
		park.Release()
	}
	st := x.WaitClients()
	if st == "watchdog" {
		return runner.Inconcl(id, "watchdog: "+hist)
	}
	_, snap := census.Quiesce(rig.Watchdog)
	stuckCancelled := ""
	if st != "ready" {
		// The property counts an RPC as ended on the client side when its call returned or its
		// stream was closed or cancelled. A call that is still blocked although its context was
		// cancelled is therefore no excuse for the connection: the probe is still owed progress.
		for _, l := range x.Logs() {
			if started, done := l.ClientState(); started && !done {
				if !cancelled[l.Script.Tag] {
					return runner.Inconcl(id, "a client call of the workload itself never returned (C04/C05 territory): "+hist)
				}
				stuckCancelled += fmt.Sprintf(" rpc%d", l.Script.Tag)
			}
		}
		hist += " | cancelled call(s) still blocked at quiescence:" + stuckCancelled
	}
	for _, l := range x.Logs() {
		if l.HandlerRan && !l.HandlerDone {
			return runner.Inconcl(id, "a handler of the workload never returned, so the earlier RPC has not ended on both sides: "+hist)
		}
	}
	_ = snap
	verdict, _ := x.Probe(1000)
	_, snap = census.Quiesce(rig.Watchdog)
	closed := rig.IsClosed(x.Rig.Conn.Closed())
	key := "wedge:" + classify(scripts[len(scripts)-1], point)
	if len(scripts) > 1 {
		key = "wedge:" + classify(scripts[0], point) + " ; " + classify(scripts[1], "")
	}
	if stuckCancelled != "" {
		key += " (cancelled call still blocked)"
	}
	res := runner.Hold(id, hist, true)
	res.Events = int64(len(scripts) + 1)
	res.Stats = map[string]int64{"probe_" + strings.SplitN(verdict, ":", 2)[0]: 1}
	if closed {
		res.Stats["conn_closed"] = 1
	}
	res.Sample = map[string]interface{}{"program": hist, "probe": verdict, "conn_closed": closed}
	switch {
	case verdict == "ok":
		return res
	case verdict == "watchdog":
		return runner.Inconcl(id, "watchdog during probe: "+hist)
	case closed:
		return res // the connection reports itself closed: allowed
	case verdict == "blocked":
		return runner.Violation(id, key, "connection looks healthy (Closed() open, transport moving bytes) but the probe RPC is stuck at quiescence\nprogram: "+hist+"\nblocked goroutines in drpc:\n"+census.Dump(census.InDRPC(snap)))
	default:
		return runner.Violation(id, "probe-failed:"+verdict, "connection not closed but the probe RPC failed with "+verdict+"\nprogram: "+hist)
	}
}

// writeInFlightWhenHandlerFails: a client operation that writes (a send, a raw write, a flush, the
// half-close) is inside the transport when the handler's error arrives and ends the RPC; the write
// then completes. The client does nothing more with that stream than close it. The RPC has ended on
// both sides: the probe must go through.
func writeInFlightWhenHandlerFails(id string, seed uint64) runner.Result {
	r := &payload.SplitMix{S: seed}
	cfg := prog.GenConfig(r, false)
	cfg.Net.Cap = -1
	if r.Intn(2) == 0 {
		cfg.Client.SoftCancel, cfg.Server.SoftCancel = true, true
	}
	// a writer buffer smaller than the big message and larger than the small ones: the big one goes to
	// the transport from inside the call, the small ones wait for a flush
	cfg.Client.WriterBufferSize = 4096
	op := payload.Pick(r, []string{"MsgSend", "RawWrite", "RawFlush", "CloseSend"})
	after := payload.Pick(r, []string{"Close", "Close", "CloseSend+Close", "nothing-but-Close-later"})
	fail := make(chan struct{})
	handler := rig.HandlerFunc(func(stream drpc.Stream, rpc string) error {
		if rpc == "/probe" {
			var m []byte
			if err := stream.MsgRecv(&m, payload.Enc{}); err != nil {
				return err
			}
			return stream.MsgSend(&m, payload.Enc{})
		}
		<-fail
		return errors.New("handler gives up")
	})
	rg := rig.New(rig.Config{Net: cfg.Net, Client: cfg.Client, Server: cfg.Server}, handler)
	defer rg.Teardown()
	st, err := rg.Conn.NewStream(context.Background(), "/x", payload.Enc{})
	if err != nil {
		return runner.Inconcl(id, "NewStream: "+err.Error())
	}
	raw := st.(*drpcstream.Stream)
	first := payload.Make(1, 0, 0, 0, 10)
	st.MsgSend(&first, payload.Enc{})
	census.Quiesce(rig.Watchdog)
	if op == "RawFlush" {
		raw.SetManualFlush(true)
		m := payload.Make(1, 0, 0, 1, 50)
		st.MsgSend(&m, payload.Enc{})
	}
	gate := rg.Pair.A.GateNextWrite(simnet.After)
	gate.SucceedOnClose = true
	big := payload.Make(1, 0, 0, 2, 6000)
	call := rig.Go(op, func() (interface{}, error) {
		switch op {
		case "MsgSend":
			return nil, st.MsgSend(&big, payload.Enc{})
		case "RawWrite":
			return nil, raw.RawWrite(drpcwire.KindMessage, big)
		case "RawFlush":
			return nil, raw.RawFlush()
		}
		return nil, st.CloseSend()
	})
	desc := fmt.Sprintf("%s soft=%v | the client's %s is inside the transport when the handler's error arrives, then completes; afterwards the client calls %s; then the probe", cfg.Desc, cfg.Client.SoftCancel, op, after)
	if s, _ := census.QuiesceOr(gate.Reached(), rig.Watchdog); s != "ready" {
		gate.Release()
		return runner.Inconcl(id, "the gated write was not reached: "+desc)
	}
	close(fail)
	census.Quiesce(rig.Watchdog) // the error packet has been read by the client
	gate.Release()
	census.Quiesce(rig.Watchdog)
	if !call.Returned() {
		return runner.Inconcl(id, "the gated call did not return: "+desc)
	}
	if strings.HasPrefix(after, "CloseSend") {
		st.CloseSend()
	}
	st.Close()
	census.Quiesce(rig.Watchdog)
	if rig.IsClosed(rg.Conn.Closed()) {
		return runner.Hold(id, desc+" (connection closed)", false)
	}
	in := payload.Make(9, 0, 0, 0, 5)
	var out []byte
	probe := rig.Go("probe", func() (interface{}, error) {
		return nil, rg.Conn.Invoke(context.Background(), "/probe", payload.Enc{}, &in, &out)
	})
	_, snap := census.Quiesce(rig.Watchdog)
	if !probe.Returned() {
		return runner.Violation(id, "wedge:write-in-flight-when-the-handler-failed:"+op, "the RPC has ended on both sides, the connection is not closed, and the probe RPC is stuck at quiescence\n"+desc+"\n"+census.Dump(census.InDRPC(snap)))
	}
	if probe.Err != nil && !rig.IsClosed(rg.Conn.Closed()) {
		return runner.Violation(id, "probe-failed:write-in-flight-when-the-handler-failed:"+op, "connection not closed but the probe failed with "+rig.ErrStr(probe.Err)+"\n"+desc)
	}
	res := runner.Hold(id, desc, true)
	res.Events = 3
	return res
}

// longProgram: the history before the probe is long: 40-160 RPCs of the clean and early-ending kinds one
// after the other on one soft-cancel connection. Whatever a single RPC leaves behind (a token, a
// slot, a buffered packet) has had many chances to pile up when the probe comes.
func longProgram(id string, seed uint64) runner.Result {
	r := &payload.SplitMix{S: seed}
	cfg := prog.GenConfig(r, false)
	cfg.Client.SoftCancel, cfg.Server.SoftCancel = true, true
	cfg.Net.Cap = -1
	nrpc := 40 + r.Intn(121)
	var scripts []*prog.Script
	kinds := map[string]int{}
	for i := 0; i < nrpc; i++ {
		if r.Intn(4) == 0 {
			scripts = append(scripts, prog.GenClean(r, uint64(i+1), cfg))
			kinds["clean"]++
		} else {
			k := payload.Pick(r, prog.AbortKinds)
			scripts = append(scripts, prog.GenAbort(r, uint64(i+1), cfg, k))
			kinds[fmt.Sprint(k)]++
		}
	}
	x := prog.New(cfg, scripts)
	defer x.Rig.Teardown()
	if r.Intn(2) == 0 {
		x.Rig.Dir.Perturb(seed, 3)
	}
	x.Start([][]*prog.Script{scripts})
	hist := fmt.Sprintf("%s | long program: %d RPCs one after the other, kinds %v; first: %s ; last: %s", cfg.Desc, nrpc, kinds, describe(scripts[0]), describe(scripts[nrpc-1]))
	st := x.WaitClients()
	if st == "watchdog" {
		return runner.Inconcl(id, "watchdog: "+hist)
	}
	_, snap := census.Quiesce(rig.Watchdog)
	if st != "ready" {
		for _, l := range x.Logs() {
			if started, done := l.ClientState(); started && !done {
				if rig.IsClosed(x.Rig.Conn.Closed()) {
					return runner.Inconcl(id, "a client call of the workload itself never returned on a closed connection (C05 territory): "+hist)
				}
				return runner.Violation(id, "long-program:rpc-never-completes", fmt.Sprintf("rpc #%d of the program (%s) never returns although every earlier RPC has ended and the connection is open\nprogram: %s\n%s", l.Script.Tag, describe(l.Script), hist, census.Dump(census.InDRPC(snap))))
			}
		}
	}
	for _, l := range x.Logs() {
		if l.HandlerRan && !l.HandlerDone {
			return runner.Inconcl(id, "a handler of the workload never returned: "+hist)
		}
	}
	verdict, _ := x.Probe(100000)
	_, snap = census.Quiesce(rig.Watchdog)
	closed := rig.IsClosed(x.Rig.Conn.Closed())
	res := runner.Hold(id, hist, !closed)
	res.Events = int64(nrpc + 1)
	res.Stats = map[string]int64{"probe_" + strings.SplitN(verdict, ":", 2)[0]: 1}
	if closed {
		res.Stats["conn_closed"] = 1
	}
	switch {
	case verdict == "ok", closed:
		return res
	case verdict == "watchdog":
		return runner.Inconcl(id, "watchdog during probe: "+hist)
	case verdict == "blocked":
		return runner.Violation(id, "long-program:probe-blocked", "connection looks healthy but the probe RPC is stuck at quiescence\nprogram: "+hist+"\n"+census.Dump(census.InDRPC(snap)))
	}
	return runner.Violation(id, "long-program:probe-failed:"+verdict, "connection not closed but the probe RPC failed with "+verdict+"\nprogram: "+hist)
}

// queuedCancel: RPC 1 is soft-cancelled while its cancel packet is parked in the
// transport (its stream cannot finish yet); RPC 2 is issued, waits behind it and
// is cancelled while waiting; the parked write is released; once both have
// ended the probe must go through.
func queuedCancel(id string, seed uint64) runner.Result {
	r := &payload.SplitMix{S: seed}
	cfg := prog.GenConfig(r, false)
	cfg.Client.SoftCancel, cfg.Server.SoftCancel = true, true
	cfg.Net.Cap = -1
	first := &prog.Script{Tag: 1, Client: []prog.Act{{Op: 's', Size: r.Intn(200)}, {Op: 'r'}}, Handler: []prog.Act{{Op: 'R'}}}
	if r.Intn(2) == 0 {
		first.Handler = []prog.Act{{Op: 'r'}, {Op: 'R'}}
	}
	second := prog.GenClean(r, 2, cfg)
	x := prog.New(cfg, []*prog.Script{first, second})
	defer x.Rig.Teardown()
	op1 := rig.Go("rpc1", func() (interface{}, error) { x.RunClient(first); return nil, nil })
	census.Quiesce(rig.Watchdog) // rpc1 is blocked in its receive
	gate := x.Rig.Pair.A.GateNextWrite(simnet.When(r.Intn(2)))
	x.Log(1).Cancel()
	census.Quiesce(rig.Watchdog) // the soft-cancel packet is parked in the transport
	parked := rig.IsClosed(gate.Reached())
	op2 := rig.Go("rpc2", func() (interface{}, error) { x.RunClient(second); return nil, nil })
	census.Quiesce(rig.Watchdog)
	waiting := !op2.Returned()
	if l := x.Log(2); l.Cancel != nil {
		l.Cancel()
	}
	census.Quiesce(rig.Watchdog)
	gate.Release()
	census.Quiesce(rig.Watchdog)
	hist := fmt.Sprintf("%s | queued-cancel: rpc1 soft-cancelled with its cancel packet parked in the transport (parked=%v), rpc2 cancelled while waiting behind it (was waiting=%v), write released", cfg.Desc, parked, waiting)
	if !op1.Returned() || !op2.Returned() {
		return runner.Inconcl(id, "a workload call never returned: "+hist)
	}
	for _, l := range x.Logs() {
		if l.HandlerRan && !l.HandlerDone {
			return runner.Inconcl(id, "a handler never returned: "+hist)
		}
	}
	verdict, _ := x.Probe(1000)
	_, snap := census.Quiesce(rig.Watchdog)
	closed := rig.IsClosed(x.Rig.Conn.Closed())
	res := runner.Hold(id, hist, parked && waiting)
	res.Events = 3
	res.Stats = map[string]int64{"probe_" + strings.SplitN(verdict, ":", 2)[0]: 1}
	switch {
	case verdict == "ok" || closed:
		return res
	case verdict == "watchdog":
		return runner.Inconcl(id, "watchdog: "+hist)
	case verdict == "blocked":
		return runner.Violation(id, "wedge:queued-rpc-cancelled-behind-soft-cancelled-stream", "connection looks healthy but the probe RPC is stuck at quiescence\n"+hist+"\n"+census.Dump(census.InDRPC(snap)))
	}
	return runner.Violation(id, "probe-failed:"+verdict, "connection not closed but the probe failed with "+verdict+"\n"+hist)
}

// writeInFlight: the peer ends the RPC while a write of this side (an explicit flush under
// ManualFlush, a send's own flush, a half-close) is parked inside the transport after its bytes were
// delivered; the write is then released and this side does the least an application may do afterwards.
func writeInFlight(id string, seed uint64) runner.Result {
	r := &payload.SplitMix{S: seed}
	manual := r.Intn(2) == 0
	cfg := prog.GenConfig(r, manual)
	if r.Intn(4) != 0 {
		cfg.Client.SoftCancel, cfg.Server.SoftCancel = true, true
	}
	cfg.Net.Cap = -1
	// the writer buffer is large enough for the parked write to be the one the script names
	cfg.Client.WriterBufferSize, cfg.Server.WriterBufferSize = 1<<20, 1<<20
	size := r.Intn(600)
	s := &prog.Script{Tag: 1}
	serverSide := r.Intn(3) == 0
	var gate *simnet.Gate
	var what string
	after := payload.Pick(r, []string{"close", "nothing", "recv"})
	tail := func() []prog.Act {
		switch after {
		case "close":
			return []prog.Act{{Op: 'c'}}
		case "recv":
			return []prog.Act{{Op: 'R'}}
		}
		return nil
	}
	if !serverSide {
		switch {
		case manual:
			what = "explicit RawFlush"
			s.Client = append([]prog.Act{{Op: 's', Size: size}, {Op: 'f'}}, tail()...)
		case r.Intn(2) == 0:
			what = "MsgSend"
			s.Client = append([]prog.Act{{Op: 's', Size: size}}, tail()...)
		default:
			what = "CloseSend"
			s.Client = append([]prog.Act{{Op: 'h'}}, tail()...)
		}
		s.NoClose = after == "nothing"
		switch r.Intn(3) {
		case 0:
			s.Ret = &prog.ErrSpec{Msg: "handler error for rpc 1", Code: 3}
		case 1:
			s.Handler = []prog.Act{{Op: 'r'}}
			s.Ret = &prog.ErrSpec{Msg: "handler error for rpc 1"}
		}
	} else {
		what = "handler's MsgSend"
		if manual {
			what = "handler's RawFlush"
			s.Handler = []prog.Act{{Op: 's', Size: size}, {Op: 'f'}, {Op: 'R'}}
		} else {
			s.Handler = []prog.Act{{Op: 's', Size: size}, {Op: 'R'}}
		}
		s.Client = []prog.Act{{Op: 'h'}, {Op: 'q'}, {Op: payload.Pick(r, []byte{'c', 'x'})}}
	}
	x := prog.New(cfg, []*prog.Script{s})
	defer x.Rig.Teardown()
	if serverSide {
		gate = x.Rig.Pair.B.GateWriteIdx(0, simnet.After)
	} else {
		gate = x.Rig.Pair.A.GateWriteIdx(0, simnet.After)
	}
	x.Start([][]*prog.Script{{s}})
	st, _ := census.QuiesceOr(gate.Reached(), rig.Watchdog)
	parked := st == "ready"
	census.Quiesce(rig.Watchdog) // the peer ends the RPC while the write is still inside the transport
	gate.Release()
	hist := fmt.Sprintf("%s | write-in-flight: %s parked in the transport after delivery (parked=%v) while the peer ended the RPC; afterwards: %s | %s", cfg.Desc, what, parked, after, describe(s))
	if st := x.WaitClients(); st != "ready" {
		return runner.Inconcl(id, "a workload call never returned: "+hist)
	}
	census.Quiesce(rig.Watchdog)
	for _, l := range x.Logs() {
		if ran, done := l.HandlerState(); ran && !done {
			return runner.Inconcl(id, "a handler never returned: "+hist)
		}
	}
	if after != "close" && !serverSide {
		// the application never closed its stream: the RPC has not ended on the client side unless
		// the stream was terminated by the peer (error) — only then is the probe owed an answer
		if l := x.Log(1); l.Stream != nil {
			if ts, ok := l.Stream.(interface{ IsTerminated() bool }); ok && !ts.IsTerminated() {
				return runner.Hold(id, hist, false)
			}
		}
	}
	verdict, _ := x.Probe(1000)
	_, snap := census.Quiesce(rig.Watchdog)
	closed := rig.IsClosed(x.Rig.Conn.Closed())
	res := runner.Hold(id, hist, parked)
	res.Events = 2
	res.Stats = map[string]int64{"probe_" + strings.SplitN(verdict, ":", 2)[0]: 1}
	switch {
	case verdict == "ok" || closed:
		return res
	case verdict == "watchdog":
		return runner.Inconcl(id, "watchdog: "+hist)
	case verdict == "blocked":
		return runner.Violation(id, "wedge:write-in-flight-while-peer-ended-the-rpc", "connection looks healthy but the probe RPC is stuck at quiescence\n"+hist+"\n"+census.Dump(census.InDRPC(snap)))
	}
	return runner.Violation(id, "probe-failed:"+verdict, "connection not closed but the probe failed with "+verdict+"\n"+hist)
}

// firstCalls: the newly issued RPC itself begins in an unusual but legal way: its first send fails
// locally (the encoder rejects the message: nothing is written), and then it receives from a handler
// that speaks first. The RPC must still reach its handler and complete, and the probe after it too.
var firstCallShapes = []struct {
	name, client, handler string
	rendezvous            bool
}{
	// the handler flushes by hand: one answer flushed, one still buffered when it returns early
	{"handler-returns-early-manual-flush-rendezvous", "sssshR", "rsfs", true},
	// a server that leaves flushing to its handlers, and handlers that never flush: what they sent goes
	// out with their return
	{"manual-flush-server-handler-answers-and-returns", "shR", "rss", false},
	{"manual-flush-server-handler-drains-answers-and-returns", "sshR", "Rs", false},
	{"failed-send-then-recv", "mrhR", "sR", false},
	{"failed-sends-then-recv-send", "mmrshR", "srR", false},
	{"recv-first-control", "rhR", "sR", false},
	{"failed-send-then-halfclose", "mhR", "Rs", false},
	{"send-failed-send-recv", "smrhR", "rsR", false},
	// the handler has seen enough after the first message, answers and returns; the client does what a
	// generated client-streaming stub does: all its sends, the half-close, then the receive
	{"handler-returns-early-rendezvous", "sssshR", "rs", true},
	{"handler-returns-early-no-answer-rendezvous", "ssshR", "r", true},
	{"handler-returns-early-buffered", "sssshR", "rs", false},
	// the handler has returned (its end of stream has arrived) before the client half-closes; the client
	// never receives, it half-closes, closes and moves on
	{"halfclose-after-handler-returned-never-receives", "sqhc", "r", false},
	{"halfclose-twice-after-handler-returned-never-receives", "sqhhc", "rs", false},
	// the handler half-closes by itself after its answer (the SendAndClose pattern) and then fails
	{"handler-halfcloses-then-fails", "sshR", "Rsh!", false},
	{"handler-halfcloses-then-returns", "shR", "rsh", false},
	// a unary call whose request the client's own encoder rejects: the stream exists already, nothing but its close reaches the server
	{"unary-request-fails-to-marshal", "!", "rs", false},
	// the receiving side of the client goes through the raw entry point
	{"raw-receive-until-end", "shV", "rsss", false},
	{"raw-receive-handler-error", "shV", "rs!", false},
}

func firstCalls(id string, seed uint64, shape int) runner.Result {
	r := &payload.SplitMix{S: seed}
	cfg := prog.GenConfig(r, false)
	if r.Intn(2) == 0 {
		cfg.Client.SoftCancel, cfg.Server.SoftCancel = true, true
	}
	sh := firstCallShapes[shape]
	if cfg.Net.Cap == 0 && !sh.rendezvous {
		cfg.Net.Cap = -1
	}
	if strings.Contains(sh.name, "manual-flush") {
		cfg.Server.Stream.ManualFlush = true
		// the second answer has to stay in the writer's buffer: a handler whose own write goes to a
		// transport nobody reads from is blocked by flow control, not by the library
		cfg.Server.WriterBufferSize = 1 << 20
		cfg.Desc += " server-manual-flush server-wbuf=1MiB"
	}
	if sh.rendezvous {
		// a transport without any buffering of its own (net.Pipe): a write completes when the peer reads it
		cfg.Net.Cap = 0
		cfg.Desc = strings.Replace(cfg.Desc, "cap=", "cap=0 was=", 1)
	}
	acts := func(t string) (out []prog.Act) {
		for _, c := range []byte(t) {
			out = append(out, prog.Act{Op: c, Size: 5 + r.Intn(40)})
		}
		return out
	}
	var scripts []*prog.Script
	for i := 0; i < r.Intn(2); i++ {
		scripts = append(scripts, prog.GenClean(r, uint64(i+1), cfg))
	}
	s := &prog.Script{Tag: uint64(len(scripts) + 1), Client: acts(sh.client), Handler: acts(strings.TrimSuffix(sh.handler, "!"))}
	if strings.HasSuffix(sh.handler, "!") {
		s.Ret = &prog.ErrSpec{Code: 7}
	}
	if sh.client == "!" {
		s.Unary, s.BadReq, s.Client, s.ReqSize = true, true, nil, 10
	}
	scripts = append(scripts, s)
	x := prog.New(cfg, scripts)
	defer x.Rig.Teardown()
	x.Start([][]*prog.Script{scripts})
	hist := cfg.Desc + " | first-calls " + sh.name + ": " + describe(s)
	st := x.WaitClients()
	if st == "watchdog" {
		return runner.Inconcl(id, "watchdog: "+hist)
	}
	_, snap := census.Quiesce(rig.Watchdog)
	l := x.Log(s.Tag)
	closed := rig.IsClosed(x.Rig.Conn.Closed())
	key := "first-calls:" + sh.name
	if st != "ready" {
		return runner.Violation(id, key+":rpc-never-completes", "the newly issued RPC did not complete although both programs end by themselves (connection closed="+fmt.Sprint(closed)+")\nprogram: "+hist+"\nblocked goroutines in drpc:\n"+census.Dump(census.InDRPC(snap)))
	}
	if !closed && !l.HandlerRan && !s.BadReq {
		return runner.Violation(id, key+":handler-never-ran", "the client's calls returned but the RPC never reached its handler\nprogram: "+hist)
	}
	verdict, _ := x.Probe(1000)
	res := runner.Hold(id, hist, true)
	res.Events = int64(len(scripts) + 1)
	res.Stats = map[string]int64{"probe_" + strings.SplitN(verdict, ":", 2)[0]: 1}
	res.Sample = map[string]interface{}{"program": hist, "probe": verdict}
	switch {
	case verdict == "ok", rig.IsClosed(x.Rig.Conn.Closed()):
		return res
	case verdict == "watchdog":
		return runner.Inconcl(id, "watchdog during probe: "+hist)
	}
	_, snap = census.Quiesce(rig.Watchdog)
	return runner.Violation(id, key+":probe-"+strings.SplitN(verdict, ":", 2)[0], "after the RPC the connection is not closed but the probe RPC ended with "+verdict+"\nprogram: "+hist+"\n"+census.Dump(census.InDRPC(snap)))
}

// ---- the same early return through the real mux ----

type muxMsg struct{ B []byte }

type muxEnc struct{}

func (muxEnc) Marshal(m drpc.Message) ([]byte, error) { return m.(*muxMsg).B, nil }
func (muxEnc) Unmarshal(b []byte, m drpc.Message) error {
	m.(*muxMsg).B = append([]byte(nil), b...)
	return nil
}

type muxSvc struct {
	work      time.Duration // how long Unary takes
	cancelled int32         // times Unary saw its context end while working
}

func (s *muxSvc) Unary(ctx context.Context, in *muxMsg) (*muxMsg, error) {
	if s.work > 0 {
		t := time.NewTimer(s.work)
		defer t.Stop()
		select {
		case <-ctx.Done():
			atomic.AddInt32(&s.cancelled, 1)
			return nil, ctx.Err()
		case <-t.C:
		}
	}
	return &muxMsg{B: in.B}, nil
}
func (*muxSvc) ServerStream(in *muxMsg, st drpc.Stream) error {
	return st.MsgSend(&muxMsg{B: []byte("answer")}, muxEnc{})
}
func (*muxSvc) Bidi(st drpc.Stream) error {
	var m muxMsg
	if err := st.MsgRecv(&m, muxEnc{}); err != nil {
		return err
	}
	return st.MsgSend(&muxMsg{B: []byte("answer")}, muxEnc{})
}

type muxDesc struct{}

func (muxDesc) NumMethods() int { return 3 }
func (muxDesc) Method(n int) (string, drpc.Encoding, drpc.Receiver, interface{}, bool) {
	switch n {
	case 0:
		return "/m/Unary", muxEnc{}, func(s interface{}, ctx context.Context, in1, in2 interface{}) (drpc.Message, error) {
			return s.(*muxSvc).Unary(ctx, in1.(*muxMsg))
		}, (*muxSvc).Unary, true
	case 1:
		return "/m/ServerStream", muxEnc{}, func(s interface{}, ctx context.Context, in1, in2 interface{}) (drpc.Message, error) {
			return nil, s.(*muxSvc).ServerStream(in1.(*muxMsg), in2.(drpc.Stream))
		}, (*muxSvc).ServerStream, true
	case 2:
		return "/m/Bidi", muxEnc{}, func(s interface{}, ctx context.Context, in1, in2 interface{}) (drpc.Message, error) {
			return nil, s.(*muxSvc).Bidi(in1.(drpc.Stream))
		}, (*muxSvc).Bidi, true
	}
	return "", nil, nil, nil, false
}

// muxEarlyReturn: handlers registered with the real mux take one message, answer and return nil while
// the client (all its sends, the half-close, then the receives) still has messages to send; transports
// with and without buffering. The RPC must end on both sides and the probe must go through.
func muxEarlyReturn(id string, seed uint64) runner.Result {
	r := &payload.SplitMix{S: seed}
	cfg := prog.GenConfig(r, false)
	rendezvous := r.Intn(3) != 0
	if rendezvous {
		cfg.Net.Cap = 0
	} else if cfg.Net.Cap == 0 {
		cfg.Net.Cap = -1
	}
	mux := drpcmux.New()
	if err := mux.Register(&muxSvc{}, muxDesc{}); err != nil {
		return runner.Inconcl(id, "Register: "+err.Error())
	}
	rg := rig.New(rig.Config{Net: cfg.Net, Client: cfg.Client, Server: cfg.Server}, mux)
	defer rg.Teardown()
	rpc := payload.Pick(r, []string{"/m/Bidi", "/m/ServerStream"})
	nsend := 2 + r.Intn(4)
	hist := fmt.Sprintf("%s | mux-early-return rendezvous=%v: %s takes 1 message, answers, returns nil; client sends %d, half-closes, receives", cfg.Desc, rendezvous, rpc, nsend)
	op := rig.Go("call", func() (interface{}, error) {
		st, err := rg.Conn.NewStream(context.Background(), rpc, muxEnc{})
		if err != nil {
			return nil, err
		}
		defer st.Close()
		for i := 0; i < nsend; i++ {
			if st.MsgSend(&muxMsg{B: payload.Make(1, 0, 0, uint32(i), 30)}, muxEnc{}) != nil {
				break
			}
		}
		st.CloseSend()
		for {
			var m muxMsg
			if err := st.MsgRecv(&m, muxEnc{}); err != nil {
				return nil, nil
			}
		}
	})
	if !op.Wait() {
		_, snap := census.Quiesce(rig.Watchdog)
		return runner.Violation(id, "first-calls:mux-early-return:rpc-never-completes", "the handler has returned but the client's call never ends, on a connection that is not closed\nprogram: "+hist+"\n"+census.Dump(census.InDRPC(snap)))
	}
	if rig.IsClosed(rg.Conn.Closed()) {
		return runner.Hold(id, hist+" (connection closed)", false)
	}
	var out muxMsg
	probe := rig.Go("probe", func() (interface{}, error) {
		return nil, rg.Conn.Invoke(context.Background(), "/m/Unary", muxEnc{}, &muxMsg{B: []byte("probe")}, &out)
	})
	if !probe.Wait() {
		_, snap := census.Quiesce(rig.Watchdog)
		return runner.Violation(id, "first-calls:mux-early-return:probe-blocked", "after the RPC the connection is not closed but the probe RPC is stuck\nprogram: "+hist+"\n"+census.Dump(census.InDRPC(snap)))
	}
	if probe.Err != nil && !rig.IsClosed(rg.Conn.Closed()) {
		return runner.Violation(id, "first-calls:mux-early-return:probe-failed", "after the RPC the connection is not closed but the probe RPC failed: "+rig.ErrStr(probe.Err)+"\nprogram: "+hist)
	}
	res := runner.Hold(id, hist, true)
	res.Events = int64(nsend + 2)
	return res
}

// sizedHistory: the earlier RPCs are plain unary calls that all complete; what varies is the sizes of
// their messages (a few large ones between runs of small ones), which is state the connection's
// reader keeps across RPCs (its packet buffer). Every call, and the probe, must come back with
// exactly what it sent.
func sizedHistory(id string, seed uint64) runner.Result {
	r := &payload.SplitMix{S: seed}
	cfg := prog.GenConfig(r, false)
	if cfg.Net.Cap == 0 {
		cfg.Net.Cap = -1
	}
	mux := drpcmux.New()
	if err := mux.Register(&muxSvc{}, muxDesc{}); err != nil {
		return runner.Inconcl(id, "Register: "+err.Error())
	}
	rg := rig.New(rig.Config{Net: cfg.Net, Client: cfg.Client, Server: cfg.Server}, mux)
	defer rg.Teardown()
	n := 4 + r.Intn(22)
	var sizes []int
	for i := 0; i < n; i++ {
		switch {
		case i == 0 || r.Intn(9) == 0:
			sizes = append(sizes, 600+r.Intn(1<<uint(10+r.Intn(7))))
		default:
			sizes = append(sizes, r.Intn(40))
		}
	}
	hist := fmt.Sprintf("%s | sized-history: unary echo calls of sizes %v, the last one is the probe", cfg.Desc, sizes)
	for i, sz := range sizes {
		in := payload.Make(uint64(i+1), 0, 0, uint32(i), sz)
		var out muxMsg
		op := rig.Go("call", func() (interface{}, error) {
			return nil, rg.Conn.Invoke(context.Background(), "/m/Unary", muxEnc{}, &muxMsg{B: in}, &out)
		})
		what := fmt.Sprintf("call #%d of %d (size %d)", i+1, n, sz)
		if !op.Wait() {
			_, snap := census.Quiesce(rig.Watchdog)
			return runner.Violation(id, "sized-history:rpc-never-completes", what+" never ends although every earlier call completed\nprogram: "+hist+"\n"+census.Dump(census.InDRPC(snap)))
		}
		if op.Err != nil {
			return runner.Violation(id, "sized-history:rpc-fails", what+" failed with "+rig.ErrStr(op.Err)+" although every earlier call completed and nothing was closed or cancelled (connection closed="+fmt.Sprint(rig.IsClosed(rg.Conn.Closed()))+")\nprogram: "+hist)
		}
		if string(out.B) != string(in) {
			return runner.Violation(id, "sized-history:wrong-answer", fmt.Sprintf("%s came back with %d bytes that are not the %d sent\nprogram: %s", what, len(out.B), len(in), hist))
		}
	}
	res := runner.Hold(id, hist, true)
	res.Events = int64(n)
	return res
}

// inactivity: the server has an inactivity timeout, which bounds how long it waits for the NEXT
// RPC. The RPCs themselves take longer than that. An RPC that is being served is activity: the
// handler's context must not end while it works, nobody having cancelled or closed anything.
// (Under load the gap between two calls can exceed the timeout; the server then closes the
// connection between RPCs, which is what the option is for and is not judged.)
func inactivity(id string, seed uint64) runner.Result {
	r := &payload.SplitMix{S: seed}
	cfg := prog.GenConfig(r, false)
	if cfg.Net.Cap == 0 {
		cfg.Net.Cap = -1
	}
	if r.Intn(2) == 0 {
		cfg.Client.SoftCancel, cfg.Server.SoftCancel = true, true
	}
	timeout := 150 * time.Millisecond
	cfg.Server.InactivityTimeout = timeout
	svc := &muxSvc{work: timeout * 2}
	mux := drpcmux.New()
	if err := mux.Register(svc, muxDesc{}); err != nil {
		return runner.Inconcl(id, "Register: "+err.Error())
	}
	rg := rig.New(rig.Config{Net: cfg.Net, Client: cfg.Client, Server: cfg.Server}, mux)
	defer rg.Teardown()
	n := 1 + r.Intn(2)
	hist := fmt.Sprintf("%s soft=%v | inactivity: server InactivityTimeout=%v, %d unary calls whose handler works for %v", cfg.Desc, cfg.Server.SoftCancel, timeout, n, svc.work)
	done := 0
	for i := 0; i < n; i++ {
		var out muxMsg
		err := rg.Conn.Invoke(context.Background(), "/m/Unary", muxEnc{}, &muxMsg{B: []byte("x")}, &out)
		if c := atomic.LoadInt32(&svc.cancelled); c > 0 {
			return runner.Violation(id, "inactivity:context-of-running-handler-ended", fmt.Sprintf("the context of the handler of call #%d ended while the handler was working; nobody cancelled the call or closed anything (the client's Invoke returned %s)\nprogram: %s", i+1, rig.ErrStr(err), hist))
		}
		if err != nil {
			break // the idle gap before this call exceeded the timeout: not judged
		}
		done++
	}
	res := runner.Hold(id, hist, done > 0)
	res.Events = int64(done)
	return res
}

func gen(tier string, seed uint64) []runner.Scenario {
	n := 600
	if tier == "thorough" {
		n = 15000
	}
	var out []runner.Scenario
	for i := 0; i < n; i++ {
		i := i
		id := fmt.Sprintf("prog/%d", i)
		out = append(out, runner.Scenario{ID: id, Run: func() runner.Result { return scenario(id, payload.Hash(seed, 0xC06, uint64(i))) }})
		if i%4 == 0 {
			id3 := fmt.Sprintf("write-in-flight/%d", i)
			out = append(out, runner.Scenario{ID: id3, Run: func() runner.Result { return writeInFlight(id3, payload.Hash(seed, 0xC062, uint64(i))) }})
		}
		if i%12 == 0 {
			shape := (i / 12) % len(firstCallShapes)
			id4 := fmt.Sprintf("first-calls/%s/%d", firstCallShapes[shape].name, i)
			out = append(out, runner.Scenario{ID: id4, Run: func() runner.Result { return firstCalls(id4, payload.Hash(seed, 0xC063, uint64(i)), shape) }})
		}
		if i%15 == 0 {
			id5 := fmt.Sprintf("mux-early-return/%d", i)
			out = append(out, runner.Scenario{ID: id5, Run: func() runner.Result { return muxEarlyReturn(id5, payload.Hash(seed, 0xC064, uint64(i))) }})
		}
		if i%10 == 0 {
			id9 := fmt.Sprintf("write-in-flight-when-handler-fails/%d", i)
			out = append(out, runner.Scenario{ID: id9, Run: func() runner.Result { return writeInFlightWhenHandlerFails(id9, payload.Hash(seed, 0xC068, uint64(i))) }})
		}
		if i%20 == 0 {
			id8 := fmt.Sprintf("long-program/%d", i)
			out = append(out, runner.Scenario{ID: id8, Run: func() runner.Result { return longProgram(id8, payload.Hash(seed, 0xC067, uint64(i))) }})
		}
		if i%10 == 0 {
			id6 := fmt.Sprintf("sized-history/%d", i)
			out = append(out, runner.Scenario{ID: id6, Run: func() runner.Result { return sizedHistory(id6, payload.Hash(seed, 0xC065, uint64(i))) }})
		}
		if i%60 == 0 {
			id7 := fmt.Sprintf("inactivity/%d", i)
			out = append(out, runner.Scenario{ID: id7, Run: func() runner.Result { return inactivity(id7, payload.Hash(seed, 0xC066, uint64(i))) }})
		}
		if i%6 == 0 {
			id2 := fmt.Sprintf("queued-cancel/%d", i)
			out = append(out, runner.Scenario{ID: id2, Run: func() runner.Result { return queuedCancel(id2, payload.Hash(seed, 0xC061, uint64(i))) }})
		}
	}
	return out
}

func main() {
	runner.Main(runner.Check{
		Property: "C06",
		Level:    "exploration",
		Rule:     "one case = one program: 1-2 RPCs drawn from clean shapes and five early-ending kinds (client cancel / close at a seeded position, client close after half-close without draining, handler error / early return at a seeded position) x configuration cell (split, writer buffer, cancel mode, transport capacity, chunkers) x optional soft cancel landing while the client goroutine is parked at one of 12 internal points (incl. inside the decode of a received message) (before the semaphore, after stream creation, between metadata/invoke/message writes, ...), optionally one message that the peer's decoder rejects; followed by a tagged unary probe. A first-calls family makes the newly issued RPC itself unusual: its first send is rejected by its own encoder and then it receives from a handler that speaks first; or its handler returns after the first message while the client sends everything before it receives, also on a transport without buffering (capacity 0). A sized-history family has 4-25 plain unary calls that all complete and differ only in message size (a few of 0.6-64 KiB between runs of 0-39 bytes, state the connection's reader keeps across RPCs); every one must return what it sent. An inactivity family serves RPCs that take longer than the server's InactivityTimeout: the context of a handler that is working must not end. A second family cancels an RPC that is queued behind a soft-cancelled stream whose cancel packet is parked in the transport. Non-trivial: every case whose workload ended on both sides. Distinct: by configuration and program text.",
		Assumptions: []string{
			"programs that deadlock by construction (both sides waiting to receive) are rejected by an abstract simulation before they run",
			"if the workload itself never ends (client call or handler still blocked at quiescence) the case is inconclusive for C06",
			"a probe that fails is accepted only if Conn.Closed() is closed at quiescence",
		},
		Gen:           gen,
		Shards:        14,
		MinNontrivial: 100,
	})
}
