// C07: bytes put on the transport always form a valid, non-interleaved frame stream.
// Monitor: an independent parse of every Transport.Write payload on both
// endpoints (whole frames, non-decreasing (stream,message) ids, one kind per
// id, nothing after a done frame), in-flight Write/Read counters, Close count,
// and acceptance of the captured stream by a fresh real Reader. Workload: API
// storms: several goroutines per side sending multi-frame messages, closing,
// half-closing, flushing, cancelling and starting new RPCs concurrently, with
// transport writes parked at seeded indices and released at quiescence.
package main

import (
	"context"
	"errors"
	"fmt"
	"strings"
	"sync"

	"storj.io/drpc"
	"storj.io/drpc/drpcmanager"
	"storj.io/drpc/drpcmetadata"
	"storj.io/drpc/drpcstream"
	"storj.io/drpc/drpcwire"

	"verifharness/census"
	"verifharness/payload"
	"verifharness/prog"
	"verifharness/refwire"
	"verifharness/rig"
	"verifharness/runner"
	"verifharness/simnet"
)

type flusher interface{ RawFlush() error }

func storm(id string, seed uint64) runner.Result {
	r := &payload.SplitMix{S: seed}
	cfg := prog.GenConfig(r, r.Intn(4) == 0)
	if cfg.Net.Cap == 0 && r.Intn(2) == 0 {
		cfg.Net.Cap = 256
	}
	nrpc := 2 + r.Intn(4)
	var hmu sync.Mutex
	handlerPlan := map[string]uint64{}
	sizeOf := func(rr *payload.SplitMix) int {
		n := prog.SizeClasses(cfg, rr)
		if n > 20000 {
			n = 20000
		}
		if sp := cfg.Client.Stream.SplitSize; sp <= 0 && rr.Intn(8) == 0 {
			n = 66000 + rr.Intn(140000) // a single frame (no splitting) or several maximal frames
		}
		if sp := cfg.Client.Stream.SplitSize; sp > 0 && sp < 8 && n > 600 {
			n = rr.Intn(600)
		}
		return n
	}
	handler := rig.HandlerFunc(func(stream drpc.Stream, rpc string) error {
		hmu.Lock()
		hs := handlerPlan[rpc]
		hmu.Unlock()
		hr := &payload.SplitMix{S: hs}
		var wg sync.WaitGroup
		nsend := hr.Intn(3)
		for g := 0; g < nsend; g++ {
			g := g
			gs := hr.Next()
			wg.Add(1)
			go func() {
				defer wg.Done()
				gr := &payload.SplitMix{S: gs}
				for k := 0; k < 1+gr.Intn(4); k++ {
					m := payload.Make(1, 1, uint16(g), uint32(k), sizeOf(gr))
					if stream.MsgSend(&m, payload.Enc{}) != nil {
						return
					}
					if f, ok := stream.(flusher); ok && gr.Intn(3) == 0 {
						f.RawFlush()
					}
				}
			}()
		}
		reads := hr.Intn(4)
		for k := 0; k < reads; k++ {
			var m []byte
			if stream.MsgRecv(&m, payload.Enc{}) != nil {
				break
			}
		}
		mode := hr.Intn(4)
		if mode != 0 {
			wg.Wait() // mode 0: return while the senders may still be in flight
		}
		switch mode % 2 {
		case 0:
			return errors.New("storm handler error")
		}
		return nil
	})
	rg := rig.New(rig.Config{Net: cfg.Net, Client: cfg.Client, Server: cfg.Server}, handler)
	defer rg.Teardown()
	// gates: park a seeded subset of the first writes on both endpoints
	var gates []*simnet.Gate
	for idx := 0; idx < 60; idx++ {
		if r.Intn(7) == 0 {
			gates = append(gates, rg.Pair.A.GateWriteIdx(idx, simnet.When(r.Intn(2))))
		}
		if r.Intn(7) == 0 {
			gates = append(gates, rg.Pair.B.GateWriteIdx(idx, simnet.When(r.Intn(2))))
		}
	}
	// sometimes one write of one endpoint fails in passing (an expired write deadline: the error
	// calls itself a timeout), with none or some of its bytes accepted; the transport works again afterwards
	transient := ""
	if r.Intn(6) == 0 {
		end, kind := rg.Pair.A, simnet.FaultWriteErrOnly
		transient = "client"
		if r.Intn(2) == 0 {
			end, transient = rg.Pair.B, "server"
		}
		if r.Intn(3) != 0 {
			kind = simnet.FaultWritePartialOnly
		}
		end.SetFault(simnet.Fault{Kind: kind, Offset: int64(20 + r.Intn(6000)), Temporary: r.Intn(4) != 0})
		transient += fmt.Sprintf(" write fault kind=%d", kind)
	}
	if r.Intn(2) == 0 {
		rg.Dir.Perturb(seed, 3)
	}
	var ops int64
	var omu sync.Mutex
	count := func() { omu.Lock(); ops++; omu.Unlock() }
	driver := rig.Go("driver", func() (interface{}, error) {
		for i := 0; i < nrpc; i++ {
			rpc := fmt.Sprintf("/storm/%d", i)
			hmu.Lock()
			handlerPlan[rpc] = payload.Hash(seed, 77, uint64(i))
			hmu.Unlock()
			rr := &payload.SplitMix{S: payload.Hash(seed, 78, uint64(i))}
			ctx, cancel := context.WithCancel(context.Background())
			if rr.Intn(5) == 0 {
				in := payload.Make(1, 0, 0, 0, sizeOf(rr))
				var out []byte
				if rr.Intn(4) == 0 {
					go func() { cancel() }()
				}
				rg.Conn.Invoke(ctx, rpc, payload.Enc{}, &in, &out)
				count()
				cancel()
				continue
			}
			st, err := rg.Conn.NewStream(ctx, rpc, payload.Enc{})
			if err != nil {
				cancel()
				if rig.IsClosed(rg.Conn.Closed()) {
					return nil, nil
				}
				continue
			}
			var wg sync.WaitGroup
			ng := 2 + rr.Intn(4)
			for g := 0; g < ng; g++ {
				g := g
				gs := rr.Next()
				wg.Add(1)
				go func() {
					defer wg.Done()
					gr := &payload.SplitMix{S: gs}
					for k := 0; k < 1+gr.Intn(5); k++ {
						switch op := gr.Intn(12); {
						case op < 6:
							m := payload.Make(1, 0, uint16(g), uint32(k), sizeOf(gr))
							st.MsgSend(&m, payload.Enc{})
						case op < 7:
							st.CloseSend()
						case op < 8:
							st.Close()
						case op < 9:
							if f, ok := st.(flusher); ok {
								f.RawFlush()
							}
						case op < 10:
							cancel()
						default:
							var m []byte
							if gr.Intn(2) == 0 {
								st.MsgRecv(&m, payload.Enc{})
							}
						}
						count()
					}
				}()
			}
			wg.Wait()
			st.Close()
			cancel()
		}
		return nil, nil
	})
	// releaser: at every quiescence release the parked writes
	released := 0
	rel := map[*simnet.Gate]bool{}
	for round := 0; round < 500; round++ {
		st, _ := census.QuiesceOr(driver.Done(), rig.Watchdog)
		if st == "ready" {
			break
		}
		if st == "watchdog" {
			for _, g := range gates {
				g.Release()
			}
			return runner.Inconcl(id, "watchdog: "+cfg.Desc)
		}
		progress := false
		for _, g := range gates {
			if rel[g] {
				continue
			}
			select {
			case <-g.Reached():
				rel[g] = true
				g.Release()
				released++
				progress = true
			default:
			}
			if progress {
				break
			}
		}
		if !progress {
			break // quiescent with nothing parked: the storm is stuck on itself (flow control or a hang)
		}
	}
	for _, g := range gates {
		g.Release()
	}
	st, _ := census.QuiesceOr(driver.Done(), rig.Watchdog)
	fails := append(prog.WireFindings(rg.Pair.A), prog.WireFindings(rg.Pair.B)...)
	hist := fmt.Sprintf("%s rpcs=%d parked-writes-released=%d %s", cfg.Desc, nrpc, released, transient)
	if len(fails) > 0 {
		k := strings.Map(func(r rune) rune {
			if r >= '0' && r <= '9' {
				return -1
			}
			return r
		}, fails[0])
		f := strings.Fields(k)
		if len(f) > 9 {
			f = f[:9]
		}
		return runner.Violation(id, "wire:"+strings.Join(f, "-"), hist+"\n"+strings.Join(fails, "\n"))
	}
	wa, wb := rg.Pair.A.WriteCount(), rg.Pair.B.WriteCount()
	res := runner.Hold(id, hist, wa+wb > 4)
	omu.Lock()
	res.Events = ops
	omu.Unlock()
	res.Stats = map[string]int64{"writes_client": int64(wa), "writes_server": int64(wb), "parked_released": int64(released), "api_calls": res.Events}
	if st != "ready" {
		res.Stats["storm_did_not_finish"] = 1
	}
	res.Sets = map[string][]string{"interleavings": {fmt.Sprintf("%x", rg.Dir.Signature())}}
	res.Sample = map[string]interface{}{"storm": hist, "writes_client": wa, "writes_server": wb}
	return res
}

var terminalPoints = []string{"stream.senderror.mu", "stream.senderror.write", "stream.senderror.emit", "stream.close.mu", "stream.close.write", "stream.close.emit",
	"stream.closesend.mu", "stream.closesend.write", "stream.closesend.emit", "stream.cancel.mu", "stream.sendcancel.write", "stream.msgsend.locked", "stream.msgsend.beforeFlush", "stream.write.betweenFrames"}

func wireVerdict(id, hist string, rg *rig.Rig, nontrivial bool) runner.Result {
	fails := append(prog.WireFindings(rg.Pair.A), prog.WireFindings(rg.Pair.B)...)
	if len(fails) > 0 {
		k := strings.Map(func(r rune) rune {
			if r >= '0' && r <= '9' {
				return -1
			}
			return r
		}, fails[0])
		f := strings.Fields(k)
		if len(f) > 9 {
			f = f[:9]
		}
		return runner.Violation(id, "wire:"+strings.Join(f, "-"), hist+"\n"+strings.Join(fails, "\n"))
	}
	wa, wb := rg.Pair.A.WriteCount(), rg.Pair.B.WriteCount()
	res := runner.Hold(id, hist, nontrivial && wa+wb > 2)
	res.Events = int64(wa + wb)
	res.Stats = map[string]int64{"writes_client": int64(wa), "writes_server": int64(wb)}
	res.Sets = map[string][]string{"interleavings": {fmt.Sprintf("%x", rg.Dir.Signature())}}
	res.Sample = map[string]interface{}{"case": hist}
	return res
}

// parkedTerminal (client side): goroutine A's send is parked inside the
// transport after delivering its bytes, goroutine B issues a terminal call
// (Close / CloseSend / SendError) which is additionally parked at one of its
// internal points, the server ends the RPC remotely, goroutine C starts the next
// RPCs; then the write and finally the terminal call are released.
func parkedTerminal(id string, seed uint64) runner.Result {
	r := &payload.SplitMix{S: seed}
	cfg := prog.GenConfig(r, false)
	cfg.Net.Cap = -1
	term := payload.Pick(r, []string{"close", "closesend", "senderror", "send"})
	point := "stream." + term + "." + payload.Pick(r, []string{"mu", "write", "emit"})
	nth := 1
	if term == "send" {
		// a second sender queues on the write lock behind the parked one and is itself held right
		// after it got the lock (a slow Marshal), while the stream ends and the next RPCs begin
		point, nth = "stream.msgsend.locked", 2
	}
	handlerErr := r.Intn(2) == 0
	bsize := 50 + r.Intn(500)
	handler := rig.HandlerFunc(func(stream drpc.Stream, rpc string) error {
		var m []byte
		stream.MsgRecv(&m, payload.Enc{})
		if rpc != "/first" {
			out := payload.Make(2, 1, 0, 0, 300)
			return stream.MsgSend(&out, payload.Enc{})
		}
		if handlerErr {
			return errors.New("first rpc failed")
		}
		return nil
	})
	rg := rig.New(rig.Config{Net: cfg.Net, Client: cfg.Client, Server: cfg.Server}, handler)
	defer rg.Teardown()
	park := rg.Dir.ParkAt(point, rg.Pair.A, nth)
	ctx, cancel := context.WithCancel(context.Background())
	defer cancel()
	st, err := rg.Conn.NewStream(ctx, "/first", payload.Enc{})
	if err != nil {
		return runner.Inconcl(id, "NewStream failed")
	}
	gate := rg.Pair.A.GateNextWrite(simnet.After)
	a := rig.Go("A:send", func() (interface{}, error) {
		m := payload.Make(1, 0, 0, 0, 100+r.Intn(3000))
		return nil, st.MsgSend(&m, payload.Enc{})
	})
	if s, _ := census.QuiesceOr(gate.Reached(), rig.Watchdog); s != "ready" {
		gate.Release()
		return runner.Inconcl(id, "the send did not reach the transport")
	}
	b := rig.Go("B:"+term, func() (interface{}, error) {
		switch term {
		case "close":
			return nil, st.Close()
		case "closesend":
			return nil, st.CloseSend()
		case "send":
			m := payload.Make(1, 0, 1, 0, bsize)
			return nil, st.MsgSend(&m, payload.Enc{})
		default:
			return nil, st.(interface{ SendError(error) error }).SendError(errors.New("client gives up"))
		}
	})
	census.Quiesce(rig.Watchdog)
	c := rig.Go("C:next", func() (interface{}, error) {
		for i := 0; i < 2; i++ {
			in := payload.Make(2, 0, 0, 0, 50)
			var out []byte
			rg.Conn.Invoke(context.Background(), "/next", payload.Enc{}, &in, &out)
		}
		return nil, nil
	})
	census.Quiesce(rig.Watchdog)
	gate.Release()
	census.Quiesce(rig.Watchdog)
	reached := park.IsReached()
	park.Release()
	census.Quiesce(rig.Watchdog)
	st.Close()
	census.Quiesce(rig.Watchdog)
	hist := fmt.Sprintf("%s | parked-terminal client: send parked in transport, %s parked at %s (reached=%v), handler-error=%v, then 2 more RPCs; returned A=%v B=%v C=%v", cfg.Desc, term, point, reached, handlerErr, a.Returned(), b.Returned(), c.Returned())
	return wireVerdict(id, hist, rg, reached)
}

// cancelAtCreation: several goroutines issue RPCs on one connection; the goroutine of one of them
// is parked at an internal point of stream creation (semaphore acquired, stream published, handed
// over, created, after the metadata/invoke writes) and its context is cancelled there, while the
// others are waiting to create the next streams; then it is released.
func cancelAtCreation(id string, seed uint64) runner.Result {
	r := &payload.SplitMix{S: seed}
	cfg := prog.GenConfig(r, false)
	if r.Intn(4) != 0 {
		cfg.Client.SoftCancel, cfg.Server.SoftCancel = true, true
	}
	cfg.Net.Cap = -1
	point := payload.Pick(r, []string{"manager.sem.acquired", "manager.newstream.published", "manager.newstream.beforeSet", "conn.newstream.afterCreate", "conn.invoke.afterCreate", "conn.newstream.afterMeta", "conn.invoke.afterMeta", "conn.invoke.afterInvoke"})
	nth := 1 + r.Intn(3)
	ngo := 2 + r.Intn(3)
	handler := rig.HandlerFunc(func(stream drpc.Stream, rpc string) error {
		var m []byte
		if err := stream.MsgRecv(&m, payload.Enc{}); err != nil {
			return nil
		}
		out := payload.Make(2, 1, 0, 0, 40)
		return stream.MsgSend(&out, payload.Enc{})
	})
	rg := rig.New(rig.Config{Net: cfg.Net, Client: cfg.Client, Server: cfg.Server}, handler)
	defer rg.Teardown()
	park := rg.Dir.ParkAt(point, rg.Pair.A, nth)
	var mu sync.Mutex
	cancels := map[int64]context.CancelFunc{} // by goroutine id
	var ops []*rig.Op
	for g := 0; g < ngo; g++ {
		g := g
		ops = append(ops, rig.Go(fmt.Sprintf("caller%d", g), func() (interface{}, error) {
			for k := 0; k < 3; k++ {
				ctx, cancel := context.WithCancel(context.Background())
				if (g+k)%2 == 0 {
					ctx = drpcmetadata.Add(ctx, "k", fmt.Sprint(g, k))
				}
				mu.Lock()
				cancels[census.Self()] = cancel
				mu.Unlock()
				if (g+k)%3 == 0 {
					in := payload.Make(1, 0, 0, 0, 30)
					var out []byte
					rg.Conn.Invoke(ctx, "/u", payload.Enc{}, &in, &out)
				} else if st, err := rg.Conn.NewStream(ctx, "/s", payload.Enc{}); err == nil {
					in := payload.Make(1, 0, 0, 0, 30)
					st.MsgSend(&in, payload.Enc{})
					st.CloseSend()
					var out []byte
					st.MsgRecv(&out, payload.Enc{})
					st.Close()
				}
				cancel()
			}
			return nil, nil
		}))
	}
	reached := false
	if st, _ := census.QuiesceOr(park.Reached(), rig.Watchdog); st == "ready" {
		reached = true
		census.Quiesce(rig.Watchdog)
		// cancel the RPC of the goroutine that is parked at the point
		if gid := park.Gid(); gid != 0 {
			mu.Lock()
			c := cancels[gid]
			mu.Unlock()
			if c != nil {
				c()
			}
		}
		census.Quiesce(rig.Watchdog)
	}
	park.Release()
	for _, op := range ops {
		op.Wait()
	}
	census.Quiesce(rig.Watchdog)
	hist := fmt.Sprintf("%s | cancel-at-creation: %d goroutines x 3 RPCs, the goroutine making hit #%d of %s is cancelled there (reached=%v)", cfg.Desc, ngo, nth, point, reached)
	return wireVerdict(id, hist, rg, reached)
}

// rawNextInvoke: a server built directly on drpcmanager.Manager hands each
// stream to its own goroutine; a raw peer moves on to the next stream without
// closing the previous one while the previous reply is parked in the transport
// and the handler's error is queued behind it (optionally parked at a point).
func rawNextInvoke(id string, seed uint64) runner.Result {
	r := &payload.SplitMix{S: seed}
	cfg := prog.GenConfig(r, false)
	cfg.Net.Cap = -1
	handlerErr := r.Intn(3) != 0
	rg := rig.New(rig.Config{Net: cfg.Net, NoConn: true, NoSrv: true}, nil)
	defer rg.Teardown()
	man := drpcmanager.NewWithOptions(rg.Pair.B, cfg.Server)
	defer man.Close()
	handle := func(stream *drpcstream.Stream, rpc string) {
		var m []byte
		stream.MsgRecv(&m, payload.Enc{})
		done := make(chan struct{})
		go func() {
			defer close(done)
			out := payload.Make(1, 1, 0, 0, 400)
			stream.MsgSend(&out, payload.Enc{})
		}()
		if rpc != "/rpc1" {
			<-done
		}
		if handlerErr {
			stream.SendError(errors.New("failed " + rpc))
		} else {
			stream.CloseSend()
		}
	}
	rig.Go("serve", func() (interface{}, error) {
		for {
			stream, rpc, err := man.NewServerStream(context.Background())
			if err != nil {
				return nil, err
			}
			go handle(stream, rpc)
		}
	})
	raw := rg.Pair.A
	rig.Go("drain", func() (interface{}, error) {
		buf := make([]byte, 4096)
		for {
			if _, err := raw.Read(buf); err != nil {
				return nil, nil
			}
		}
	})
	gate := rg.Pair.B.GateWriteIdx(0, simnet.Before)
	point := ""
	var park interface {
		Release()
		IsReached() bool
	}
	if r.Intn(4) != 0 {
		point = payload.Pick(r, []string{"stream.senderror.write", "stream.senderror.emit", "stream.closesend.write", "stream.closesend.emit", "stream.senderror.mu"})
		park = rg.Dir.ParkAt(point, rg.Pair.B, 1)
	}
	nstreams := 2 + r.Intn(3)
	frames := func(sid uint64) []byte {
		var o []byte
		o = drpcAppend(o, sid, 1, 1, []byte(fmt.Sprintf("/rpc%d", sid)))
		o = drpcAppend(o, sid, 2, 2, payload.Make(sid, 0, 0, 0, 30))
		return o
	}
	raw.Write(frames(1))
	census.Quiesce(rig.Watchdog)
	for sid := uint64(2); sid <= uint64(nstreams); sid++ {
		raw.Write(frames(sid)) // next invoke without closing the previous stream
		census.Quiesce(rig.Watchdog)
		if sid == 2 {
			gate.Release()
			census.Quiesce(rig.Watchdog)
			if park != nil {
				park.Release()
				census.Quiesce(rig.Watchdog)
			}
		}
	}
	gate.Release()
	if park != nil {
		park.Release()
	}
	census.Quiesce(rig.Watchdog)
	hist := fmt.Sprintf("%s | raw-next-invoke (manager-level server) streams=%d handler-error=%v park=%s", cfg.Desc, nstreams, handlerErr, point)
	return wireVerdict(id, hist, rg, true)
}

// longHistory: nothing concurrent, just long: tens of thousands of messages on one stream in each
// direction, or tens of thousands of unary RPCs on one connection, so that message ids and stream ids
// grow through the sizes at which their encoding changes length. The wire is judged as everywhere else.
func longHistory(id string, seed uint64, what string, n int) runner.Result {
	r := &payload.SplitMix{S: seed}
	cfg := prog.GenConfig(r, false)
	cfg.Net.Cap = -1
	cfg.Client.Stream.ManualFlush, cfg.Server.Stream.ManualFlush = false, false
	handler := rig.HandlerFunc(func(stream drpc.Stream, rpc string) error {
		var m []byte
		if rpc == "/unary" {
			if err := stream.MsgRecv(&m, payload.Enc{}); err != nil {
				return err
			}
			return stream.MsgSend(&m, payload.Enc{})
		}
		if rpc == "/fail" {
			if err := stream.MsgRecv(&m, payload.Enc{}); err != nil {
				return err
			}
			// the error's text is as long as the request says
			return errors.New(strings.Repeat("e", int(m[0])<<12|int(m[1])<<4))
		}
		k := 0
		for stream.MsgRecv(&m, payload.Enc{}) == nil {
			k++
		}
		for i := 0; i < k; i++ {
			out := []byte{byte(i)}
			if err := stream.MsgSend(&out, payload.Enc{}); err != nil {
				return err
			}
		}
		return nil
	})
	rg := rig.New(rig.Config{Net: cfg.Net, Client: cfg.Client, Server: cfg.Server}, handler)
	defer rg.Teardown()
	hist := fmt.Sprintf("%s | long history: %d %s", cfg.Desc, n, what)
	op := rig.Go("long", func() (interface{}, error) {
		if what == "unary RPCs that fail with long error texts" {
			for i := 0; i < n; i++ {
				// texts of 0 .. ~1 MiB, around the sizes at which frames are split
				sz := []int{0, 1000, 4090, 4096, 65520, 65536, 70000, 131072, 200000, 1000000}[i%10]
				in := []byte{byte(sz >> 12), byte(sz >> 4)}
				var out []byte
				if err := rg.Conn.Invoke(context.Background(), "/fail", payload.Enc{}, &in, &out); err == nil {
					return nil, fmt.Errorf("rpc #%d: the handler failed and the call returned nil", i+1)
				} else if rig.IsClosed(rg.Conn.Closed()) {
					return nil, fmt.Errorf("rpc #%d (error text of about %d bytes): the connection is closed: %w", i+1, sz, err)
				}
			}
			return nil, nil
		}
		if what == "unary RPCs on one connection" {
			for i := 0; i < n; i++ {
				in := []byte{byte(i), byte(i >> 8)}
				var out []byte
				if err := rg.Conn.Invoke(context.Background(), "/unary", payload.Enc{}, &in, &out); err != nil {
					return nil, fmt.Errorf("rpc #%d: %w", i+1, err)
				}
			}
			return nil, nil
		}
		st, err := rg.Conn.NewStream(context.Background(), "/stream", payload.Enc{})
		if err != nil {
			return nil, err
		}
		defer st.Close()
		for i := 0; i < n; i++ {
			m := []byte{byte(i)}
			if err := st.MsgSend(&m, payload.Enc{}); err != nil {
				return nil, fmt.Errorf("send #%d: %w", i+1, err)
			}
		}
		if err := st.CloseSend(); err != nil {
			return nil, err
		}
		for i := 0; i < n; i++ {
			var m []byte
			if err := st.MsgRecv(&m, payload.Enc{}); err != nil {
				return nil, fmt.Errorf("receive #%d: %w", i+1, err)
			}
		}
		return nil, nil
	})
	if !op.Wait() {
		hist += " (the workload did not finish)"
	} else if op.Err != nil {
		hist += " (the workload ended with " + rig.ErrStr(op.Err) + ")"
	}
	census.Quiesce(rig.Watchdog)
	return wireVerdict(id, hist, rg, true)
}

// lateCalls: RPC 1 has ended (gracefully with both half-closes, or by the handler's error, or by the
// client's Close) and RPC 2 is under way on the connection when the application comes back to the
// stream object of RPC 1 and calls things on it that are documented to do nothing by then: SendError,
// Close, CloseSend, SendCancel, RawFlush, a send. Whatever they return, nothing of stream 1 may reach
// the wire behind frames of stream 2.
func lateCalls(id string, seed uint64) runner.Result {
	r := &payload.SplitMix{S: seed}
	cfg := prog.GenConfig(r, false)
	if cfg.Net.Cap == 0 {
		cfg.Net.Cap = -1
	}
	ending := payload.Pick(r, []string{"both-half-closes", "handler-error", "client-close"})
	release := make(chan struct{})
	handler := rig.HandlerFunc(func(stream drpc.Stream, rpc string) error {
		var m []byte
		if rpc == "/second" {
			for stream.MsgRecv(&m, payload.Enc{}) == nil {
			}
			out := payload.Make(2, 1, 0, 0, 5)
			return stream.MsgSend(&out, payload.Enc{})
		}
		for stream.MsgRecv(&m, payload.Enc{}) == nil {
		}
		if ending == "handler-error" {
			return errors.New("first failed")
		}
		return nil
	})
	rg := rig.New(rig.Config{Net: cfg.Net, Client: cfg.Client, Server: cfg.Server}, handler)
	defer rg.Teardown()
	defer close(release)
	st1, err := rg.Conn.NewStream(context.Background(), "/first", payload.Enc{})
	if err != nil {
		return runner.Inconcl(id, "NewStream: "+err.Error())
	}
	in := payload.Make(1, 0, 0, 0, 20)
	st1.MsgSend(&in, payload.Enc{})
	if ending == "client-close" {
		st1.Close()
	} else {
		st1.CloseSend()
		var m []byte
		for st1.MsgRecv(&m, payload.Enc{}) == nil {
		}
	}
	census.Quiesce(rig.Watchdog)
	st2, err := rg.Conn.NewStream(context.Background(), "/second", payload.Enc{})
	if err != nil {
		return runner.Hold(id, "the connection did not survive the first RPC: "+cfg.Desc, false)
	}
	in2 := payload.Make(2, 0, 0, 0, 3000)
	st2.MsgSend(&in2, payload.Enc{})
	census.Quiesce(rig.Watchdog)
	// the late calls on the old stream, in a seeded order, some of them while stream 2 is sending
	raw, _ := st1.(*drpcstream.Stream)
	calls := []string{"SendError", "Close", "CloseSend", "SendCancel", "RawFlush", "MsgSend", "RawWrite"}
	for i := len(calls) - 1; i > 0; i-- {
		j := r.Intn(i + 1)
		calls[i], calls[j] = calls[j], calls[i]
	}
	calls = calls[:2+r.Intn(len(calls)-1)]
	var sender *rig.Op
	if r.Intn(2) == 0 {
		sender = rig.Go("stream2-send", func() (interface{}, error) {
			for k := 0; k < 4; k++ {
				m := payload.Make(2, 0, 0, uint32(k+1), 5000)
				if err := st2.MsgSend(&m, payload.Enc{}); err != nil {
					return nil, err
				}
			}
			return nil, nil
		})
	}
	for _, c := range calls {
		switch c {
		case "SendError":
			if raw != nil {
				raw.SendError(errors.New("late error"))
			}
		case "Close":
			st1.Close()
		case "CloseSend":
			st1.CloseSend()
		case "SendCancel":
			if raw != nil {
				raw.SendCancel(errors.New("late cancel"))
			}
		case "RawFlush":
			if raw != nil {
				raw.RawFlush()
			}
		case "MsgSend":
			m := payload.Make(1, 0, 0, 9, 10)
			st1.MsgSend(&m, payload.Enc{})
		case "RawWrite":
			if raw != nil {
				raw.RawWrite(drpcwire.KindMessage, []byte("late"))
			}
		}
	}
	if sender != nil {
		sender.Wait()
	}
	st2.CloseSend()
	var m []byte
	for st2.MsgRecv(&m, payload.Enc{}) == nil {
	}
	st2.Close()
	census.Quiesce(rig.Watchdog)
	hist := fmt.Sprintf("%s | late-calls: RPC 1 ended by %s, RPC 2 under way (sending meanwhile: %v), then on the stream of RPC 1: %s", cfg.Desc, ending, sender != nil, strings.Join(calls, ", "))
	return wireVerdict(id, hist, rg, true)
}

func drpcAppend(dst []byte, sid, mid uint64, kind uint8, data []byte) []byte {
	return refwire.Encode(dst, refwire.Frame{Stream: sid, Message: mid, Kind: kind, Done: true, Data: data})
}

// parkEnc is an encoding whose Marshal waits until it is released.
type parkEnc struct {
	entered chan struct{}
	release chan struct{}
}

func (e parkEnc) Marshal(m drpc.Message) ([]byte, error) {
	close(e.entered)
	<-e.release
	return payload.Enc{}.Marshal(m)
}
func (parkEnc) Unmarshal(b []byte, m drpc.Message) error { return payload.Enc{}.Unmarshal(b, m) }

// slowEncoder: one goroutine's MsgSend is inside a slow encoder; meanwhile 1-4 other goroutines of the
// same endpoint call RawWrite, MsgSend, RawFlush and finally perhaps CloseSend on the stream and queue
// up behind it. Then the encoder finishes. Whatever order the emitters get, the ids on the wire
// never go down.
func slowEncoder(id string, seed uint64) runner.Result {
	r := &payload.SplitMix{S: seed}
	cfg := prog.GenConfig(r, r.Intn(4) == 0)
	if cfg.Net.Cap == 0 {
		cfg.Net.Cap = -1
	}
	side := payload.Pick(r, []string{"client", "server"})
	nq := 1 + r.Intn(4)
	var plan []string
	for g := 0; g < nq; g++ {
		plan = append(plan, payload.Pick(r, []string{"RawWrite", "RawWrite", "MsgSend", "RawWrite,RawWrite", "RawWrite,MsgSend", "RawFlush,RawWrite", "MsgSend,RawWrite", "RawWrite,CloseSend"}))
	}
	size := r.Intn(3000)
	pe := parkEnc{entered: make(chan struct{}), release: make(chan struct{})}
	run := func(st drpc.Stream) {
		raw, _ := st.(*drpcstream.Stream)
		first := rig.Go("slow-send", func() (interface{}, error) {
			m := payload.Make(1, 0, 0, 0, size)
			return nil, st.MsgSend(&m, pe)
		})
		<-pe.entered
		var ops []*rig.Op
		for g, p := range plan {
			g, p := g, p
			ops = append(ops, rig.Go("queued", func() (interface{}, error) {
				for k, c := range strings.Split(p, ",") {
					switch c {
					case "RawWrite":
						if raw != nil {
							raw.RawWrite(drpcwire.KindMessage, payload.Make(1, 0, uint16(g+1), uint32(k), 10))
						}
					case "MsgSend":
						m := payload.Make(1, 0, uint16(g+1), uint32(k), 700)
						st.MsgSend(&m, payload.Enc{})
					case "RawFlush":
						if raw != nil {
							raw.RawFlush()
						}
					case "CloseSend":
						st.CloseSend()
					}
				}
				return nil, nil
			}))
			// one after the other: each is waiting before the next starts
			census.Quiesce(rig.Watchdog)
		}
		close(pe.release)
		first.Wait()
		for _, op := range ops {
			op.Wait()
		}
	}
	done := make(chan struct{})
	handler := rig.HandlerFunc(func(stream drpc.Stream, rpc string) error {
		if side == "server" {
			run(stream)
			close(done)
			return nil
		}
		var m []byte
		for stream.MsgRecv(&m, payload.Enc{}) == nil {
		}
		return nil
	})
	rg := rig.New(rig.Config{Net: cfg.Net, Client: cfg.Client, Server: cfg.Server}, handler)
	defer rg.Teardown()
	st, err := rg.Conn.NewStream(context.Background(), "/slow-encoder", payload.Enc{})
	if err != nil {
		return runner.Inconcl(id, "NewStream: "+err.Error())
	}
	drv := rig.Go("driver", func() (interface{}, error) {
		if side == "client" {
			run(st)
			st.CloseSend()
		} else if f, ok := st.(flusher); ok {
			f.RawFlush()
		}
		var m []byte
		for st.MsgRecv(&m, payload.Enc{}) == nil {
		}
		if side == "server" {
			<-done
		}
		return nil, st.Close()
	})
	hist := fmt.Sprintf("%s | slow-encoder on the %s: a MsgSend of %d bytes inside its encoder while %d goroutines queue up behind it with [%s]", cfg.Desc, side, size, nq, strings.Join(plan, " | "))
	if !drv.Wait() {
		select {
		case <-pe.release:
		default:
			close(pe.release)
		}
		return runner.Inconcl(id, "the driver blocked: "+hist)
	}
	census.Quiesce(rig.Watchdog)
	return wireVerdict(id, hist, rg, true)
}

func gen(tier string, seed uint64) []runner.Scenario {
	n := 1000
	if tier == "thorough" {
		n = 20000
	}
	var out []runner.Scenario
	longs := []struct {
		what string
		n    int
	}{{"messages each way on one stream", 33500}, {"unary RPCs on one connection", 17000}, {"unary RPCs that fail with long error texts", 30}}
	if tier == "thorough" {
		longs = append(longs, longs[0], longs[1])
		longs[3].n, longs[4].n = 140000, 70000
	}
	for i, l := range longs {
		i, l := i, l
		id := fmt.Sprintf("long-history/%s/%d", strings.Fields(l.what)[0], l.n)
		out = append(out, runner.Scenario{ID: id, Run: func() runner.Result { return longHistory(id, payload.Hash(seed, 0xC074, uint64(i)), l.what, l.n) }})
	}
	for i := 0; i < n; i++ {
		i := i
		id := fmt.Sprintf("storm/%d", i)
		out = append(out, runner.Scenario{ID: id, Run: func() runner.Result { return storm(id, payload.Hash(seed, 0xC07, uint64(i))) }})
		id2 := fmt.Sprintf("parked-terminal/%d", i)
		out = append(out, runner.Scenario{ID: id2, Run: func() runner.Result { return parkedTerminal(id2, payload.Hash(seed, 0xC071, uint64(i))) }})
		if i%2 == 0 {
			id4 := fmt.Sprintf("cancel-at-creation/%d", i)
			out = append(out, runner.Scenario{ID: id4, Run: func() runner.Result { return cancelAtCreation(id4, payload.Hash(seed, 0xC073, uint64(i))) }})
		}
		if i%4 == 1 {
			id6 := fmt.Sprintf("slow-encoder/%d", i)
			out = append(out, runner.Scenario{ID: id6, Run: func() runner.Result { return slowEncoder(id6, payload.Hash(seed, 0xC076, uint64(i))) }})
		}
		if i%4 == 0 {
			id5 := fmt.Sprintf("late-calls/%d", i)
			out = append(out, runner.Scenario{ID: id5, Run: func() runner.Result { return lateCalls(id5, payload.Hash(seed, 0xC075, uint64(i))) }})
		}
		id3 := fmt.Sprintf("raw-next-invoke/%d", i)
		out = append(out, runner.Scenario{ID: id3, Run: func() runner.Result { return rawNextInvoke(id3, payload.Hash(seed, 0xC072, uint64(i))) }})
	}
	return out
}

func main() {
	runner.Main(runner.Check{
		Property: "C07",
		Level:    "exploration",
		Rule:     "five families. (late-calls) RPC 1 has ended (both half-closes / handler error / client Close), RPC 2 is under way, and 2-7 of SendError, Close, CloseSend, SendCancel, RawFlush, MsgSend, RawWrite are called on the stream object of RPC 1 in a seeded order, in half of the cases while RPC 2 is sending. (long-history) 33500 (thorough: 140000) one-byte messages each way on one stream, 17000 (thorough: 70000) unary RPCs on one connection, and 30 unary RPCs whose handler fails with error texts of 0 bytes to 1 MB, sequentially: message and stream ids grow through the values at which their encoding changes length. (storm) one case = one storm on one connection: 2-5 RPCs; in each streaming RPC 2-5 client goroutines issue 1-5 of MsgSend (boundary sizes, multi-frame), CloseSend, Close, RawFlush, context cancel, MsgRecv on the shared stream; the handler runs 0-2 sender goroutines plus a reader and returns nil or an error, one time in four while its senders are still in flight; about one in seven of the first 60 writes of each endpoint is parked (before or after delivering its bytes) and released one at a time at quiescence; seeded configuration cell, both cancel modes, perturbed scheduling in half of the cases. (parked-terminal) a client send parked inside the transport, a concurrent Close/CloseSend/SendError parked at one of its three internal points, the server ending the RPC remotely, further RPCs started, then write and call released in turn. (raw-next-invoke) a manager-level server handling each stream in its own goroutine, a raw peer moving to the next stream without closing the previous while the reply is parked in the transport and the terminal call is parked. Non-trivial: more than 4 transport writes observed. Distinct: by configuration and storm seed (program text is determined by the seed). (slow-encoder) a MsgSend held inside its encoder while 1-4 goroutines of the same endpoint (client, or inside the handler) queue up behind it with RawWrite, MsgSend, RawFlush, CloseSend.",
		Assumptions: []string{
			"the monitor reads the transport tap only; nothing about delivery is asserted here",
			"a storm that cannot finish (application-level flow-control deadlock) is still judged on the bytes it wrote",
			"data races reported by the race detector with storj.io/drpc frames are violations of this property",
		},
		Gen:           gen,
		Shards:        14,
		MinNontrivial: 100,
	})
}
