// C15: the connection pool never exceeds its bounds or mishandles ownership.
// Monitors: a structural walk of the pool's lists under its own lock after
// every operation and inside every parked expiry window (walk lengths == count
// fields, global == union of per-key lists, bounds), and an ownership ledger
// over fake connections (every Put instance ends handed-out XOR closed-by-pool,
// Take never returns a closed/blocked/expiring or unowned connection).
// Expiry callbacks are parked at their internal Points while other calls run.
package main

import (
	"context"
	"fmt"
	"strings"
	"sync"
	"sync/atomic"
	"time"

	"storj.io/drpc"
	"storj.io/drpc/drpcpool"

	"verifharness/census"
	"verifharness/director"
	"verifharness/payload"
	"verifharness/rig"
	"verifharness/runner"
)

type fakeConn struct {
	id        int
	closed    chan struct{}
	once      sync.Once
	closeN    int32 // Close calls made by the pool (the harness uses userClose)
	unblocked chan struct{}
	mu        sync.Mutex
	tr        *useTracker   // set in the handle-level scenarios
	slow      time.Duration // how long Close takes (closing a real connection talks to the network)
	failNew   error         // what NewStream returns instead of a stream
}

var closedCh = func() chan struct{} { c := make(chan struct{}); close(c); return c }()

func newConn(id int, blocked bool) *fakeConn {
	c := &fakeConn{id: id, closed: make(chan struct{}), unblocked: closedCh}
	if blocked {
		c.unblocked = make(chan struct{})
	}
	return c
}

func (c *fakeConn) Close() error {
	atomic.AddInt32(&c.closeN, 1)
	c.once.Do(func() { close(c.closed) })
	census.Bump()
	if c.slow > 0 {
		time.Sleep(c.slow)
	}
	return nil
}
func (c *fakeConn) userClose()                 { c.once.Do(func() { close(c.closed) }) }
func (c *fakeConn) Closed() <-chan struct{}    { return c.closed }
func (c *fakeConn) Unblocked() <-chan struct{} { return c.unblocked }
func (c *fakeConn) Invoke(ctx context.Context, rpc string, enc drpc.Encoding, in, out drpc.Message) error {
	if c.tr != nil {
		c.tr.enter(c, "Invoke")
		defer c.tr.leave(c)
	}
	return nil
}
func (c *fakeConn) NewStream(ctx context.Context, rpc string, enc drpc.Encoding) (drpc.Stream, error) {
	if c.tr == nil {
		return nil, fmt.Errorf("not supported")
	}
	if atomic.CompareAndSwapInt32(&c.tr.failNew, 1, 0) {
		// the connection refuses this one stream (its request cannot be encoded, say) and stays open
		return nil, fmt.Errorf("stream refused")
	}
	c.tr.enter(c, "NewStream")
	st := &fakeStream{c: c, done: make(chan struct{})}
	return st, nil
}

// useTracker records how the pool's handles use the underlying connections: a connection is in use
// from the moment Invoke/NewStream is called on it until the call returned / the stream finished.
type useTracker struct {
	failNew int32 // 1: the next NewStream on an underlying connection fails, the connection stays open
	mu      sync.Mutex
	inUse   map[*fakeConn]int
	fails   []string
}

func (t *useTracker) enter(c *fakeConn, what string) {
	t.mu.Lock()
	defer t.mu.Unlock()
	if c.isClosed() {
		t.fails = append(t.fails, fmt.Sprintf("%s was called on connection c%d which is closed", what, c.id))
	}
	t.inUse[c]++
	if t.inUse[c] > 1 {
		t.fails = append(t.fails, fmt.Sprintf("connection c%d was handed to a second caller (%s) while a stream or call of another caller is still running on it", c.id, what))
	}
}

func (t *useTracker) leave(c *fakeConn) {
	t.mu.Lock()
	t.inUse[c]--
	t.mu.Unlock()
}

// fakeStream is a stream on a fakeConn; its context ends when finish is called.
type fakeStream struct {
	c    *fakeConn
	done chan struct{}
	once sync.Once
}

type fakeStreamCtx struct {
	context.Context
	done chan struct{}
}

func (f fakeStreamCtx) Done() <-chan struct{} { return f.done }
func (f fakeStreamCtx) Err() error {
	select {
	case <-f.done:
		return context.Canceled
	default:
		return nil
	}
}

func (s *fakeStream) Context() context.Context {
	return fakeStreamCtx{Context: context.Background(), done: s.done}
}
func (s *fakeStream) MsgSend(drpc.Message, drpc.Encoding) error { return nil }
func (s *fakeStream) MsgRecv(drpc.Message, drpc.Encoding) error { return nil }
func (s *fakeStream) CloseSend() error                          { return nil }
func (s *fakeStream) Close() error                              { s.finish(); return nil }
func (s *fakeStream) finish() {
	s.once.Do(func() {
		s.c.tr.leave(s.c)
		close(s.done)
		census.Bump()
	})
}
func (c *fakeConn) isClosed() bool { return rig.IsClosed(c.closed) }

type pool = drpcpool.Pool[string, *fakeConn]

// ledger entry for one Put instance.
type inst struct {
	conn       *fakeConn
	key        string
	putAlready bool // conn was already closed when Put was called
	taken      int
	blocked    bool
}

type monitor struct {
	opts   drpcpool.Options
	p      *pool
	mu     sync.Mutex
	insts  []*inst
	byConn map[*fakeConn]*inst // current (latest) instance per conn
	fails  []string
	snaps  int64
}

func (m *monitor) failf(format string, args ...interface{}) {
	m.mu.Lock()
	if len(m.fails) < 8 {
		m.fails = append(m.fails, fmt.Sprintf(format, args...))
	}
	m.mu.Unlock()
}

// check walks the pool under its lock and asserts the structural invariants and bounds.
func (m *monitor) check(where string) {
	s := m.p.VerifSnapshot()
	atomic.AddInt64(&m.snaps, 1)
	if s.WalkLimit {
		m.failf("%s: list walk did not terminate (cycle)", where)
		return
	}
	if s.GlobalCount != len(s.GlobalVals) {
		m.failf("%s: global count field %d but the global list holds %d entries", where, s.GlobalCount, len(s.GlobalVals))
	}
	sum := 0
	inKeys := map[*fakeConn]bool{}
	for k, vals := range s.KeyVals {
		sum += len(vals)
		for _, v := range vals {
			inKeys[v] = true
		}
		_ = k
	}
	for k, c := range s.KeyCount {
		if c != len(s.KeyVals[k]) {
			m.failf("%s: key %q count field %d but its list holds %d entries", where, k, c, len(s.KeyVals[k]))
		}
		if c < 0 {
			m.failf("%s: key %q has negative count %d", where, k, c)
		}
	}
	perKey := map[string]int{}
	for i, v := range s.GlobalVals {
		perKey[s.GlobalKeys[i]]++
		if !inKeys[v] {
			m.failf("%s: conn %d (key %q) is cached in the global list but not reachable through its key (Take can never return it)", where, v.id, s.GlobalKeys[i])
		}
	}
	if sum != len(s.GlobalVals) {
		m.failf("%s: per-key lists hold %d entries, global list holds %d", where, sum, len(s.GlobalVals))
	}
	cached := len(s.GlobalVals)
	if sum > cached {
		cached = sum
	}
	switch {
	case m.opts.Capacity < 0 || m.opts.KeyCapacity < 0:
		if cached > 0 {
			m.failf("%s: negative capacity means nothing is cached, but %d are", where, cached)
		}
	default:
		if m.opts.Capacity > 0 && cached > m.opts.Capacity {
			m.failf("%s: %d connections cached, Capacity is %d", where, cached, m.opts.Capacity)
		}
		if m.opts.KeyCapacity > 0 {
			for k, n := range perKey {
				if n > m.opts.KeyCapacity {
					m.failf("%s: %d connections cached for key %q, KeyCapacity is %d", where, n, k, m.opts.KeyCapacity)
				}
			}
			for k, vals := range s.KeyVals {
				if len(vals) > m.opts.KeyCapacity {
					m.failf("%s: %d connections in key %q's list, KeyCapacity is %d", where, len(vals), k, m.opts.KeyCapacity)
				}
			}
		}
	}
}

func (m *monitor) put(key string, c *fakeConn) {
	m.mu.Lock()
	in := &inst{conn: c, key: key, putAlready: c.isClosed(), blocked: !rig.IsClosed(c.unblocked)}
	m.insts = append(m.insts, in)
	m.byConn[c] = in
	m.mu.Unlock()
	m.p.Put(key, c)
}

func (m *monitor) take(key string, where string) *fakeConn {
	c, ok := m.p.Take(key)
	if !ok {
		return nil
	}
	m.mu.Lock()
	in := m.byConn[c]
	m.mu.Unlock()
	switch {
	case in == nil:
		m.failf("%s: Take(%q) returned a connection that was never put", where, key)
	default:
		m.mu.Lock()
		in.taken++
		n := in.taken
		m.mu.Unlock()
		if n > 1 {
			m.failf("%s: Take(%q) handed conn %d out a second time", where, key, c.id)
		}
		if in.key != key {
			m.failf("%s: Take(%q) returned conn %d which was put under key %q", where, key, c.id, in.key)
		}
	}
	if c.isClosed() {
		m.failf("%s: Take(%q) returned conn %d which is closed", where, key, c.id)
	}
	if !rig.IsClosed(c.Unblocked()) {
		m.failf("%s: Take(%q) returned conn %d which is still blocked by a cancelled call", where, key, c.id)
	}
	return c
}

// final checks the ledger after the pool was closed and every callback ran.
func (m *monitor) final() {
	m.mu.Lock()
	defer m.mu.Unlock()
	for _, in := range m.insts {
		if m.byConn[in.conn] != in {
			continue // the conn was put again later; only its latest instance can be judged by close counts
		}
		byPool := atomic.LoadInt32(&in.conn.closeN)
		switch {
		case in.taken > 0 && byPool > 0:
			m.fails = append(m.fails, fmt.Sprintf("conn %d (key %q) was handed out by Take and also closed by the pool", in.conn.id, in.key))
		case in.taken == 0 && byPool == 0 && !in.putAlready && !in.conn.isClosed():
			m.fails = append(m.fails, fmt.Sprintf("conn %d (key %q) was put but neither handed out nor closed by the pool (leaked)", in.conn.id, in.key))
		case byPool > 1:
			m.fails = append(m.fails, fmt.Sprintf("conn %d closed %d times by the pool", in.conn.id, byPool))
		}
	}
}

type cfg struct {
	cap, kcap int
	exp       time.Duration
}

var caps = []int{-1, 0, 1, 2, 3}

// sequential history (no timers firing): Expiration 0 or 1h.
func sequential(id string, seed uint64, c cfg) runner.Result {
	r := &payload.SplitMix{S: seed}
	opts := drpcpool.Options{Capacity: c.cap, KeyCapacity: c.kcap, Expiration: c.exp}
	m := &monitor{opts: opts, p: drpcpool.New[string, *fakeConn](opts), byConn: map[*fakeConn]*inst{}}
	keys := []string{"a", "b", "c"}[:1+r.Intn(3)]
	var held []*fakeConn
	var blockedConns []*fakeConn
	var hist []string
	nid := 0
	n := 4 + r.Intn(20)
	for i := 0; i < n; i++ {
		k := keys[r.Intn(len(keys))]
		switch op := r.Intn(10); {
		case op < 4:
			nid++
			cn := newConn(nid, r.Intn(6) == 0)
			if cn.unblocked != closedCh {
				blockedConns = append(blockedConns, cn)
			}
			if r.Intn(8) == 0 {
				cn.userClose()
			}
			hist = append(hist, fmt.Sprintf("Put(%s,c%d)", k, nid))
			m.put(k, cn)
		case op < 7:
			hist = append(hist, fmt.Sprintf("Take(%s)", k))
			if cn := m.take(k, strings.Join(hist, " ")); cn != nil {
				held = append(held, cn)
				hist[len(hist)-1] += fmt.Sprintf("=c%d", cn.id)
			}
		case op < 8 && len(held) > 0:
			j := r.Intn(len(held))
			cn := held[j]
			held = append(held[:j], held[j+1:]...)
			hist = append(hist, fmt.Sprintf("Put-back(%s,c%d)", m.byConn[cn].key, cn.id))
			m.put(m.byConn[cn].key, cn)
		case op < 9:
			// close a cached conn from outside (peer went away)
			s := m.p.VerifSnapshot()
			if len(s.GlobalVals) > 0 {
				cn := s.GlobalVals[r.Intn(len(s.GlobalVals))]
				cn.userClose()
				hist = append(hist, fmt.Sprintf("conn-close(c%d)", cn.id))
			}
		default:
			if len(blockedConns) > 0 {
				cn := blockedConns[0]
				blockedConns = blockedConns[1:]
				close(cn.unblocked)
				hist = append(hist, fmt.Sprintf("unblock(c%d)", cn.id))
			}
		}
		m.check(strings.Join(hist, " "))
	}
	m.p.Close()
	m.check(strings.Join(hist, " ") + " pool.Close")
	if s := m.p.VerifSnapshot(); len(s.GlobalVals) != 0 || len(s.KeyVals) != 0 {
		m.failf("after pool.Close %d entries remain cached", len(s.GlobalVals))
	}
	m.final()
	return m.result(id, fmt.Sprintf("cap=%d keycap=%d exp=%v", c.cap, c.kcap, c.exp), hist)
}

func (m *monitor) result(id, conf string, hist []string) runner.Result {
	m.mu.Lock()
	defer m.mu.Unlock()
	if len(m.fails) > 0 {
		key := m.fails[0]
		if i := strings.LastIndex(key, ": "); i >= 0 && strings.Contains(key, "Put(") {
			key = key[i+2:]
		}
		f := strings.Fields(strings.Map(func(r rune) rune {
			if r >= '0' && r <= '9' {
				return -1
			}
			return r
		}, key))
		if len(f) > 6 {
			f = f[:6]
		}
		v := runner.Violation(id, "pool:"+strings.Join(f, "-"), conf+" history: "+strings.Join(hist, " ")+"\n"+strings.Join(m.fails, "\n"))
		return v
	}
	res := runner.Hold(id, conf+" "+strings.Join(hist, " "), len(hist) >= 3)
	res.Events = m.snaps
	res.Stats = map[string]int64{"snapshots": m.snaps, "ops": int64(len(hist))}
	res.Sample = map[string]interface{}{"config": conf, "history": hist}
	return res
}

// expiry: Expiration 1ms; the k-th expiry callback is parked at one of its
// points; operations run inside the window; then it is released.
func expiry(id string, seed uint64, c cfg, point string) runner.Result {
	r := &payload.SplitMix{S: seed}
	opts := drpcpool.Options{Capacity: c.cap, KeyCapacity: c.kcap, Expiration: time.Millisecond}
	m := &monitor{opts: opts, p: drpcpool.New[string, *fakeConn](opts), byConn: map[*fakeConn]*inst{}}
	d := director.New(nil)
	director.Install(d)
	defer director.Install(nil)
	nput := 1 + r.Intn(3)
	nth := 1
	if nput > 1 && c.cap != 1 && c.kcap != 1 {
		// (with a capacity of one every Put evicts its predecessor and stops its timer: only one callback ever runs)
		nth += r.Intn(2)
	}
	park := d.ParkAt(point, m.p, nth)
	keys := []string{"a", "b"}[:1+r.Intn(2)]
	var hist []string
	nid := 0
	for i := 0; i < nput; i++ {
		nid++
		k := keys[r.Intn(len(keys))]
		hist = append(hist, fmt.Sprintf("Put(%s,c%d)", k, nid))
		m.put(k, newConn(nid, false))
	}
	// wait (event, not sleep) for an expiry callback to reach the point
	st, _ := census.QuiesceOr(park.Reached(), 5*time.Second)
	for tries := 0; st == "quiescent" && tries < 2000; tries++ {
		// quiescent only means the timer has not fired yet: timers are outside the census
		time.Sleep(200 * time.Microsecond)
		st, _ = census.QuiesceOr(park.Reached(), 5*time.Second)
	}
	if st != "ready" {
		park.Release()
		m.p.Close()
		census.Quiesce(rig.Watchdog)
		return runner.Inconcl(id, "no expiry callback reached "+point)
	}
	hist = append(hist, "<"+point+">")
	m.check(strings.Join(hist, " "))
	var held []*fakeConn
	nops := 1 + r.Intn(5)
	closedPool := false
	for i := 0; i < nops; i++ {
		k := keys[r.Intn(len(keys))]
		switch op := r.Intn(8); {
		case op < 3:
			hist = append(hist, fmt.Sprintf("Take(%s)", k))
			if cn := m.take(k, strings.Join(hist, " ")); cn != nil {
				held = append(held, cn)
				hist[len(hist)-1] += fmt.Sprintf("=c%d", cn.id)
			}
		case op < 6:
			nid++
			hist = append(hist, fmt.Sprintf("Put(%s,c%d)", k, nid))
			m.put(k, newConn(nid, false))
		case op < 7 && len(held) > 0:
			cn := held[0]
			held = held[1:]
			hist = append(hist, fmt.Sprintf("Put-back(%s,c%d)", m.byConn[cn].key, cn.id))
			m.put(m.byConn[cn].key, cn)
		default:
			if !closedPool && r.Intn(2) == 0 {
				hist = append(hist, "pool.Close")
				m.p.Close()
				closedPool = true
			}
		}
		m.check(strings.Join(hist, " "))
	}
	hist = append(hist, "<release>")
	park.Release()
	census.Quiesce(rig.Watchdog)
	m.check(strings.Join(hist, " "))
	// more operations after the callback completed
	for i := 0; i < 2+r.Intn(4); i++ {
		k := keys[r.Intn(len(keys))]
		if r.Intn(2) == 0 {
			nid++
			hist = append(hist, fmt.Sprintf("Put(%s,c%d)", k, nid))
			m.put(k, newConn(nid, false))
		} else {
			hist = append(hist, fmt.Sprintf("Take(%s)", k))
			if cn := m.take(k, strings.Join(hist, " ")); cn != nil {
				hist[len(hist)-1] += fmt.Sprintf("=c%d", cn.id)
			}
		}
		m.check(strings.Join(hist, " "))
	}
	hist = append(hist, "pool.Close")
	m.p.Close()
	census.Quiesce(rig.Watchdog)
	m.check(strings.Join(hist, " "))
	if s := m.p.VerifSnapshot(); len(s.GlobalVals) != 0 || len(s.KeyVals) != 0 {
		m.failf("after pool.Close %d entries remain cached", len(s.GlobalVals))
	}
	m.final()
	res := m.result(id, fmt.Sprintf("cap=%d keycap=%d exp=1ms park=%s", c.cap, c.kcap, point), hist)
	if res.Verdict == runner.Held {
		res.Sets = map[string][]string{"interleavings": {fmt.Sprintf("%x", d.Signature())}}
	}
	return res
}

// concurrent: goroutines hammer one pool; invariants after every op, ledger at the end.
func concurrent(id string, seed uint64, c cfg) runner.Result {
	opts := drpcpool.Options{Capacity: c.cap, KeyCapacity: c.kcap, Expiration: c.exp}
	m := &monitor{opts: opts, p: drpcpool.New[string, *fakeConn](opts), byConn: map[*fakeConn]*inst{}}
	d := director.New(nil)
	d.Perturb(seed, 3)
	director.Install(d)
	defer director.Install(nil)
	var wg sync.WaitGroup
	var nid int32
	workers := 4
	var ops int64
	// two or three keys; in half of the cases closing a connection takes a moment (the calls that
	// happen to run meanwhile are the schedule)
	keys := []string{"a", "b", "c"}[:2+int(seed%2)]
	slowClose := (seed>>1)%2 == 0
	for w := 0; w < workers; w++ {
		w := w
		wg.Add(1)
		go func() {
			defer wg.Done()
			r := &payload.SplitMix{S: payload.Hash(seed, uint64(w))}
			var held []*fakeConn
			for i := 0; i < 120; i++ {
				k := keys[r.Intn(len(keys))]
				if r.Intn(2) == 0 {
					var cn *fakeConn
					if len(held) > 0 && r.Intn(2) == 0 {
						cn = held[0]
						held = held[1:]
						k = func() string { m.mu.Lock(); defer m.mu.Unlock(); return m.byConn[cn].key }()
					} else {
						cn = newConn(int(atomic.AddInt32(&nid, 1)), false)
						if slowClose {
							cn.slow = time.Duration(20+r.Intn(200)) * time.Microsecond
						}
					}
					m.put(k, cn)
				} else if cn := m.take(k, "concurrent Take"); cn != nil {
					held = append(held, cn)
				}
				atomic.AddInt64(&ops, 1)
				m.check("concurrent")
				if c.exp > 0 && r.Intn(10) == 0 {
					time.Sleep(c.exp)
				}
			}
		}()
	}
	wg.Wait()
	m.p.Close()
	census.Quiesce(rig.Watchdog)
	m.check("after pool.Close")
	m.final()
	res := m.result(id, fmt.Sprintf("cap=%d keycap=%d exp=%v concurrent keys=%d slow-close=%v", c.cap, c.kcap, c.exp, len(keys), slowClose), []string{fmt.Sprintf("%d workers x 120 ops", workers), "a", "b"})
	res.Events = ops
	return res
}

// handles: the pool is used through the connections Get hands out (Invoke, NewStream, Close on the
// handle) rather than through Put/Take: underlying connections are dialed on demand, returned to the
// pool when a call returns or a stream finishes, and must never serve two callers at once.
var doneCtx = func() context.Context {
	ctx, cancel := context.WithCancel(context.Background())
	cancel()
	return ctx
}()

func handles(id string, seed uint64, c cfg) runner.Result {
	r := &payload.SplitMix{S: seed}
	opts := drpcpool.Options{Capacity: c.cap, KeyCapacity: c.kcap, Expiration: c.exp}
	p := drpcpool.New[string, *fakeConn](opts)
	tr := &useTracker{inUse: map[*fakeConn]int{}}
	var dmu sync.Mutex
	var dialed []*fakeConn
	dial := func(ctx context.Context, key string) (*fakeConn, error) {
		dmu.Lock()
		defer dmu.Unlock()
		cn := newConn(len(dialed)+1, false)
		cn.tr = tr
		dialed = append(dialed, cn)
		return cn, nil
	}
	type handle struct {
		name   string
		key    string
		conn   drpcpool.Conn
		closed bool
	}
	var hs []*handle
	for i := 0; i < 2+r.Intn(2); i++ {
		k := []string{"a", "b"}[r.Intn(2)]
		hs = append(hs, &handle{name: fmt.Sprintf("h%d", i+1), key: k, conn: p.Get(context.Background(), k, dial)})
	}
	type open struct {
		h        *handle
		wrapped  drpc.Stream
		finished bool
		n        int
	}
	var streams []*open
	var hist []string
	var fails []string
	nstream := 0
	check := func() {
		census.Quiesce(rig.Watchdog)
		for _, o := range streams {
			if !o.finished && rig.IsClosed(o.wrapped.Context().Done()) {
				fails = append(fails, fmt.Sprintf("after %s: the context of stream s%d reports done although the stream has not finished", hist[len(hist)-1], o.n))
				o.finished = true // report once
			}
		}
		snap := p.VerifSnapshot()
		if c.cap > 0 && len(snap.GlobalVals) > c.cap {
			fails = append(fails, fmt.Sprintf("after %s: %d connections cached, capacity %d", hist[len(hist)-1], len(snap.GlobalVals), c.cap))
		}
	}
	nops := 6 + r.Intn(14)
	for i := 0; i < nops && len(fails) == 0; i++ {
		h := hs[r.Intn(len(hs))]
		switch op := r.Intn(10); {
		case op < 3:
			// every fifth call comes with a context that is over already: whatever the handle
			// decides to do with it, the connections it touches stay accounted for
			ctx, what := context.Background(), "Invoke"
			if r.Intn(5) == 0 {
				ctx, what = doneCtx, "Invoke(ctx-already-cancelled)"
			}
			err := h.conn.Invoke(ctx, "/x", nil, nil, nil)
			hist = append(hist, fmt.Sprintf("%s.%s", h.name, what))
			if h.closed && err == nil {
				fails = append(fails, fmt.Sprintf("%s.Invoke succeeded after %s.Close", h.name, h.name))
			}
		case op < 6:
			refuse := r.Intn(4) == 0
			if refuse {
				atomic.StoreInt32(&tr.failNew, 1)
			}
			sctx := context.Background()
			if refuse && r.Intn(2) == 0 {
				sctx = doneCtx // refused because the caller's context is over
			}
			st, err := h.conn.NewStream(sctx, "/x", nil)
			atomic.StoreInt32(&tr.failNew, 0)
			nstream++
			if refuse {
				hist = append(hist, fmt.Sprintf("%s.NewStream=refused-by-the-connection", h.name))
				if err == nil {
					fails = append(fails, fmt.Sprintf("%s.NewStream succeeded although the underlying connection refused the stream", h.name))
				}
			} else {
				hist = append(hist, fmt.Sprintf("%s.NewStream=s%d", h.name, nstream))
			}
			if err == nil {
				streams = append(streams, &open{h: h, wrapped: st, n: nstream})
				if h.closed {
					fails = append(fails, fmt.Sprintf("%s.NewStream succeeded after %s.Close", h.name, h.name))
				}
			}
		case op < 9:
			// finish a seeded open stream
			var cand []*open
			for _, o := range streams {
				if !o.finished {
					cand = append(cand, o)
				}
			}
			if len(cand) == 0 {
				continue
			}
			o := cand[r.Intn(len(cand))]
			o.finished = true
			o.wrapped.Close()
			hist = append(hist, fmt.Sprintf("finish(s%d)", o.n))
		default:
			if h.closed {
				continue // closing a handle twice is not part of this property
			}
			h.closed = true
			h.conn.Close()
			hist = append(hist, fmt.Sprintf("%s.Close", h.name))
		}
		check()
	}
	for _, o := range streams {
		if !o.finished {
			o.finished = true
			o.wrapped.Close()
		}
	}
	census.Quiesce(rig.Watchdog)
	p.Close()
	census.Quiesce(rig.Watchdog)
	tr.mu.Lock()
	fails = append(fails, tr.fails...)
	tr.mu.Unlock()
	dmu.Lock()
	for _, cn := range dialed {
		if !cn.isClosed() {
			fails = append(fails, fmt.Sprintf("connection c%d was dialed through a handle and is neither closed nor cached after every stream finished and the pool was closed", cn.id))
		} else if n := atomic.LoadInt32(&cn.closeN); n > 1 {
			fails = append(fails, fmt.Sprintf("connection c%d was closed %d times", cn.id, n))
		}
	}
	ndial := len(dialed)
	dmu.Unlock()
	conf := fmt.Sprintf("cap=%d keycap=%d exp=%v handles", c.cap, c.kcap, c.exp)
	if len(fails) > 0 {
		return runner.Violation(id, "pool:handles:"+keyOfFail(fails[0]), conf+" history: "+strings.Join(hist, " ")+"\n"+strings.Join(fails, "\n"))
	}
	res := runner.Hold(id, conf+" "+strings.Join(hist, " "), len(hist) >= 3)
	res.Events = int64(len(hist))
	res.Stats = map[string]int64{"dials": int64(ndial), "handle_streams": int64(nstream)}
	return res
}

func keyOfFail(s string) string {
	s = strings.Map(func(r rune) rune {
		if r >= '0' && r <= '9' {
			return -1
		}
		return r
	}, s)
	f := strings.Fields(s)
	if len(f) > 8 {
		f = f[:8]
	}
	return strings.Join(f, "-")
}

func gen(tier string, seed uint64) []runner.Scenario {
	var out []runner.Scenario
	thorough := tier == "thorough"
	reps := 4
	if thorough {
		reps = 80
	}
	i := 0
	for _, cp := range caps {
		for _, kc := range caps {
			for _, exp := range []time.Duration{0, time.Hour} {
				for rep := 0; rep < reps; rep++ {
					c := cfg{cp, kc, exp}
					id := fmt.Sprintf("seq/cap=%d/kcap=%d/exp=%v/%d", cp, kc, exp, rep)
					s := payload.Hash(seed, 0x15, uint64(i))
					i++
					out = append(out, runner.Scenario{ID: id, Run: func() runner.Result { return sequential(id, s, c) }})
				}
			}
		}
	}
	points := []string{"pool.expire.fired", "pool.expire.closed", "pool.remove.beforeLock"}
	ereps := 3
	if thorough {
		ereps = 60
	}
	for _, cp := range []int{0, 1, 2, 3} {
		for _, kc := range []int{0, 1, 2} {
			for _, pt := range points {
				for rep := 0; rep < ereps; rep++ {
					c := cfg{cp, kc, time.Millisecond}
					pt := pt
					id := fmt.Sprintf("expiry/cap=%d/kcap=%d/%s/%d", cp, kc, pt, rep)
					s := payload.Hash(seed, 0x151, uint64(i))
					i++
					out = append(out, runner.Scenario{ID: id, Run: func() runner.Result { return expiry(id, s, c, pt) }})
				}
			}
		}
	}
	hreps := 3
	if thorough {
		hreps = 60
	}
	for _, cp := range []int{0, 1, 2} {
		for _, kc := range []int{0, 1} {
			for rep := 0; rep < hreps; rep++ {
				c := cfg{cp, kc, 0}
				id := fmt.Sprintf("handles/cap=%d/kcap=%d/%d", cp, kc, rep)
				s := payload.Hash(seed, 0x153, uint64(i))
				i++
				out = append(out, runner.Scenario{ID: id, Run: func() runner.Result { return handles(id, s, c) }})
			}
		}
	}
	creps := 2
	if thorough {
		creps = 12
	}
	for _, cp := range []int{0, 1, 2, 3} {
		for _, kc := range []int{0, 1, 2} {
			for _, exp := range []time.Duration{0, 200 * time.Microsecond} {
				for rep := 0; rep < creps; rep++ {
					c := cfg{cp, kc, exp}
					id := fmt.Sprintf("concurrent/cap=%d/kcap=%d/exp=%v/%d", cp, kc, exp, rep)
					s := payload.Hash(seed, 0x152, uint64(i))
					i++
					out = append(out, runner.Scenario{ID: id, Run: func() runner.Result { return concurrent(id, s, c) }})
				}
			}
		}
	}
	return out
}

func main() {
	runner.Main(runner.Check{
		Property: "C15",
		Level:    "exploration",
		Rule:     "one case = one history on one pool of fake connections: (seq) 4-24 seeded Put/Take/put-back/outside-close/unblock operations over 1-3 keys for every (Capacity, KeyCapacity) in {-1,0,1,2,3}^2 with no expiry firing; (expiry) Expiration=1ms, an expiry callback parked at one of its three internal points (fired / after Close / before the lock), 1-5 operations (Take, Put, put-back, pool.Close) run inside that window, release, more operations; (concurrent) 4 goroutines x 120 Put/Take over 2-3 keys with perturbed scheduling, with and without expiry, in half of the cases with connections whose Close takes 20-220 us; (handles) 2-3 connection handles from Pool.Get over 1-2 keys, 6-19 seeded Invoke (a fifth with a context that is over already) / NewStream (a quarter of them refused by the underlying connection, which stays open) / finish-a-stream / handle.Close operations: an underlying connection never serves two callers at once and never after it was closed, a wrapped stream's context ends only after the stream finished, every dialed connection ends up closed exactly once. After every operation and in every window the pool is walked under its lock. Non-trivial: histories of >= 3 operations. Distinct: by configuration and history.",
		Assumptions: []string{
			"which eligible connection Take returns and which entry is evicted are not asserted",
			"a connection that was already closed when Put is called may be dropped without a pool-initiated Close",
			"timers are outside the blocked-goroutine census: the harness waits for the parked callback by event and bounds the wait; pool.Close followed by quiescence is taken as 'every callback has run'",
		},
		Gen:           gen,
		Shards:        14,
		MinNontrivial: 100,
	})
}
