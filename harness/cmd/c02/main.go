// C02: streams on a reused connection are isolated from each other.
// Monitor: every message and error observed by every RPC of a multi-RPC program
// on one connection is attributed through its payload tag: a Recv/Invoke result
// carrying another RPC's tag or direction, an error generated for another RPC,
// or a failing RPC that neither side aborted on a connection that never
// closed, refutes the property. Late-packet windows are built by parking the
// next RPC at internal points while the previous RPC's leftovers are in flight.
package main

import (
	"bytes"
	"context"
	"errors"
	"fmt"
	"strings"
	"sync/atomic"
	"time"

	"storj.io/drpc"
	"storj.io/drpc/drpcerr"
	"storj.io/drpc/drpcmux"

	"verifharness/census"
	"verifharness/director"
	"verifharness/payload"
	"verifharness/prog"
	"verifharness/rig"
	"verifharness/runner"
	"verifharness/simnet"
)

func actsString(a []prog.Act) string {
	var b strings.Builder
	for _, x := range a {
		b.WriteByte(x.Op)
	}
	return b.String()
}

func describe(s *prog.Script) string {
	ret := ""
	if s.Ret != nil {
		ret = "!err"
	}
	if s.Unary {
		bad := ""
		if s.BadReq {
			bad = "(request fails to marshal)"
		}
		return fmt.Sprintf("#%d unary%s h=[%s]%s", s.Tag, bad, actsString(s.Handler), ret)
	}
	return fmt.Sprintf("#%d c=[%s] h=[%s]%s", s.Tag, actsString(s.Client), actsString(s.Handler), ret)
}

var parkPoints = []string{"conn.newstream.afterMeta", "conn.invoke.afterMeta", "conn.newstream.afterCreate", "conn.invoke.afterCreate", "manager.newstream.beforeSet", "conn.invoke.afterInvoke", "manager.sem.acquired", "stream.rawwrite.locked"}

// lateRecv builds the "late first receive" program: RPC 1 half-closes, its handler returns without
// sending, and RPC 1's first receive happens only when the next RPC of another goroutine has been
// created on the connection and sits, with frames written but not yet flushed, at an internal point.
func lateRecv(r *payload.SplitMix, cfg prog.Config) (all []*prog.Script, groups [][]*prog.Script, point string) {
	first := &prog.Script{Tag: 1, Clean: true}
	for i := 0; i < r.Intn(3); i++ {
		first.Client = append(first.Client, prog.Act{Op: 's', Size: prog.SizeClasses(cfg, r) % 3000})
	}
	if r.Intn(2) == 0 {
		first.Client = append(first.Client, prog.Act{Op: 'h'}, prog.Act{Op: 'q'}, prog.Act{Op: 'R'})
	} else {
		// the late call is a second Close: the RPC is over (read to the end), the handle is closed
		// again only when the next RPC has frames buffered in the shared writer
		first.Client = append(first.Client, prog.Act{Op: 'h'}, prog.Act{Op: 'R'}, prog.Act{Op: 'c'}, prog.Act{Op: 'q'}, prog.Act{Op: 'c'})
	}
	first.Handler = []prog.Act{{Op: 'R'}}
	var second *prog.Script
	for {
		second = prog.GenClean(r, 2, cfg)
		v := r.Intn(3)
		if v == 0 && !second.Unary {
			second.Meta = map[string]string{"rpc": "2"}
			point = "conn.newstream.afterMeta"
			break
		}
		if v == 1 && second.Unary {
			second.Meta = map[string]string{"rpc": "2"}
			point = "conn.invoke.afterMeta"
			break
		}
		if v == 2 && second.Unary {
			second.Meta = nil
			point = "conn.invoke.afterInvoke"
			break
		}
	}
	all = []*prog.Script{first, second}
	groups = [][]*prog.Script{{first}, {second}}
	for i := 0; i < r.Intn(3); i++ {
		s := prog.GenClean(r, uint64(3+i), cfg)
		all = append(all, s)
		g := r.Intn(2)
		groups[g] = append(groups[g], s)
	}
	return all, groups, point
}

// abandoned builds the "abandoned after its metadata" program: a few clean RPCs without metadata,
// then RPC X with metadata whose goroutine is parked right after the metadata write and cancelled
// there (so the wire carries its metadata and, under soft cancel, a cancel, but never its invoke),
// then clean RPCs of which the first carries metadata of its own.
func abandoned(r *payload.SplitMix, cfg prog.Config) (all []*prog.Script, groups [][]*prog.Script, point string) {
	tag := uint64(1)
	groups = make([][]*prog.Script, 2)
	for i := 0; i < r.Intn(3); i++ {
		s := prog.GenClean(r, tag, cfg)
		s.Meta = nil
		all = append(all, s)
		groups[0] = append(groups[0], s)
		tag++
	}
	x := prog.GenClean(r, tag, cfg)
	x.Meta = map[string]string{"rpc": fmt.Sprint(tag), fmt.Sprintf("only-%d", tag): "x"}
	point = "conn.newstream.afterMeta"
	if x.Unary {
		point = "conn.invoke.afterMeta"
	}
	all = append(all, x)
	groups[0] = append(groups[0], x)
	tag++
	g := r.Intn(2) // the followers run on the same goroutine or on another one that is already waiting
	for i := 0; i < 2+r.Intn(3); i++ {
		s := prog.GenClean(r, tag, cfg)
		if i == 0 || r.Intn(2) == 0 {
			s.Meta = map[string]string{"rpc": fmt.Sprint(tag)}
		} else {
			s.Meta = nil
		}
		all = append(all, s)
		groups[g] = append(groups[g], s)
		tag++
	}
	if len(groups[1]) == 0 {
		groups = groups[:1]
	}
	return all, groups, point
}

// finishRace builds the "cancel meets finish" program: RPC 1 ends normally on both sides, and its
// context is cancelled while one of the goroutines that complete it sits at an internal point of
// that completion (so the connection handles "finished" and "cancelled" of RPC 1 together). RPC 2
// of the same goroutine then sends, cancels its own context and receives; more clean RPCs follow.
// Whatever RPC 1 left behind must not decide how RPC 2's own cancel or the later RPCs turn out.
var finishPoints = []string{"stream.fin", "manager.stream.fin", "stream.close.mu", "stream.closesend.emit", "manager.stream.ctx", "manager.stream.beforeSendCancel"}

func finishRace(r *payload.SplitMix, cfg prog.Config) (all []*prog.Script, groups [][]*prog.Script, point string) {
	first := &prog.Script{Tag: 1}
	for i := 0; i <= r.Intn(2); i++ {
		first.Client = append(first.Client, prog.Act{Op: 's', Size: prog.SizeClasses(cfg, r) % 3000})
	}
	first.Client = append(first.Client, prog.Act{Op: 'h'}, prog.Act{Op: 'R'})
	first.Handler = []prog.Act{{Op: 'R'}}
	if r.Intn(2) == 0 {
		first.Handler = append(first.Handler, prog.Act{Op: 's', Size: 10})
	}
	second := &prog.Script{Tag: 2, Client: []prog.Act{{Op: 's', Size: r.Intn(100)}, {Op: 'x'}, {Op: 'r'}}, Handler: []prog.Act{{Op: 'r'}, {Op: 'R'}}}
	all = []*prog.Script{first, second}
	for i := 0; i <= r.Intn(3); i++ {
		all = append(all, prog.GenClean(r, uint64(3+i), cfg))
	}
	return all, [][]*prog.Script{all}, payload.Pick(r, finishPoints)
}

// flushParked: RPC 1 (manual flushing) has its explicit flush inside the transport, bytes already
// delivered, when the peer ends the RPC (handler error or plain return); the flush then returns and the
// client only closes its stream. RPC 2, a clean one, follows: how RPC 1 was ended by the peer must not
// decide whether RPC 2 goes through.
func flushParked(id string, seed uint64) runner.Result {
	r := &payload.SplitMix{S: seed}
	cfg := prog.GenConfig(r, true)
	cfg.Net.Cap = -1
	cfg.Client.WriterBufferSize, cfg.Server.WriterBufferSize = 1<<20, 1<<20
	first := &prog.Script{Tag: 1, Client: []prog.Act{{Op: 's', Size: r.Intn(300)}, {Op: 'f'}}, Handler: []prog.Act{{Op: 'r'}}}
	if r.Intn(2) == 0 {
		first.Ret = &prog.ErrSpec{Code: 3}
	}
	second := prog.GenClean(r, 2, cfg)
	x := prog.New(cfg, []*prog.Script{first, second})
	defer x.Rig.Teardown()
	gate := x.Rig.Pair.A.GateNextWrite(simnet.After)
	op1 := rig.Go("rpc1", func() (interface{}, error) { x.RunClient(first); return nil, nil })
	st, _ := census.QuiesceOr(gate.Reached(), rig.Watchdog)
	hist := fmt.Sprintf("%s | flush-parked: rpc1 %s with its explicit flush inside the transport while the handler ends the rpc (err=%v); then %s", cfg.Desc, describe(first), first.Ret != nil, describe(second))
	if st != "ready" {
		gate.Release()
		return runner.Inconcl(id, "the flush did not reach the transport: "+hist)
	}
	census.Quiesce(rig.Watchdog) // the handler has run and its end of the rpc has arrived
	gate.Release()
	census.Quiesce(rig.Watchdog)
	if !op1.Returned() {
		return runner.Inconcl(id, "rpc1 never returned: "+hist)
	}
	op2 := rig.Go("rpc2", func() (interface{}, error) { x.RunClient(second); return nil, nil })
	w := rig.WaitAny(op2.Done())
	_, snap := census.Quiesce(rig.Watchdog)
	if w == "watchdog" {
		return runner.Inconcl(id, "watchdog: "+hist)
	}
	if rig.IsClosed(x.Rig.Conn.Closed()) {
		return runner.Hold(id, hist+" (connection closed)", false)
	}
	if !op2.Returned() {
		return runner.Violation(id, "isolation:rpc-never-completes-after-the-peer-ended-the-previous-rpc-during-a-flush", hist+"\nrpc2 is blocked at quiescence on a connection that is not closed\n"+census.Dump(census.InDRPC(snap)))
	}
	l := x.Log(2)
	evs := l.Snapshot()
	var fails []string
	for _, e := range evs {
		if e.Err != nil && !(e.Op == "recv" && rig.Cat(e.Err) == "eof") {
			fails = append(fails, fmt.Sprintf("rpc 2 was aborted by neither side and the connection never closed, yet %c:%s failed: %s", e.Side, e.Op, rig.ErrStr(e.Err)))
		}
	}
	fails = append(fails, completeness(l, evs)...)
	if len(fails) > 0 {
		return runner.Violation(id, "isolation:clean-rpc-disturbed-after-flush-parked-rpc", hist+"\n"+strings.Join(fails, "\n"))
	}
	res := runner.Hold(id, hist, true)
	res.Events = int64(len(evs))
	return res
}

// reusedResponse: unary calls on one connection into one reused response variable; some responses are
// zero-length messages. Each call must return the response to its own request: an empty response must
// leave the variable empty, not holding what an earlier call put there.
func reusedResponse(id string, seed uint64) runner.Result {
	r := &payload.SplitMix{S: seed}
	cfg := prog.GenConfig(r, false)
	if cfg.Net.Cap == 0 {
		cfg.Net.Cap = -1
	}
	handler := rig.HandlerFunc(func(stream drpc.Stream, rpc string) error {
		var m []byte
		if err := stream.MsgRecv(&m, payload.Enc{}); err != nil {
			return err
		}
		h, err := payload.Parse(m)
		if err != nil {
			return err
		}
		out := []byte{}
		if h.Seq%2 == 0 {
			out = payload.Make(h.Tag, 1, 0, h.Seq, int(h.Seq)*3)
		}
		return stream.MsgSend(&out, payload.Enc{})
	})
	rg := rig.New(rig.Config{Net: cfg.Net, Client: cfg.Client, Server: cfg.Server}, handler)
	defer rg.Teardown()
	var out []byte
	n := 3 + r.Intn(6)
	var seqs []uint32
	for i := 0; i < n; i++ {
		seqs = append(seqs, uint32(r.Intn(8)))
	}
	var fails []string
	for i, q := range seqs {
		tag := uint64(i + 1)
		in := payload.Make(tag, 0, 0, q, 5)
		op := rig.Go("invoke", func() (interface{}, error) {
			return nil, rg.Conn.Invoke(context.Background(), "/get", payload.Enc{}, &in, &out)
		})
		if !op.Wait() {
			return runner.Inconcl(id, "a unary call blocked")
		}
		if op.Err != nil {
			fails = append(fails, fmt.Sprintf("call %d failed: %s", i+1, rig.ErrStr(op.Err)))
			break
		}
		if q%2 == 1 {
			if len(out) != 0 {
				h, _ := payload.Parse(out)
				fails = append(fails, fmt.Sprintf("call %d got an empty response but its response variable holds %d bytes (the response of call %d)", i+1, len(out), h.Tag))
			}
		} else if h, err := payload.Parse(out); err != nil || h.Tag != tag || h.Seq != q {
			fails = append(fails, fmt.Sprintf("call %d: response is not its own (tag %d seq %d, err %v)", i+1, h.Tag, h.Seq, err))
		}
	}
	desc := fmt.Sprintf("%s | %d unary calls into one reused response variable, responses empty for odd %v", cfg.Desc, n, seqs)
	if len(fails) > 0 {
		return runner.Violation(id, "isolation:unary-call-returns-another-calls-response", desc+"\n"+strings.Join(fails, "\n"))
	}
	res := runner.Hold(id, desc, true)
	res.Events = int64(n)
	return res
}

// endedEarlyBehindBufferedAnswer: a server that leaves flushing to its handlers. In each round the
// handler of a streaming RPC sends one answer (it stays in the writer), the client ends that RPC early
// (Close, or its context cancelled with soft cancel), the handler notices and returns nil. What the
// client did to that RPC concerns that RPC: the unary RPC that follows must get its own answer.
func endedEarlyBehindBufferedAnswer(id string, seed uint64) runner.Result {
	r := &payload.SplitMix{S: seed}
	cfg := prog.GenConfig(r, false)
	if cfg.Net.Cap == 0 {
		cfg.Net.Cap = -1
	}
	how := payload.Pick(r, []string{"Close", "cancel"})
	soft := how == "cancel" || r.Intn(2) == 0
	cfg.Client.SoftCancel, cfg.Server.SoftCancel = soft, soft
	cfg.Server.Stream.ManualFlush = true
	cfg.Server.WriterBufferSize = 1 << 16
	sent := make(chan struct{}, 8)
	handler := rig.HandlerFunc(func(stream drpc.Stream, rpc string) error {
		var m []byte
		if err := stream.MsgRecv(&m, payload.Enc{}); err != nil {
			return nil
		}
		h, _ := payload.Parse(m)
		out := payload.Make(h.Tag, 1, 0, 0, 10)
		if err := stream.MsgSend(&out, payload.Enc{}); err != nil {
			return nil
		}
		if rpc == "/unary" {
			return nil
		}
		sent <- struct{}{}
		<-stream.Context().Done()
		return nil
	})
	rg := rig.New(rig.Config{Net: cfg.Net, Client: cfg.Client, Server: cfg.Server}, handler)
	defer rg.Teardown()
	rounds := 1 + r.Intn(3)
	desc := fmt.Sprintf("%s server-manual-flush soft=%v | %d rounds of: streaming RPC whose handler has one answer buffered, ended early by the client's %s, handler returns nil; then a unary RPC", cfg.Desc, soft, rounds, how)
	var fails []string
	for i := 0; i < rounds && len(fails) == 0; i++ {
		tag := uint64(2*i + 1)
		ctx, cancel := context.WithCancel(context.Background())
		st, err := rg.Conn.NewStream(ctx, "/stream", payload.Enc{})
		if err != nil {
			cancel()
			fails = append(fails, fmt.Sprintf("round %d: NewStream failed: %s", i+1, rig.ErrStr(err)))
			break
		}
		in := payload.Make(tag, 0, 0, 0, 5)
		if err := st.MsgSend(&in, payload.Enc{}); err != nil {
			cancel()
			fails = append(fails, fmt.Sprintf("round %d: send failed: %s", i+1, rig.ErrStr(err)))
			break
		}
		if s, _ := census.QuiesceOr(sentCh(sent), rig.Watchdog); s != "ready" {
			cancel()
			return runner.Inconcl(id, "the handler did not get to its send: "+desc)
		}
		census.Quiesce(rig.Watchdog)
		if how == "Close" {
			st.Close()
		}
		cancel()
		census.Quiesce(rig.Watchdog)
		if how == "cancel" {
			st.Close()
		}
		if rig.IsClosed(rg.Conn.Closed()) {
			if soft {
				fails = append(fails, fmt.Sprintf("round %d: the connection is closed after an RPC was ended early with soft cancel", i+1))
			}
			break
		}
		in2 := payload.Make(tag+1, 0, 0, 0, 5)
		var out []byte
		op := rig.Go("unary", func() (interface{}, error) {
			return nil, rg.Conn.Invoke(context.Background(), "/unary", payload.Enc{}, &in2, &out)
		})
		if !op.Wait() {
			return runner.Inconcl(id, "the unary call blocked (progress is C06's concern): "+desc)
		}
		if op.Err != nil {
			fails = append(fails, fmt.Sprintf("round %d: the unary RPC after the RPC that was ended early failed with %s", i+1, rig.ErrStr(op.Err)))
		} else if h, err := payload.Parse(out); err != nil || h.Tag != tag+1 {
			fails = append(fails, fmt.Sprintf("round %d: the unary RPC got an answer that is not its own (tag %d, err %v)", i+1, h.Tag, err))
		}
	}
	if len(fails) > 0 {
		return runner.Violation(id, "isolation:rpc-after-one-ended-early-behind-a-buffered-answer", desc+"\n"+strings.Join(fails, "\n"))
	}
	res := runner.Hold(id, desc, true)
	res.Events = int64(2 * rounds)
	return res
}

// failedCallThenNext: an RPC that the server cannot serve (a method it does not have, which the mux
// reports as a protocol-class error; or a handler failing with an error of that class, or any other)
// fails for its caller and for nobody else: the RPCs that follow on the connection get their own answers.
func failedCallThenNext(id string, seed uint64) runner.Result {
	r := &payload.SplitMix{S: seed}
	cfg := prog.GenConfig(r, false)
	if cfg.Net.Cap == 0 {
		cfg.Net.Cap = -1
	}
	class := payload.Pick(r, []string{"unknown-rpc", "protocol-class", "internal-class", "closed-class", "plain", "coded"})
	mkErr := func(rpc string) error {
		switch class {
		case "unknown-rpc":
			return drpc.ProtocolError.New("unknown rpc: %q", rpc)
		case "protocol-class":
			return drpc.ProtocolError.New("handler says the request was malformed")
		case "internal-class":
			return drpc.InternalError.New("handler internal")
		case "closed-class":
			return drpc.ClosedError.New("handler says closed")
		case "coded":
			return drpcerr.WithCode(errors.New("coded failure"), 7)
		}
		return errors.New("plain failure")
	}
	handler := rig.HandlerFunc(func(stream drpc.Stream, rpc string) error {
		if rpc == "/missing" {
			return mkErr(rpc)
		}
		var m []byte
		if err := stream.MsgRecv(&m, payload.Enc{}); err != nil {
			return err
		}
		h, _ := payload.Parse(m)
		out := payload.Make(h.Tag, 1, 0, 0, 10)
		return stream.MsgSend(&out, payload.Enc{})
	})
	rg := rig.New(rig.Config{Net: cfg.Net, Client: cfg.Client, Server: cfg.Server}, handler)
	defer rg.Teardown()
	rounds := 1 + r.Intn(3)
	desc := fmt.Sprintf("%s | %d rounds of: a call the server fails with a %s error (as Invoke or as a stream), then a unary call", cfg.Desc, rounds, class)
	var fails []string
	for i := 0; i < rounds && len(fails) == 0; i++ {
		tag := uint64(2*i + 1)
		in := payload.Make(tag, 0, 0, 0, 5)
		var out []byte
		asStream := r.Intn(2) == 0
		op := rig.Go("failing", func() (interface{}, error) {
			if !asStream {
				return nil, rg.Conn.Invoke(context.Background(), "/missing", payload.Enc{}, &in, &out)
			}
			st, err := rg.Conn.NewStream(context.Background(), "/missing", payload.Enc{})
			if err != nil {
				return nil, err
			}
			defer st.Close()
			if r.Intn(2) == 0 {
				st.MsgSend(&in, payload.Enc{})
			}
			return nil, st.MsgRecv(&out, payload.Enc{})
		})
		if !op.Wait() {
			return runner.Inconcl(id, "the failing call blocked (progress is C06's and C10's concern): "+desc)
		}
		if op.Err == nil {
			fails = append(fails, fmt.Sprintf("round %d: the call the server failed returned nil", i+1))
			break
		}
		in2 := payload.Make(tag+1, 0, 0, 0, 5)
		var out2 []byte
		op2 := rig.Go("unary", func() (interface{}, error) {
			return nil, rg.Conn.Invoke(context.Background(), "/echo", payload.Enc{}, &in2, &out2)
		})
		if !op2.Wait() {
			return runner.Inconcl(id, "the unary call blocked: "+desc)
		}
		if op2.Err != nil {
			fails = append(fails, fmt.Sprintf("round %d: the unary RPC after the failed one ended with %s (connection closed: %v); the failed call's error was %s", i+1, rig.ErrStr(op2.Err), rig.IsClosed(rg.Conn.Closed()), rig.ErrStr(op.Err)))
		} else if h, err := payload.Parse(out2); err != nil || h.Tag != tag+1 {
			fails = append(fails, fmt.Sprintf("round %d: the unary RPC got an answer that is not its own (tag %d, err %v)", i+1, h.Tag, err))
		}
	}
	if len(fails) > 0 {
		return runner.Violation(id, "isolation:rpc-after-a-call-the-server-failed", desc+"\n"+strings.Join(fails, "\n"))
	}
	res := runner.Hold(id, desc, true)
	res.Events = int64(2 * rounds)
	return res
}

// lateCallsOnEndedRPC: a client that flushes by hand. RPC 1 has ended (the handler failed it, or finished
// it, or the client closed it); RPC 2 is created on the connection and a small message is sent on it and
// deliberately not flushed. Then late calls arrive on RPC 1's stream (a deferred flush, a send, a
// half-close, a close). Whatever they return, they are calls on RPC 1: they do not send RPC 2's frames
// for it. The server sees nothing of RPC 2 until RPC 2 is flushed, and then RPC 2 gets its own answer.
func lateCallsOnEndedRPC(id string, seed uint64) runner.Result {
	r := &payload.SplitMix{S: seed}
	cfg := prog.GenConfig(r, false)
	if cfg.Net.Cap == 0 {
		cfg.Net.Cap = -1
	}
	cfg.Client.Stream.ManualFlush = true
	cfg.Client.WriterBufferSize = 4096
	var echoes int64
	handler := rig.HandlerFunc(func(stream drpc.Stream, rpc string) error {
		switch rpc {
		case "/fail":
			return errors.New("rpc 1 fails")
		case "/finish":
			return nil
		case "/wait":
			var m []byte
			for stream.MsgRecv(&m, payload.Enc{}) == nil {
			}
			return nil
		}
		atomic.AddInt64(&echoes, 1)
		census.Bump()
		var m []byte
		if err := stream.MsgRecv(&m, payload.Enc{}); err != nil {
			return err
		}
		h, _ := payload.Parse(m)
		out := payload.Make(h.Tag, 1, 0, 0, 10)
		return stream.MsgSend(&out, payload.Enc{})
	})
	rg := rig.New(rig.Config{Net: cfg.Net, Client: cfg.Client, Server: cfg.Server}, handler)
	defer rg.Teardown()
	how := payload.Pick(r, []string{"/fail", "/finish", "/wait+Close", "/wait+CloseSend"})
	late := payload.Pick(r, []string{"RawFlush", "MsgSend", "CloseSend", "Close", "RawFlush,RawFlush", "MsgSend,RawFlush", "Close,RawFlush"})
	desc := fmt.Sprintf("%s | client flushes by hand; rpc 1 %s has ended; rpc 2 created and one message sent without a flush; then on rpc 1: %s", cfg.Desc, how, late)
	type flusher interface{ RawFlush() error }
	var s1, s2 drpc.Stream
	op := rig.Go("rpc1", func() (interface{}, error) {
		st, err := rg.Conn.NewStream(context.Background(), strings.SplitN(how, "+", 2)[0], payload.Enc{})
		if err != nil {
			return nil, err
		}
		s1 = st
		switch how {
		case "/wait+Close":
			if err := st.(flusher).RawFlush(); err != nil {
				return nil, err
			}
			return nil, st.Close()
		case "/wait+CloseSend":
			if err := st.CloseSend(); err != nil {
				return nil, err
			}
		}
		var m []byte
		if err := st.MsgRecv(&m, payload.Enc{}); err == nil {
			return nil, errors.New("rpc 1 got a message")
		}
		if how == "/finish" {
			// the handler finished the rpc; the client's half is still open
			if err := st.CloseSend(); err != nil {
				return nil, err
			}
		}
		<-st.Context().Done()
		return nil, nil
	})
	if !op.Wait() || op.Err != nil {
		return runner.Inconcl(id, fmt.Sprintf("rpc 1 did not end as planned (%v): %s", op.Err, desc))
	}
	census.Quiesce(rig.Watchdog)
	in := payload.Make(2, 0, 0, 0, 5)
	op2 := rig.Go("rpc2-send", func() (interface{}, error) {
		st, err := rg.Conn.NewStream(context.Background(), "/echo", payload.Enc{})
		if err != nil {
			return nil, err
		}
		s2 = st
		return nil, st.MsgSend(&in, payload.Enc{})
	})
	if !op2.Wait() || op2.Err != nil {
		return runner.Inconcl(id, fmt.Sprintf("rpc 2 could not be created (%v): %s", op2.Err, desc))
	}
	census.Quiesce(rig.Watchdog)
	if atomic.LoadInt64(&echoes) != 0 {
		return runner.Inconcl(id, "rpc 2 reached the server before anything was flushed: "+desc)
	}
	var results []string
	op3 := rig.Go("late", func() (interface{}, error) {
		for _, c := range strings.Split(late, ",") {
			var err error
			switch c {
			case "RawFlush":
				err = s1.(flusher).RawFlush()
			case "MsgSend":
				m := payload.Make(1, 0, 9, 0, 5)
				err = s1.MsgSend(&m, payload.Enc{})
			case "CloseSend":
				err = s1.CloseSend()
			case "Close":
				err = s1.Close()
			}
			results = append(results, c+"="+rig.ErrStr(err))
		}
		return nil, nil
	})
	if !op3.Wait() {
		return runner.Violation(id, "isolation:late-calls-on-ended-rpc:blocked", desc+"\nthe late calls on the ended rpc 1 have not returned at quiescence")
	}
	census.Quiesce(rig.Watchdog)
	var fails []string
	if n := atomic.LoadInt64(&echoes); n != 0 {
		fails = append(fails, fmt.Sprintf("after the late calls on rpc 1 (%s) the server is handling rpc 2, whose frames the client has not flushed: a call on one rpc sent another rpc's frames", strings.Join(results, " ")))
	}
	var out []byte
	op4 := rig.Go("rpc2-finish", func() (interface{}, error) {
		if err := s2.(flusher).RawFlush(); err != nil {
			return nil, err
		}
		return nil, s2.MsgRecv(&out, payload.Enc{})
	})
	if !op4.Wait() {
		return runner.Inconcl(id, "rpc 2 blocked after its flush: "+desc)
	}
	if len(fails) == 0 {
		if op4.Err != nil {
			fails = append(fails, fmt.Sprintf("rpc 2 ended with %s after the late calls on rpc 1 (%s)", rig.ErrStr(op4.Err), strings.Join(results, " ")))
		} else if h, err := payload.Parse(out); err != nil || h.Tag != 2 {
			fails = append(fails, fmt.Sprintf("rpc 2 got an answer that is not its own (tag %d, err %v)", h.Tag, err))
		} else if n := atomic.LoadInt64(&echoes); n != 1 {
			fails = append(fails, fmt.Sprintf("the server handled rpc 2 %d times", n))
		}
	}
	s2.Close()
	if len(fails) > 0 {
		return runner.Violation(id, "isolation:late-calls-on-ended-rpc", desc+"\n"+strings.Join(fails, "\n"))
	}
	res := runner.Hold(id, desc+" -> "+strings.Join(results, " "), true)
	res.Events = 4
	return res
}

// holdEnc is an encoding whose Unmarshal takes its time: it notes what it was given, waits, and then
// looks at its input again.
type holdEnc struct {
	entered chan struct{}
	release chan struct{}
	changed *[]string
}

func (holdEnc) Marshal(m drpc.Message) ([]byte, error) { return payload.Enc{}.Marshal(m) }
func (h holdEnc) Unmarshal(b []byte, m drpc.Message) error {
	before := append([]byte(nil), b...)
	close(h.entered)
	<-h.release
	if !bytes.Equal(before, b) {
		hd, _ := payload.Parse(before)
		*h.changed = append(*h.changed, fmt.Sprintf("the message of rpc %d (%d bytes) changed under its decoder: now starts with %q", hd.Tag, len(before), clipBytes(b)))
	}
	return payload.Enc{}.Unmarshal(before, m)
}

func clipBytes(b []byte) []byte {
	if len(b) > 24 {
		return b[:24]
	}
	return b
}

// decodeOutlivesItsRPC: the handler of RPC 1 has a receive inside a slow decoder (on another goroutine)
// when it returns; the client closes RPC 1 and starts RPC 2 on the connection. The bytes the decoder of
// RPC 1 is reading belong to RPC 1 until it is done with them: nothing of RPC 2 may show up in them,
// and RPC 2 gets its own answer.
func decodeOutlivesItsRPC(id string, seed uint64) runner.Result {
	r := &payload.SplitMix{S: seed}
	cfg := prog.GenConfig(r, false)
	cfg.Net.Cap = -1
	var changed []string
	enc := holdEnc{entered: make(chan struct{}), release: make(chan struct{}), changed: &changed}
	size := payload.Pick(r, []int{20, 200, 3000})
	handler := rig.HandlerFunc(func(stream drpc.Stream, rpc string) error {
		if rpc == "/second" {
			var m []byte
			if err := stream.MsgRecv(&m, payload.Enc{}); err != nil {
				return err
			}
			h, _ := payload.Parse(m)
			out := payload.Make(h.Tag, 1, 0, 0, 10)
			return stream.MsgSend(&out, payload.Enc{})
		}
		go func() {
			var m []byte
			stream.MsgRecv(&m, enc)
		}()
		<-enc.entered
		return nil // with the receive still decoding
	})
	rg := rig.New(rig.Config{Net: cfg.Net, Client: cfg.Client, Server: cfg.Server}, handler)
	defer rg.Teardown()
	desc := fmt.Sprintf("%s | the handler of rpc 1 returns while its receive is inside a slow decoder (message of %d bytes); the client closes rpc 1 and runs rpc 2; then the decoder looks at its input again", cfg.Desc, size)
	st, err := rg.Conn.NewStream(context.Background(), "/first", payload.Enc{})
	if err != nil {
		return runner.Inconcl(id, "NewStream: "+err.Error())
	}
	in := payload.Make(1, 0, 0, 0, size)
	st.MsgSend(&in, payload.Enc{})
	if s, _ := census.QuiesceOr(enc.entered, rig.Watchdog); s != "ready" {
		close(enc.release)
		return runner.Inconcl(id, "the decoder was not reached: "+desc)
	}
	census.Quiesce(rig.Watchdog)
	st.Close()
	in2 := payload.Make(2, 0, 0, 0, size/2)
	var out []byte
	second := rig.Go("second", func() (interface{}, error) {
		return nil, rg.Conn.Invoke(context.Background(), "/second", payload.Enc{}, &in2, &out)
	})
	census.Quiesce(rig.Watchdog)
	close(enc.release)
	census.Quiesce(rig.Watchdog)
	fails := append([]string(nil), changed...)
	if len(fails) == 0 && second.Returned() && second.Err == nil {
		if h, err := payload.Parse(out); err != nil || h.Tag != 2 {
			fails = append(fails, fmt.Sprintf("rpc 2 got an answer that is not its own (tag %d, err %v)", h.Tag, err))
		}
	}
	if len(fails) > 0 {
		return runner.Violation(id, "isolation:bytes-of-another-rpc-inside-a-message-being-decoded", desc+"\n"+strings.Join(fails, "\n"))
	}
	res := runner.Hold(id, desc, true)
	res.Events = 3
	return res
}

// kvMsg / kvEnc: a message with two optional fields and an encoding that, like encoding/json, fills
// in only the fields present in the input.
type kvMsg struct{ A, B string }

type kvEnc struct{}

func (kvEnc) Marshal(m drpc.Message) ([]byte, error) {
	v := m.(*kvMsg)
	var out []string
	if v.A != "" {
		out = append(out, "a="+v.A)
	}
	if v.B != "" {
		out = append(out, "b="+v.B)
	}
	return []byte(strings.Join(out, ";")), nil
}

func (kvEnc) Unmarshal(b []byte, m drpc.Message) error {
	v := m.(*kvMsg)
	for _, f := range strings.Split(string(b), ";") {
		switch {
		case strings.HasPrefix(f, "a="):
			v.A = f[2:]
		case strings.HasPrefix(f, "b="):
			v.B = f[2:]
		}
	}
	return nil
}

type kvSvc struct{}

func (kvSvc) Echo(ctx context.Context, in *kvMsg) (*kvMsg, error) {
	return &kvMsg{A: "saw:" + in.A + "|" + in.B}, nil
}

type kvDesc struct{}

func (kvDesc) NumMethods() int { return 1 }
func (kvDesc) Method(n int) (string, drpc.Encoding, drpc.Receiver, interface{}, bool) {
	if n != 0 {
		return "", nil, nil, nil, false
	}
	return "/kv/Echo", kvEnc{}, func(s interface{}, ctx context.Context, in1, in2 interface{}) (drpc.Message, error) {
		return s.(kvSvc).Echo(ctx, in1.(*kvMsg))
	}, kvSvc.Echo, true
}

// requestOfItsOwn: unary calls through the real mux, one after the other on one connection, with an
// encoding that fills in only the fields a request carries. Each handler invocation sees the request
// of its own call: a field the caller left out is empty, whatever earlier callers sent.
func requestOfItsOwn(id string, seed uint64) runner.Result {
	r := &payload.SplitMix{S: seed}
	cfg := prog.GenConfig(r, false)
	if cfg.Net.Cap == 0 {
		cfg.Net.Cap = -1
	}
	mux := drpcmux.New()
	if err := mux.Register(kvSvc{}, kvDesc{}); err != nil {
		return runner.Inconcl(id, "Register: "+err.Error())
	}
	rg := rig.New(rig.Config{Net: cfg.Net, Client: cfg.Client, Server: cfg.Server}, mux)
	defer rg.Teardown()
	n := 3 + r.Intn(8)
	var fails, hist []string
	for i := 0; i < n && len(fails) == 0; i++ {
		in := &kvMsg{}
		if r.Intn(3) != 0 {
			in.A = fmt.Sprintf("user%d", i)
		}
		if r.Intn(2) == 0 {
			in.B = fmt.Sprintf("token%d", i)
		}
		hist = append(hist, fmt.Sprintf("{%s,%s}", in.A, in.B))
		out := &kvMsg{}
		op := rig.Go("invoke", func() (interface{}, error) {
			return nil, rg.Conn.Invoke(context.Background(), "/kv/Echo", kvEnc{}, in, out)
		})
		if !op.Wait() {
			return runner.Inconcl(id, "a unary call blocked")
		}
		if op.Err != nil {
			fails = append(fails, fmt.Sprintf("call %d failed: %s", i+1, rig.ErrStr(op.Err)))
		} else if want := "saw:" + in.A + "|" + in.B; out.A != want {
			fails = append(fails, fmt.Sprintf("call %d sent {a=%q b=%q}; its handler reports %q, want %q", i+1, in.A, in.B, out.A, want))
		}
	}
	desc := fmt.Sprintf("%s | unary calls through the mux with a fill-in-what-is-present encoding: %s", cfg.Desc, strings.Join(hist, " "))
	if len(fails) > 0 {
		return runner.Violation(id, "isolation:handler-saw-fields-of-an-earlier-request", desc+"\n"+strings.Join(fails, "\n"))
	}
	res := runner.Hold(id, desc, true)
	res.Events = int64(n)
	return res
}

// slowHandlerThenNext: a server that drops idle connections (InactivityTimeout). RPC 1 keeps its handler
// busy for longer than that timeout, which is activity, not idleness; RPC 2 is issued the moment RPC 1
// has returned. How long RPC 1 took is RPC 1's business: RPC 2 gets its own answer. (If the machine is so
// loaded that the harness itself lets more than half the timeout pass between the two, a failure of RPC 2
// proves nothing and the case is inconclusive.)
func slowHandlerThenNext(id string, seed uint64) runner.Result {
	r := &payload.SplitMix{S: seed}
	cfg := prog.GenConfig(r, false)
	if cfg.Net.Cap == 0 {
		cfg.Net.Cap = -1
	}
	timeout := 400 * time.Millisecond
	cfg.Server.InactivityTimeout = timeout
	work := timeout * time.Duration(2+r.Intn(2)) / 2 * 2
	handler := rig.HandlerFunc(func(stream drpc.Stream, rpc string) error {
		var m []byte
		if err := stream.MsgRecv(&m, payload.Enc{}); err != nil {
			return err
		}
		if rpc == "/slow" {
			time.Sleep(work)
		}
		h, _ := payload.Parse(m)
		out := payload.Make(h.Tag, 1, 0, 0, 10)
		return stream.MsgSend(&out, payload.Enc{})
	})
	rg := rig.New(rig.Config{Net: cfg.Net, Client: cfg.Client, Server: cfg.Server}, handler)
	defer rg.Teardown()
	desc := fmt.Sprintf("%s | server InactivityTimeout=%v: rpc 1 whose handler works for %v, then rpc 2 at once", cfg.Desc, timeout, work)
	in := payload.Make(1, 0, 0, 0, 5)
	var out []byte
	if err := rg.Conn.Invoke(context.Background(), "/slow", payload.Enc{}, &in, &out); err != nil {
		return runner.Inconcl(id, "rpc 1 failed: "+err.Error())
	}
	t0 := time.Now()
	in2 := payload.Make(2, 0, 0, 0, 5)
	var out2 []byte
	err := rg.Conn.Invoke(context.Background(), "/fast", payload.Enc{}, &in2, &out2)
	if err != nil && time.Since(t0) > timeout/2 {
		return runner.Inconcl(id, "rpc 2 failed, but the harness took too long between the two calls: "+desc)
	}
	if err != nil {
		return runner.Violation(id, "isolation:rpc-after-a-slow-one-fails-on-a-server-with-an-inactivity-timeout", desc+"\nrpc 2, issued right after rpc 1 returned, failed: "+rig.ErrStr(err))
	}
	if h, perr := payload.Parse(out2); perr != nil || h.Tag != 2 {
		return runner.Violation(id, "isolation:unary-call-returns-another-calls-response", desc+"\nrpc 2 got an answer that is not its own")
	}
	res := runner.Hold(id, desc, true)
	res.Events = 2
	return res
}

// sentCh adapts a buffered notification channel to the closed-channel convention of QuiesceOr.
func sentCh(c chan struct{}) <-chan struct{} {
	out := make(chan struct{})
	go func() { <-c; close(out) }()
	return out
}

// queuedCancel: RPC 1 is soft-cancelled while its cancel packet is held back by the transport, RPC 2
// is issued meanwhile, waits for its turn and is cancelled while it waits; the transport lets go. RPC 3,
// a clean one, comes afterwards: the two cancels were sent on other RPCs and must not decide how it ends.
func queuedCancel(id string, seed uint64) runner.Result {
	r := &payload.SplitMix{S: seed}
	cfg := prog.GenConfig(r, false)
	cfg.Client.SoftCancel, cfg.Server.SoftCancel = true, true
	cfg.Desc = strings.Replace(cfg.Desc, "soft=false", "soft=true", 1)
	cfg.Net.Cap = -1
	first := &prog.Script{Tag: 1, Client: []prog.Act{{Op: 's', Size: r.Intn(200)}, {Op: 'r'}}, Handler: []prog.Act{{Op: 'R'}}}
	second := prog.GenClean(r, 2, cfg)
	third := prog.GenClean(r, 3, cfg)
	x := prog.New(cfg, []*prog.Script{first, second, third})
	defer x.Rig.Teardown()
	op1 := rig.Go("rpc1", func() (interface{}, error) { x.RunClient(first); return nil, nil })
	census.Quiesce(rig.Watchdog)
	gate := x.Rig.Pair.A.GateNextWrite(simnet.When(r.Intn(2)))
	x.Log(1).CancelRPC()
	census.Quiesce(rig.Watchdog)
	op2 := rig.Go("rpc2", func() (interface{}, error) { x.RunClient(second); return nil, nil })
	census.Quiesce(rig.Watchdog)
	waiting := !op2.Returned()
	x.Log(2).CancelRPC()
	census.Quiesce(rig.Watchdog)
	gate.Release()
	census.Quiesce(rig.Watchdog)
	hist := fmt.Sprintf("%s | queued-cancel: rpc1 soft-cancelled with its cancel packet held by the transport, rpc2 cancelled while waiting for its turn (was waiting=%v), then %s", cfg.Desc, waiting, describe(third))
	if !op1.Returned() || !op2.Returned() {
		return runner.Inconcl(id, "a cancelled call of the workload never returned (C04 decides that): "+hist)
	}
	op3 := rig.Go("rpc3", func() (interface{}, error) { x.RunClient(third); return nil, nil })
	st := rig.WaitAny(op3.Done())
	_, snap := census.Quiesce(rig.Watchdog)
	closed := rig.IsClosed(x.Rig.Conn.Closed())
	if st == "watchdog" {
		return runner.Inconcl(id, "watchdog: "+hist)
	}
	if closed {
		return runner.Hold(id, hist+" (connection closed by the cancels)", false)
	}
	if !op3.Returned() {
		return runner.Violation(id, "isolation:rpc-never-completes-after-cancels-of-other-rpcs", hist+"\nrpc3 is blocked at quiescence on a connection that is not closed\n"+census.Dump(census.InDRPC(snap)))
	}
	l := x.Log(3)
	evs := l.Snapshot()
	var fails []string
	for _, e := range evs {
		if e.Err != nil && !(e.Op == "recv" && rig.Cat(e.Err) == "eof") {
			fails = append(fails, fmt.Sprintf("rpc 3 was aborted by neither side and the connection never closed, yet %c:%s failed: %s", e.Side, e.Op, rig.ErrStr(e.Err)))
		}
	}
	fails = append(fails, completeness(l, evs)...)
	if len(fails) > 0 {
		return runner.Violation(id, "isolation:clean-rpc-disturbed-by-cancels-of-other-rpcs", hist+"\n"+strings.Join(fails, "\n"))
	}
	res := runner.Hold(id, hist, waiting)
	res.Events = int64(len(evs))
	return res
}

func scenario(id string, seed uint64, family string) runner.Result {
	late := family == "late"
	r := &payload.SplitMix{S: seed}
	cfg := prog.GenConfig(r, false)
	if (family == "abandoned" || family == "finish") && r.Intn(4) != 0 && !cfg.Client.SoftCancel {
		cfg.Client.SoftCancel, cfg.Server.SoftCancel = true, true
		cfg.Desc = strings.Replace(cfg.Desc, "soft=false", "soft=true", 1)
	}
	if family == "" && r.Intn(4) == 0 {
		// a server that leaves flushing to its handlers (which do not flush: what they send goes out
		// with their next receive, their half-close or their return)
		cfg.Server.Stream.ManualFlush = true
		cfg.Desc += " server-manual-flush"
	}
	nrpc := 3 + r.Intn(10)
	ngo := 1 + r.Intn(4)
	groups := make([][]*prog.Script, ngo)
	var all []*prog.Script
	latePoint := ""
	if late {
		if r.Intn(2) == 0 {
			// flushing left to the application: sends stay buffered until a flush, a receive or a close
			cfg.Client.Stream.ManualFlush, cfg.Server.Stream.ManualFlush = true, true
			cfg.Desc = strings.Replace(cfg.Desc, "manual=false", "manual=true", 1)
		}
		all, groups, latePoint = lateRecv(r, cfg)
		nrpc, ngo = len(all), len(groups)
	}
	if family == "abandoned" {
		all, groups, latePoint = abandoned(r, cfg)
		nrpc, ngo = len(all), len(groups)
	}
	if family == "finish" {
		all, groups, latePoint = finishRace(r, cfg)
		nrpc, ngo = len(all), len(groups)
	}
	for i := 0; i < nrpc && family == ""; i++ {
		var s *prog.Script
		if r.Intn(2) == 0 {
			s = prog.GenClean(r, uint64(i+1), cfg)
		} else {
			s = prog.GenAbort(r, uint64(i+1), cfg, payload.Pick(r, prog.AbortKinds))
		}
		// a unary call whose request the client's own encoder rejects: the stream exists, nothing but
		// its close reaches the server
		if s.Unary && r.Intn(6) == 0 {
			s.BadReq = true
			s.Clean = false
		}
		// server keeps sending after the client has gone away: leftovers for the next RPC to meet
		if !s.Unary && r.Intn(4) == 0 {
			h := s.Handler
			s.Handler = append(append([]prog.Act{}, h...), prog.Act{Op: 'S', Size: 3 + r.Intn(5)})
			if !prog.ValidateStrict(s) {
				s.Handler = h // both sides would send into full buffers forever
			}
		}
		// the raw receive entry point: the application keeps the slices it was given
		if !s.Unary && r.Intn(4) == 0 {
			for i, a := range s.Client {
				if a.Op == 'r' {
					s.Client[i].Op = 'v'
				}
			}
			for i, a := range s.Handler {
				if a.Op == 'r' && r.Intn(2) == 0 {
					s.Handler[i].Op = 'v'
				}
			}
		}
		// a late first receive: it happens when whatever the other goroutines do next has settled,
		// typically when the next RPC has already been started on the connection
		if !s.Unary && r.Intn(4) == 0 {
			for i, a := range s.Client {
				if a.Op == 'r' || a.Op == 'R' {
					s.Client = append(append(append([]prog.Act{}, s.Client[:i]...), prog.Act{Op: 'q'}), s.Client[i:]...)
					break
				}
			}
		}
		g := r.Intn(ngo)
		groups[g] = append(groups[g], s)
		all = append(all, s)
	}
	// every RPC of the program ends by itself even under the tightest buffering: then a call that
	// never returns is not the program's own doing
	allStrict := true
	for _, s := range all {
		if !prog.ValidateStrict(s) {
			allStrict = false
		}
	}
	x := prog.New(cfg, all)
	defer x.Rig.Teardown()
	mode := r.Intn(3)
	var parks []*director.Park
	if family != "" {
		mode = 3
		parks = append(parks, x.Rig.Dir.ParkAt(latePoint, x.Rig.Pair.A, 1))
	}
	switch mode {
	case 0:
		x.Rig.Dir.Perturb(seed, 2)
	case 1:
		// park the client goroutine of some later RPC at an internal point; release at quiescence,
		// i.e. when everything the earlier RPCs left behind has been delivered
		for k := 0; k < 1+r.Intn(3); k++ {
			parks = append(parks, x.Rig.Dir.ParkAt(payload.Pick(r, parkPoints), x.Rig.Pair.A, 2+r.Intn(4)))
		}
	}
	x.Start(groups)
	for _, p := range parks {
		st, _ := census.QuiesceOr(p.Reached(), rig.Watchdog)
		if st == "ready" {
			census.Quiesce(rig.Watchdog)
			if late {
				// the first RPC's 'q' ended together with ours: let its receive happen
				census.Quiesce(rig.Watchdog)
			} else if family == "abandoned" || family == "finish" || r.Intn(3) == 0 {
				// the RPC whose goroutine is parked here is abandoned at this very point
				for _, l := range x.Logs() {
					if started, done := l.ClientState(); started && !done {
						l.CancelRPC()
						l.Script.Clean = false
					}
				}
				census.Quiesce(rig.Watchdog)
			}
		}
		p.Release()
	}
	st := x.WaitClients()
	var desc []string
	for _, s := range all {
		desc = append(desc, describe(s))
	}
	hist := cfg.Desc + " goroutines=" + fmt.Sprint(ngo) + " | " + strings.Join(desc, " ; ")
	if st == "watchdog" {
		return runner.Inconcl(id, "watchdog: "+hist)
	}
	_, snapEnd := census.Quiesce(rig.Watchdog)
	closed := rig.IsClosed(x.Rig.Conn.Closed())
	var fails []string
	var stuck []string
	var events int64
	hung := false
	for _, l := range x.Logs() {
		s := l.Script
		evs := l.Snapshot()
		events += int64(len(evs))
		cleanOK := true
		for _, e := range evs {
			if !e.Returned {
				hung = true
				cleanOK = false
				stuck = append(stuck, fmt.Sprintf("rpc%d %c:%s", s.Tag, e.Side, e.Op))
				continue
			}
			wantDir := uint8(1)
			if e.Side == 's' {
				wantDir = 0
			}
			if (e.Op == "recv" || e.Op == "invoke") && e.Err == nil {
				switch {
				case e.MsgErr != nil:
					fails = append(fails, fmt.Sprintf("rpc %d (%c) received a damaged message: %v", s.Tag, e.Side, e.MsgErr))
				case e.Msg.Tag != s.Tag:
					fails = append(fails, fmt.Sprintf("rpc %d (%c side) received a message that was sent on rpc %d", s.Tag, e.Side, e.Msg.Tag))
				case e.Msg.Dir != wantDir:
					fails = append(fails, fmt.Sprintf("rpc %d (%c side) received its own direction's message back", s.Tag, e.Side))
				}
			}
			if e.Err != nil {
				cleanOK = false
				// an error text generated for another RPC
				if msg := e.Err.Error(); strings.Contains(msg, "handler error for rpc ") && !strings.Contains(msg, fmt.Sprintf("handler error for rpc %d", s.Tag)) {
					fails = append(fails, fmt.Sprintf("rpc %d observed the error of another rpc: %q", s.Tag, msg))
				}
			}
		}
		if s.Clean && !closed && !hung && !cleanOK && l.ClientDone {
			var errs []string
			for _, e := range evs {
				if e.Err != nil && !(e.Op == "recv" && rig.Cat(e.Err) == "eof") {
					errs = append(errs, fmt.Sprintf("%c:%s=%s", e.Side, e.Op, rig.ErrStr(e.Err)))
				}
			}
			if len(errs) > 0 {
				fails = append(fails, fmt.Sprintf("rpc %d was aborted by neither side and the connection never closed, yet it failed: %s", s.Tag, strings.Join(errs, ", ")))
			}
		}
		if s.Clean && !closed && !hung && l.ClientDone {
			fails = append(fails, completeness(l, evs)...)
		}
		// metadata is scoped to its own RPC
		if ran, _ := l.HandlerState(); ran {
			md, has := l.HandlerMetadata()
			switch {
			case len(s.Meta) == 0 && has && len(md) > 0:
				fails = append(fails, fmt.Sprintf("rpc %d attached no metadata but its handler saw %v (it belongs to another rpc)", s.Tag, md))
			case len(s.Meta) > 0 && fmt.Sprint(md) != fmt.Sprint(s.Meta):
				fails = append(fails, fmt.Sprintf("rpc %d attached metadata %v but its handler saw %v", s.Tag, s.Meta, md))
			}
		}
	}
	for _, e := range []string{} {
		_ = e
	}
	for _, l := range x.Logs() {
		fails = append(fails, l.HeldChanged()...)
	}
	fails = append(fails, prog.WireFindings(x.Rig.Pair.A)...)
	fails = append(fails, prog.WireFindings(x.Rig.Pair.B)...)
	if len(fails) > 0 {
		k := fails[0]
		k = strings.Map(func(r rune) rune {
			if r >= '0' && r <= '9' {
				return -1
			}
			return r
		}, k)
		f := strings.Fields(k)
		if len(f) > 8 {
			f = f[:8]
		}
		return runner.Violation(id, "isolation:"+strings.Join(f, "-"), hist+"\n"+strings.Join(fails, "\n"))
	}
	if hung && allStrict && !closed {
		return runner.Violation(id, "isolation:rpc-never-completes-after-earlier-rpcs-in-a-program-that-ends-by-itself", hist+"\nstuck: "+strings.Join(stuck, ", ")+"\n"+census.Dump(snapEnd))
	}
	if hung {
		return runner.Inconcl(id, "a call of the program never returned (progress is decided by C04/C05/C06): "+hist+"\nstuck: "+strings.Join(stuck, ", ")+"\n"+census.Dump(snapEnd))
	}
	res := runner.Hold(id, hist, true)
	res.Events = events
	res.Sets = map[string][]string{"interleavings": {fmt.Sprintf("%x", x.Rig.Dir.Signature())}}
	res.Stats = map[string]int64{"rpcs": int64(nrpc), "events": events}
	if closed {
		res.Stats["conn_closed"] = 1
	}
	res.Sample = map[string]interface{}{"program": hist, "conn_closed": closed}
	return res
}

// completeness: a clean RPC delivers everything in order in both directions.
func completeness(l *prog.RPCLog, evs []prog.Event) []string {
	var out []string
	for _, side := range []byte{'c', 's'} {
		peer := byte('s')
		if side == 's' {
			peer = 'c'
		}
		var sent, got []uint32
		for _, e := range evs {
			if e.Side == peer && e.Op == "send" && e.Err == nil {
				sent = append(sent, e.Seq)
			}
			if e.Side == side && e.Op == "recv" && e.Err == nil {
				got = append(got, e.Msg.Seq)
			}
		}
		for i, g := range got {
			if uint32(i) != g {
				out = append(out, fmt.Sprintf("rpc %d: %c side received sequence numbers %v (reordered, duplicated or lost)", l.Script.Tag, side, got))
				break
			}
		}
		if !l.Script.Unary && len(got) != len(sent) {
			out = append(out, fmt.Sprintf("rpc %d (clean): %c side received %d of %d messages", l.Script.Tag, side, len(got), len(sent)))
		}
	}
	return out
}

func gen(tier string, seed uint64) []runner.Scenario {
	n := 300
	if tier == "thorough" {
		n = 10000
	}
	var out []runner.Scenario
	for i := 0; i < n; i++ {
		i := i
		id := fmt.Sprintf("prog/%d", i)
		out = append(out, runner.Scenario{ID: id, Run: func() runner.Result { return scenario(id, payload.Hash(seed, 0xC02, uint64(i)), "") }})
	}
	for i := 0; i < n/10; i++ {
		i := i
		id := fmt.Sprintf("late-recv/%d", i)
		out = append(out, runner.Scenario{ID: id, Run: func() runner.Result { return scenario(id, payload.Hash(seed, 0xC02A, uint64(i)), "late") }})
	}
	for i := 0; i < n/10; i++ {
		i := i
		id := fmt.Sprintf("abandoned-after-metadata/%d", i)
		out = append(out, runner.Scenario{ID: id, Run: func() runner.Result { return scenario(id, payload.Hash(seed, 0xC02B, uint64(i)), "abandoned") }})
	}
	for i := 0; i < n/10; i++ {
		i := i
		id := fmt.Sprintf("flush-parked/%d", i)
		out = append(out, runner.Scenario{ID: id, Run: func() runner.Result { return flushParked(id, payload.Hash(seed, 0xC02F, uint64(i))) }})
	}
	for i := 0; i < n/20; i++ {
		i := i
		id := fmt.Sprintf("slow-handler-then-next/%d", i)
		out = append(out, runner.Scenario{ID: id, Run: func() runner.Result { return slowHandlerThenNext(id, payload.Hash(seed, 0xC026, uint64(i))) }})
	}
	for i := 0; i < n/10; i++ {
		i := i
		id := fmt.Sprintf("request-of-its-own/%d", i)
		out = append(out, runner.Scenario{ID: id, Run: func() runner.Result { return requestOfItsOwn(id, payload.Hash(seed, 0xC027, uint64(i))) }})
	}
	for i := 0; i < n/10; i++ {
		i := i
		id := fmt.Sprintf("decode-outlives-its-rpc/%d", i)
		out = append(out, runner.Scenario{ID: id, Run: func() runner.Result { return decodeOutlivesItsRPC(id, payload.Hash(seed, 0xC028, uint64(i))) }})
	}
	for i := 0; i < n/10; i++ {
		i := i
		id := fmt.Sprintf("failed-call-then-next/%d", i)
		out = append(out, runner.Scenario{ID: id, Run: func() runner.Result { return failedCallThenNext(id, payload.Hash(seed, 0xC029, uint64(i))) }})
	}
	for i := 0; i < n/10; i++ {
		i := i
		id := fmt.Sprintf("late-calls-on-ended-rpc/%d", i)
		out = append(out, runner.Scenario{ID: id, Run: func() runner.Result { return lateCallsOnEndedRPC(id, payload.Hash(seed, 0xC02F, uint64(i))) }})
	}
	for i := 0; i < n/10; i++ {
		i := i
		id := fmt.Sprintf("ended-early-behind-buffered-answer/%d", i)
		out = append(out, runner.Scenario{ID: id, Run: func() runner.Result { return endedEarlyBehindBufferedAnswer(id, payload.Hash(seed, 0xC02A, uint64(i))) }})
	}
	for i := 0; i < n/10; i++ {
		i := i
		id := fmt.Sprintf("reused-response/%d", i)
		out = append(out, runner.Scenario{ID: id, Run: func() runner.Result { return reusedResponse(id, payload.Hash(seed, 0xC02E, uint64(i))) }})
	}
	for i := 0; i < n/10; i++ {
		i := i
		id := fmt.Sprintf("queued-cancel/%d", i)
		out = append(out, runner.Scenario{ID: id, Run: func() runner.Result { return queuedCancel(id, payload.Hash(seed, 0xC02D, uint64(i))) }})
	}
	for i := 0; i < n/10; i++ {
		i := i
		id := fmt.Sprintf("cancel-meets-finish/%d", i)
		out = append(out, runner.Scenario{ID: id, Run: func() runner.Result { return scenario(id, payload.Hash(seed, 0xC02C, uint64(i)), "finish") }})
	}
	return out
}

func main() {
	runner.Main(runner.Check{
		Property: "C02",
		Level:    "exploration",
		Rule:     "one case = one program of 3-12 RPCs (clean shapes and early-ending kinds at seeded positions, some handlers that keep sending after the client left) issued by 1-4 goroutines on one connection, in a seeded configuration cell, under one of: perturbed scheduling, the client goroutine of later RPCs parked at one of 6 internal points until everything earlier RPCs left behind has been delivered, or plain; plus the late-first-receive family (an RPC whose first receive happens only after it has finished on the wire and the next RPC of another goroutine sits at an internal point with frames written but not flushed) and the abandoned-after-metadata family (an RPC with metadata cancelled between its metadata write and its invoke write, followed by RPCs with their own metadata) and the cancel-meets-finish family (an RPC that ends normally and is cancelled while its completion sits at one of 6 internal points, followed by an RPC that cancels itself and by clean RPCs: what the first left behind must not decide how the later ones turn out) and the ended-early-behind-buffered-answer family (a manual-flush server whose handler has an answer buffered when the client closes or soft-cancels the RPC and which then returns nil, followed by a unary RPC) and the queued-cancel family (RPC 1 soft-cancelled with its cancel packet held back by the transport, RPC 2 cancelled while waiting for its turn, then a clean RPC 3). Every delivered message carries (rpc tag, direction, sequence, checksum); handler errors carry their rpc number. Non-trivial: all cases. Distinct: by configuration and program text; evidence also counts distinct point-hit sequences. (late-calls-on-ended-rpc) a client that flushes by hand: RPC 1 ended (handler error / handler finished / client Close / both half-closes), RPC 2 created with one message sent and not flushed, then RawFlush, MsgSend, CloseSend or Close on RPC 1's stream: the server must not be handling RPC 2 before RPC 2 is flushed, and RPC 2 gets its own answer.",
		Assumptions: []string{
			"a clean RPC must succeed completely only if the connection never reported closed during the program (a hard cancel closes it legitimately)",
			"a call that never returns makes the case inconclusive here (C04/C05/C06 decide progress)",
		},
		Gen:           gen,
		Shards:        14,
		MinNontrivial: 100,
	})
}
