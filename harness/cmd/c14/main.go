// C14: the HTTP gateway maps RPC outcomes to responses faithfully.
// Monitor: a scripted drpc.Handler records what it received (request bytes,
// metadata) and what it did (messages sent, error returned); the recorded
// HTTP response is parsed by independent reference decoders (grpc-web frames,
// base64 text mode, trailer block, Twirp status table and JSON error body) and
// compared with the expectation derived from the script.
package main

import (
	"bytes"
	"context"
	"encoding/base64"
	"encoding/binary"
	"encoding/json"
	"errors"
	"fmt"
	"github.com/zeebo/errs"
	"io"
	"net/http"
	"net/http/httptest"
	"net/url"
	"reflect"
	"sort"
	"strconv"
	"strings"
	"sync"
	"sync/atomic"
	"unicode/utf8"

	"storj.io/drpc"
	"storj.io/drpc/drpcerr"
	"storj.io/drpc/drpchttp"
	"storj.io/drpc/drpcmetadata"

	"verifharness/payload"
	"verifharness/rig"
	"verifharness/runner"
)

const limit = 4 << 20

// twirpTable is an independent copy of the Twirp error code -> HTTP status table
// (Twirp wire protocol specification).
var twirpTable = map[string]int{
	"canceled": 408, "unknown": 500, "invalid_argument": 400, "malformed": 400, "deadline_exceeded": 408,
	"not_found": 404, "bad_route": 404, "already_exists": 409, "permission_denied": 403, "unauthenticated": 401,
	"resource_exhausted": 429, "failed_precondition": 412, "aborted": 409, "out_of_range": 400,
	"unimplemented": 501, "internal": 500, "unavailable": 503, "dataloss": 500,
}

type codeStr struct {
	msg string
	c   string
}

func (c codeStr) Error() string { return c.msg }
func (c codeStr) Code() string  { return c.c }

type wrap struct {
	msg string
	in  error
}

func (w *wrap) Error() string { return w.msg }
func (w *wrap) Unwrap() error { return w.in }

// wrapCause wraps with the pkg/errors style Cause method; in may be nil (an error without a cause).
type wrapCause struct {
	msg string
	in  error
}

func (w *wrapCause) Error() string { return w.msg }
func (w *wrapCause) Cause() error  { return w.in }

// sliceErr is an error whose dynamic type cannot be compared with == (errs.Combine returns one like
// it); Unwrap hands out its first element, which may be of the same type again.
type sliceErr []error

func (s sliceErr) Error() string { return fmt.Sprintf("group of %d", len(s)) }
func (s sliceErr) Unwrap() error {
	if len(s) == 0 {
		return nil
	}
	return s[0]
}

// mapErr: the same with a map and the Cause method.
type mapErr map[string]error

func (m mapErr) Error() string { return "map error" }
func (m mapErr) Cause() error  { return m["cause"] }

// script is what the handler does; the handler records what actually happened.
type script struct {
	recv   bool
	sends  [][]byte
	ret    error
	gotReq []byte
	reqErr error
	gotMD  map[string]string
	hasMD  bool
	sent   [][]byte // sends that returned nil
	outErr error    // what the handler returned
}

func (s *script) HandleRPC(stream drpc.Stream, rpc string) error {
	s.gotMD, s.hasMD = drpcmetadata.Get(stream.Context())
	if s.recv {
		var m []byte
		if err := stream.MsgRecv(&m, payload.Enc{}); err != nil {
			s.reqErr = err
			s.outErr = err
			return err
		}
		s.gotReq = m
	}
	for _, b := range s.sends {
		b := b
		if err := stream.MsgSend(&b, payload.Enc{}); err != nil {
			s.outErr = err
			return err
		}
		s.sent = append(s.sent, b)
	}
	s.outErr = s.ret
	return s.ret
}

var twirpCTs = []string{"application/proto", "application/json", "text/unknown", ""}
var grpcCTs = []string{"application/grpc-web+proto", "application/grpc-web+json", "application/grpc-web-text+proto", "application/grpc-web-text+json"}

func isJSON(ct string) bool { return strings.HasSuffix(ct, "json") }
func isText(ct string) bool { return strings.Contains(ct, "-text") }
func isGrpc(ct string) bool { return strings.HasPrefix(ct, "application/grpc-web") }

// encodeMsg is the reference encoding of a message for the content type.
func encodeMsg(ct string, m []byte) []byte {
	if isJSON(ct) {
		b, _ := json.Marshal(m) // base64 string, as encoding/json renders []byte
		return b
	}
	return m
}

func buildRequest(ct string, m []byte) []byte {
	body := encodeMsg(ct, m)
	if isGrpc(ct) {
		fr := make([]byte, 5, 5+len(body))
		binary.BigEndian.PutUint32(fr[1:], uint32(len(body)))
		body = append(fr, body...)
		if isText(ct) {
			body = []byte(base64.StdEncoding.EncodeToString(body))
		}
	}
	return body
}

// decodeText decodes concatenated, individually padded base64 segments.
func decodeText(b []byte) ([]byte, error) {
	var out []byte
	if len(b)%4 != 0 {
		return nil, fmt.Errorf("text body length %d is not a multiple of 4", len(b))
	}
	for i := 0; i < len(b); i += 4 {
		d, err := base64.StdEncoding.DecodeString(string(b[i : i+4]))
		if err != nil {
			return nil, fmt.Errorf("bad base64 quantum %q at %d: %v", b[i:i+4], i, err)
		}
		out = append(out, d...)
	}
	return out, nil
}

type gframe struct {
	flag byte
	data []byte
}

func parseGrpcWeb(b []byte) ([]gframe, error) {
	var out []gframe
	for len(b) > 0 {
		if len(b) < 5 {
			return out, fmt.Errorf("truncated frame header (%d bytes left)", len(b))
		}
		n := binary.BigEndian.Uint32(b[1:5])
		if uint64(n) > uint64(len(b)-5) {
			return out, fmt.Errorf("frame claims %d bytes, %d left", n, len(b)-5)
		}
		out = append(out, gframe{flag: b[0], data: b[5 : 5+n]})
		b = b[5+n:]
	}
	return out, nil
}

func expectedCodeString(err error) string {
	// reference: first Code() string found walking Cause/Unwrap, else drpcerr(N), else unknown
	e := err
	for i := 0; i < 100 && e != nil; i++ {
		if c, ok := e.(interface{ Code() string }); ok {
			return c.Code()
		}
		switch v := e.(type) {
		case interface{ Cause() error }:
			e = v.Cause()
		case interface{ Unwrap() error }:
			e = v.Unwrap()
		default:
			e = nil
		}
	}
	if c := drpcerr.Code(err); c != 0 {
		return fmt.Sprintf("drpcerr(%d)", c)
	}
	return "unknown"
}

var hostileAlphabet = []byte("\r\n: abcgrpc-status0\x00\xff\"\\é")

type tcase struct {
	ct     string
	req    []byte
	sends  [][]byte
	ret    error
	retTag string
}

func short(b []byte) string {
	if len(b) > 24 {
		return fmt.Sprintf("%x..(%d)", b[:24], len(b))
	}
	return fmt.Sprintf("%x", b)
}

func (c tcase) String() string {
	var ss []string
	for _, s := range c.sends {
		ss = append(ss, short(s))
	}
	return fmt.Sprintf("ct=%q req=%s sends=[%s] ret=%s", c.ct, short(c.req), strings.Join(ss, ","), c.retTag)
}

// sanitizeJSON mirrors what encoding/json does to invalid UTF-8 in strings.
func sanitizeJSON(s string) string {
	if utf8.ValidString(s) {
		return s
	}
	b, _ := json.Marshal(s)
	var out string
	json.Unmarshal(b, &out)
	return out
}

// markProtocol is an application-defined protocol: it answers every request with a marker.
type markProtocol struct{}

type markStream struct {
	ctx context.Context
	rw  http.ResponseWriter
}

func (markProtocol) NewStream(rw http.ResponseWriter, req *http.Request) drpchttp.Stream {
	return &markStream{ctx: req.Context(), rw: rw}
}
func (m *markStream) Context() context.Context                  { return m.ctx }
func (m *markStream) MsgSend(drpc.Message, drpc.Encoding) error { return nil }
func (m *markStream) MsgRecv(drpc.Message, drpc.Encoding) error { return io.EOF }
func (m *markStream) CloseSend() error                          { return nil }
func (m *markStream) Close() error                              { return nil }
func (m *markStream) Finish(err error) {
	m.rw.Header().Set("X-Verif-Custom-Protocol", "1")
	m.rw.WriteHeader(299)
	m.rw.Write([]byte("custom protocol"))
}

func checkOutcome(c tcase, fail func(key, format string, args ...interface{})) {
	s := &script{recv: true, sends: c.sends, ret: c.ret}
	req := httptest.NewRequest("POST", "/svc/M", bytes.NewReader(buildRequest(c.ct, c.req)))
	if c.ct != "" {
		req.Header.Set("Content-Type", c.ct)
	}
	rec := httptest.NewRecorder()
	if atomic.AddUint64(&serveCalls, 1)%3 == 0 {
		// every third response goes to a ResponseWriter that is nothing more than that (no Flush)
		drpchttp.New(s).ServeHTTP(plainWriter{rec}, req)
	} else {
		drpchttp.New(s).ServeHTTP(rec, req)
	}

	if s.reqErr != nil {
		fail("request-rejected", "%s: a well-formed request within the limit was rejected: %v", c, s.reqErr)
		return
	}
	if !bytes.Equal(s.gotReq, c.req) {
		fail("request-altered", "%s: handler received %s", c, short(s.gotReq))
		return
	}
	body := rec.Body.Bytes()
	failed := s.outErr != nil
	// a declared length is a promise about the body that follows, whatever the outcome turned out to be
	// (over a real connection a wrong one truncates the body or kills the connection)
	if cl := rec.Header().Get("Content-Length"); cl != "" && cl != fmt.Sprint(len(body)) {
		fail("content-length-header-differs-from-body", "%s: the response declares Content-Length %s and carries a body of %d bytes (status %d)", c, cl, len(body), rec.Code)
		return
	}
	if !isGrpc(c.ct) {
		// Twirp style
		if !failed {
			if rec.Code != 200 {
				fail("twirp-status", "%s: success but HTTP status %d", c, rec.Code)
			}
			var want []byte
			if len(s.sent) > 0 {
				want = encodeMsg(c.ct, s.sent[len(s.sent)-1])
			}
			if len(s.sent) > 1 {
				fail("twirp-multi", "%s: %d sends succeeded on a unary protocol", c, len(s.sent))
			}
			if !bytes.Equal(body, want) {
				fail("twirp-body", "%s: body %s, want %s", c, short(body), short(want))
			}
			wantCT := c.ct
			if wantCT != "application/json" {
				wantCT = "application/proto"
			}
			if got := rec.Header().Get("Content-Type"); got != wantCT {
				fail("twirp-content-type", "%s: Content-Type %q want %q", c, got, wantCT)
			}
			return
		}
		code := expectedCodeString(s.outErr)
		want := twirpTable[code]
		if want == 0 {
			want = 500
		}
		if rec.Code != want {
			fail("twirp-status", "%s: error code %q must map to HTTP %d, got %d", c, code, want, rec.Code)
		}
		if rec.Code == 200 {
			fail("twirp-status", "%s: failure reported with HTTP 200", c)
		}
		var doc map[string]interface{}
		if err := json.Unmarshal(body, &doc); err != nil {
			fail("twirp-error-body", "%s: error body is not JSON: %v: %s", c, err, short(body))
			return
		}
		if len(doc) != 2 || doc["code"] != sanitizeJSON(code) || doc["msg"] != sanitizeJSON(s.outErr.Error()) {
			fail("twirp-error-body", "%s: error body %v, want code=%q msg=%q", c, doc, code, s.outErr.Error())
		}
		if got := rec.Header().Get("Content-Type"); got != "application/json" {
			fail("twirp-content-type", "%s: error Content-Type %q", c, got)
		}
		return
	}
	// grpc-web
	if got := rec.Header().Get("Content-Type"); got != c.ct {
		fail("grpc-content-type", "%s: Content-Type %q", c, got)
	}
	raw := body
	if isText(c.ct) {
		var err error
		raw, err = decodeText(body)
		if err != nil {
			fail("grpc-text", "%s: %v", c, err)
			return
		}
	}
	frames, err := parseGrpcWeb(raw)
	if err != nil {
		fail("grpc-framing", "%s: %v", c, err)
		return
	}
	if len(frames) == 0 || frames[len(frames)-1].flag != 0x80 {
		fail("grpc-trailer-missing", "%s: last frame is not a trailer frame (%d frames)", c, len(frames))
		return
	}
	data := frames[:len(frames)-1]
	if len(data) != len(s.sent) {
		fail("grpc-messages", "%s: %d data frames for %d sent messages", c, len(data), len(s.sent))
		return
	}
	for i, f := range data {
		if f.flag != 0 {
			fail("grpc-flag", "%s: data frame %d has flag %#x", c, i, f.flag)
		}
		if !bytes.Equal(f.data, encodeMsg(c.ct, s.sent[i])) {
			fail("grpc-messages", "%s: data frame %d is %s, want %s", c, i, short(f.data), short(encodeMsg(c.ct, s.sent[i])))
		}
	}
	// trailer block: lines terminated by CRLF, "key: value"
	tb := string(frames[len(frames)-1].data)
	if !strings.HasSuffix(tb, "\r\n") {
		fail("grpc-trailer-format", "%s: trailer block does not end in CRLF: %q", c, tb)
		return
	}
	lines := strings.Split(strings.TrimSuffix(tb, "\r\n"), "\r\n")
	got := map[string][]string{}
	var keys []string
	for _, l := range lines {
		if strings.ContainsAny(l, "\r\n") {
			fail("grpc-trailer-injection", "%s: trailer line contains a bare CR or LF: %q", c, l)
		}
		i := strings.Index(l, ": ")
		if i <= 0 {
			i = strings.Index(l, ":")
		}
		if i <= 0 {
			fail("grpc-trailer-injection", "%s: trailer block has a line that is not key: value: %q (block %q)", c, l, tb)
			continue
		}
		k := l[:i]
		got[k] = append(got[k], strings.TrimPrefix(l[i+1:], " "))
		keys = append(keys, k)
	}
	sort.Strings(keys)
	wantKeys := []string{"grpc-status"}
	if failed {
		wantKeys = []string{"grpc-code", "grpc-message", "grpc-status"}
	}
	if !reflect.DeepEqual(keys, wantKeys) {
		fail("grpc-trailer-injection", "%s: trailer keys %v, want exactly %v (block %q)", c, keys, wantKeys, tb)
		return
	}
	st := got["grpc-status"][0]
	if !failed {
		if st != "0" {
			fail("grpc-status", "%s: success but grpc-status %q", c, st)
		}
		return
	}
	wantSt := strconv.FormatUint(drpcerr.Code(s.outErr), 10)
	if wantSt == "0" {
		wantSt = "2"
	}
	if st != wantSt || st == "0" {
		fail("grpc-status", "%s: failure with code %d: grpc-status %q want %q", c, drpcerr.Code(s.outErr), st, wantSt)
	}
	clean := func(s string) string {
		return strings.TrimSpace(strings.NewReplacer("\r", " ", "\n", " ").Replace(s))
	}
	if g, w := strings.TrimSpace(got["grpc-message"][0]), clean(s.outErr.Error()); g != w {
		fail("grpc-message", "%s: grpc-message %q want %q", c, g, w)
	}
	if g, w := strings.TrimSpace(got["grpc-code"][0]), clean(expectedCodeString(s.outErr)); g != w {
		fail("grpc-code", "%s: grpc-code %q want %q", c, g, w)
	}
}

// refMetadata is the reference decoding of the metadata header entries.
func refMetadata(entries []string) (map[string]string, bool) {
	out := map[string]string{}
	for _, e := range entries {
		k, v := e, ""
		if i := strings.IndexByte(e, '='); i >= 0 {
			k, v = e[:i], e[i+1:]
		}
		kk, err := url.PathUnescape(k)
		if err != nil {
			return nil, false
		}
		vv, err := url.PathUnescape(v)
		if err != nil {
			return nil, false
		}
		out[kk] = vv
	}
	return out, len(entries) > 0
}

func checkMetadata(ct string, entries []string, fail func(key, format string, args ...interface{})) {
	s := &script{recv: false, sends: [][]byte{[]byte("ok")}}
	req := httptest.NewRequest("POST", "/svc/M", bytes.NewReader(nil))
	if ct != "" {
		req.Header.Set("Content-Type", ct)
	}
	if entries != nil {
		req.Header["X-Drpc-Metadata"] = entries
	}
	rec := httptest.NewRecorder()
	drpchttp.New(s).ServeHTTP(rec, req)
	want, ok := refMetadata(entries)
	if !ok {
		if s.hasMD && len(s.gotMD) > 0 {
			fail("metadata-invalid-accepted", "headers %q are not valid percent-encoded key=value pairs (or absent) but the handler saw %v", entries, s.gotMD)
		}
		return
	}
	if !reflect.DeepEqual(s.gotMD, want) {
		fail("metadata-differs", "headers %q: handler saw %q, reference decode %q", entries, s.gotMD, want)
	}
}

type acc struct {
	id    string
	n     int64
	viol  []runner.Result
	stats map[string]int64
	smp   interface{}
}

func (a *acc) fail(key, format string, args ...interface{}) {
	if len(a.viol) < 6 {
		a.viol = append(a.viol, runner.Violation(a.id, key, fmt.Sprintf(format, args...)))
	}
}

func (a *acc) result() runner.Result {
	r := runner.Result{ID: a.id, Verdict: runner.Held, Nontrivial: true, Sig: a.id, Events: a.n, Distinct: a.n, Stats: a.stats, Sample: a.smp}
	if len(a.viol) > 0 {
		r = a.viol[0]
		r.Events = a.n
		r.More = a.viol[1:]
	}
	return r
}

// ---- encodings with JSON methods, and handlers that reuse their message after sending it ----

// jmsg is a message with its own JSON form.
type jmsg struct{ V string }

type encBase struct{}

func (encBase) Marshal(m drpc.Message) ([]byte, error) {
	return append([]byte(nil), m.(*jmsg).V...), nil
}
func (encBase) Unmarshal(b []byte, m drpc.Message) error {
	m.(*jmsg).V = string(b)
	return nil
}

func jsonOf(m drpc.Message) ([]byte, error) { return []byte(`{"v":"` + m.(*jmsg).V + `"}`), nil }
func jsonInto(b []byte, m drpc.Message) error {
	var doc struct{ V string }
	if err := json.Unmarshal(b, &doc); err != nil {
		return err
	}
	m.(*jmsg).V = doc.V
	return nil
}

type encBoth struct{ encBase }

func (encBoth) JSONMarshal(m drpc.Message) ([]byte, error)   { return jsonOf(m) }
func (encBoth) JSONUnmarshal(b []byte, m drpc.Message) error { return jsonInto(b, m) }

type encMarshalOnly struct{ encBase }

func (encMarshalOnly) JSONMarshal(m drpc.Message) ([]byte, error) { return jsonOf(m) }

type encUnmarshalOnly struct{ encBase }

func (encUnmarshalOnly) JSONUnmarshal(b []byte, m drpc.Message) error { return jsonInto(b, m) }

// jsonEncodings: an encoding's JSONMarshal is used for responses when it exists and its JSONUnmarshal
// for requests when it exists, each independently of the other; an echo handler sends k answers and then
// wipes and reuses the message objects it sent (what is on the wire must be what they held when sent).
func jsonEncodings(a *acc) {
	type variant struct {
		name   string
		enc    drpc.Encoding
		jm, ju bool
	}
	for _, v := range []variant{{"both", encBoth{}, true, true}, {"marshal-only", encMarshalOnly{}, true, false}, {"unmarshal-only", encUnmarshalOnly{}, false, true}, {"neither", encBase{}, false, false}} {
		for _, ct := range append(append([]string{}, twirpCTs...), grpcCTs...) {
			for _, scrub := range []bool{false, true} {
				a.n++
				v, ct, scrub := v, ct, scrub
				nsend := 1
				if isGrpc(ct) {
					nsend = 3
				}
				var gotReq string
				h := rig.HandlerFunc(func(stream drpc.Stream, rpc string) error {
					var in jmsg
					if err := stream.MsgRecv(&in, v.enc); err != nil {
						return err
					}
					gotReq = in.V
					out := &jmsg{}
					for i := 0; i < nsend; i++ {
						out.V = fmt.Sprintf("echo%d:%s", i, in.V)
						if err := stream.MsgSend(out, v.enc); err != nil {
							return err
						}
						if scrub {
							out.V = "SCRUBBED" // the handler reuses its message object after the send returned
						}
					}
					return nil
				})
				// request body
				var reqBody []byte
				switch {
				case isJSON(ct) && v.ju:
					reqBody = []byte(`{"v":"abc"}`)
				case isJSON(ct):
					reqBody, _ = json.Marshal([]byte("abc")) // the fallback: the marshalled bytes as a JSON (base64) string
				default:
					reqBody = []byte("abc")
				}
				body := reqBody
				if isGrpc(ct) {
					fr := make([]byte, 5, 5+len(body))
					binary.BigEndian.PutUint32(fr[1:], uint32(len(body)))
					body = append(fr, body...)
					if isText(ct) {
						body = []byte(base64.StdEncoding.EncodeToString(body))
					}
				}
				req := httptest.NewRequest("POST", "/svc/M", bytes.NewReader(body))
				if ct != "" {
					req.Header.Set("Content-Type", ct)
				}
				rec := httptest.NewRecorder()
				drpchttp.New(h).ServeHTTP(rec, req)
				desc := fmt.Sprintf("encoding=%s ct=%q handler-reuses-its-message=%v", v.name, ct, scrub)
				if gotReq != "abc" {
					a.fail("json-encoding-request", "%s: the handler received %q, want %q (JSONUnmarshal of the encoding used iff it exists)", desc, gotReq, "abc")
					continue
				}
				want := func(i int) []byte {
					m := &jmsg{V: fmt.Sprintf("echo%d:abc", i)}
					switch {
					case isJSON(ct) && v.jm:
						b, _ := jsonOf(m)
						return b
					case isJSON(ct):
						b, _ := json.Marshal([]byte(m.V))
						return b
					}
					return []byte(m.V)
				}
				got := rec.Body.Bytes()
				if !isGrpc(ct) {
					if rec.Code != 200 || !bytes.Equal(got, want(0)) {
						a.fail("json-encoding-response", "%s: status %d body %s, want 200 and %s", desc, rec.Code, short(got), short(want(0)))
					}
					continue
				}
				if isText(ct) {
					dec, err := decodeText(got)
					if err != nil {
						a.fail("json-encoding-response", "%s: text body does not decode: %v", desc, err)
						continue
					}
					got = dec
				}
				frames, err := parseGrpcWeb(got)
				if err != nil {
					a.fail("json-encoding-response", "%s: %v", desc, err)
					continue
				}
				var msgs [][]byte
				for _, f := range frames {
					if f.flag&0x80 == 0 {
						msgs = append(msgs, f.data)
					}
				}
				if len(msgs) != nsend {
					a.fail("json-encoding-response", "%s: %d message frames, want %d", desc, len(msgs), nsend)
					continue
				}
				for i, m := range msgs {
					if !bytes.Equal(m, want(i)) {
						a.fail("json-encoding-response", "%s: message %d is %s, want %s", desc, i, short(m), short(want(i)))
						break
					}
				}
			}
		}
	}
	a.smp = map[string]interface{}{"batch": a.id}
}

var serveCalls uint64

// plainWriter hides every optional interface of the recorder.
type plainWriter struct{ rec *httptest.ResponseRecorder }

func (p plainWriter) Header() http.Header         { return p.rec.Header() }
func (p plainWriter) Write(b []byte) (int, error) { return p.rec.Write(b) }
func (p plainWriter) WriteHeader(code int)        { p.rec.WriteHeader(code) }

func errorsUnderTest() map[string]error {
	base := errors.New("boom")
	out := map[string]error{
		"nil":            nil,
		"plain":          base,
		"empty":          errors.New(""),
		"code1":          drpcerr.WithCode(base, 1),
		"code12":         drpcerr.WithCode(base, 12),
		"code2^32":       drpcerr.WithCode(base, 1<<32),
		"codeMax":        drpcerr.WithCode(base, ^uint64(0)),
		"wrapped-code":   &wrap{"outer", &wrap{"mid", drpcerr.WithCode(base, 7)}},
		"crlf-inject":    errors.New("x\r\ngrpc-status: 0\r\nevil: 1"),
		"lf-only":        errors.New("a\nb\n\nc"),
		"cr-only":        errors.New("a\rgrpc-status: 0"),
		"leading-crlf":   errors.New("\r\n\r\nbody"),
		"trailing-crlf":  errors.New("msg\r\n"),
		"colon":          errors.New("key: value: other"),
		"non-ascii":      errors.New("héllo wörld ✓"),
		"invalid-utf8":   errors.New(string([]byte{'a', 0xff, 0xfe, 'b'})),
		"nul":            errors.New("a\x00b"),
		"quote-json":     errors.New(`"},{"code":"x`),
		"long":           errors.New(strings.Repeat("x", 70000)),
		"code-str-crlf":  codeStr{"m", "aborted\r\ngrpc-status: 0"},
		"code-str-wrap":  &wrap{"outer", codeStr{"inner", "not_found"}},
		"code-str-other": codeStr{"m", "teapot"},
		"code-str-empty": codeStr{"m", ""},
		"code-both":      drpcerr.WithCode(codeStr{"m", "unavailable"}, 14),
		// errors whose chain ends in a nil cause, under each way of wrapping
		"nil-unwrap":          &wrap{"no inner", nil},
		"nil-cause":           &wrapCause{"no cause", nil},
		"wrapped-nil-cause":   &wrap{"outer", &wrapCause{"no cause", nil}},
		"fmt-w-nil-cause":     fmt.Errorf("ctx: %w", &wrapCause{"no cause", nil}),
		"coded-nil-cause":     drpcerr.WithCode(&wrapCause{"no cause", nil}, 9),
		"cause-of-nil-unwrap": &wrapCause{"outer", &wrap{"no inner", nil}},
		"cause-then-code-str": &wrapCause{"outer", codeStr{"inner", "not_found"}},
		// errors that mean something special elsewhere in the library: here they are failures like any other
		"io-eof":              io.EOF,
		"wrapped-io-eof":      fmt.Errorf("recv: %w", io.EOF),
		"errs-wrapped-io-eof": errs.Wrap(io.EOF),
		"unexpected-eof":      io.ErrUnexpectedEOF,
		"context-canceled":    context.Canceled,
		"deadline-exceeded":   context.DeadlineExceeded,
		"closed-pipe":         io.ErrClosedPipe,
		// error values of types that == cannot compare, nested in their own kind
		"combine-flat":            errs.Combine(base, errors.New("second")),
		"combine-nested":          errs.Combine(errs.Combine(base, errors.New("rollback")), errors.New("close")),
		"combine-nested-coded":    errs.Combine(errs.Combine(drpcerr.WithCode(base, 5), errors.New("rollback")), errors.New("close")),
		"slice-in-slice":          sliceErr{sliceErr{sliceErr{}}},
		"slice-in-slice-code-str": sliceErr{sliceErr{codeStr{"inner", "not_found"}}},
		"map-in-map":              mapErr{"cause": mapErr{"cause": mapErr{}}},
		"map-in-slice-coded":      sliceErr{mapErr{"cause": drpcerr.WithCode(base, 3)}},
		"wrapped-slice-in-slice":  fmt.Errorf("ctx: %w", sliceErr{sliceErr{base}}),
	}
	for code := range twirpTable {
		out["twirp-"+code] = codeStr{"msg for " + code, code}
	}
	return out
}

func gen(tier string, seed uint64) []runner.Scenario {
	var out []runner.Scenario
	add := func(id string, f func(a *acc)) {
		out = append(out, runner.Scenario{ID: id, Run: func() runner.Result {
			a := &acc{id: id, stats: map[string]int64{}}
			f(a)
			return a.result()
		}})
	}
	thorough := tier == "thorough"
	allCT := append(append([]string{}, twirpCTs...), grpcCTs...)
	msgs := [][]byte{{}, {0}, []byte("hello"), {0xff, 0xfe, 0, 1, 2}, bytes.Repeat([]byte{0xab}, 1000), payload.Make(1, 1, 0, 0, 70000)}

	add("json-encodings-and-reused-messages", jsonEncodings)
	// 1. outcomes: content type x number of messages x message bytes x error
	for _, ct := range allCT {
		ct := ct
		add("outcome/"+ct, func(a *acc) {
			errs := errorsUnderTest()
			names := make([]string, 0, len(errs))
			for n := range errs {
				names = append(names, n)
			}
			sort.Strings(names)
			r := payload.SplitMix{S: payload.Hash(seed, 0x14, uint64(len(ct)))}
			for _, en := range names {
				for k := 0; k <= 3; k++ {
					for v := 0; v < 2; v++ {
						var sends [][]byte
						for i := 0; i < k; i++ {
							sends = append(sends, msgs[r.Intn(len(msgs))])
						}
						c := tcase{ct: ct, req: msgs[r.Intn(len(msgs))], sends: sends, ret: errs[en], retTag: en}
						a.n++
						checkOutcome(c, a.fail)
						if a.smp == nil && k == 2 {
							a.smp = map[string]interface{}{"case": c.String()}
						}
					}
				}
			}
			// seeded error texts
			nseed := 300
			if thorough {
				nseed = 6000
			}
			for i := 0; i < nseed; i++ {
				b := make([]byte, r.Intn(30))
				for j := range b {
					b[j] = hostileAlphabet[r.Intn(len(hostileAlphabet))]
				}
				var e error = errors.New(string(b))
				if r.Intn(3) == 0 {
					e = drpcerr.WithCode(e, r.Next()>>(r.Next()%64))
				}
				if r.Intn(4) == 0 {
					e = codeStr{string(b), string(b)}
				}
				var sends [][]byte
				for k := 0; k < r.Intn(4); k++ {
					m := make([]byte, r.Intn(50))
					for j := range m {
						m[j] = byte(r.Next())
					}
					sends = append(sends, m)
				}
				a.n++
				checkOutcome(tcase{ct: ct, req: msgs[r.Intn(len(msgs))], sends: sends, ret: e, retTag: fmt.Sprintf("seeded(%q)", b)}, a.fail)
			}
		})
	}

	// 1b. error texts around the 4 MiB message limit: the status of a failed RPC is not a message
	add("outcome/huge-error-text", func(a *acc) {
		for _, n := range []int{4<<20 - 200, 4<<20 - 61, 4 << 20, 4<<20 + 1000} {
			e := errors.New(strings.Repeat("e", n))
			for _, ct := range allCT {
				for _, k := range []int{0, 2} {
					var sends [][]byte
					for i := 0; i < k; i++ {
						sends = append(sends, msgs[2])
					}
					a.n++
					checkOutcome(tcase{ct: ct, req: msgs[2], sends: sends, ret: drpcerr.WithCode(e, 9), retTag: fmt.Sprintf("text-of-%d-bytes", n)}, a.fail)
				}
			}
		}
		a.smp = map[string]interface{}{"batch": a.id}
	})

	// 2. metadata headers against the reference percent-decoder
	alpha := []byte{'%', '=', 'a', '4', '1', 'G', '+', ' '}
	for fi, first := range alpha {
		first := first
		add(fmt.Sprintf("metadata/first=%q", first), func(a *acc) {
			maxl := 5
			if thorough {
				maxl = 7
			}
			var rec func(b []byte, l int)
			rec = func(b []byte, l int) {
				if len(b) == l {
					a.n++
					checkMetadata("application/proto", []string{string(b)}, a.fail)
					return
				}
				for _, c := range alpha {
					rec(append(b, c), l)
				}
			}
			for l := 1; l <= maxl; l++ {
				rec([]byte{first}, l)
			}
			if fi == 0 {
				checkMetadata("application/proto", nil, a.fail)
				checkMetadata("application/proto", []string{""}, a.fail)
			}
			r := payload.SplitMix{S: payload.Hash(seed, 0x142, uint64(first))}
			n := 3000
			if thorough {
				n = 60000
			}
			for i := 0; i < n; i++ {
				var hs []string
				for k := 0; k < 1+r.Intn(3); k++ {
					var b []byte
					for j := 0; j < r.Intn(10); j++ {
						switch r.Intn(5) {
						case 0:
							b = append(b, '%', "0123456789abcdefABCDEF"[r.Intn(22)], "0123456789abcdefABCDEF"[r.Intn(22)])
						case 1:
							b = append(b, '=')
						case 2:
							b = append(b, '%')
						case 3:
							b = append(b, "kvab"[r.Intn(4)])
						default:
							b = append(b, byte(r.Next()))
						}
					}
					hs = append(hs, string(b))
				}
				a.n++
				checkMetadata(allCT[r.Intn(len(allCT))], hs, a.fail)
				if a.smp == nil {
					a.smp = map[string]interface{}{"headers": hs}
				}
			}
		})
	}

	// 2b. a protocol registered for one gateway handler does not change what other handlers answer
	add("protocol-isolation", func(a *acc) {
		before := drpchttp.New(&script{recv: true, sends: [][]byte{[]byte("ok")}})
		for _, ct := range append(append([]string{}, allCT...), "*", "application/x-verif-other") {
			custom := drpchttp.NewWithOptions(&script{}, drpchttp.WithProtocol(ct, markProtocol{}))
			req := httptest.NewRequest("POST", "/svc/M", bytes.NewReader(nil))
			sendCT := ct
			if ct == "*" {
				sendCT = "application/x-verif-unmatched"
			}
			req.Header.Set("Content-Type", sendCT)
			rec := httptest.NewRecorder()
			custom.ServeHTTP(rec, req)
			a.n++
			if rec.Header().Get("X-Verif-Custom-Protocol") != "1" {
				a.fail("harness", "the handler with WithProtocol(%q) did not use the registered protocol", ct)
			}
		}
		// handlers without options, created before and after, still speak the built-in protocols
		for _, ct := range append(append([]string{}, allCT...), "application/x-verif-unmatched", "application/x-verif-other") {
			for _, h := range []http.Handler{before, drpchttp.New(&script{recv: true, sends: [][]byte{[]byte("ok")}})} {
				req := httptest.NewRequest("POST", "/svc/M", bytes.NewReader(buildRequest(ct, []byte("hello"))))
				req.Header.Set("Content-Type", ct)
				rec := httptest.NewRecorder()
				h.ServeHTTP(rec, req)
				a.n++
				if rec.Header().Get("X-Verif-Custom-Protocol") != "" || rec.Code == 299 {
					a.fail("protocol-leak", "ct=%q: a gateway handler created without options answered with the protocol another handler registered through WithProtocol", ct)
				}
			}
			c := tcase{ct: ct, req: []byte("hello"), sends: [][]byte{[]byte("ok")}, retTag: "nil"}
			if strings.HasPrefix(ct, "application/x-verif") {
				continue
			}
			a.n++
			checkOutcome(c, a.fail)
		}
		a.smp = map[string]interface{}{"content_types": len(allCT) + 2}
	})

	// 3. sizes around the limit: never truncated
	for _, ct := range allCT {
		ct := ct
		add("sizes/"+ct, func(a *acc) {
			big := make([]byte, limit+(1<<20)+16)
			r := payload.SplitMix{S: 99}
			for i := 0; i+8 <= len(big); i += 8 {
				binary.LittleEndian.PutUint64(big[i:], r.Next())
			}
			for ni, n := range []int{limit - 1, limit, limit + 1, limit + (1 << 20), limit - 1, limit, limit + 1, limit + (1 << 20)} {
				// request of n (encoded) bytes; the second round sends it without a declared length
				// (chunked upload: Request.ContentLength is -1)
				unknownLength := ni >= 4
				reqMsg := big[:n]
				var body []byte
				if isJSON(ct) {
					// choose the raw size so that the JSON encoding has n bytes where possible
					raw := (n - 2) / 4 * 3
					reqMsg = big[:raw]
				}
				body = buildRequest(ct, reqMsg)
				s := &script{recv: true, sends: [][]byte{[]byte("ok")}}
				req := httptest.NewRequest("POST", "/svc/M", bytes.NewReader(body))
				if unknownLength {
					req = httptest.NewRequest("POST", "/svc/M", struct{ io.Reader }{bytes.NewReader(body)})
					if req.ContentLength != -1 {
						a.fail("harness", "request without a declared length has ContentLength %d", req.ContentLength)
					}
					a.stats["requests_without_declared_length"]++
				}
				if ct != "" {
					req.Header.Set("Content-Type", ct)
				}
				rec := httptest.NewRecorder()
				drpchttp.New(s).ServeHTTP(rec, req)
				a.n++
				encLen := len(encodeMsg(ct, reqMsg))
				switch {
				case s.reqErr == nil && !bytes.Equal(s.gotReq, reqMsg):
					a.fail("request-truncated", "ct=%q request message of %d encoded bytes: handler received %d bytes (truncated or altered) instead of an error", ct, encLen, len(s.gotReq))
				case s.reqErr == nil && encLen > limit:
					a.fail("request-over-limit-accepted", "ct=%q request message of %d encoded bytes (> limit %d) was accepted", ct, encLen, limit)
				case s.reqErr != nil && encLen < limit:
					a.fail("request-under-limit-rejected", "ct=%q request of %d bytes (< limit) rejected: %v", ct, encLen, s.reqErr)
				case s.reqErr != nil:
					a.stats["request_rejected"]++
					if rec.Code == 200 && !isGrpc(ct) {
						a.fail("reject-status", "ct=%q over-limit request rejected by the handler path but HTTP status is 200", ct)
					}
				default:
					a.stats["request_accepted"]++
				}

				// response of n (encoded) bytes
				respMsg := big[:n]
				if isJSON(ct) {
					respMsg = big[:(n-2)/4*3]
				}
				s2 := &script{recv: false, sends: [][]byte{respMsg}}
				req2 := httptest.NewRequest("POST", "/svc/M", bytes.NewReader(nil))
				if ct != "" {
					req2.Header.Set("Content-Type", ct)
				}
				rec2 := httptest.NewRecorder()
				drpchttp.New(s2).ServeHTTP(rec2, req2)
				a.n++
				renc := encodeMsg(ct, respMsg)
				body2 := rec2.Body.Bytes()
				if isGrpc(ct) {
					raw := body2
					if isText(ct) {
						raw, _ = decodeText(body2)
					}
					frames, err := parseGrpcWeb(raw)
					if err != nil {
						a.fail("grpc-framing", "ct=%q response of %d bytes: %v", ct, len(renc), err)
						continue
					}
					if s2.outErr == nil {
						if len(frames) != 2 || !bytes.Equal(frames[0].data, renc) {
							a.fail("response-truncated", "ct=%q response of %d encoded bytes: send succeeded but the body does not carry it intact", ct, len(renc))
						}
						if len(renc) > limit {
							a.fail("response-over-limit-accepted", "ct=%q response message of %d bytes (> limit) was sent", ct, len(renc))
						}
						a.stats["response_accepted"]++
					} else {
						a.stats["response_rejected"]++
						if len(frames) != 1 || frames[0].flag != 0x80 || !strings.Contains(string(frames[0].data), "grpc-status: ") || strings.Contains(string(frames[0].data), "grpc-status: 0\r\n") {
							a.fail("response-reject-status", "ct=%q rejected response must end in a non-zero grpc-status trailer only; frames=%d", ct, len(frames))
						}
						if len(renc) < limit-1 {
							a.fail("response-under-limit-rejected", "ct=%q response of %d bytes rejected: %v", ct, len(renc), s2.outErr)
						}
					}
				} else {
					if s2.outErr == nil && !bytes.Equal(body2, renc) {
						a.fail("response-truncated", "ct=%q response of %d bytes: body has %d bytes", ct, len(renc), len(body2))
					}
				}
			}
			a.smp = map[string]interface{}{"content_type": ct, "sizes": []int{limit - 1, limit, limit + 1, limit + (1 << 20)}}
		})
	}
	// 4. one gateway handler shared by concurrent requests (as net/http does): responses must not mix
	for _, ct := range grpcCTs {
		ct := ct
		add("concurrent/"+ct, func(a *acc) {
			h := drpchttp.New(rig.HandlerFunc(func(stream drpc.Stream, rpc string) error {
				var m []byte
				if err := stream.MsgRecv(&m, payload.Enc{}); err != nil {
					return err
				}
				hdr, err := payload.Parse(m)
				if err != nil {
					return err
				}
				for i := 0; i < 3; i++ {
					out := payload.Make(hdr.Tag, 1, 0, uint32(i), 20+int(hdr.Tag%200))
					if err := stream.MsgSend(&out, payload.Enc{}); err != nil {
						return err
					}
				}
				return nil
			}))
			workers, per := 12, 40
			if thorough {
				per = 400
			}
			var wg sync.WaitGroup
			var mu sync.Mutex
			for w := 0; w < workers; w++ {
				w := w
				wg.Add(1)
				go func() {
					defer wg.Done()
					for i := 0; i < per; i++ {
						tag := uint64(w*100000 + i)
						req := httptest.NewRequest("POST", "/svc/M", bytes.NewReader(buildRequest(ct, payload.Make(tag, 0, 0, 0, 10))))
						req.Header.Set("Content-Type", ct)
						rec := httptest.NewRecorder()
						h.ServeHTTP(rec, req)
						raw := rec.Body.Bytes()
						var err error
						if isText(ct) {
							raw, err = decodeText(raw)
						}
						var frames []gframe
						if err == nil {
							frames, err = parseGrpcWeb(raw)
						}
						bad := ""
						if err != nil {
							bad = err.Error()
						} else if len(frames) != 4 || frames[3].flag != 0x80 || !strings.HasPrefix(string(frames[3].data), "grpc-status: 0\r\n") {
							bad = fmt.Sprintf("%d frames / bad trailer", len(frames))
						} else {
							for k := 0; k < 3; k++ {
								var body []byte
								if isJSON(ct) {
									if json.Unmarshal(frames[k].data, &body) != nil {
										bad = "message is not the JSON encoding"
										break
									}
								} else {
									body = frames[k].data
								}
								hd, perr := payload.Parse(body)
								if perr != nil || hd.Tag != tag || hd.Seq != uint32(k) {
									bad = fmt.Sprintf("message %d of request %d: %v (tag %d seq %d)", k, tag, perr, hd.Tag, hd.Seq)
									break
								}
							}
						}
						mu.Lock()
						a.n++
						if bad != "" {
							a.fail("concurrent-response-corrupt", "ct=%q request tag %d under %d concurrent requests: %s", ct, tag, workers, bad)
						}
						mu.Unlock()
					}
				}()
			}
			wg.Wait()
			a.smp = map[string]interface{}{"content_type": ct, "concurrent_workers": workers, "requests_each": per}
		})
	}
	return out
}

func main() {
	runner.Main(runner.Check{
		Property: "C14",
		Level:    "exploration",
		Rule:     "one case = one HTTP request through drpchttp.New(scripted handler): (1) 8 content types x ~45 error values (codes, Twirp code strings incl. every table entry, CR/LF/colon/non-ASCII/invalid UTF-8 texts) x 0..3 streamed messages x message bytes, plus seeded hostile error texts; (2) every metadata header string over {%,=,a,4,1,G,+,space} up to length 5 (7 thorough) and seeded multi-entry headers, compared with a reference percent-decoder (net/url.PathUnescape); (3) request and response messages of limit-1, limit, limit+1, limit+1MiB encoded bytes for every content type. The response is parsed by independent decoders. distinct_nontrivial counts requests issued (the batches partition the case space).",
		Assumptions: []string{
			"grpc-web text mode is decoded per 4-character base64 quantum (segments are padded individually)",
			"for a failed RPC on the unary Twirp protocol the body must be the JSON error object with exactly code and msg; msg equals the error text up to encoding/json's replacement of invalid UTF-8",
			"a response message of exactly the limit may be either sent intact or rejected (the code rejects >= limit); over the limit it must be rejected for grpc-web; Twirp responses have no limit and must never be truncated",
		},
		Gen:           gen,
		InProc:        true,
		Parallel:      8,
		Procs:         16,
		MinNontrivial: 5000,
	})
}
