// C19: one-shot signals are set once and seen consistently by all observers.
// Monitors over recorded histories of drpcsignal.Signal and drpcsignal.Chan:
// exactly-one-winner, linearizability against a write-once register
// (porcupine), channel identity, closed-after-winning-Set-returned, and a
// blocked-goroutine census for lost wake-ups; one goroutine is parked at each
// internal step (drpcdebug.Point) while the others run. Race detector on.
package main

import (
	"errors"
	"fmt"
	"runtime"
	"strings"
	"sync"
	"sync/atomic"
	"time"

	"github.com/anishathalye/porcupine"

	"storj.io/drpc/drpcsignal"

	"verifharness/census"
	"verifharness/director"
	"verifharness/payload"
	"verifharness/rig"
	"verifharness/runner"
	"verifharness/simnet"
)

type opKind int

const (
	opSet opKind = iota
	opGet
	opErr
	opIsSet
	opPoll   // Signal() then non-blocking receive
	opWait   // Wait()
	opSignal // Signal() identity only
)

var opNames = []string{"Set", "Get", "Err", "IsSet", "Poll", "Wait", "Signal"}

type in struct {
	Kind opKind
	Val  int // Set: value (>0)
}

type outv struct {
	OK  bool // Set: won; Get: valid; IsSet; Poll: closed
	Val int  // Get/Err: value (0 = nil)
}

type valErr struct{ v int }

func (e *valErr) Error() string { return fmt.Sprintf("value %d", e.v) }

func valOf(err error) int {
	var ve *valErr
	if errors.As(err, &ve) {
		return ve.v
	}
	if err == nil {
		return 0
	}
	return -1
}

type regState struct {
	set bool
	val int
}

var model = porcupine.Model{
	Init: func() interface{} { return regState{} },
	Step: func(st, input, output interface{}) (bool, interface{}) {
		s := st.(regState)
		i := input.(in)
		o := output.(outv)
		switch i.Kind {
		case opSet:
			if s.set {
				return !o.OK, s
			}
			return o.OK, regState{true, i.Val}
		case opGet:
			if s.set {
				return o.OK && o.Val == s.val, s
			}
			return !o.OK && o.Val == 0, s
		case opErr:
			if s.set {
				return o.Val == s.val, s
			}
			return o.Val == 0, s
		case opIsSet:
			return o.OK == s.set, s
		case opPoll:
			// a closed channel implies the value is visible; an open one is
			// always allowed inside the window of a concurrent Set
			if o.OK {
				return s.set, s
			}
			return true, s
		case opWait:
			// returning from Wait implies set
			return s.set, s
		}
		return true, s
	},
	DescribeOperation: func(input, output interface{}) string {
		i := input.(in)
		o := output.(outv)
		return fmt.Sprintf("%s(%d) -> ok=%v val=%d", opNames[i.Kind], i.Val, o.OK, o.Val)
	},
}

type event struct {
	proc      int
	in        in
	out       outv
	call, ret int64
	returned  bool
	ch        chan struct{}
}

var signalPoints = []string{"", "signal.set.locked", "signal.set.errStored", "signal.set.statusStored", "signal.set.closed", "signal.signal.locked", "signal.signal.made", "signal.signal.stored"}

func signalScenario(id string, seed uint64, point string, nth int, procs [][]in) runner.Result {
	var sig drpcsignal.Signal
	d := director.New(nil)
	director.Install(d)
	defer director.Install(nil)
	var park *director.Park
	if point != "" {
		park = d.ParkAt(point, &sig, nth)
	}
	var mu sync.Mutex
	var events []*event
	var wg sync.WaitGroup
	start := make(chan struct{})
	allDone := make(chan struct{})
	for p, prog := range procs {
		p, prog := p, prog
		wg.Add(1)
		go func() {
			defer wg.Done()
			<-start
			for _, i := range prog {
				ev := &event{proc: p, in: i}
				mu.Lock()
				events = append(events, ev)
				mu.Unlock()
				ev.call = simnet.Tick()
				switch i.Kind {
				case opSet:
					// value 0 stands for Set(nil): a legal value, and the one that is hardest to tell from "not set"
					var e error
					if i.Val != 0 {
						e = &valErr{i.Val}
					}
					ev.out.OK = sig.Set(e)
				case opGet:
					err, ok := sig.Get()
					ev.out = outv{OK: ok, Val: valOf(err)}
				case opErr:
					ev.out.Val = valOf(sig.Err())
				case opIsSet:
					ev.out.OK = sig.IsSet()
				case opPoll:
					ch := sig.Signal()
					ev.ch = ch
					select {
					case <-ch:
						ev.out.OK = true
					default:
					}
				case opWait:
					ev.ch = nil
					sig.Wait()
					ev.out.OK = true
				case opSignal:
					ev.ch = sig.Signal()
				}
				ev.ret = simnet.Tick()
				mu.Lock()
				ev.returned = true
				mu.Unlock()
			}
		}()
	}
	go func() { wg.Wait(); close(allDone) }()
	close(start)
	census.Bump()

	parked := false
	if park != nil {
		st, _ := census.QuiesceOr(allDone, rig.Watchdog)
		parked = park.IsReached()
		if st == "watchdog" {
			park.Release()
			return runner.Inconcl(id, "watchdog before the park point was reached")
		}
		// while one goroutine sits at the internal step, let the others run to completion or block
		if parked && st != "ready" {
			census.Quiesce(rig.Watchdog)
		}
		park.Release()
	}
	st, snap := census.QuiesceOr(allDone, rig.Watchdog)
	desc := describe(procs, point, nth)
	if st == "watchdog" {
		return runner.Inconcl(id, "watchdog: "+desc)
	}
	mu.Lock()
	defer mu.Unlock()
	var fails []string
	if st == "quiescent" {
		var blocked []string
		for _, ev := range events {
			if !ev.returned {
				blocked = append(blocked, fmt.Sprintf("p%d:%s", ev.proc, opNames[ev.in.Kind]))
			}
		}
		fails = append(fails, fmt.Sprintf("lost wake-up: process quiescent with operations still blocked %v although a Set was issued\n%s", blocked, census.Dump(census.InDRPC(snap))))
		// unblock the leaked goroutines is impossible; they stay parked for the rest of this process
	}
	// exactly one winner
	winners := 0
	var winRet int64
	var chans []chan struct{}
	for _, ev := range events {
		if !ev.returned {
			continue
		}
		if ev.in.Kind == opSet && ev.out.OK {
			winners++
			winRet = ev.ret
		}
		if ev.ch != nil {
			chans = append(chans, ev.ch)
		}
	}
	if winners != 1 {
		fails = append(fails, fmt.Sprintf("%d Set calls returned true (exactly one must win)", winners))
	}
	for _, c := range chans {
		if c != chans[0] {
			fails = append(fails, "Signal() returned different channels to different callers")
			break
		}
	}
	if len(chans) > 0 && winners >= 1 {
		select {
		case <-chans[0]:
		default:
			fails = append(fails, "after the winning Set returned the notification channel is still open")
		}
	}
	for _, ev := range events {
		if ev.returned && ev.in.Kind == opPoll && winners == 1 && ev.call > winRet && !ev.out.OK {
			fails = append(fails, "a poll that began after the winning Set returned saw the channel open")
		}
	}
	// linearizability against the write-once register
	var ops []porcupine.Operation
	for _, ev := range events {
		if !ev.returned || ev.in.Kind == opSignal {
			continue
		}
		ops = append(ops, porcupine.Operation{ClientId: ev.proc, Input: ev.in, Call: ev.call, Output: ev.out, Return: ev.ret})
	}
	res, _ := porcupine.CheckOperationsVerbose(model, ops, 20*time.Second)
	if res == porcupine.Unknown {
		return runner.Inconcl(id, "porcupine timed out: "+desc)
	}
	if res == porcupine.Illegal {
		var h []string
		for _, ev := range events {
			h = append(h, fmt.Sprintf("p%d [%d,%d] %s", ev.proc, ev.call, ev.ret, model.DescribeOperation(ev.in, ev.out)))
		}
		fails = append(fails, "history is not linearizable as a write-once register:\n  "+strings.Join(h, "\n  "))
	}
	if len(fails) > 0 {
		key := "signal:" + strings.SplitN(fails[0], ":", 2)[0]
		if len(key) > 60 {
			key = key[:60]
		}
		v := runner.Violation(id, key, desc+"\n"+strings.Join(fails, "\n"))
		return v
	}
	r := runner.Hold(id, desc+fmt.Sprintf(" parked=%v", parked), true)
	r.Events = int64(len(events))
	r.Sets = map[string][]string{"interleavings": {fmt.Sprintf("%x", d.Signature())}}
	r.Stats = map[string]int64{"parked_reached": b2i(parked), "ops": int64(len(events))}
	r.Sample = map[string]interface{}{"programs": desc, "parked": parked}
	return r
}

func b2i(b bool) int64 {
	if b {
		return 1
	}
	return 0
}

func describe(procs [][]in, point string, nth int) string {
	var ps []string
	for _, p := range procs {
		var os []string
		for _, i := range p {
			if i.Kind == opSet {
				os = append(os, fmt.Sprintf("Set(%d)", i.Val))
			} else {
				os = append(os, opNames[i.Kind])
			}
		}
		ps = append(ps, strings.Join(os, ";"))
	}
	return fmt.Sprintf("[%s] park=%s#%d", strings.Join(ps, " | "), point, nth)
}

// ---- Chan ----

var chanPoints = []string{"", "chan.do.locked", "chan.do.ran"}

type chanOp int

const (
	cGet chanOp = iota
	cGetWait
	cClose
	cSend
	cRecv
	cFull
	cMake1
)

var chanNames = []string{"Get", "Get+wait", "Close", "Send", "Recv", "Full", "Make(1)"}

func chanScenario(id string, point string, nth int, procs [][]chanOp) runner.Result {
	var c drpcsignal.Chan
	d := director.New(nil)
	director.Install(d)
	defer director.Install(nil)
	var park *director.Park
	if point != "" {
		park = d.ParkAt(point, &c, nth)
	}
	var mu sync.Mutex
	var chans []chan struct{}
	var pending int32
	var closeRet int64
	type rec struct {
		op       chanOp
		returned bool
		proc     int
	}
	var recs []*rec
	var wg sync.WaitGroup
	start := make(chan struct{})
	allDone := make(chan struct{})
	var panicked atomic.Value
	for p, prog := range procs {
		p, prog := p, prog
		wg.Add(1)
		go func() {
			defer wg.Done()
			defer func() {
				if r := recover(); r != nil {
					buf := make([]byte, 2048)
					buf = buf[:runtime.Stack(buf, false)]
					panicked.Store(fmt.Sprintf("%v\n%s", r, buf))
				}
			}()
			<-start
			for _, o := range prog {
				rc := &rec{op: o, proc: p}
				mu.Lock()
				recs = append(recs, rc)
				mu.Unlock()
				atomic.AddInt32(&pending, 1)
				switch o {
				case cGet:
					ch := c.Get()
					mu.Lock()
					chans = append(chans, ch)
					mu.Unlock()
				case cGetWait:
					ch := c.Get()
					mu.Lock()
					chans = append(chans, ch)
					mu.Unlock()
					<-ch
				case cClose:
					c.Close()
					atomic.StoreInt64(&closeRet, simnet.Tick())
				case cSend:
					c.Send()
				case cRecv:
					c.Recv()
				case cFull:
					c.Full()
				case cMake1:
					c.Make(1)
				}
				atomic.AddInt32(&pending, -1)
				census.Bump()
				mu.Lock()
				rc.returned = true
				mu.Unlock()
			}
		}()
	}
	go func() { wg.Wait(); close(allDone) }()
	close(start)
	census.Bump()
	if park != nil {
		st, _ := census.QuiesceOr(allDone, rig.Watchdog)
		if st == "watchdog" {
			park.Release()
			return runner.Inconcl(id, "watchdog")
		}
		park.Release()
	}
	st, snap := census.QuiesceOr(allDone, rig.Watchdog)
	var ps []string
	for _, p := range procs {
		var os []string
		for _, o := range p {
			os = append(os, chanNames[o])
		}
		ps = append(ps, strings.Join(os, ";"))
	}
	desc := fmt.Sprintf("[%s] park=%s#%d", strings.Join(ps, " | "), point, nth)
	if st == "watchdog" {
		return runner.Inconcl(id, "watchdog: "+desc)
	}
	var fails []string
	if v := panicked.Load(); v != nil {
		fails = append(fails, "panic: "+v.(string))
	}
	mu.Lock()
	defer mu.Unlock()
	if st == "quiescent" {
		var blocked []string
		for _, rc := range recs {
			if !rc.returned {
				blocked = append(blocked, fmt.Sprintf("p%d:%s", rc.proc, chanNames[rc.op]))
			}
		}
		fails = append(fails, fmt.Sprintf("lost wake-up: operations still blocked at quiescence %v\n%s", blocked, census.Dump(census.InDRPC(snap))))
	}
	for _, ch := range chans {
		if ch != chans[0] {
			fails = append(fails, "Get returned different channels")
			break
		}
	}
	if atomic.LoadInt64(&closeRet) != 0 && len(chans) > 0 {
		select {
		case <-chans[0]:
		default:
			fails = append(fails, "channel returned by Get is still open after Close returned")
		}
	}
	if len(fails) > 0 {
		key := "chan:" + strings.SplitN(fails[0], ":", 2)[0]
		return runner.Violation(id, key, desc+"\n"+strings.Join(fails, "\n"))
	}
	r := runner.Hold(id, desc, true)
	r.Events = int64(len(recs))
	r.Sets = map[string][]string{"interleavings": {fmt.Sprintf("c%x", d.Signature())}}
	r.Sample = map[string]interface{}{"programs": desc}
	return r
}

// stress runs many tiny truly-concurrent rounds (spin barrier) without parking.
func stress(id string, seed uint64, rounds int) runner.Result {
	var fails []string
	var n int64
	for round := 0; round < rounds && len(fails) == 0; round++ {
		kind := round % 7
		var barrier int32
		wait := func(k int32) {
			atomic.AddInt32(&barrier, 1)
			for atomic.LoadInt32(&barrier) < k {
			}
		}
		switch kind {
		case 0: // Chan: first Get racing Close
			var c drpcsignal.Chan
			var ch chan struct{}
			var wg sync.WaitGroup
			wg.Add(2)
			go func() { defer wg.Done(); wait(2); ch = c.Get() }()
			go func() { defer wg.Done(); wait(2); c.Close() }()
			wg.Wait()
			select {
			case <-ch:
			default:
				fails = append(fails, fmt.Sprintf("round %d: Chan.Get racing Close: channel still open after Close returned", round))
			}
			if c.Get() != ch {
				fails = append(fails, "Chan.Get returned a different channel later")
			}
		case 1: // Signal: first Signal() racing Set
			var s drpcsignal.Signal
			var ch chan struct{}
			var ok bool
			var wg sync.WaitGroup
			wg.Add(2)
			go func() { defer wg.Done(); wait(2); ch = s.Signal() }()
			go func() { defer wg.Done(); wait(2); ok = s.Set(&valErr{1}) }()
			wg.Wait()
			if !ok {
				fails = append(fails, "single Set did not win")
			}
			select {
			case <-ch:
			default:
				fails = append(fails, fmt.Sprintf("round %d: Signal() racing Set: the channel handed out never closes", round))
			}
			if err, set := s.Get(); !set || valOf(err) != 1 {
				fails = append(fails, fmt.Sprintf("round %d: after Set returned true, Get()=(%v,%v)", round, err, set))
			}
			if s.Signal() != ch {
				fails = append(fails, "Signal() returned a different channel later")
			}
		case 2: // Signal: two Set racing two first Signal()
			var s drpcsignal.Signal
			var chs [2]chan struct{}
			var oks [2]bool
			var wg sync.WaitGroup
			wg.Add(4)
			for i := 0; i < 2; i++ {
				i := i
				go func() { defer wg.Done(); wait(4); chs[i] = s.Signal() }()
				go func() { defer wg.Done(); wait(4); oks[i] = s.Set(&valErr{i + 1}) }()
			}
			wg.Wait()
			if oks[0] == oks[1] {
				fails = append(fails, fmt.Sprintf("round %d: two concurrent Set returned %v and %v", round, oks[0], oks[1]))
			}
			if chs[0] != chs[1] {
				fails = append(fails, fmt.Sprintf("round %d: concurrent Signal() calls got different channels", round))
			}
			w := 1
			if oks[1] {
				w = 2
			}
			if err, set := s.Get(); !set || valOf(err) != w {
				fails = append(fails, fmt.Sprintf("round %d: winner was %d but Get()=(%v,%v)", round, w, err, set))
			}
			select {
			case <-chs[0]:
			default:
				fails = append(fails, "channel open after Set returned")
			}
		case 4: // Signal: the channel exists before Set; whoever sees it closed must see the value
			var s drpcsignal.Signal
			ch := s.Signal()
			var wg sync.WaitGroup
			var bad int32
			check := func() {
				err, set := s.Get()
				if !set || valOf(err) != 7 || !s.IsSet() || s.Err() == nil {
					atomic.AddInt32(&bad, 1)
				}
			}
			wg.Add(4)
			for i := 0; i < 2; i++ {
				go func() { // polls on its own core
					defer wg.Done()
					wait(3)
					for {
						select {
						case <-ch:
							check()
							return
						default:
						}
					}
				}()
			}
			go func() { defer wg.Done(); <-ch; check() }() // parked in the receive
			go func() { defer wg.Done(); wait(3); s.Set(&valErr{7}) }()
			wg.Wait()
			if bad > 0 {
				fails = append(fails, fmt.Sprintf("round %d: closed-implies-visible: %d observer(s) saw the Signal's channel closed while Get/IsSet/Err still reported it unset", round, bad))
			}
		case 5: // Signal: pollers of Get/Err/IsSet racing the only Set: set implies the winner's value
			var s drpcsignal.Signal
			var wg sync.WaitGroup
			var bad int32
			wg.Add(3)
			for i := 0; i < 2; i++ {
				i := i
				go func() {
					defer wg.Done()
					wait(3)
					for {
						if i == 0 {
							if err, ok := s.Get(); ok {
								if valOf(err) != 9 {
									atomic.AddInt32(&bad, 1)
								}
								return
							}
						} else if s.IsSet() {
							if err := s.Err(); valOf(err) != 9 {
								atomic.AddInt32(&bad, 1)
							}
							return
						}
					}
				}()
			}
			go func() { defer wg.Done(); wait(3); s.Set(&valErr{9}) }()
			wg.Wait()
			if bad > 0 {
				fails = append(fails, fmt.Sprintf("round %d: set-implies-value: %d observer(s) saw the Signal set but not the winner's error", round, bad))
			}
		case 6: // Chan: Make racing the first Get calls; Close afterwards closes what Get handed out
			var c drpcsignal.Chan
			var chs [2]chan struct{}
			var wg sync.WaitGroup
			wg.Add(4)
			for i := 0; i < 2; i++ {
				i := i
				go func() { defer wg.Done(); wait(4); chs[i] = c.Get() }()
				go func() { defer wg.Done(); wait(4); c.Make(1) }()
			}
			wg.Wait()
			c.Close()
			if chs[0] != chs[1] || c.Get() != chs[0] {
				fails = append(fails, fmt.Sprintf("round %d: Make racing Get: different channels handed out", round))
			}
			for _, ch := range chs {
				select {
				case <-ch:
				default:
					fails = append(fails, fmt.Sprintf("round %d: Make racing Get: a channel handed out by Get is still open after Close", round))
				}
			}
		case 3: // Chan: first Send racing first Recv racing Make
			var c drpcsignal.Chan
			var wg sync.WaitGroup
			wg.Add(3)
			done := make(chan struct{})
			go func() { defer wg.Done(); wait(3); c.Make(1) }()
			go func() { defer wg.Done(); wait(3); c.Send() }()
			go func() { defer wg.Done(); wait(3); c.Recv() }()
			go func() { wg.Wait(); close(done) }()
			if st, _ := census.QuiesceOr(done, rig.Watchdog); st == "quiescent" {
				fails = append(fails, fmt.Sprintf("round %d: first Send and first Recv did not meet (lost wake-up)", round))
			} else if st == "watchdog" {
				return runner.Inconcl(id, "watchdog")
			}
		}
		n++
	}
	if len(fails) > 0 {
		return runner.Violation(id, "stress:"+strings.SplitN(fails[0], ":", 3)[len(strings.SplitN(fails[0], ":", 3))-1][:20], strings.Join(fails, "\n"))
	}
	r := runner.Hold(id, id, true)
	r.Events = n
	r.Distinct = 7
	return r
}

func gen(tier string, seed uint64) []runner.Scenario {
	var out []runner.Scenario
	thorough := tier == "thorough"
	r := &payload.SplitMix{S: payload.Hash(seed, 0x19)}
	reps := 6
	if thorough {
		reps = 120
	}
	kinds := []opKind{opSet, opGet, opErr, opIsSet, opPoll, opWait, opSignal}
	for _, pt := range signalPoints {
		for rep := 0; rep < reps; rep++ {
			for _, np := range []int{2, 3, 4, 6} {
				procs := make([][]in, np)
				val := 1
				hasSet := false
				for p := range procs {
					l := 1 + r.Intn(3)
					for k := 0; k < l; k++ {
						kd := kinds[r.Intn(len(kinds))]
						if r.Intn(3) == 0 {
							kd = opSet
						}
						i := in{Kind: kd}
						if kd == opSet {
							i.Val = val
							val++
							hasSet = true
							if r.Intn(4) == 0 {
								i.Val = 0
							}
						}
						procs[p] = append(procs[p], i)
					}
				}
				// a Wait placed before the same goroutine's own Set would block by construction
				setByFreeProc := false
				for p := range procs {
					hasW, hasS := false, false
					for _, i := range procs[p] {
						hasW = hasW || i.Kind == opWait
						hasS = hasS || i.Kind == opSet
					}
					if hasW && hasS {
						for k := range procs[p] {
							if procs[p][k].Kind == opWait {
								procs[p][k].Kind = opPoll
							}
						}
						hasW = false
					}
					if hasS && !hasW {
						setByFreeProc = true
					}
				}
				if !hasSet || !setByFreeProc {
					procs = append(procs, []in{{Kind: opSet, Val: val}})
				}
				nth := 1 + r.Intn(2)
				pt, procs := pt, procs
				id := fmt.Sprintf("signal/%s/%d/n%d", pt, rep, np)
				s := r.Next()
				out = append(out, runner.Scenario{ID: id, Run: func() runner.Result { return signalScenario(id, s, pt, nth, procs) }})
			}
		}
	}
	// directed observer programs: while a Set sits at each internal step, one observer reads the error
	// first and the flag / value / channel afterwards: what Err showed must not be taken back
	for _, pt := range signalPoints {
		for k, second := range []opKind{opIsSet, opGet, opPoll, opErr} {
			for nobs := 1; nobs <= 2; nobs++ {
				procs := [][]in{{{Kind: opSet, Val: 1}}}
				for o := 0; o < nobs; o++ {
					procs = append(procs, []in{{Kind: opErr}, {Kind: second}, {Kind: opErr}})
				}
				pt, procs := pt, procs
				id := fmt.Sprintf("signal-observer/%s/%d/n%d", pt, k, nobs)
				s := r.Next()
				out = append(out, runner.Scenario{ID: id, Run: func() runner.Result { return signalScenario(id, s, pt, 1, procs) }})
			}
		}
	}
	// directed nil-winner programs: a Set(nil) races Sets of real errors while one of them sits at each
	// internal step; whoever wins, every later reader sees the winner's value, nil included
	for _, pt := range signalPoints {
		for rep := 0; rep < 3; rep++ {
			for nth := 1; nth <= 2; nth++ {
				procs := [][]in{{{Kind: opSet, Val: 0}, {Kind: opErr}, {Kind: opGet}}, {{Kind: opSet, Val: 5}, {Kind: opGet}}, {{Kind: opSet, Val: 6}, {Kind: opErr}}, {{Kind: opPoll}, {Kind: opGet}, {Kind: opErr}}}
				pt, procs, nth := pt, procs, nth
				id := fmt.Sprintf("signal-nil-winner/%s/%d/nth%d", pt, rep, nth)
				s := r.Next()
				out = append(out, runner.Scenario{ID: id, Run: func() runner.Result { return signalScenario(id, s, pt, nth, procs) }})
			}
		}
	}
	// directed sequential histories of the lazy channel: a buffered channel that holds a token when it is closed
	for _, pt := range chanPoints {
		for k, prog := range [][]chanOp{
			{cMake1, cSend, cClose, cGet, cRecv, cRecv},
			{cMake1, cSend, cGet, cClose, cRecv, cRecv},
			{cMake1, cGet, cSend, cClose, cGetWait},
			{cGet, cClose, cRecv, cGetWait},
		} {
			for _, extra := range [][]chanOp{nil} { // no concurrent Get: it would decide the capacity before Make(1) does
				procs := [][]chanOp{prog}
				if extra != nil {
					procs = append(procs, extra)
				}
				pt, procs := pt, procs
				id := fmt.Sprintf("chan-sequential/%s/%d/%d", pt, k, len(procs))
				out = append(out, runner.Scenario{ID: id, Run: func() runner.Result { return chanScenario(id, pt, 1, procs) }})
			}
		}
	}
	// directed buffered-channel programs: more sends than the buffer holds before anybody receives; every
	// send is matched by a receive in the end, none is dropped
	for _, pt := range chanPoints {
		for k, procs := range [][][]chanOp{
			{{cMake1, cSend, cSend}, {cRecv}, {cRecv}},
			{{cMake1, cSend, cSend, cSend}, {cRecv, cRecv, cRecv}},
			{{cMake1, cSend}, {cSend}, {cSend}, {cRecv, cRecv, cRecv}},
		} {
			for nth := 1; nth <= 2; nth++ {
				pt, procs, nth := pt, procs, nth
				id := fmt.Sprintf("chan-buffer-full/%s/%d/nth%d", pt, k, nth)
				out = append(out, runner.Scenario{ID: id, Run: func() runner.Result { return chanScenario(id, pt, nth, procs) }})
			}
		}
	}
	// directed first-use programs: the very first calls on a zero Chan are a Get and polls of Full on
	// other goroutines, one of them parked inside the lazy creation; every Get, then and later, must
	// hand out the one channel
	for _, pt := range chanPoints {
		for k, procs := range [][][]chanOp{
			{{cGet, cGet}, {cFull, cGet}, {cFull}},
			{{cFull, cGet}, {cGet}, {cFull, cFull, cGet}},
			{{cGet}, {cFull}, {cFull}, {cFull, cGet}},
		} {
			for nth := 1; nth <= 2; nth++ {
				pt, procs, nth := pt, procs, nth
				id := fmt.Sprintf("chan-first-use-full/%s/%d/nth%d", pt, k, nth)
				out = append(out, runner.Scenario{ID: id, Run: func() runner.Result { return chanScenario(id, pt, nth, procs) }})
			}
		}
	}
	cops := []chanOp{cGet, cGetWait, cClose, cFull, cMake1}
	for _, pt := range chanPoints {
		for rep := 0; rep < reps*2; rep++ {
			np := 2 + r.Intn(3)
			procs := make([][]chanOp, np)
			closed := false
			waits := false
			for p := range procs {
				l := 1 + r.Intn(2)
				for k := 0; k < l; k++ {
					o := cops[r.Intn(len(cops))]
					if o == cClose {
						if closed {
							o = cGet
						}
						closed = true
					}
					if o == cGetWait {
						waits = true
					}
					procs[p] = append(procs[p], o)
				}
			}
			if rep%3 == 0 {
				// a close-free family with sends and receives that must pair up
				procs = [][]chanOp{{cSend, cSend}, {cRecv}, {cRecv}}
				if rep%2 == 0 {
					procs = append(procs, []chanOp{cMake1, cFull})
				}
				closed, waits = false, false
			} else {
				// a goroutine that waits for the close must not be the one that closes
				for p := range procs {
					hasW, hasC := false, false
					for _, o := range procs[p] {
						hasW = hasW || o == cGetWait
						hasC = hasC || o == cClose
					}
					if hasW && hasC {
						for k, o := range procs[p] {
							if o == cGetWait {
								procs[p][k] = cGet
							}
						}
					}
				}
				waits = false
				for p := range procs {
					for _, o := range procs[p] {
						waits = waits || o == cGetWait
					}
				}
				if waits && !closed {
					procs = append(procs, []chanOp{cClose})
					closed = true
				}
				// Full/Make(1) on a closed channel would send on it: keep them out of closing families
				if closed {
					for p := range procs {
						for k, o := range procs[p] {
							if o == cFull || o == cMake1 {
								procs[p][k] = cGet
							}
						}
					}
				}
			}
			nth := 1 + r.Intn(2)
			pt, procs := pt, procs
			id := fmt.Sprintf("chan/%s/%d", pt, rep)
			out = append(out, runner.Scenario{ID: id, Run: func() runner.Result { return chanScenario(id, pt, nth, procs) }})
		}
	}
	ns := 8
	rounds := 4000
	if thorough {
		ns, rounds = 28, 40000
	}
	for i := 0; i < ns; i++ {
		id := fmt.Sprintf("stress/%d", i)
		s := r.Next()
		out = append(out, runner.Scenario{ID: id, Run: func() runner.Result { return stress(id, s, rounds) }})
	}
	return out
}

func main() {
	runner.Main(runner.Check{
		Property: "C19",
		Level:    "exploration",
		Rule:     "one case = one concurrent history: 2-6 goroutines each running 1-3 of Set/Get/Err/IsSet/Signal/Wait/poll on one drpcsignal.Signal (or Get/Get+wait/Close/Send/Recv/Full/Make on one Chan), with one goroutine parked at one of the 7 (Signal) / 2 (Chan) internal points until every other goroutine has finished or blocked, then released; plus spin-barrier stress rounds of the four first-use races (Get vs Close, Signal vs Set, 2 Set vs 2 Signal, Send vs Recv vs Make) of closed-implies-visible (two pollers and a parked receiver on an existing channel racing Set), of set-implies-value (pollers of Get / IsSet+Err racing the only Set) and of Make racing the first Get calls. Oracles: exactly one Set wins; porcupine linearizability of the recorded history against a write-once register; one channel identity; channel closed once the winning Set / Close returned; census shows no blocked waiter; no panic; race detector silent. Non-trivial: every case (>= 2 goroutines). Distinct: by programs, park point and whether the park was reached. (chan-buffer-full) directed programs with more Sends than the buffer holds before anybody receives: every Send is matched by a Recv in the end, none is dropped.",
		Assumptions: []string{
			"Chan histories never Send/Full/Make after Close (sending on a closed channel panics by Go semantics and the library never does it)",
			"an open channel observed by a poll concurrent with the winning Set is allowed; a poll that starts after that Set returned must see it closed",
		},
		Gen:           gen,
		Shards:        14,
		MinNontrivial: 100,
	})
}
