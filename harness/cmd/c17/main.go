// C17: generated code is well-typed and consistent with the runtime.
// Monitor: service descriptors are generated from the seed, fed as hand-built
// CodeGeneratorRequests to protoc-gen-go (message types) and to the
// protoc-gen-go-drpc plugin built from /repo's working tree; whenever the
// plugin accepts a descriptor the generated package must vet and build, its
// services must register with the real drpcmux, and a driver (derived from the
// generated interfaces by go/parser, not from the generator's naming helpers)
// runs every method of a generated client against a generated server over a
// real connection and checks that each round-trips its tag.
package main

import (
	"bytes"
	"fmt"
	"go/ast"
	"go/parser"
	"go/printer"
	"go/token"
	"os"
	"os/exec"
	"path/filepath"
	"regexp"
	"sort"
	"strings"
	"sync"

	"google.golang.org/protobuf/proto"
	"google.golang.org/protobuf/types/descriptorpb"
	"google.golang.org/protobuf/types/pluginpb"

	"verifharness/payload"
	"verifharness/runner"
)

var (
	workRoot   = filepath.Join(verifDir(), ".build", "c17work"+os.Getenv("VERIF_WORKSUFFIX"))
	pluginGo   = filepath.Join(workRoot, "protoc-gen-go")
	pluginDrpc = filepath.Join(workRoot, "protoc-gen-go-drpc")
	prepOnce   sync.Once
	prepErr    error
)

func repoDir() string {
	if d := os.Getenv("VERIF_REPO"); d != "" {
		return d
	}
	return "/repo"
}

func verifDir() string {
	if d := os.Getenv("VERIF_DIR"); d != "" {
		return d
	}
	return "/verif"
}

func run(dir string, name string, args ...string) (string, error) {
	cmd := exec.Command(name, args...)
	cmd.Dir = dir
	var out bytes.Buffer
	cmd.Stdout, cmd.Stderr = &out, &out
	err := cmd.Run()
	return out.String(), err
}

// prepare builds the two plugins and the scratch module once per process.
func prepare() error {
	prepOnce.Do(func() {
		os.MkdirAll(workRoot, 0o755)
		if out, err := run(filepath.Join(verifDir(), "harness"), "go", "build", "-o", pluginGo, "google.golang.org/protobuf/cmd/protoc-gen-go"); err != nil {
			prepErr = fmt.Errorf("building protoc-gen-go: %v\n%s", err, out)
			return
		}
		if out, err := run(repoDir(), "go", "build", "-o", pluginDrpc, "./cmd/protoc-gen-go-drpc"); err != nil {
			prepErr = fmt.Errorf("building protoc-gen-go-drpc from /repo: %v\n%s", err, out)
			return
		}
		mod := filepath.Join(workRoot, "mod")
		os.MkdirAll(filepath.Join(mod, "customenc"), 0o755)
		for _, name := range customLibNames {
			os.MkdirAll(filepath.Join(mod, name), 0o755)
			os.WriteFile(filepath.Join(mod, name, "enc.go"), []byte(strings.Replace(customEnc, "package customenc", "package "+name, 1)), 0o644)
		}
		os.WriteFile(filepath.Join(mod, "go.mod"), []byte("module c17scratch\n\ngo 1.19\n\nrequire (\n\tgoogle.golang.org/protobuf v1.27.1\n\tstorj.io/drpc v0.0.0\n)\n\nreplace storj.io/drpc => "+repoDir()+"\n"), 0o644)
		sum, _ := os.ReadFile(filepath.Join(repoDir(), "go.sum"))
		os.WriteFile(filepath.Join(mod, "go.sum"), sum, 0o644)
		os.WriteFile(filepath.Join(mod, "customenc", "enc.go"), []byte(customEnc), 0o644)
	})
	return prepErr
}

// customLibNames: the same user supplied protolib under package names that the generated encoding
// methods use themselves for parameters and variables.
var customLibNames = []string{"msg", "buf", "pbuf", "err", "proto", "drpc"}

const customEnc = `// Package customenc is a user supplied protolib for the "custom" option.
package customenc

import (
	"google.golang.org/protobuf/encoding/protojson"
	"google.golang.org/protobuf/proto"

	"storj.io/drpc"
)

func Marshal(msg drpc.Message) ([]byte, error)          { return proto.Marshal(msg.(proto.Message)) }
func Unmarshal(buf []byte, msg drpc.Message) error      { return proto.Unmarshal(buf, msg.(proto.Message)) }
func JSONMarshal(msg drpc.Message) ([]byte, error)      { return protojson.Marshal(msg.(proto.Message)) }
func JSONUnmarshal(buf []byte, msg drpc.Message) error  { return protojson.Unmarshal(buf, msg.(proto.Message)) }
`

// ---- descriptor generation ----

var svcNames = []string{"Foo", "foo_bar", "Foo_Bar", "fooBar", "FOO2", "Get_Item", "A", "A_B", "B", "Svc", "x", "Store_"}
var methNames = []string{"Get", "get_item", "Get_Item", "listItems", "PUT2", "B", "A_B", "Sync", "x", "Do_", "Stream", "Close", "Send", "Recv"}
var pkgNames = []string{"a", "a.b.c", "my_pkg.v1", "Zed"}
var msgNames = []string{"Req", "Resp", "item_info", "Item_Info", "FOO", "x"}

type methodSpec struct {
	Name    string
	CS, SS  bool
	In, Out string
}

type svcSpec struct {
	Name    string
	Methods []methodSpec
}

type fileSpec struct {
	Pkg      string
	Services []svcSpec
	Msgs     []string // top-level messages
	Nested   bool     // an extra nested message Outer.Inner is available
	// ExtPkg, if set, adds a second proto file whose message Note lives in another Go package whose
	// import path ends in this name (e.g. "context", "drpc"); methods may use ".ext.Note". Such
	// descriptors are checked for compilation and vet only.
	ExtPkg string
	// ExtPkg2, if set, adds a third proto file (message .ext2.Note2) in yet another Go package, whose
	// import path ends in this name as well (protogen then numbers the qualifiers: in, in1, ...).
	ExtPkg2 string
	// Sibling, if set, is a second proto file of the same proto package and the same Go package with
	// services of its own. The generator is run once per file (the other file is only imported), the way
	// protoc is commonly driven; both outputs land in one Go package, which must compile if both runs accept.
	Sibling []svcSpec
	// SiblingSameRun: both files of the Go package are generated in ONE plugin run (protoc a.proto b.proto),
	// sib.proto first.
	SiblingSameRun bool
	// Twin, if set, is a second proto file of another proto package and another Go package, generated in
	// the SAME plugin run as svc.proto (protoc one.proto two.proto). Its services may use TwoReq and
	// .google.protobuf.StringValue; state the generator keeps from the first file must not leak into it.
	Twin      []svcSpec
	TwinFirst bool   // two.proto is listed (and generated) before svc.proto
	Protolib  string // "", "custom"
	JSON      bool
	GoPkg     string
}

func (f fileSpec) String() string {
	var ss []string
	for _, s := range f.Services {
		var ms []string
		for _, m := range s.Methods {
			k := "unary"
			switch {
			case m.CS && m.SS:
				k = "bidi"
			case m.CS:
				k = "cstream"
			case m.SS:
				k = "sstream"
			}
			ms = append(ms, fmt.Sprintf("%s(%s %s->%s)", m.Name, k, m.In, m.Out))
		}
		ss = append(ss, fmt.Sprintf("service %s{%s}", s.Name, strings.Join(ms, ", ")))
	}
	ext := ""
	if f.ExtPkg != "" {
		ext = fmt.Sprintf(" ext-message-package=%q", f.ExtPkg)
		if f.ExtPkg2 != "" {
			ext += fmt.Sprintf(" second-ext-message-package=x/%q", f.ExtPkg2)
		}
	}
	if f.Sibling != nil {
		ext += fmt.Sprintf(" plus-sibling-file(same-run=%v)", f.SiblingSameRun)
		for _, sv := range f.Sibling {
			ext += " " + sv.Name
		}
	}
	return fmt.Sprintf("package %s protolib=%q json=%v%s %s", f.Pkg, f.Protolib, f.JSON, ext, strings.Join(ss, " "))
}

func genSpec(r *payload.SplitMix, idx int) fileSpec {
	f := fileSpec{Pkg: payload.Pick(r, pkgNames), JSON: r.Intn(2) == 0, Nested: r.Intn(2) == 0}
	if r.Intn(3) == 0 {
		f.Protolib = "custom"
	}
	nm := 1 + r.Intn(3)
	perm := r.Intn(len(msgNames))
	for i := 0; i < nm; i++ {
		f.Msgs = append(f.Msgs, msgNames[(perm+i)%len(msgNames)])
	}
	types := append([]string{}, f.Msgs...)
	if f.Nested {
		types = append(types, f.Msgs[0]+".Inner")
	}
	types = append(types, ".google.protobuf.StringValue")
	ns := 1 + r.Intn(3)
	sperm := r.Intn(len(svcNames))
	for s := 0; s < ns; s++ {
		sv := svcSpec{Name: svcNames[(sperm+s*5)%len(svcNames)]}
		dup := false
		norm := func(x string) string { return strings.ToLower(strings.ReplaceAll(x, "_", "")) }
		for _, o := range f.Services {
			// two services whose names differ only in case/underscores map to one Go name: excluded as unrealistic
			if norm(o.Name) == norm(sv.Name) {
				dup = true
			}
		}
		for _, m := range f.Msgs {
			if m == sv.Name {
				dup = true // a service and a message cannot share a proto name
			}
		}
		if dup {
			continue
		}
		nmeth := r.Intn(6)
		mperm := r.Intn(len(methNames))
		used := map[string]bool{}
		for m := 0; m < nmeth; m++ {
			name := methNames[(mperm+m*3)%len(methNames)]
			// two methods differing only in case/underscore produce the same Go name: excluded as unrealistic
			key := strings.ToLower(strings.ReplaceAll(name, "_", ""))
			if used[key] {
				continue
			}
			used[key] = true
			sv.Methods = append(sv.Methods, methodSpec{Name: name, CS: r.Intn(2) == 0, SS: r.Intn(2) == 0, In: payload.Pick(r, types), Out: payload.Pick(r, types)})
		}
		f.Services = append(f.Services, sv)
	}
	return f
}

// collisionSpec is the deterministic descriptor of a finding that has been repaired (the generator rejects it now).
func collisionSpec() fileSpec {
	return fileSpec{Pkg: "a", JSON: true, Msgs: []string{"Req"}, Services: []svcSpec{
		{Name: "A_B", Methods: []methodSpec{{Name: "Get", In: "Req", Out: "Req"}}},
		{Name: "A", Methods: []methodSpec{{Name: "B", CS: true, SS: true, In: "Req", Out: "Req"}}},
	}}
}

// clashSpecs are descriptors whose services or methods lead to the same Go identifier twice although
// their proto names differ. The generator may reject them; if it accepts one, its output must compile.
func clashSpecs() map[string]fileSpec {
	req := []string{"Req"}
	out := map[string]fileSpec{
		"method-DRPCConn":                       {Pkg: "a", Msgs: req, Services: []svcSpec{{Name: "Svc", Methods: []methodSpec{{Name: "DRPCConn", In: "Req", Out: "Req"}, {Name: "Get", In: "Req", Out: "Req"}}}}},
		"methods-get_item-GetItem":              {Pkg: "a", Msgs: req, Services: []svcSpec{{Name: "Svc", Methods: []methodSpec{{Name: "get_item", In: "Req", Out: "Req"}, {Name: "GetItem", SS: true, In: "Req", Out: "Req"}}}}},
		"services-my_service-MyService":         {Pkg: "a", Msgs: req, Services: []svcSpec{{Name: "my_service", Methods: []methodSpec{{Name: "Get", In: "Req", Out: "Req"}}}, {Name: "MyService", Methods: []methodSpec{{Name: "Put", In: "Req", Out: "Req"}}}}},
		"services-Foo-FooUnimplemented":         {Pkg: "a", JSON: true, Msgs: req, Services: []svcSpec{{Name: "Foo", Methods: []methodSpec{{Name: "Get", In: "Req", Out: "Req"}}}, {Name: "FooUnimplemented", Methods: []methodSpec{{Name: "Put", CS: true, In: "Req", Out: "Req"}}}}},
		"service-Foo-vs-service-FooDescription": {Pkg: "a", Msgs: req, Services: []svcSpec{{Name: "Foo", Methods: []methodSpec{{Name: "Get", In: "Req", Out: "Req"}}}, {Name: "FooDescription", Methods: []methodSpec{{Name: "Put", In: "Req", Out: "Req"}}}}},
		"service-named-like-a-message":          {Pkg: "a", Msgs: []string{"Req", "DRPCFooClient"}, Services: []svcSpec{{Name: "Foo", Methods: []methodSpec{{Name: "Get", In: "Req", Out: "DRPCFooClient"}}}}},
	}
	// a message named like one of the exported types the generator declares for a service or for a method of
	// each of the four shapes
	shapes := map[string]methodSpec{"unary": {Name: "Bar"}, "server-stream": {Name: "Bar", SS: true}, "client-stream": {Name: "Bar", CS: true}, "bidi": {Name: "Bar", CS: true, SS: true}}
	for shape, m := range shapes {
		for _, ident := range []string{"DRPCFoo_BarStream", "DRPCFoo_BarClient", "DRPCFooServer", "DRPCFooUnimplementedServer", "DRPCFooDescription"} {
			m := m
			m.In, m.Out = "Req", "Req"
			out[fmt.Sprintf("message-%s-beside-a-%s-method", ident, shape)] = fileSpec{Pkg: "a", JSON: shape == "bidi", Msgs: []string{"Req", ident}, Services: []svcSpec{{Name: "Foo", Methods: []methodSpec{m}}}}
		}
	}
	return out
}

// shiftSpecs are descriptors in which "<service>_<method>" reads the same for two different
// (service, method) pairs: the generator's escaping of underscores must keep their identifiers apart.
func shiftSpecs() []fileSpec {
	return []fileSpec{
		{Pkg: "a", Msgs: []string{"Req"}, Services: []svcSpec{
			{Name: "Store_Item", Methods: []methodSpec{{Name: "Get", In: "Req", Out: "Req"}, {Name: "List", SS: true, In: "Req", Out: "Req"}}},
			{Name: "Store", Methods: []methodSpec{{Name: "Item_Get", In: "Req", Out: "Req"}, {Name: "Item_List", CS: true, SS: true, In: "Req", Out: "Req"}}},
		}},
		{Pkg: "my_pkg.v1", JSON: true, Msgs: []string{"Req"}, Services: []svcSpec{
			{Name: "Foo", Methods: []methodSpec{{Name: "Bar_Baz", In: "Req", Out: "Req"}, {Name: "Bar__Baz", CS: true, In: "Req", Out: "Req"}}},
			{Name: "Foo_Bar", Methods: []methodSpec{{Name: "Baz", CS: true, In: "Req", Out: "Req"}, {Name: "_Baz", SS: true, In: "Req", Out: "Req"}}},
		}},
	}
}

// foreignPkgSpecs use request/response messages of another Go package whose name clashes with an
// identifier the generated code uses itself (the standard context package, the drpc runtime, ...).
func foreignPkgSpecs() []fileSpec {
	var out []fileSpec
	// c, x, in, ctx, srv, in1, in2, out, m, err, stream, s, mux, impl, cc: names of receivers, parameters and locals of the generated functions
	for _, name := range []string{"context", "drpc", "errors", "drpcerr", "msgs", "c", "x", "in", "ctx", "srv", "in1", "in2", "out", "m", "err", "stream", "s", "mux", "impl", "cc", "io", "n", "d", "enc", "ok"} {
		for _, first := range []bool{true, false} {
			svc := svcSpec{Name: "Svc"}
			ms := []methodSpec{
				{Name: "U", In: ".ext.Note", Out: ".ext.Note"},
				{Name: "C", CS: true, In: ".ext.Note", Out: "Req"},
				{Name: "S", SS: true, In: "Req", Out: ".ext.Note"},
				{Name: "B", CS: true, SS: true, In: ".ext.Note", Out: ".ext.Note"},
			}
			if !first {
				ms = append([]methodSpec{{Name: "Local", In: "Req", Out: "Req"}}, ms...)
			}
			svc.Methods = ms
			out = append(out, fileSpec{Pkg: "a.b.c", JSON: first, Msgs: []string{"Req"}, ExtPkg: name, Services: []svcSpec{svc}})
		}
	}
	return out
}

// twoPkgSpecs: two foreign message packages with the same name: protogen numbers the qualifiers
// (in, in1, ...), and a numbered qualifier can be a local name of the generated code as well.
func twoPkgSpecs() map[string]fileSpec {
	out := map[string]fileSpec{}
	for _, name := range []string{"in", "c", "x", "msgs"} {
		for _, swap := range []bool{false, true} {
			a, b := ".ext.Note", ".ext2.Note2"
			if swap {
				a, b = b, a
			}
			out[fmt.Sprintf("%s-swap=%v", name, swap)] = fileSpec{Pkg: "a", JSON: swap, Msgs: []string{"Req"}, ExtPkg: name, ExtPkg2: name, Services: []svcSpec{{Name: "Svc", Methods: []methodSpec{
				{Name: "U", In: a, Out: b}, {Name: "C", CS: true, In: b, Out: a}, {Name: "S", SS: true, In: b, Out: b}, {Name: "B", CS: true, SS: true, In: a, Out: a}, {Name: "L", In: "Req", Out: b}}}}}
		}
	}
	// a local name and the same name with the underscore the generator would append to it, as the
	// qualifiers of two packages: one method uses the one, a later (or earlier) method the other
	for _, name := range []string{"n", "c", "ctx", "in", "x", "srv", "in1", "in2", "msg", "buf", "ok"} {
		for _, swap := range []bool{false, true} {
			a, b := ".ext.Note", ".ext2.Note2"
			if swap {
				a, b = b, a
			}
			// request and response of one method from the two packages, in either order
			out[fmt.Sprintf("%s_-and-%s-in-one-method-swap=%v", name, name, swap)] = fileSpec{Pkg: "a", JSON: swap, Msgs: []string{"Req"}, ExtPkg: name + "_", ExtPkg2: name, Services: []svcSpec{{Name: "Store", Methods: []methodSpec{
				{Name: "U", In: a, Out: b}, {Name: "C", CS: true, In: a, Out: b}, {Name: "S", SS: true, In: a, Out: b}, {Name: "B", CS: true, SS: true, In: a, Out: b}}}}}
			out[fmt.Sprintf("%s_-then-%s-swap=%v", name, name, swap)] = fileSpec{Pkg: "a", JSON: !swap, Msgs: []string{"Req"}, ExtPkg: name + "_", ExtPkg2: name, Services: []svcSpec{{Name: "Svc", Methods: []methodSpec{
				{Name: "First", In: a, Out: "Req"}, {Name: "Mid", SS: true, In: "Req", Out: "Req"}, {Name: "Later", In: b, Out: "Req"}, {Name: "Last", CS: true, SS: true, In: b, Out: b}}}}}
		}
	}
	return out
}

// twinSpecs: two files of different Go packages generated in one run of the plugin, both using the
// same well-known type.
func twinSpecs() map[string]fileSpec {
	sv := ".google.protobuf.StringValue"
	out := map[string]fileSpec{}
	for _, first := range []bool{false, true} {
		out[fmt.Sprintf("shared-wellknown-type-twin-first=%v", first)] = fileSpec{Pkg: "a", JSON: first, Msgs: []string{"Req"}, TwinFirst: first,
			Services: []svcSpec{{Name: "One", Methods: []methodSpec{{Name: "U", In: sv, Out: "Req"}, {Name: "B", CS: true, SS: true, In: sv, Out: sv}}}},
			Twin:     []svcSpec{{Name: "Two", Methods: []methodSpec{{Name: "U", In: sv, Out: "TwoReq"}, {Name: "S", SS: true, In: "TwoReq", Out: sv}, {Name: "C", CS: true, In: sv, Out: sv}}}}}
	}
	return out
}

// siblingSpecs: two files of one Go package, generated in separate runs.
func siblingSpecs() map[string]fileSpec {
	get := []methodSpec{{Name: "Get", In: "Req", Out: "Req"}}
	return map[string]fileSpec{
		"no-clash":             {Pkg: "a", Msgs: []string{"Req"}, Services: []svcSpec{{Name: "Shop", Methods: get}}, Sibling: []svcSpec{{Name: "Admin", Methods: []methodSpec{{Name: "Put", CS: true, In: "SibReq", Out: "SibReq"}}}}},
		"service-vs-method":    {Pkg: "a", Msgs: []string{"Req"}, Services: []svcSpec{{Name: "Shop", Methods: []methodSpec{{Name: "Admin", CS: true, SS: true, In: "Req", Out: "Req"}}}}, Sibling: []svcSpec{{Name: "Shop_Admin", Methods: []methodSpec{{Name: "Put", In: "SibReq", Out: "SibReq"}}}}},
		"same-service-name":    {Pkg: "a", Msgs: []string{"Req"}, Services: []svcSpec{{Name: "shop", Methods: get}}, Sibling: []svcSpec{{Name: "Shop", Methods: []methodSpec{{Name: "Put", In: "SibReq", Out: "SibReq"}}}}},
		"unimplemented-suffix": {Pkg: "a", JSON: true, Msgs: []string{"Req"}, Services: []svcSpec{{Name: "FooUnimplemented", Methods: get}}, Sibling: []svcSpec{{Name: "Foo", Methods: []methodSpec{{Name: "Put", In: "SibReq", Out: "SibReq"}}}}},
	}
}

// sameRunSpecs: two files of one Go package generated in one run; the file that comes first is fine,
// what clashes (if anything) sits in the later file or between the two.
func sameRunSpecs() map[string]fileSpec {
	put := []svcSpec{{Name: "Admin", Methods: []methodSpec{{Name: "Put", CS: true, In: "SibReq", Out: "SibReq"}}}}
	rr := func(n string) methodSpec { return methodSpec{Name: n, In: "Req", Out: "Req"} }
	return map[string]fileSpec{
		"no-clash": {Pkg: "a", Msgs: []string{"Req"}, SiblingSameRun: true, Sibling: put, Services: []svcSpec{{Name: "Shop", Methods: []methodSpec{rr("Get")}}}},
		"later-file-methods-clash": {Pkg: "a", Msgs: []string{"Req"}, SiblingSameRun: true, Sibling: put,
			Services: []svcSpec{{Name: "Orders", Methods: []methodSpec{rr("get_order"), rr("GetOrder")}}}},
		"later-file-service-vs-method": {Pkg: "a", Msgs: []string{"Req"}, SiblingSameRun: true, Sibling: put,
			Services: []svcSpec{{Name: "Cart_Item", Methods: []methodSpec{rr("Get")}}, {Name: "Cart", Methods: []methodSpec{{Name: "Item", CS: true, SS: true, In: "Req", Out: "Req"}}}}},
		"later-file-stream-names-clash": {Pkg: "a", JSON: true, Msgs: []string{"Req"}, SiblingSameRun: true, Sibling: put,
			Services: []svcSpec{{Name: "Orders", Methods: []methodSpec{{Name: "Get_Order", SS: true, In: "Req", Out: "Req"}}}, {Name: "Orders_Get", Methods: []methodSpec{{Name: "Order", SS: true, In: "Req", Out: "Req"}}}}},
		"between-the-files": {Pkg: "a", Msgs: []string{"Req"}, SiblingSameRun: true, Sibling: []svcSpec{{Name: "Shop_Admin", Methods: []methodSpec{{Name: "Put", In: "SibReq", Out: "SibReq"}}}},
			Services: []svcSpec{{Name: "Shop", Methods: []methodSpec{{Name: "Admin", CS: true, SS: true, In: "Req", Out: "Req"}}}}},
	}
}

func buildRequest(f fileSpec, idx int) *pluginpb.CodeGeneratorRequest {
	goPkg := fmt.Sprintf("c17scratch/p%d", idx)
	fd := &descriptorpb.FileDescriptorProto{
		Name:       proto.String("svc.proto"),
		Package:    proto.String(f.Pkg),
		Syntax:     proto.String("proto3"),
		Dependency: []string{"google/protobuf/wrappers.proto"},
		Options:    &descriptorpb.FileOptions{GoPackage: proto.String(goPkg + ";gen")},
	}
	str := descriptorpb.FieldDescriptorProto_TYPE_STRING
	opt := descriptorpb.FieldDescriptorProto_LABEL_OPTIONAL
	tagField := func() *descriptorpb.FieldDescriptorProto {
		return &descriptorpb.FieldDescriptorProto{Name: proto.String("tag"), Number: proto.Int32(1), Type: &str, Label: &opt, JsonName: proto.String("tag")}
	}
	// every local message also carries a sub-message (a field whose encoding has a length prefix)
	msgT := descriptorpb.FieldDescriptorProto_TYPE_MESSAGE
	fd.MessageType = append(fd.MessageType, &descriptorpb.DescriptorProto{Name: proto.String("VerifSubNote"), Field: []*descriptorpb.FieldDescriptorProto{
		{Name: proto.String("note"), Number: proto.Int32(1), Type: &str, Label: &opt, JsonName: proto.String("note")}}})
	for i, m := range f.Msgs {
		md := &descriptorpb.DescriptorProto{Name: proto.String(m), Field: []*descriptorpb.FieldDescriptorProto{tagField(),
			{Name: proto.String("sub"), Number: proto.Int32(2), Type: &msgT, TypeName: proto.String("." + f.Pkg + ".VerifSubNote"), Label: &opt, JsonName: proto.String("sub")}}}
		if i == 0 && f.Nested {
			md.NestedType = []*descriptorpb.DescriptorProto{{Name: proto.String("Inner"), Field: []*descriptorpb.FieldDescriptorProto{tagField()}}}
		}
		fd.MessageType = append(fd.MessageType, md)
	}
	full := func(t string) string {
		if strings.HasPrefix(t, ".") {
			return t
		}
		return "." + f.Pkg + "." + t
	}
	for _, s := range f.Services {
		sd := &descriptorpb.ServiceDescriptorProto{Name: proto.String(s.Name)}
		for _, m := range s.Methods {
			sd.Method = append(sd.Method, &descriptorpb.MethodDescriptorProto{Name: proto.String(m.Name), InputType: proto.String(full(m.In)), OutputType: proto.String(full(m.Out)),
				ClientStreaming: proto.Bool(m.CS), ServerStreaming: proto.Bool(m.SS)})
		}
		fd.Service = append(fd.Service, sd)
	}
	wrappers := &descriptorpb.FileDescriptorProto{
		Name: proto.String("google/protobuf/wrappers.proto"), Package: proto.String("google.protobuf"), Syntax: proto.String("proto3"),
		Options: &descriptorpb.FileOptions{GoPackage: proto.String("google.golang.org/protobuf/types/known/wrapperspb")},
		MessageType: []*descriptorpb.DescriptorProto{{Name: proto.String("StringValue"), Field: []*descriptorpb.FieldDescriptorProto{
			{Name: proto.String("value"), Number: proto.Int32(1), Type: &str, Label: &opt, JsonName: proto.String("value")}}}},
	}
	files := []*descriptorpb.FileDescriptorProto{wrappers, fd}
	if f.ExtPkg != "" {
		fd.Dependency = append(fd.Dependency, "ext.proto")
		// (files are listed in dependency order)
		files = []*descriptorpb.FileDescriptorProto{wrappers, {
			Name: proto.String("ext.proto"), Package: proto.String("ext"), Syntax: proto.String("proto3"),
			Options:     &descriptorpb.FileOptions{GoPackage: proto.String(goPkg + "/" + f.ExtPkg + ";" + f.ExtPkg)},
			MessageType: []*descriptorpb.DescriptorProto{{Name: proto.String("Note"), Field: []*descriptorpb.FieldDescriptorProto{tagField()}}},
		}, fd}
	}
	if f.ExtPkg != "" && f.ExtPkg2 != "" {
		fd.Dependency = append(fd.Dependency, "ext2.proto")
		ext2 := &descriptorpb.FileDescriptorProto{
			Name: proto.String("ext2.proto"), Package: proto.String("ext2"), Syntax: proto.String("proto3"),
			Options:     &descriptorpb.FileOptions{GoPackage: proto.String(goPkg + "/x/" + f.ExtPkg2 + ";" + f.ExtPkg2)},
			MessageType: []*descriptorpb.DescriptorProto{{Name: proto.String("Note2"), Field: []*descriptorpb.FieldDescriptorProto{tagField()}}},
		}
		files = append(files[:len(files)-1], ext2, fd)
	}
	if f.Sibling != nil {
		sib := &descriptorpb.FileDescriptorProto{
			Name: proto.String("sib.proto"), Package: proto.String(f.Pkg), Syntax: proto.String("proto3"),
			Options:     &descriptorpb.FileOptions{GoPackage: proto.String(goPkg + ";gen")},
			MessageType: []*descriptorpb.DescriptorProto{{Name: proto.String("SibReq"), Field: []*descriptorpb.FieldDescriptorProto{tagField()}}},
		}
		for _, sv := range f.Sibling {
			sd := &descriptorpb.ServiceDescriptorProto{Name: proto.String(sv.Name)}
			for _, m := range sv.Methods {
				sd.Method = append(sd.Method, &descriptorpb.MethodDescriptorProto{Name: proto.String(m.Name), InputType: proto.String(full(m.In)), OutputType: proto.String(full(m.Out)),
					ClientStreaming: proto.Bool(m.CS), ServerStreaming: proto.Bool(m.SS)})
			}
			sib.Service = append(sib.Service, sd)
		}
		fd.Dependency = append(fd.Dependency, "sib.proto")
		files = append(files[:len(files)-1], sib, fd)
	}
	if f.Twin != nil {
		two := &descriptorpb.FileDescriptorProto{
			Name: proto.String("two.proto"), Package: proto.String("two"), Syntax: proto.String("proto3"),
			Dependency:  []string{"google/protobuf/wrappers.proto"},
			Options:     &descriptorpb.FileOptions{GoPackage: proto.String(goPkg + "/two;two")},
			MessageType: []*descriptorpb.DescriptorProto{{Name: proto.String("TwoReq"), Field: []*descriptorpb.FieldDescriptorProto{tagField()}}},
		}
		for _, sv := range f.Twin {
			sd := &descriptorpb.ServiceDescriptorProto{Name: proto.String(sv.Name)}
			for _, m := range sv.Methods {
				ft := func(t string) string {
					if strings.HasPrefix(t, ".") {
						return t
					}
					return ".two." + t
				}
				sd.Method = append(sd.Method, &descriptorpb.MethodDescriptorProto{Name: proto.String(m.Name), InputType: proto.String(ft(m.In)), OutputType: proto.String(ft(m.Out)),
					ClientStreaming: proto.Bool(m.CS), ServerStreaming: proto.Bool(m.SS)})
			}
			two.Service = append(two.Service, sd)
		}
		if f.TwinFirst {
			files = append(append(files[:len(files)-1:len(files)-1], two), fd)
		} else {
			files = append(files, two)
		}
	}
	param := ""
	var ps []string
	if strings.HasPrefix(f.Protolib, "custom:") {
		ps = append(ps, "protolib=c17scratch/"+strings.TrimPrefix(f.Protolib, "custom:"))
	} else if f.Protolib == "custom" {
		ps = append(ps, "protolib=c17scratch/customenc")
	}
	if !f.JSON {
		ps = append(ps, "json=false")
	}
	param = strings.Join(ps, ",")
	gen := []string{"svc.proto"}
	if f.Sibling != nil && f.SiblingSameRun {
		gen = []string{"sib.proto", "svc.proto"}
	}
	if f.Twin != nil {
		gen = []string{"svc.proto", "two.proto"}
		if f.TwinFirst {
			gen = []string{"two.proto", "svc.proto"}
		}
	}
	return &pluginpb.CodeGeneratorRequest{FileToGenerate: gen, ProtoFile: files, Parameter: proto.String(param)}
}

func runPlugin(bin string, req *pluginpb.CodeGeneratorRequest, param string) (*pluginpb.CodeGeneratorResponse, error) {
	r := proto.Clone(req).(*pluginpb.CodeGeneratorRequest)
	r.Parameter = proto.String(param)
	in, err := proto.Marshal(r)
	if err != nil {
		return nil, err
	}
	cmd := exec.Command(bin)
	cmd.Stdin = bytes.NewReader(in)
	var out, errb bytes.Buffer
	cmd.Stdout, cmd.Stderr = &out, &errb
	if err := cmd.Run(); err != nil {
		return nil, fmt.Errorf("%v: %s", err, errb.String())
	}
	resp := &pluginpb.CodeGeneratorResponse{}
	if err := proto.Unmarshal(out.Bytes(), resp); err != nil {
		return nil, err
	}
	return resp, nil
}

// ---- driver generation from the generated code's AST ----

type ifaceMethod struct {
	Name    string
	Params  []string // type expressions
	Results []string
}

func exprString(fset *token.FileSet, e ast.Expr) string {
	var b bytes.Buffer
	_ = printer.Fprint(&b, fset, e)
	return b.String()
}

// fieldFor returns the string field used to carry the tag in a message type expression like "*Req" or "*wrapperspb.StringValue".
func fieldFor(t string) string {
	if strings.Contains(t, "StringValue") {
		return "Value"
	}
	return "Tag"
}

func genDriver(pkgDir string) (string, []string, error) {
	fset := token.NewFileSet()
	f, err := parser.ParseFile(fset, filepath.Join(pkgDir, "svc_drpc.pb.go"), nil, 0)
	if err != nil {
		return "", nil, fmt.Errorf("generated file does not parse: %v", err)
	}
	ifaces := map[string][]ifaceMethod{}
	for _, d := range f.Decls {
		gd, ok := d.(*ast.GenDecl)
		if !ok {
			continue
		}
		for _, sp := range gd.Specs {
			ts, ok := sp.(*ast.TypeSpec)
			if !ok {
				continue
			}
			it, ok := ts.Type.(*ast.InterfaceType)
			if !ok {
				continue
			}
			var ms []ifaceMethod
			for _, m := range it.Methods.List {
				ft, ok := m.Type.(*ast.FuncType)
				if !ok || len(m.Names) == 0 {
					continue
				}
				im := ifaceMethod{Name: m.Names[0].Name}
				if ft.Params != nil {
					for _, p := range ft.Params.List {
						n := len(p.Names)
						if n == 0 {
							n = 1
						}
						for i := 0; i < n; i++ {
							im.Params = append(im.Params, exprString(fset, p.Type))
						}
					}
				}
				if ft.Results != nil {
					for _, p := range ft.Results.List {
						im.Results = append(im.Results, exprString(fset, p.Type))
					}
				}
				ms = append(ms, im)
			}
			ifaces[ts.Name.Name] = ms
		}
	}
	has := func(iface, meth string) bool {
		for _, m := range ifaces[iface] {
			if m.Name == meth {
				return true
			}
		}
		return false
	}
	resultOf := func(iface, meth string) string {
		for _, m := range ifaces[iface] {
			if m.Name == meth && len(m.Results) > 0 {
				return m.Results[0]
			}
		}
		return ""
	}
	paramOf := func(iface, meth string) string {
		for _, m := range ifaces[iface] {
			if m.Name == meth && len(m.Params) > 0 {
				return m.Params[0]
			}
		}
		return ""
	}
	var services []string
	for name := range ifaces {
		if strings.HasPrefix(name, "DRPC") && strings.HasSuffix(name, "Server") {
			svc := strings.TrimSuffix(strings.TrimPrefix(name, "DRPC"), "Server")
			if _, ok := ifaces["DRPC"+svc+"Client"]; ok {
				services = append(services, svc)
			}
		}
	}
	sort.Strings(services)
	var b strings.Builder
	b.WriteString("package gen\n\nimport (\n\t\"context\"\n\t\"fmt\"\n\t\"io\"\n\t\"net\"\n\n\t\"storj.io/drpc/drpcconn\"\n\t\"storj.io/drpc/drpcmux\"\n\t\"storj.io/drpc/drpcserver\"\n")
	src, _ := os.ReadFile(filepath.Join(pkgDir, "svc_drpc.pb.go"))
	if bytes.Contains(src, []byte("wrapperspb")) {
		b.WriteString("\twrapperspb \"google.golang.org/protobuf/types/known/wrapperspb\"\n")
	}
	b.WriteString(")\n\nvar _ = io.EOF\nvar _ = context.Background\n\n")
	pbSrc, _ := os.ReadFile(filepath.Join(pkgDir, "svc.pb.go"))
	hasSub := func(name string) bool {
		m := regexp.MustCompile(`(?s)type ` + regexp.QuoteMeta(name) + ` struct \{.*?\n\}`).Find(pbSrc)
		return m != nil && bytes.Contains(m, []byte("*VerifSubNote"))
	}
	mk := func(t, tag string) string { // t like "*Req"
		name := strings.TrimPrefix(t, "*")
		if !strings.Contains(name, ".") && hasSub(name) {
			// the note differs from the tag: if the sub-message's bytes were ever read as fields of the
			// outer message, the tag the receiver sees would be the note
			return "&" + name + "{" + fieldFor(t) + ": " + tag + ", Sub: &VerifSubNote{Note: \"note-of:\" + " + tag + "}}"
		}
		return "&" + name + "{" + fieldFor(t) + ": " + tag + "}"
	}
	var calls []string
	for _, svc := range services {
		impl := "impl" + strings.ReplaceAll(svc, "_", "X")
		fmt.Fprintf(&b, "type %s struct{}\n\n", impl)
		for _, m := range ifaces["DRPC"+svc+"Server"] {
			switch {
			case len(m.Results) == 2: // unary
				fmt.Fprintf(&b, "func (%s) %s(ctx context.Context, in %s) (%s, error) {\n\treturn %s, nil\n}\n\n", impl, m.Name, m.Params[1], m.Results[0], mk(m.Results[0], `"u:"+in.Get`+fieldFor(m.Params[1])+"()"))
			case len(m.Params) == 2: // server stream
				stream := m.Params[1]
				out := paramOf(stream, "Send")
				fmt.Fprintf(&b, "func (%s) %s(in %s, st %s) error {\n\tfor i := 0; i < 3; i++ {\n\t\tif err := st.Send(%s); err != nil {\n\t\t\treturn err\n\t\t}\n\t}\n\treturn st.Send(%s)\n}\n\n", impl, m.Name, m.Params[0], stream, mk(out, `fmt.Sprintf("s:%s:%d", in.Get`+fieldFor(m.Params[0])+`(), i)`), mk(out, `""`))
			case has(m.Params[0], "SendAndClose"): // client stream
				stream := m.Params[0]
				out := paramOf(stream, "SendAndClose")
				in := resultOf(stream, "Recv")
				fmt.Fprintf(&b, "func (%s) %s(st %s) error {\n\tn, last := 0, \"\"\n\tfor {\n\t\tm, err := st.Recv()\n\t\tif err != nil {\n\t\t\tbreak\n\t\t}\n\t\tn++\n\t\tlast = m.Get%s()\n\t}\n\treturn st.SendAndClose(%s)\n}\n\n", impl, m.Name, stream, fieldFor(in), mk(out, `fmt.Sprintf("c:%s:%d", last, n)`))
			default: // bidi
				stream := m.Params[0]
				out := paramOf(stream, "Send")
				in := resultOf(stream, "Recv")
				fmt.Fprintf(&b, "func (%s) %s(st %s) error {\n\tfor {\n\t\tm, err := st.Recv()\n\t\tif err != nil {\n\t\t\treturn nil\n\t\t}\n\t\tif err := st.Send(%s); err != nil {\n\t\t\treturn err\n\t\t}\n\t}\n}\n\n", impl, m.Name, stream, mk(out, `"b:"+m.Get`+fieldFor(in)+"()"))
			}
		}
		// client side checks
		fn := "run" + strings.ReplaceAll(svc, "_", "X")
		fmt.Fprintf(&b, "func %s(cli DRPC%sClient) error {\n\tctx := context.Background()\n\t_ = ctx\n", fn, svc)
		for _, m := range ifaces["DRPC"+svc+"Client"] {
			if m.Name == "DRPCConn" {
				continue
			}
			tag := fmt.Sprintf("%q", svc+"."+m.Name)
			res := m.Results[0]
			switch {
			case strings.HasPrefix(res, "*"): // unary
				fmt.Fprintf(&b, "\t{\n\t\tout, err := cli.%s(ctx, %s)\n\t\tif err != nil {\n\t\t\treturn fmt.Errorf(\"%s.%s: %%w\", err)\n\t\t}\n\t\tif out.Get%s() != \"u:\"+%s {\n\t\t\treturn fmt.Errorf(\"%s.%s: wrong response %%q\", out.Get%s())\n\t\t}\n\t}\n", m.Name, mk(m.Params[1], tag), svc, m.Name, fieldFor(res), tag, svc, m.Name, fieldFor(res))
			case has(res, "CloseAndRecv") && has(res, "Send"): // client stream
				in := paramOf(res, "Send")
				out := resultOf(res, "CloseAndRecv")
				fmt.Fprintf(&b, "\t{\n\t\tst, err := cli.%s(ctx)\n\t\tif err != nil {\n\t\t\treturn fmt.Errorf(\"%s.%s: %%w\", err)\n\t\t}\n\t\tfor i := 0; i < 2; i++ {\n\t\t\tif err := st.Send(%s); err != nil {\n\t\t\t\treturn fmt.Errorf(\"%s.%s send: %%w\", err)\n\t\t\t}\n\t\t}\n\t\tout, err := st.CloseAndRecv()\n\t\tif err != nil {\n\t\t\treturn fmt.Errorf(\"%s.%s closeandrecv: %%w\", err)\n\t\t}\n\t\tif out.Get%s() != \"c:\"+%s+\":2\" {\n\t\t\treturn fmt.Errorf(\"%s.%s: wrong response %%q\", out.Get%s())\n\t\t}\n\t\tst.Close()\n\t}\n", m.Name, svc, m.Name, mk(in, tag), svc, m.Name, svc, m.Name, fieldFor(out), tag, svc, m.Name, fieldFor(out))
			case has(res, "Send"): // bidi
				in := paramOf(res, "Send")
				out := resultOf(res, "Recv")
				fmt.Fprintf(&b, "\t{\n\t\tst, err := cli.%s(ctx)\n\t\tif err != nil {\n\t\t\treturn fmt.Errorf(\"%s.%s: %%w\", err)\n\t\t}\n\t\tfor i := 0; i < 2; i++ {\n\t\t\tif err := st.Send(%s); err != nil {\n\t\t\t\treturn fmt.Errorf(\"%s.%s send: %%w\", err)\n\t\t\t}\n\t\t\tout, err := st.Recv()\n\t\t\tif err != nil {\n\t\t\t\treturn fmt.Errorf(\"%s.%s recv: %%w\", err)\n\t\t\t}\n\t\t\tif out.Get%s() != \"b:\"+%s {\n\t\t\t\treturn fmt.Errorf(\"%s.%s: wrong echo %%q\", out.Get%s())\n\t\t\t}\n\t\t}\n\t\tst.CloseSend()\n\t\tst.Close()\n\t}\n", m.Name, svc, m.Name, mk(in, tag), svc, m.Name, svc, m.Name, fieldFor(out), tag, svc, m.Name, fieldFor(out))
			default: // server stream
				out := resultOf(res, "Recv")
				fmt.Fprintf(&b, "\t{\n\t\tst, err := cli.%s(ctx, %s)\n\t\tif err != nil {\n\t\t\treturn fmt.Errorf(\"%s.%s: %%w\", err)\n\t\t}\n\t\tvar last %s\n\t\tfor i := 0; i < 3; i++ {\n\t\t\tout, err := st.Recv()\n\t\t\tif err != nil {\n\t\t\t\treturn fmt.Errorf(\"%s.%s recv %%d: %%w\", i, err)\n\t\t\t}\n\t\t\tif out.Get%s() != fmt.Sprintf(\"s:%%s:%%d\", %s, i) {\n\t\t\t\treturn fmt.Errorf(\"%s.%s: wrong message %%q\", out.Get%s())\n\t\t\t}\n\t\t\tlast = out\n\t\t}\n\t\t// the fourth message is an empty one, received into the message object that holds the third\n\t\tif rm, ok := st.(interface{ RecvMsg(%s) error }); ok {\n\t\t\tif err := rm.RecvMsg(last); err != nil {\n\t\t\t\treturn fmt.Errorf(\"%s.%s recvmsg: %%w\", err)\n\t\t\t}\n\t\t} else if last, err = st.Recv(); err != nil {\n\t\t\treturn fmt.Errorf(\"%s.%s recv 3: %%w\", err)\n\t\t}\n\t\tif last.Get%s() != \"\" {\n\t\t\treturn fmt.Errorf(\"%s.%s: the empty message received with RecvMsg into a used message object reads %%q\", last.Get%s())\n\t\t}\n\t\tif _, err := st.Recv(); err != io.EOF {\n\t\t\treturn fmt.Errorf(\"%s.%s: want EOF after 4 messages, got %%v\", err)\n\t\t}\n\t\tst.Close()\n\t}\n", m.Name, mk(m.Params[1], tag), svc, m.Name, out, svc, m.Name, fieldFor(out), tag, svc, m.Name, fieldFor(out), out, svc, m.Name, svc, m.Name, fieldFor(out), svc, m.Name, fieldFor(out), svc, m.Name)
			}
			calls = append(calls, svc+"."+m.Name)
		}
		b.WriteString("\treturn nil\n}\n\n")
	}
	// Run: register everything with one mux, serve over net.Pipe, run every client
	b.WriteString("// Run registers every generated service with the mux and round-trips every method.\nfunc Run() error {\n\tmux := drpcmux.New()\n")
	for _, svc := range services {
		fmt.Fprintf(&b, "\tif err := DRPCRegister%s(mux, impl%s{}); err != nil {\n\t\treturn fmt.Errorf(\"register %s: %%w\", err)\n\t}\n", svc, strings.ReplaceAll(svc, "_", "X"), svc)
		fmt.Fprintf(&b, "\tif n := (DRPC%sDescription{}).NumMethods(); n != %d {\n\t\treturn fmt.Errorf(\"%s description has %%d methods\", n)\n\t}\n", svc, len(ifaces["DRPC"+svc+"Server"]), svc)
	}
	b.WriteString("\tc1, c2 := net.Pipe()\n\tctx, cancel := context.WithCancel(context.Background())\n\tdefer cancel()\n\tgo drpcserver.New(mux).ServeOne(ctx, c2)\n\tconn := drpcconn.New(c1)\n\tdefer conn.Close()\n")
	for _, svc := range services {
		fmt.Fprintf(&b, "\tif err := run%s(NewDRPC%sClient(conn)); err != nil {\n\t\treturn err\n\t}\n", strings.ReplaceAll(svc, "_", "X"), svc)
	}
	b.WriteString("\treturn nil\n}\n")
	return b.String(), calls, nil
}

func checkSpec(id string, f fileSpec, idx int, seed uint64) runner.Result {
	if err := prepare(); err != nil {
		return runner.Result{ID: id, Verdict: "harness-failure", Detail: err.Error()}
	}
	req := buildRequest(f, idx)
	dir := filepath.Join(workRoot, "mod", fmt.Sprintf("p%d", idx))
	os.RemoveAll(dir)
	os.MkdirAll(filepath.Join(dir, "cmd"), 0o755)
	defer os.RemoveAll(dir)
	desc := f.String()
	goReq := req
	if f.ExtPkg != "" || f.Sibling != nil || f.Twin != nil {
		goReq = proto.Clone(req).(*pluginpb.CodeGeneratorRequest)
		goReq.FileToGenerate = nil
		for _, pf := range req.ProtoFile {
			if !strings.HasPrefix(pf.GetName(), "google/") {
				goReq.FileToGenerate = append(goReq.FileToGenerate, pf.GetName())
			}
		}
	}
	goResp, err := runPlugin(pluginGo, goReq, "")
	if err != nil || goResp.Error != nil {
		return runner.Inconcl(id, fmt.Sprintf("protoc-gen-go rejected the descriptor (%v %v): %s", err, goResp.GetError(), desc))
	}
	resp, err := runPlugin(pluginDrpc, req, req.GetParameter())
	if err != nil {
		return runner.Violation(id, "c17:plugin-crashed", desc+"\nthe generator crashed: "+err.Error())
	}
	if resp.Error != nil {
		res := runner.Hold(id, "rejected:"+desc, false)
		res.Sample = map[string]interface{}{"descriptor": desc, "generator_error": resp.GetError()}
		return res
	}
	if f.Sibling != nil && !f.SiblingSameRun {
		// the second run: the sibling file is the one to generate, svc.proto is not part of that run's
		// input at all (it imports the sibling, not the other way round)
		sreq := proto.Clone(req).(*pluginpb.CodeGeneratorRequest)
		sreq.FileToGenerate = []string{"sib.proto"}
		sreq.ProtoFile = sreq.ProtoFile[:len(sreq.ProtoFile)-1]
		sresp, err := runPlugin(pluginDrpc, sreq, req.GetParameter())
		if err != nil {
			return runner.Violation(id, "c17:plugin-crashed", desc+"\nthe generator crashed on the sibling file: "+err.Error())
		}
		if sresp.Error != nil {
			res := runner.Hold(id, "rejected(sibling):"+desc, false)
			res.Sample = map[string]interface{}{"descriptor": desc, "generator_error": sresp.GetError()}
			return res
		}
		resp.File = append(resp.File, sresp.File...)
	}
	if keep := os.Getenv("C17_KEEP"); keep != "" { // development aid: keep the generator's output for comparison
		for _, r := range resp.File {
			os.MkdirAll(keep, 0o755)
			os.WriteFile(filepath.Join(keep, strings.ReplaceAll(id, "/", "_")+".go"), []byte(strings.ReplaceAll(r.GetContent(), fmt.Sprintf("c17scratch/p%d", idx), "c17scratch/pN")), 0o644)
		}
	}
	for _, r := range append(goResp.File, resp.File...) {
		target := filepath.Join(dir, filepath.Base(r.GetName()))
		if f.ExtPkg != "" && strings.HasPrefix(filepath.Base(r.GetName()), "ext.") {
			os.MkdirAll(filepath.Join(dir, f.ExtPkg), 0o755)
			target = filepath.Join(dir, f.ExtPkg, filepath.Base(r.GetName()))
		}
		if f.Twin != nil && strings.HasPrefix(filepath.Base(r.GetName()), "two") {
			os.MkdirAll(filepath.Join(dir, "two"), 0o755)
			target = filepath.Join(dir, "two", filepath.Base(r.GetName()))
		}
		if f.ExtPkg2 != "" && strings.HasPrefix(filepath.Base(r.GetName()), "ext2.") {
			os.MkdirAll(filepath.Join(dir, "x", f.ExtPkg2), 0o755)
			target = filepath.Join(dir, "x", f.ExtPkg2, filepath.Base(r.GetName()))
		}
		os.WriteFile(target, []byte(r.GetContent()), 0o644)
	}
	nmeth := 0
	for _, s := range f.Services {
		nmeth += len(s.Methods)
	}
	mod := filepath.Join(workRoot, "mod")
	pkg := fmt.Sprintf("./p%d", idx)
	fail := func(key, what, out string) runner.Result {
		if len(out) > 3000 {
			out = out[:3000]
		}
		return runner.Violation(id, key, desc+"\n"+what+"\n"+out)
	}
	if out, err := run(mod, "go", "build", pkg); err != nil {
		key := "c17:compile"
		if strings.Contains(out, "redeclared") {
			key = "c17:compile:redeclared"
		} else if strings.Contains(out, "undefined") {
			key = "c17:compile:undefined"
		}
		return fail(key, "the generator accepted the descriptor but the generated package does not compile", out)
	}
	if len(f.Services) == 0 || nmeth == 0 && false {
		return runner.Hold(id, desc, false)
	}
	if f.Twin != nil {
		if out, err := run(mod, "go", "build", pkg+"/two"); err != nil {
			return fail("c17:compile:second-file-of-the-run", "the generator accepted both files of the run but the second generated package does not compile", out)
		}
		if out, err := run(mod, "go", "vet", pkg+"/two"); err != nil {
			return fail("c17:generated-code-does-not-vet", "go vet of the second generated package fails", out)
		}
	}
	if f.ExtPkg != "" || f.Sibling != nil {
		// messages from a foreign package: the generated package compiles and vets; the derived
		// driver does not follow import aliases, so the round trip is left to the other descriptors
		if out, err := run(mod, "go", "vet", pkg); err != nil {
			return fail("c17:generated-code-does-not-vet", "go vet of the generated package fails", out)
		}
		res := runner.Hold(id, desc, nmeth > 0)
		res.Events = int64(nmeth)
		return res
	}
	drv, calls, err := genDriver(dir)
	if err != nil {
		return fail("c17:generated-file-unparsable", err.Error(), "")
	}
	os.WriteFile(filepath.Join(dir, "driver.go"), []byte(drv), 0o644)
	os.WriteFile(filepath.Join(dir, "cmd", "main.go"), []byte(fmt.Sprintf("package main\n\nimport (\n\t\"fmt\"\n\t\"os\"\n\n\tgen \"c17scratch/p%d\"\n)\n\nfunc main() {\n\tif err := gen.Run(); err != nil {\n\t\tfmt.Println(\"FAIL:\", err)\n\t\tos.Exit(1)\n\t}\n\tfmt.Println(\"OK\")\n}\n", idx)), 0o644)
	if out, err := run(mod, "go", "vet", pkg); err != nil {
		return fail("c17:driver-or-generated-code-does-not-typecheck", "an implementation written against the generated interfaces does not type-check (go vet)", out+"\n--- driver ---\n"+drv)
	}
	bin := filepath.Join(dir, "cmd", "drv")
	if out, err := run(mod, "go", "build", "-o", bin, pkg+"/cmd"); err != nil {
		return fail("c17:driver-build", "driver does not build", out)
	}
	cmd := exec.Command("timeout", "60", bin)
	var ob bytes.Buffer
	cmd.Stdout, cmd.Stderr = &ob, &ob
	if err := cmd.Run(); err != nil {
		key := "c17:roundtrip"
		if strings.Contains(ob.String(), "unknown rpc") {
			key = "c17:roundtrip:rpc-name-mismatch"
		} else if strings.Contains(ob.String(), "register") {
			key = "c17:register"
		}
		return fail(key, "generated client against generated server: "+strings.TrimSpace(firstLine(ob.String())), ob.String())
	}
	res := runner.Hold(id, desc, nmeth > 0)
	res.Events = int64(len(calls))
	res.Stats = map[string]int64{"methods_round_tripped": int64(len(calls)), "services": int64(len(f.Services))}
	res.Sample = map[string]interface{}{"descriptor": desc, "methods": calls}
	return res
}

func b2i(b bool) int {
	if b {
		return 1
	}
	return 0
}

// sortedKeys: the scenario list must be the same in every process, so no map order may enter it.
func sortedKeys(m map[string]fileSpec) []string {
	var ks []string
	for k := range m {
		ks = append(ks, k)
	}
	sort.Strings(ks)
	return ks
}

func firstLine(s string) string {
	if i := strings.IndexByte(s, '\n'); i > 0 {
		return s[:i]
	}
	return s
}

func gen(tier string, seed uint64) []runner.Scenario {
	n := 40
	if tier == "thorough" {
		n = 400
	}
	var out []runner.Scenario
	out = append(out, runner.Scenario{ID: "fixed/collision-A_B-vs-A.B", Run: func() runner.Result {
		return checkSpec("fixed/collision-A_B-vs-A.B", collisionSpec(), 0, seed)
	}})
	for k, f := range shiftSpecs() {
		k, f := k, f
		id := fmt.Sprintf("fixed/underscore-shift-%d", k)
		out = append(out, runner.Scenario{ID: id, Run: func() runner.Result { return checkSpec(id, f, 1000+k, seed) }})
	}
	for _, name := range sortedKeys(clashSpecs()) {
		f := clashSpecs()[name]
		name, f, idx := name, f, 3000+len(out)
		id := "fixed/clash-" + name
		out = append(out, runner.Scenario{ID: id, Run: func() runner.Result { return checkSpec(id, f, idx, seed) }})
	}
	for k, name := range customLibNames {
		k, name := k, name
		for _, json := range []bool{false, true} {
			json := json
			f := fileSpec{Pkg: "a", JSON: json, Protolib: "custom:" + name, Msgs: []string{"Req"}, Services: []svcSpec{{Name: "Svc", Methods: []methodSpec{
				{Name: "U", In: "Req", Out: "Req"}, {Name: "B", CS: true, SS: true, In: "Req", Out: "Req"}}}}}
			id := fmt.Sprintf("fixed/protolib-package-%s-json=%v", name, json)
			idx := 4000 + 2*k + b2i(json)
			out = append(out, runner.Scenario{ID: id, Run: func() runner.Result { return checkSpec(id, f, idx, seed) }})
		}
	}
	for _, name := range sortedKeys(twoPkgSpecs()) {
		f := twoPkgSpecs()[name]
		name, f, idx := name, f, 5000+len(out)
		id := "fixed/two-foreign-packages-" + name
		out = append(out, runner.Scenario{ID: id, Run: func() runner.Result { return checkSpec(id, f, idx, seed) }})
	}
	for k, order := range [][]string{{"alpha", "beta"}, {"beta", "alpha"}, {"alpha", "beta", "gamma"}} {
		order := order
		id := fmt.Sprintf("mux/same-printed-types/%d", k)
		out = append(out, runner.Scenario{ID: id, Run: func() runner.Result { return muxSameNames(id, order) }})
	}
	for _, name := range sortedKeys(twinSpecs()) {
		f := twinSpecs()[name]
		name, f, idx := name, f, 5000+len(out)
		id := "fixed/two-files-one-run-" + name
		out = append(out, runner.Scenario{ID: id, Run: func() runner.Result { return checkSpec(id, f, idx, seed) }})
	}
	for _, name := range sortedKeys(sameRunSpecs()) {
		f := sameRunSpecs()[name]
		name, f, idx := name, f, 5000+len(out)
		id := "fixed/sibling-files-one-run-" + name
		out = append(out, runner.Scenario{ID: id, Run: func() runner.Result { return checkSpec(id, f, idx, seed) }})
	}
	for _, name := range sortedKeys(siblingSpecs()) {
		f := siblingSpecs()[name]
		name, f, idx := name, f, 5000+len(out)
		id := "fixed/sibling-file-" + name
		out = append(out, runner.Scenario{ID: id, Run: func() runner.Result { return checkSpec(id, f, idx, seed) }})
	}
	for k, f := range foreignPkgSpecs() {
		k, f := k, f
		id := fmt.Sprintf("fixed/foreign-package-%s-%d", f.ExtPkg, k)
		out = append(out, runner.Scenario{ID: id, Run: func() runner.Result { return checkSpec(id, f, 2000+k, seed) }})
	}
	for i := 1; i <= n; i++ {
		i := i
		r := &payload.SplitMix{S: payload.Hash(seed, 0xC17, uint64(i))}
		f := genSpec(r, i)
		id := fmt.Sprintf("desc/%d", i)
		out = append(out, runner.Scenario{ID: id, Run: func() runner.Result { return checkSpec(id, f, i, seed) }})
	}
	return out
}

func main() {
	runner.Main(runner.Check{
		Property: "C17",
		Level:    "exploration",
		Rule:     "one case = one generated file descriptor: 1-3 services named from {Foo, foo_bar, Foo_Bar, fooBar, FOO2, Get_Item, A, A_B, B, Svc, x, Store_}, 0-5 methods named from {Get, get_item, Get_Item, listItems, PUT2, B, A_B, Sync, x, Do_, Stream, Close, Send, Recv} in every streaming combination, packages {a, a.b.c, my_pkg.v1, Zed}, request/response types among local messages, a nested message and google.protobuf.StringValue, protolib in {default, custom}, json on/off; plus fixed descriptors (services A_B and A with streaming method B and other definitions whose distinct proto names lead to one Go identifier - the generator may reject them, what it accepts must compile; pairs of services whose <service>_<method> strings coincide, e.g. Store_Item.Get and Store.Item_Get; messages imported from another Go package named context, drpc, errors, io, drpcerr, msgs or like a receiver/parameter/variable of the generated functions (c, x, in, ctx, srv, in1, in2, out, m, err, stream, s, mux, impl, cc) - compile and vet only). The plugin built from /repo generates the code; go build, go vet and a driver derived from the generated interfaces by go/parser run every method of the generated client against the generated server through drpcmux over a real connection. Non-trivial: descriptors with at least one method that the generator accepted. Distinct: by descriptor text. Clash descriptors include a message named like each exported type the generator declares (DRPCFoo_BarStream, DRPCFoo_BarClient, DRPCFooServer, DRPCFooUnimplementedServer, DRPCFooDescription) beside a method of each of the four shapes.",
		Assumptions: []string{
			"protoc is not installed: both plugins are driven with hand-built CodeGeneratorRequests; protoc-gen-go comes from the module cache (v1.27.1)",
			"two methods of one service, or two services, whose names differ only in case/underscores, and the gogo protolib (no gogo message generator available offline), are excluded",
			"this check executes compilers and generated programs: the oracle observes real builds and real RPC executions, nothing is modelled",
		},
		Gen:           gen,
		InProc:        true,
		Parallel:      8,
		Procs:         16,
		MinNontrivial: 5,
	})
}
