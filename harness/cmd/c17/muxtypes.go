package main

import (
	"context"
	"errors"
	"fmt"
	"net"
	"strings"

	"storj.io/drpc"
	"storj.io/drpc/drpcconn"
	"storj.io/drpc/drpcmux"
	"storj.io/drpc/drpcserver"

	"verifharness/runner"
)

// Two services the way two generated packages of the same base name (alpha/v1, beta/v1) declare them:
// the same type names, service name, method names and shapes, so that every type involved prints the
// same, and yet they are different types. They stand in for generated code here because one Go file
// cannot hold two packages: types declared inside different functions are distinct types that print
// alike. Registered on one mux, each service must be handed requests of its own type.

type muxCall func(cli *drpcconn.Conn, shape string, tag string) (string, error)

// (three textual copies: a type declared inside one function is one type however often the function runs)
func sameNameServiceA(prefix string, mux *drpcmux.Mux) (muxCall, error) {
	type Req struct{ Tag string }
	type enc struct{ drpc.Encoding }
	marshal := func(m drpc.Message) ([]byte, error) {
		r, ok := m.(*Req)
		if !ok {
			return nil, fmt.Errorf("%s: message of type %T is not this package's *Req", prefix, m)
		}
		return []byte(r.Tag), nil
	}
	unmarshal := func(b []byte, m drpc.Message) error {
		r, ok := m.(*Req)
		if !ok {
			return fmt.Errorf("%s: message of type %T is not this package's *Req", prefix, m)
		}
		r.Tag = string(b)
		return nil
	}
	e := funcEnc{marshal, unmarshal}
	type DRPCItemsServer interface {
		Get(context.Context, *Req) (*Req, error)
		List(*Req, drpc.Stream) error
	}
	impl := itemsImpl[Req]{prefix: prefix, mk: func(t string) *Req { return &Req{Tag: t} }, tag: func(r *Req) string { return r.Tag }, enc: e}
	desc := funcDesc{n: 2, method: func(n int) (string, drpc.Encoding, drpc.Receiver, interface{}, bool) {
		switch n {
		case 0:
			return "/" + prefix + ".Items/Get", e, func(srv interface{}, ctx context.Context, in1, in2 interface{}) (out drpc.Message, err error) {
				defer func() {
					if p := recover(); p != nil {
						err = fmt.Errorf("%s.Items/Get: the receiver was handed %T: %v", prefix, in1, p)
					}
				}()
				return srv.(DRPCItemsServer).Get(ctx, in1.(*Req))
			}, DRPCItemsServer.Get, true
		case 1:
			return "/" + prefix + ".Items/List", e, func(srv interface{}, ctx context.Context, in1, in2 interface{}) (out drpc.Message, err error) {
				defer func() {
					if p := recover(); p != nil {
						err = fmt.Errorf("%s.Items/List: the receiver was handed %T: %v", prefix, in1, p)
					}
				}()
				return nil, srv.(DRPCItemsServer).List(in1.(*Req), in2.(drpc.Stream))
			}, DRPCItemsServer.List, true
		}
		return "", nil, nil, nil, false
	}}
	if err := mux.Register(DRPCItemsServer(impl), desc); err != nil {
		return nil, err
	}
	_ = enc{}
	return func(cli *drpcconn.Conn, shape, tag string) (string, error) {
		if shape == "unary" {
			out := new(Req)
			err := cli.Invoke(context.Background(), "/"+prefix+".Items/Get", e, &Req{Tag: tag}, out)
			return out.Tag, err
		}
		st, err := cli.NewStream(context.Background(), "/"+prefix+".Items/List", e)
		if err != nil {
			return "", err
		}
		defer st.Close()
		if err := st.MsgSend(&Req{Tag: tag}, e); err != nil {
			return "", err
		}
		if err := st.CloseSend(); err != nil {
			return "", err
		}
		out := new(Req)
		if err := st.MsgRecv(out, e); err != nil {
			return "", err
		}
		return out.Tag, nil
	}, nil
}

func sameNameServiceB(prefix string, mux *drpcmux.Mux) (muxCall, error) {
	type Req struct{ Tag string }
	type enc struct{ drpc.Encoding }
	marshal := func(m drpc.Message) ([]byte, error) {
		r, ok := m.(*Req)
		if !ok {
			return nil, fmt.Errorf("%s: message of type %T is not this package's *Req", prefix, m)
		}
		return []byte(r.Tag), nil
	}
	unmarshal := func(b []byte, m drpc.Message) error {
		r, ok := m.(*Req)
		if !ok {
			return fmt.Errorf("%s: message of type %T is not this package's *Req", prefix, m)
		}
		r.Tag = string(b)
		return nil
	}
	e := funcEnc{marshal, unmarshal}
	type DRPCItemsServer interface {
		Get(context.Context, *Req) (*Req, error)
		List(*Req, drpc.Stream) error
	}
	impl := itemsImpl[Req]{prefix: prefix, mk: func(t string) *Req { return &Req{Tag: t} }, tag: func(r *Req) string { return r.Tag }, enc: e}
	desc := funcDesc{n: 2, method: func(n int) (string, drpc.Encoding, drpc.Receiver, interface{}, bool) {
		switch n {
		case 0:
			return "/" + prefix + ".Items/Get", e, func(srv interface{}, ctx context.Context, in1, in2 interface{}) (out drpc.Message, err error) {
				defer func() {
					if p := recover(); p != nil {
						err = fmt.Errorf("%s.Items/Get: the receiver was handed %T: %v", prefix, in1, p)
					}
				}()
				return srv.(DRPCItemsServer).Get(ctx, in1.(*Req))
			}, DRPCItemsServer.Get, true
		case 1:
			return "/" + prefix + ".Items/List", e, func(srv interface{}, ctx context.Context, in1, in2 interface{}) (out drpc.Message, err error) {
				defer func() {
					if p := recover(); p != nil {
						err = fmt.Errorf("%s.Items/List: the receiver was handed %T: %v", prefix, in1, p)
					}
				}()
				return nil, srv.(DRPCItemsServer).List(in1.(*Req), in2.(drpc.Stream))
			}, DRPCItemsServer.List, true
		}
		return "", nil, nil, nil, false
	}}
	if err := mux.Register(DRPCItemsServer(impl), desc); err != nil {
		return nil, err
	}
	_ = enc{}
	return func(cli *drpcconn.Conn, shape, tag string) (string, error) {
		if shape == "unary" {
			out := new(Req)
			err := cli.Invoke(context.Background(), "/"+prefix+".Items/Get", e, &Req{Tag: tag}, out)
			return out.Tag, err
		}
		st, err := cli.NewStream(context.Background(), "/"+prefix+".Items/List", e)
		if err != nil {
			return "", err
		}
		defer st.Close()
		if err := st.MsgSend(&Req{Tag: tag}, e); err != nil {
			return "", err
		}
		if err := st.CloseSend(); err != nil {
			return "", err
		}
		out := new(Req)
		if err := st.MsgRecv(out, e); err != nil {
			return "", err
		}
		return out.Tag, nil
	}, nil
}

func sameNameServiceC(prefix string, mux *drpcmux.Mux) (muxCall, error) {
	type Req struct{ Tag string }
	type enc struct{ drpc.Encoding }
	marshal := func(m drpc.Message) ([]byte, error) {
		r, ok := m.(*Req)
		if !ok {
			return nil, fmt.Errorf("%s: message of type %T is not this package's *Req", prefix, m)
		}
		return []byte(r.Tag), nil
	}
	unmarshal := func(b []byte, m drpc.Message) error {
		r, ok := m.(*Req)
		if !ok {
			return fmt.Errorf("%s: message of type %T is not this package's *Req", prefix, m)
		}
		r.Tag = string(b)
		return nil
	}
	e := funcEnc{marshal, unmarshal}
	type DRPCItemsServer interface {
		Get(context.Context, *Req) (*Req, error)
		List(*Req, drpc.Stream) error
	}
	impl := itemsImpl[Req]{prefix: prefix, mk: func(t string) *Req { return &Req{Tag: t} }, tag: func(r *Req) string { return r.Tag }, enc: e}
	desc := funcDesc{n: 2, method: func(n int) (string, drpc.Encoding, drpc.Receiver, interface{}, bool) {
		switch n {
		case 0:
			return "/" + prefix + ".Items/Get", e, func(srv interface{}, ctx context.Context, in1, in2 interface{}) (out drpc.Message, err error) {
				defer func() {
					if p := recover(); p != nil {
						err = fmt.Errorf("%s.Items/Get: the receiver was handed %T: %v", prefix, in1, p)
					}
				}()
				return srv.(DRPCItemsServer).Get(ctx, in1.(*Req))
			}, DRPCItemsServer.Get, true
		case 1:
			return "/" + prefix + ".Items/List", e, func(srv interface{}, ctx context.Context, in1, in2 interface{}) (out drpc.Message, err error) {
				defer func() {
					if p := recover(); p != nil {
						err = fmt.Errorf("%s.Items/List: the receiver was handed %T: %v", prefix, in1, p)
					}
				}()
				return nil, srv.(DRPCItemsServer).List(in1.(*Req), in2.(drpc.Stream))
			}, DRPCItemsServer.List, true
		}
		return "", nil, nil, nil, false
	}}
	if err := mux.Register(DRPCItemsServer(impl), desc); err != nil {
		return nil, err
	}
	_ = enc{}
	return func(cli *drpcconn.Conn, shape, tag string) (string, error) {
		if shape == "unary" {
			out := new(Req)
			err := cli.Invoke(context.Background(), "/"+prefix+".Items/Get", e, &Req{Tag: tag}, out)
			return out.Tag, err
		}
		st, err := cli.NewStream(context.Background(), "/"+prefix+".Items/List", e)
		if err != nil {
			return "", err
		}
		defer st.Close()
		if err := st.MsgSend(&Req{Tag: tag}, e); err != nil {
			return "", err
		}
		if err := st.CloseSend(); err != nil {
			return "", err
		}
		out := new(Req)
		if err := st.MsgRecv(out, e); err != nil {
			return "", err
		}
		return out.Tag, nil
	}, nil
}

type funcEnc struct {
	m func(drpc.Message) ([]byte, error)
	u func([]byte, drpc.Message) error
}

func (f funcEnc) Marshal(m drpc.Message) ([]byte, error)   { return f.m(m) }
func (f funcEnc) Unmarshal(b []byte, m drpc.Message) error { return f.u(b, m) }

type funcDesc struct {
	n      int
	method func(int) (string, drpc.Encoding, drpc.Receiver, interface{}, bool)
}

func (d funcDesc) NumMethods() int { return d.n }
func (d funcDesc) Method(n int) (string, drpc.Encoding, drpc.Receiver, interface{}, bool) {
	return d.method(n)
}

type itemsImpl[T any] struct {
	prefix string
	mk     func(string) *T
	tag    func(*T) string
	enc    drpc.Encoding
}

func (i itemsImpl[T]) Get(ctx context.Context, in *T) (*T, error) {
	return i.mk(i.prefix + ":" + i.tag(in)), nil
}

func (i itemsImpl[T]) List(in *T, st drpc.Stream) error {
	return st.MsgSend(i.mk(i.prefix+":"+i.tag(in)), i.enc)
}

func muxSameNames(id string, order []string) runner.Result {
	mux := drpcmux.New()
	calls := map[string]muxCall{}
	for i, p := range order {
		c, err := []func(string, *drpcmux.Mux) (muxCall, error){sameNameServiceA, sameNameServiceB, sameNameServiceC}[i](p, mux)
		if err != nil {
			return runner.Violation(id, "c17:register", fmt.Sprintf("registering service %s.Items (same type names as the services before it: %v) failed: %v", p, order, err))
		}
		calls[p] = c
	}
	cs, ss := net.Pipe()
	ctx, cancel := context.WithCancel(context.Background())
	defer cancel()
	go drpcserver.New(mux).ServeOne(ctx, ss)
	cli := drpcconn.New(cs)
	defer cli.Close()
	desc := fmt.Sprintf("services %v with identical type, service and method names (as generated packages of one base name have) on one mux", order)
	var fails []string
	for round := 0; round < 2; round++ {
		for _, p := range order {
			for _, shape := range []string{"unary", "server-stream"} {
				got, err := calls[p](cli, shape, "t")
				if want := p + ":t"; err != nil || got != want {
					var msg string
					if err != nil {
						msg = err.Error()
					}
					fails = append(fails, fmt.Sprintf("%s.Items %s: got %q err=%s, want %q", p, shape, got, msg, want))
				}
			}
		}
	}
	if len(fails) > 0 {
		if len(fails) > 4 {
			fails = fails[:4]
		}
		return runner.Violation(id, "c17:mux-dispatch-same-printed-types", desc+"\n"+strings.Join(fails, "\n"))
	}
	res := runner.Hold(id, desc, true)
	res.Events = int64(4 * len(order))
	return res
}

var _ = errors.New
