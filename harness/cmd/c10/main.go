// C10: handler errors reach the caller with their message and code intact.
// Monitor: handlers registered with the real drpcmux (all four method shapes)
// return scripted errors (any text, any 64-bit code at any wrapping depth, or
// none) after k responses; the client-side error is compared by text and code,
// the k messages must arrive first, a successful handler must never yield an
// error, dispatcher errors (unknown rpc, undecodable request) are compared the
// same way, and a probe RPC afterwards must succeed.
package main

import (
	"context"
	"errors"
	"fmt"
	"io"
	"strings"

	"github.com/zeebo/errs"

	"storj.io/drpc"
	"storj.io/drpc/drpcerr"
	"storj.io/drpc/drpcmux"
	"storj.io/drpc/drpcpool"

	"verifharness/census"
	"verifharness/director"
	"verifharness/payload"
	"verifharness/prog"
	"verifharness/rig"
	"verifharness/runner"
	"verifharness/simnet"
)

// Msg is the message type of the hand-written service.
type Msg struct{ B []byte }

type enc struct{}

var errUndecodable = errors.New("request cannot be decoded: bad wire type")

func (enc) Marshal(m drpc.Message) ([]byte, error) { return m.(*Msg).B, nil }
func (enc) Unmarshal(b []byte, m drpc.Message) error {
	if len(b) > 0 && b[0] == 0xFE {
		return errUndecodable
	}
	m.(*Msg).B = append([]byte(nil), b...)
	return nil
}

// plan is what the service does for the current call.
type plan struct {
	k    int   // responses before the outcome
	fail error // nil = succeed
	both bool  // unary: return a non-nil response together with the error
	resp []byte
}

type srv struct{ p *plan }

func (s *srv) Unary(ctx context.Context, in *Msg) (*Msg, error) {
	if s.p.fail != nil {
		if s.p.both {
			return &Msg{B: s.p.resp}, s.p.fail // a response together with an error: the error wins
		}
		return nil, s.p.fail
	}
	return &Msg{B: s.p.resp}, nil
}

func (s *srv) ClientStream(st drpc.Stream) error {
	for {
		var m Msg
		if err := st.MsgRecv(&m, enc{}); err != nil {
			break
		}
	}
	if s.p.fail != nil {
		return s.p.fail
	}
	return st.MsgSend(&Msg{B: s.p.resp}, enc{})
}

func (s *srv) ServerStream(in *Msg, st drpc.Stream) error {
	for i := 0; i < s.p.k; i++ {
		if err := st.MsgSend(&Msg{B: payload.Make(9, 1, 0, uint32(i), 20)}, enc{}); err != nil {
			return err
		}
	}
	return s.p.fail
}

func (s *srv) Bidi(st drpc.Stream) error {
	for i := 0; i < s.p.k; i++ {
		var m Msg
		if err := st.MsgRecv(&m, enc{}); err != nil {
			return err
		}
		if err := st.MsgSend(&Msg{B: payload.Make(9, 1, 0, uint32(i), 20)}, enc{}); err != nil {
			return err
		}
	}
	return s.p.fail
}

type desc struct{}

func (desc) NumMethods() int { return 4 }
func (desc) Method(n int) (string, drpc.Encoding, drpc.Receiver, interface{}, bool) {
	switch n {
	case 0:
		return "/svc/Unary", enc{}, func(s interface{}, ctx context.Context, in1, in2 interface{}) (drpc.Message, error) {
			return s.(*srv).Unary(ctx, in1.(*Msg))
		}, (*srv).Unary, true
	case 1:
		return "/svc/ClientStream", enc{}, func(s interface{}, ctx context.Context, in1, in2 interface{}) (drpc.Message, error) {
			return nil, s.(*srv).ClientStream(in1.(drpc.Stream))
		}, (*srv).ClientStream, true
	case 2:
		return "/svc/ServerStream", enc{}, func(s interface{}, ctx context.Context, in1, in2 interface{}) (drpc.Message, error) {
			return nil, s.(*srv).ServerStream(in1.(*Msg), in2.(drpc.Stream))
		}, (*srv).ServerStream, true
	case 3:
		return "/svc/Bidi", enc{}, func(s interface{}, ctx context.Context, in1, in2 interface{}) (drpc.Message, error) {
			return nil, s.(*srv).Bidi(in1.(drpc.Stream))
		}, (*srv).Bidi, true
	}
	return "", nil, nil, nil, false
}

// ---- error construction ----

type codeErr struct {
	error
	c uint64
}

func (c codeErr) Code() uint64 { return c.c }

type causer struct{ in error }

func (c causer) Error() string { return c.in.Error() }
func (c causer) Cause() error  { return c.in }

type unwrapper struct{ in error }

func (u unwrapper) Error() string { return u.in.Error() }
func (u unwrapper) Unwrap() error { return u.in }

// wrappers whose dynamic type does not support == (a slice / a func field), as value types
type noteWrap struct {
	in    error
	notes []string
}

func (n noteWrap) Error() string { return n.in.Error() }
func (n noteWrap) Unwrap() error { return n.in }

type hookCause struct {
	in error
	f  func()
}

func (h hookCause) Error() string { return h.in.Error() }
func (h hookCause) Cause() error  { return h.in }

// zeroCode is an application error type that reports code 0 itself and wraps another error.
type zeroCode struct{ in error }

func (z zeroCode) Error() string { return z.in.Error() }
func (z zeroCode) Unwrap() error { return z.in }
func (z zeroCode) Code() uint64  { return 0 }

type ptrWrap struct{ in error }

func (p *ptrWrap) Error() string { return p.in.Error() }
func (p *ptrWrap) Unwrap() error { return p.in }

func buildError(r *payload.SplitMix) (error, string, uint64) {
	var text string
	switch r.Intn(7) {
	case 0:
		text = ""
	case 1:
		text = "plain ascii failure"
	case 2:
		text = strings.Repeat("long ", 13108) // 64 KiB
	case 3:
		b := make([]byte, 1+r.Intn(40))
		for i := range b {
			b[i] = byte(r.Next())
		}
		text = string(b)
	case 4:
		text = "nul\x00inside and invalid \xff\xfe utf8"
	case 5:
		text = "héllo ✓ \r\n tab\t"
	default:
		text = fmt.Sprintf("failure %d", r.Intn(1000))
	}
	code := []uint64{0, 0, 1, 2, 12, 1 << 32, 1 << 63, ^uint64(0)}[r.Intn(8)]
	var err error = errors.New(text)
	kind := "none"
	if r.Intn(6) == 0 {
		// an error that has io.EOF (or a context error) somewhere beneath it is still the handler's error
		err = sameTextOver{text: text, in: []error{io.EOF, context.Canceled, io.ErrUnexpectedEOF}[r.Intn(3)]}
		kind = "wraps-sentinel"
	}
	if code != 0 {
		if r.Intn(2) == 0 {
			err = drpcerr.WithCode(err, code)
			kind = "WithCode"
		} else {
			err = codeErr{err, code}
			kind = "Code()"
		}
	}
	depth := []int{0, 0, 1, 2, 5, 20, 50}[r.Intn(7)]
	// an error type of the application with its own Code() that reports 0 sits above everything else:
	// the first Code() along the chain decides, so the client must see code 0 whatever lies beneath
	if r.Intn(8) == 0 {
		err = zeroCode{err}
		code = 0
		kind += "+zero-code-on-top"
	}
	// runs of the same wrapper type matter as much as mixtures: in a third of the cases one species is used throughout
	species := -1
	if r.Intn(3) == 0 {
		species = r.Intn(6)
	}
	for i := 0; i < depth; i++ {
		k := species
		if k < 0 {
			k = r.Intn(6)
		}
		switch k {
		case 0:
			err = causer{err}
		case 1:
			err = unwrapper{err}
		case 2:
			err = noteWrap{in: err, notes: []string{"n"}}
		case 3:
			err = hookCause{in: err, f: func() {}}
		case 4:
			err = &ptrWrap{err}
		default:
			err = wrapSameText{err}
		}
	}
	return err, fmt.Sprintf("text=%d bytes code=%d via %s depth=%d", len(text), code, kind, depth), code
}

// codeOf reads the code of an error without the library: the first Code() uint64 found along the
// Unwrap/Cause chain (the library's documented rule), 0 if there is none.
func codeOf(err error) uint64 {
	for i := 0; i < 1000 && err != nil; i++ {
		if c, ok := err.(interface{ Code() uint64 }); ok {
			return c.Code()
		}
		switch e := err.(type) {
		case interface{ Unwrap() error }:
			err = e.Unwrap()
		case interface{ Cause() error }:
			err = e.Cause()
		default:
			return 0
		}
	}
	return 0
}

// sameTextOver is an error with its own text that wraps a sentinel error.
type sameTextOver struct {
	text string
	in   error
}

func (s sameTextOver) Error() string { return s.text }
func (s sameTextOver) Unwrap() error { return s.in }

// wrapSameText wraps like fmt.Errorf("%w") but keeps the text unchanged so that
// the expected client text stays the innermost text.
type wrapSameText struct{ in error }

func (w wrapSameText) Error() string { return w.in.Error() }
func (w wrapSameText) Unwrap() error { return w.in }

var shapeNames = []string{"Unary", "ClientStream", "ServerStream", "Bidi"}

func scenario(id string, seed uint64) runner.Result {
	r := &payload.SplitMix{S: seed}
	cfg := prog.GenConfig(r, false)
	if payload.Hash(seed, 0xC10F)%4 == 0 {
		// the server's streams flush by hand (here: never, the handlers do not flush): the responses a
		// handler sent before it failed sit in the writer when the error goes out and must precede it
		cfg.Server.Stream.ManualFlush = true
		cfg.Desc += " server-manual-flush"
	}
	mux := drpcmux.New()
	p := &plan{}
	if err := mux.Register(&srv{p: p}, desc{}); err != nil {
		return runner.Violation(id, "register", "Register failed: "+err.Error())
	}
	rg := rig.New(rig.Config{Net: cfg.Net, Client: cfg.Client, Server: cfg.Server}, mux)
	defer rg.Teardown()
	var fails []string
	var descs []string
	ncalls := 2 + r.Intn(4)
	events := 0
	type kept struct {
		err        error
		text, desc string
		code       uint64
	}
	var keptErrs []kept
	for call := 0; call < ncalls; call++ {
		shape := r.Intn(4)
		mode := r.Intn(10) // 0-5 handler error, 6-7 success, 8 unknown rpc, 9 undecodable request
		p.k = r.Intn(4)
		p.fail = nil
		p.both = r.Intn(3) == 0
		p.resp = payload.Make(uint64(call), 1, 0, 0, prog.SizeClasses(cfg, r)%5000)
		var what string
		var wantText string
		var wantCode uint64
		expectErr := false
		rpc := "/svc/" + shapeNames[shape]
		reqSize := []int{0, 10, 5000, 70000, 1<<20 - 4096}[r.Intn(5)] // below every configured reader maximum
		if sp := cfg.Client.Stream.SplitSize; sp > 0 && sp < 8 && reqSize > 5000 {
			reqSize = 5000
		}
		req := payload.Make(uint64(call), 0, 0, 0, reqSize)
		switch {
		case mode <= 5:
			var attached uint64
			p.fail, what, attached = buildError(r)
			wantText, wantCode, expectErr = p.fail.Error(), attached, true
		case mode <= 7:
			what = "success"
		case mode == 8:
			rpc = fmt.Sprintf("/svc/NoSuchMethod%d", r.Intn(100))
			what = "unknown rpc"
			wantText, expectErr = drpc.ProtocolError.New("unknown rpc: %q", rpc).Error(), true
		default:
			if shape == 1 || shape == 3 {
				shape = 0
				rpc = "/svc/Unary"
			}
			req = append([]byte{0xFE}, req...)
			what = "undecodable request"
			wantText, expectErr = errs.Wrap(errUndecodable).Error(), true
		}
		// the failure may overtake the client's own writes: park the client between its invoke and message writes
		var park *director.Park
		if shape == 0 && r.Intn(2) == 0 {
			park = rg.Dir.ParkAt("conn.invoke.afterInvoke", rg.Pair.A, 1)
		}
		rawRecv := r.Intn(4) == 0 // streaming calls: the client drains through the raw receive entry point
		desc := fmt.Sprintf("call%d %s %s k=%d req=%d parked=%v raw-recv=%v", call, rpc, what, p.k, len(req), park != nil, rawRecv)
		descs = append(descs, desc)
		var got []int
		op := rig.Go("call", func() (interface{}, error) {
			ctx := context.Background()
			if shape == 0 || strings.Contains(rpc, "NoSuch") && r.Intn(2) == 0 {
				var out Msg
				err := rg.Conn.Invoke(ctx, rpc, enc{}, &Msg{B: req}, &out)
				if err == nil {
					got = append(got, len(out.B))
				}
				return nil, err
			}
			st, err := rg.Conn.NewStream(ctx, rpc, enc{})
			if err != nil {
				return nil, err
			}
			defer st.Close()
			switch shape {
			case 1:
				for i := 0; i < 1+p.k; i++ {
					if st.MsgSend(&Msg{B: req}, enc{}) != nil {
						break
					}
				}
				st.CloseSend()
			case 2:
				st.MsgSend(&Msg{B: req}, enc{})
				st.CloseSend()
			case 3:
				for i := 0; i < p.k; i++ {
					st.MsgSend(&Msg{B: payload.Make(uint64(call), 0, 0, uint32(i), 30)}, enc{})
					var m Msg
					if err := st.MsgRecv(&m, enc{}); err != nil {
						return nil, err
					}
					got = append(got, len(m.B))
				}
				st.CloseSend()
			}
			for {
				var m Msg
				var err error
				if rr, ok := st.(interface{ RawRecv() ([]byte, error) }); ok && rawRecv {
					m.B, err = rr.RawRecv()
				} else {
					err = st.MsgRecv(&m, enc{})
				}
				if err != nil {
					if rig.Cat(err) == "eof" {
						return nil, nil
					}
					return nil, err
				}
				got = append(got, len(m.B))
			}
		})
		if park != nil {
			st, _ := census.QuiesceOr(park.Reached(), rig.Watchdog)
			if st == "ready" {
				census.Quiesce(rig.Watchdog) // the error packet (if any) has arrived by now
			}
			park.Release()
		}
		switch rig.WaitAny(op.Done()) {
		case "watchdog":
			return runner.Inconcl(id, "watchdog: "+strings.Join(descs, " ; "))
		case "quiescent":
			_, snap := census.Quiesce(rig.Watchdog)
			return runner.Violation(id, "error-identity:call-never-returns", cfg.Desc+" | "+strings.Join(descs, " ; ")+"\n"+desc+": the client call neither failed nor succeeded: it is still blocked with the whole process quiescent\n"+census.Dump(census.InDRPC(snap)))
		}
		events++
		cerr := op.Err
		switch {
		case expectErr && cerr == nil:
			fails = append(fails, fmt.Sprintf("%s: handler/dispatcher failed with %q (code %d) but the client call succeeded", desc, clipS(wantText), wantCode))
		case expectErr:
			keptErrs = append(keptErrs, kept{cerr, wantText, desc, wantCode})
			if cerr.Error() != wantText || codeOf(cerr) != wantCode || drpcerr.Code(cerr) != wantCode {
				fails = append(fails, fmt.Sprintf("%s: client got error text %q code %d (drpcerr.Code says %d); want text %q code %d", desc, clipS(cerr.Error()), codeOf(cerr), drpcerr.Code(cerr), clipS(wantText), wantCode))
			}
		case cerr != nil:
			fails = append(fails, fmt.Sprintf("%s: handler returned a response and no error but the client got %q", desc, clipS(cerr.Error())))
		}
		// messages sent before the failure must have been received first
		if mode <= 7 && (shape == 2 || shape == 3) && len(got) != p.k && (cerr == nil || expectErr) {
			fails = append(fails, fmt.Sprintf("%s: handler sent %d messages before its outcome, client received %d", desc, p.k, len(got)))
		}
		if len(fails) > 0 {
			break
		}
		if rig.IsClosed(rg.Conn.Closed()) {
			fails = append(fails, fmt.Sprintf("%s: the connection closed after a handler error; it must remain usable", desc))
			break
		}
	}
	if len(fails) == 0 {
		// afterwards the connection remains usable
		p.fail, p.k, p.resp = nil, 0, []byte("probe-response")
		var out Msg
		op := rig.Go("probe", func() (interface{}, error) {
			return nil, rg.Conn.Invoke(context.Background(), "/svc/Unary", enc{}, &Msg{B: []byte("probe")}, &out)
		})
		if !op.Wait() {
			fails = append(fails, "probe RPC after the calls did not return (connection not usable)")
		} else if op.Err != nil || string(out.B) != "probe-response" {
			fails = append(fails, fmt.Sprintf("probe RPC after the calls failed: err=%v response=%q", op.Err, clipS(string(out.B))))
		}
	}
	// an error value keeps its text and code while the connection carries later traffic
	if len(fails) == 0 {
		for _, k := range keptErrs {
			if k.err.Error() != k.text || drpcerr.Code(k.err) != k.code {
				fails = append(fails, fmt.Sprintf("%s: the error returned to the caller later reads %q code %d (was %q code %d): it changed while later RPCs used the connection", k.desc, clipS(k.err.Error()), drpcerr.Code(k.err), clipS(k.text), k.code))
				break
			}
		}
	}
	hist := cfg.Desc + " | " + strings.Join(descs, " ; ")
	if len(fails) > 0 {
		k := "error-identity:"
		switch {
		case strings.Contains(fails[0], "client call succeeded"):
			k += "lost"
		case strings.Contains(fails[0], "client got error text"), strings.Contains(fails[0], "later reads"):
			k += "altered"
		case strings.Contains(fails[0], "no error but"):
			k += "spurious"
		case strings.Contains(fails[0], "messages before"):
			k += "messages-before-error"
		default:
			k += "connection-unusable"
		}
		return runner.Violation(id, k, hist+"\n"+strings.Join(fails, "\n"))
	}
	res := runner.Hold(id, hist, true)
	res.Events = int64(events)
	res.Sample = map[string]interface{}{"calls": descs}
	return res
}

func clipS(s string) string {
	if len(s) > 100 {
		return s[:100] + fmt.Sprintf("...(%d bytes)", len(s))
	}
	return s
}

// sharedSentinel: the application keeps one coded error value and returns it from several calls, once
// re-coded with WithCode for a special case. Each call must carry exactly the code of the error its own
// handler returned: re-coding must not change what the shared value means to later calls.
func sharedSentinel(id string, seed uint64) runner.Result {
	r := &payload.SplitMix{S: seed}
	cfg := prog.GenConfig(r, false)
	mux := drpcmux.New()
	p := &plan{}
	if err := mux.Register(&srv{p: p}, desc{}); err != nil {
		return runner.Violation(id, "register", "Register failed: "+err.Error())
	}
	rg := rig.New(rig.Config{Net: cfg.Net, Client: cfg.Client, Server: cfg.Server}, mux)
	defer rg.Teardown()
	base := uint64(3 + r.Intn(100))
	sentinel := drpcerr.WithCode(errors.New("quota exceeded"), base)
	type step struct {
		err  error
		code uint64
		what string
	}
	other := base + 1 + uint64(r.Intn(50))
	steps := []step{
		{sentinel, base, "the sentinel"},
		{drpcerr.WithCode(sentinel, other), other, "the sentinel re-coded"},
		{sentinel, base, "the sentinel again"},
		{fmt.Errorf("wrapped: %w", sentinel), base, "the sentinel wrapped"},
		{drpcerr.WithCode(fmt.Errorf("wrapped: %w", sentinel), other+1), other + 1, "the wrapped sentinel re-coded"},
		{sentinel, base, "the sentinel once more"},
	}
	var fails []string
	var descs []string
	for i, stp := range steps {
		p.fail, p.k = stp.err, 0
		var out Msg
		err := rg.Conn.Invoke(context.Background(), "/svc/Unary", enc{}, &Msg{B: []byte("x")}, &out)
		descs = append(descs, fmt.Sprintf("call%d returns %s (code %d)", i+1, stp.what, stp.code))
		if err == nil {
			fails = append(fails, fmt.Sprintf("call %d: the handler failed but the call succeeded", i+1))
		} else if got := drpcerr.Code(err); got != stp.code {
			fails = append(fails, fmt.Sprintf("call %d (%s): the client got code %d, the handler's error carried %d", i+1, stp.what, got, stp.code))
		}
	}
	desc := cfg.Desc + " | shared-sentinel: " + strings.Join(descs, "; ")
	if len(fails) > 0 {
		return runner.Violation(id, "error-identity:code-of-a-shared-error-value-changed", desc+"\n"+strings.Join(fails, "\n"))
	}
	res := runner.Hold(id, desc, true)
	res.Events = int64(len(steps))
	return res
}

// lateReceive: the client (manual flushing on or off) half-closes, the handler fails, and the client
// asks for the outcome only later: when the stream has finished and the next call on the connection
// has already been started (its invoke sits unflushed in the shared writer). The first call's receive
// must still report exactly the handler's message and code.
func lateReceive(id string, seed uint64) runner.Result {
	r := &payload.SplitMix{S: seed}
	manual := r.Intn(4) != 0
	cfg := prog.GenConfig(r, manual)
	mux := drpcmux.New()
	p := &plan{}
	if err := mux.Register(&srv{p: p}, desc{}); err != nil {
		return runner.Violation(id, "register", "Register failed: "+err.Error())
	}
	rg := rig.New(rig.Config{Net: cfg.Net, Client: cfg.Client, Server: cfg.Server}, mux)
	defer rg.Teardown()
	var attached uint64
	var what string
	p.k = 0
	p.fail, what, attached = buildError(r)
	wantText := p.fail.Error()
	shape := 1 + r.Intn(3)
	rpc := "/svc/" + shapeNames[shape]
	ctx := context.Background()
	st, err := rg.Conn.NewStream(ctx, rpc, enc{})
	if err != nil {
		return runner.Inconcl(id, "NewStream: "+err.Error())
	}
	if shape == 2 {
		st.MsgSend(&Msg{B: []byte("req")}, enc{})
	}
	st.CloseSend()
	census.Quiesce(rig.Watchdog) // the handler's error has arrived and the stream has finished
	st2, err2 := rg.Conn.NewStream(ctx, "/svc/Bidi", enc{})
	desc := fmt.Sprintf("%s | late-receive %s %s manual=%v: half-close, handler error arrives, next call started (err=%v), only then the receive", cfg.Desc, rpc, what, manual, err2)
	op := rig.Go("late-recv", func() (interface{}, error) {
		var m Msg
		return nil, st.MsgRecv(&m, enc{})
	})
	if !op.Wait() {
		return runner.Violation(id, "error-identity:late-receive-never-returns", desc)
	}
	if st2 != nil {
		st2.Close()
	}
	st.Close()
	if rig.IsClosed(rg.Conn.Closed()) {
		return runner.Hold(id, desc+" (connection closed)", false)
	}
	var fails []string
	if op.Err == nil {
		fails = append(fails, "the receive returned nil although the handler failed")
	} else {
		if got := op.Err.Error(); got != wantText {
			fails = append(fails, fmt.Sprintf("the receive reported %q, want the handler's message %q", clipS(got), clipS(wantText)))
		}
		if got := drpcerr.Code(op.Err); got != attached {
			fails = append(fails, fmt.Sprintf("the receive reported code %d, want %d", got, attached))
		}
	}
	if len(fails) > 0 {
		return runner.Violation(id, "error-identity:late-receive", desc+"\n"+strings.Join(fails, "\n"))
	}
	res := runner.Hold(id, desc, true)
	res.Events = 2
	return res
}

// wrapStream / wrapHandler: a middleware in front of the mux that hands it a wrapped stream, as
// tracing or metrics middleware does. What the mux does must not depend on the stream's concrete type.
type wrapStream struct{ drpc.Stream }

type wrapHandler struct{ h drpc.Handler }

func (w wrapHandler) HandleRPC(stream drpc.Stream, rpc string) error {
	return w.h.HandleRPC(wrapStream{stream}, rpc)
}

// earlyReturn: a streaming handler registered with the real mux reads one message, answers and
// returns nil ("seen enough") while the client still has messages to send. A handler that returns a
// response and no error must not yield an error (or a call that never ends) at the client: its sends
// succeed (what nobody reads is discarded), its receives report the answer and then end-of-stream.
// Patterns: all sends first, then the half-close and the receives (what a generated stub does), also on
// a transport without buffering; or one send, the receive of the answer, and only then, when the
// server's end of stream has arrived, more sends.
func earlyReturn(id string, seed uint64) runner.Result {
	r := &payload.SplitMix{S: seed}
	cfg := prog.GenConfig(r, false)
	interleaved := r.Intn(3) == 0
	rendezvous := !interleaved && r.Intn(3) != 0
	if rendezvous {
		cfg.Net.Cap = 0
	} else if cfg.Net.Cap == 0 {
		cfg.Net.Cap = -1
	}
	mux := drpcmux.New()
	p := &plan{k: 1}
	if err := mux.Register(&srv{p: p}, desc{}); err != nil {
		return runner.Violation(id, "register", "Register failed: "+err.Error())
	}
	var h drpc.Handler = mux
	wrapped := r.Intn(2) == 0
	if wrapped {
		h = wrapHandler{mux}
	}
	rg := rig.New(rig.Config{Net: cfg.Net, Client: cfg.Client, Server: cfg.Server}, h)
	defer rg.Teardown()
	rpc := "/svc/Bidi"
	if r.Intn(2) == 0 {
		rpc = "/svc/ServerStream" // the mux reads the one request itself; the client sends more than that
	}
	nsend := 2 + r.Intn(4)
	desc := fmt.Sprintf("%s | early-return rendezvous=%v interleaved=%v middleware=%v: %s handler takes 1 message, answers once, returns nil; client sends %d", cfg.Desc, rendezvous, interleaved, wrapped, rpc, nsend)
	var got int
	var sendErrs []string
	afterFirst := make(chan struct{})
	goOn := make(chan struct{})
	op := rig.Go("call", func() (interface{}, error) {
		st, err := rg.Conn.NewStream(context.Background(), rpc, enc{})
		if err != nil {
			return nil, err
		}
		defer st.Close()
		recvOne := func() error {
			var m Msg
			if err := st.MsgRecv(&m, enc{}); err != nil {
				return err
			}
			got++
			return nil
		}
		for i := 0; i < nsend; i++ {
			if err := st.MsgSend(&Msg{B: payload.Make(1, 0, 0, uint32(i), 30)}, enc{}); err != nil {
				sendErrs = append(sendErrs, fmt.Sprintf("send %d: %s", i, rig.ErrStr(err)))
				break
			}
			if interleaved && i == 0 {
				if err := recvOne(); err != nil {
					return nil, err
				}
				close(afterFirst)
				<-goOn
			}
		}
		st.CloseSend()
		for {
			if err := recvOne(); err != nil {
				if rig.Cat(err) == "eof" {
					return nil, nil
				}
				return nil, err
			}
		}
	})
	if interleaved {
		// the handler has returned and the server's end of stream has arrived before the client sends again
		if s, _ := census.QuiesceOr(afterFirst, rig.Watchdog); s == "ready" {
			census.Quiesce(rig.Watchdog)
		}
		close(goOn)
	}
	if !op.Wait() {
		_, snap := census.Quiesce(rig.Watchdog)
		return runner.Violation(id, "error-identity:call-never-returns-after-handler-returned-nil", desc+"\nthe client call is still blocked with the whole process quiescent\n"+census.Dump(census.InDRPC(snap)))
	}
	var fails []string
	closed := rig.IsClosed(rg.Conn.Closed())
	if op.Err != nil {
		fails = append(fails, "the handler returned a response and no error but the client got "+rig.ErrStr(op.Err))
	} else if got != 1 {
		fails = append(fails, fmt.Sprintf("the client received %d messages, the handler sent 1", got))
	}
	if len(sendErrs) > 0 && !closed {
		fails = append(fails, "the handler returned no error and the connection is open, but a client send failed: "+strings.Join(sendErrs, "; "))
	}
	if len(fails) == 0 && !closed {
		p.fail, p.k, p.resp = nil, 0, []byte("probe-response")
		var out Msg
		probe := rig.Go("probe", func() (interface{}, error) {
			return nil, rg.Conn.Invoke(context.Background(), "/svc/Unary", enc{}, &Msg{B: []byte("probe")}, &out)
		})
		if !probe.Wait() {
			fails = append(fails, "probe RPC after the call did not return (connection not usable)")
		} else if probe.Err != nil || string(out.B) != "probe-response" {
			fails = append(fails, fmt.Sprintf("probe RPC after the call failed: err=%v", probe.Err))
		}
	}
	if len(fails) > 0 {
		return runner.Violation(id, "error-identity:early-return", desc+"\n"+strings.Join(fails, "\n"))
	}
	res := runner.Hold(id, desc, true)
	res.Events = int64(nsend + 2)
	return res
}

// errorBehindFlushedAnswers: a server with manual flushing on a transport without buffering. The
// handler answers and flushes, reads one request, answers again (that one stays in the writer) and
// fails with a coded error while the client, which receives only after it has sent everything, is
// still sending. The client must get the flushed answers, the buffered ones, then exactly the error,
// and the connection must serve the next call.
func errorBehindFlushedAnswers(id string, seed uint64) runner.Result {
	r := &payload.SplitMix{S: seed}
	cfg := prog.GenConfig(r, false)
	rendezvous := r.Intn(4) != 0
	if rendezvous {
		cfg.Net.Cap = 0
	} else if cfg.Net.Cap == 0 {
		cfg.Net.Cap = -1
	}
	cfg.Server.Stream.ManualFlush = true
	cfg.Client.Stream.ManualFlush = false
	// the answers sent after the flush have to fit the writer: a handler whose own send goes to a transport
	// nobody reads from is held up by flow control, not by the library
	cfg.Server.WriterBufferSize = 1 << 16
	// one flushed answer: it sits in the client's single receive slot until the client gets round to receiving;
	// a second one would wait for that, and the handler with it, before it has read anything (flow control again)
	nflushed, nbuffered, nsend := 1, 1+r.Intn(3), 2+r.Intn(4)
	code := uint64(1 + r.Intn(90))
	text := fmt.Sprintf("boom-%d: quota exceeded", r.Intn(1000))
	handler := rig.HandlerFunc(func(stream drpc.Stream, rpc string) error {
		if rpc == "/probe" {
			var m Msg
			if err := stream.MsgRecv(&m, enc{}); err != nil {
				return err
			}
			return stream.MsgSend(&Msg{B: []byte("probe-response")}, enc{})
		}
		k := 0
		for i := 0; i < nflushed; i++ {
			if err := stream.MsgSend(&Msg{B: payload.Make(1, 1, 0, uint32(k), 20)}, enc{}); err != nil {
				return err
			}
			k++
		}
		if err := stream.(interface{ RawFlush() error }).RawFlush(); err != nil {
			return err
		}
		var m Msg
		if err := stream.MsgRecv(&m, enc{}); err != nil {
			return err
		}
		for i := 0; i < nbuffered; i++ {
			if err := stream.MsgSend(&Msg{B: payload.Make(1, 1, 0, uint32(k), 20)}, enc{}); err != nil {
				return err
			}
			k++
		}
		return drpcerr.WithCode(errors.New(text), code)
	})
	rg := rig.New(rig.Config{Net: cfg.Net, Client: cfg.Client, Server: cfg.Server}, handler)
	defer rg.Teardown()
	desc := fmt.Sprintf("%s server-manual-flush | error-behind-flushed-answers rendezvous=%v: handler sends %d, flushes, reads 1, sends %d more, returns code %d %q; client sends %d, half-closes, then receives", cfg.Desc, rendezvous, nflushed, nbuffered, code, text, nsend)
	var got []uint32
	op := rig.Go("call", func() (interface{}, error) {
		st, err := rg.Conn.NewStream(context.Background(), "/rpc", enc{})
		if err != nil {
			return nil, err
		}
		defer st.Close()
		for i := 0; i < nsend; i++ {
			if st.MsgSend(&Msg{B: payload.Make(1, 0, 0, uint32(i), 30)}, enc{}) != nil {
				break
			}
		}
		st.CloseSend()
		for {
			var m Msg
			if err := st.MsgRecv(&m, enc{}); err != nil {
				return nil, err
			}
			h, _ := payload.Parse(m.B)
			got = append(got, h.Seq)
		}
	})
	if !op.Wait() {
		_, snap := census.Quiesce(rig.Watchdog)
		return runner.Violation(id, "error-identity:call-never-returns-after-handler-error", desc+"\nthe handler has returned its error and the client call is still blocked with the whole process quiescent\n"+census.Dump(census.InDRPC(snap)))
	}
	var fails []string
	want := nflushed + nbuffered
	if len(got) != want {
		fails = append(fails, fmt.Sprintf("the client received %d answers before the error, the handler had sent %d", len(got), want))
	}
	for i, s := range got {
		if int(s) != i {
			fails = append(fails, fmt.Sprintf("answer %d carries sequence number %d", i, s))
		}
	}
	if op.Err == nil || op.Err.Error() != text || drpcerr.Code(op.Err) != code {
		fails = append(fails, fmt.Sprintf("the client got error %s code %d, the handler returned %q code %d", rig.ErrStr(op.Err), drpcerr.Code(op.Err), text, code))
	}
	if len(fails) == 0 && !rig.IsClosed(rg.Conn.Closed()) {
		var out Msg
		probe := rig.Go("probe", func() (interface{}, error) {
			return nil, rg.Conn.Invoke(context.Background(), "/probe", enc{}, &Msg{B: []byte("probe")}, &out)
		})
		if !probe.Wait() {
			fails = append(fails, "probe RPC after the call did not return (connection not usable)")
		} else if probe.Err != nil || string(out.B) != "probe-response" {
			fails = append(fails, fmt.Sprintf("probe RPC after the call failed: err=%v", probe.Err))
		}
	} else if len(fails) == 0 {
		fails = append(fails, "the connection is closed after a handler error")
	}
	if len(fails) > 0 {
		return runner.Violation(id, "error-identity:error-behind-flushed-answers", desc+"\n"+strings.Join(fails, "\n"))
	}
	res := runner.Hold(id, desc, true)
	res.Events = int64(nsend + want + 2)
	return res
}

// largeErrorText: the handler's error text is as long as a large message (around the 4 MiB the reader
// accepts by default, and beyond it on a client whose reader limit was raised): the client gets
// exactly that text and code, or, where the client's reader cannot take a packet of that size, the
// call fails some other way; it never gets a different text under the right code.
func largeErrorText(id string, seed uint64) runner.Result {
	r := &payload.SplitMix{S: seed}
	cfg := prog.GenConfig(r, false)
	if cfg.Net.Cap == 0 {
		cfg.Net.Cap = -1
	}
	raised := r.Intn(3) != 0
	cfg.Client.Reader.MaximumBufferSize = 0
	if raised {
		cfg.Client.Reader.MaximumBufferSize = 16 << 20
	}
	n := payload.Pick(r, []int{1 << 10, 70000, 4<<20 - 9, 4<<20 - 8, 4<<20 - 7, 4<<20 + 1, 5<<20 + 123})
	code := payload.Pick(r, []uint64{1, 7, 1<<64 - 2})
	text := strings.Repeat("abcdefghij", n/10+1)[:n]
	handler := rig.HandlerFunc(func(stream drpc.Stream, rpc string) error {
		var m Msg
		if err := stream.MsgRecv(&m, enc{}); err != nil {
			return err
		}
		if rpc == "/probe" {
			return stream.MsgSend(&Msg{B: []byte("probe-response")}, enc{})
		}
		return drpcerr.WithCode(errors.New(text), code)
	})
	rg := rig.New(rig.Config{Net: cfg.Net, Client: cfg.Client, Server: cfg.Server}, handler)
	defer rg.Teardown()
	desc := fmt.Sprintf("%s | large-error-text: handler fails with code %d and a text of %d bytes; client reader limit raised to 16 MiB: %v", cfg.Desc, code, n, raised)
	var out Msg
	op := rig.Go("call", func() (interface{}, error) {
		return nil, rg.Conn.Invoke(context.Background(), "/rpc", enc{}, &Msg{B: []byte("x")}, &out)
	})
	if !op.Wait() {
		return runner.Violation(id, "error-identity:large-error-text:call-never-returns", desc)
	}
	fits := n+8 <= 4<<20 || raised
	var fails []string
	switch {
	case op.Err == nil:
		fails = append(fails, "the handler failed but the call returned nil")
	case drpcerr.Code(op.Err) == code && op.Err.Error() != text:
		got := op.Err.Error()
		fails = append(fails, fmt.Sprintf("the client got the handler's code with a text of %d bytes (first difference at byte %d), the handler's text has %d bytes", len(got), firstDiff(got, text), len(text)))
	case fits && (op.Err.Error() != text || drpcerr.Code(op.Err) != code):
		fails = append(fails, fmt.Sprintf("the error fits the client's reader but the client got code %d and %s", drpcerr.Code(op.Err), clipS(op.Err.Error())))
	}
	if len(fails) == 0 && fits && !rig.IsClosed(rg.Conn.Closed()) {
		probe := rig.Go("probe", func() (interface{}, error) {
			return nil, rg.Conn.Invoke(context.Background(), "/probe", enc{}, &Msg{B: []byte("probe")}, &out)
		})
		if !probe.Wait() || probe.Err != nil {
			fails = append(fails, fmt.Sprintf("probe RPC after the call: returned=%v err=%v", probe.Returned(), probe.Err))
		}
	}
	if len(fails) > 0 {
		return runner.Violation(id, "error-identity:large-error-text", desc+"\n"+strings.Join(fails, "\n"))
	}
	res := runner.Hold(id, desc, fits)
	res.Events = 2
	return res
}

// errorAtTheLimit: the handler's error, encoded, is exactly as large as the client's reader accepts, or a
// few bytes smaller, and the transport hands the bytes over in pieces that end inside the frame's last
// bytes. An error that fits the limit reaches the caller with its text and code and the connection
// serves the next call.
func errorAtTheLimit(id string, seed uint64) runner.Result {
	r := &payload.SplitMix{S: seed}
	cfg := prog.GenConfig(r, false)
	if cfg.Net.Cap == 0 {
		cfg.Net.Cap = -1
	}
	limit := payload.Pick(r, []int{4095, 4095, 4095, 4094, 4096, 100, 1000, 8191, 70000})
	below := r.Intn(5)
	n := limit - 8 - below
	cfg.Client.Reader.MaximumBufferSize = limit
	switch r.Intn(3) {
	case 0:
		cfg.Net.ChunkA, cfg.Net.ChunkB = simnet.ChunkAll{}, simnet.ChunkAll{}
	case 1:
		k := limit + 1 + r.Intn(4)
		cfg.Net.ChunkA, cfg.Net.ChunkB = simnet.ChunkK{K: k}, simnet.ChunkK{K: k}
	}
	code := payload.Pick(r, []uint64{1, 7, 1<<64 - 2})
	text := strings.Repeat("abcdefghij", n/10+1)[:n]
	handler := rig.HandlerFunc(func(stream drpc.Stream, rpc string) error {
		var m Msg
		if err := stream.MsgRecv(&m, enc{}); err != nil {
			return err
		}
		if rpc == "/probe" {
			return stream.MsgSend(&Msg{B: []byte("probe-response")}, enc{})
		}
		return drpcerr.WithCode(errors.New(text), code)
	})
	rg := rig.New(rig.Config{Net: cfg.Net, Client: cfg.Client, Server: cfg.Server}, handler)
	defer rg.Teardown()
	desc := fmt.Sprintf("%s | error-at-the-limit: client reader limit %d; the handler fails with code %d and a text of %d bytes (encoded: %d bytes, %d below the limit); chunks %T%v", cfg.Desc, limit, code, n, n+8, below, cfg.Net.ChunkA, cfg.Net.ChunkA)
	var out Msg
	op := rig.Go("call", func() (interface{}, error) {
		return nil, rg.Conn.Invoke(context.Background(), "/rpc", enc{}, &Msg{B: []byte("x")}, &out)
	})
	if !op.Wait() {
		return runner.Violation(id, "error-identity:error-at-the-limit:call-never-returns", desc)
	}
	var fails []string
	if op.Err == nil {
		fails = append(fails, "the handler failed but the call returned nil")
	} else if op.Err.Error() != text || drpcerr.Code(op.Err) != code {
		fails = append(fails, fmt.Sprintf("the error fits the client's reader limit but the client got code %d and %s", drpcerr.Code(op.Err), clipS(op.Err.Error())))
	}
	if len(fails) == 0 {
		probe := rig.Go("probe", func() (interface{}, error) {
			return nil, rg.Conn.Invoke(context.Background(), "/probe", enc{}, &Msg{B: []byte("probe")}, &out)
		})
		if !probe.Wait() || probe.Err != nil {
			fails = append(fails, fmt.Sprintf("probe RPC after the call: returned=%v err=%v", probe.Returned(), probe.Err))
		}
	}
	if len(fails) > 0 {
		return runner.Violation(id, "error-identity:error-at-the-limit", desc+"\n"+strings.Join(fails, "\n"))
	}
	res := runner.Hold(id, desc, true)
	res.Events = 2
	return res
}

// unknownRPC: the dispatcher's own failure. A name the mux does not have, called in every client shape
// and order of first steps (unary; stream with a receive first, a send first, a half-close first): the
// call fails with the dispatcher's message and no code, whatever the client did first, and the
// connection serves the next call.
func unknownRPC(id string, seed uint64) runner.Result {
	r := &payload.SplitMix{S: seed}
	cfg := prog.GenConfig(r, false)
	if cfg.Net.Cap == 0 && r.Intn(2) == 0 {
		cfg.Net.Cap = -1
	}
	mux := drpcmux.New()
	p := &plan{k: 0, resp: []byte("probe-response")}
	if err := mux.Register(&srv{p: p}, desc{}); err != nil {
		return runner.Violation(id, "register", "Register failed: "+err.Error())
	}
	rg := rig.New(rig.Config{Net: cfg.Net, Client: cfg.Client, Server: cfg.Server}, mux)
	defer rg.Teardown()
	shape := payload.Pick(r, []string{"unary", "stream-receive-first", "stream-send-first", "stream-halfclose-first", "stream-send-halfclose-receive"})
	name := payload.Pick(r, []string{"/svc/Nope", "/other/Unary", "/svc/unary", "/svc/Unary/", "svc/Unary"})
	desc := fmt.Sprintf("%s | unknown-rpc %q called as %s", cfg.Desc, name, shape)
	op := rig.Go("call", func() (interface{}, error) {
		if shape == "unary" {
			var out Msg
			return nil, rg.Conn.Invoke(context.Background(), name, enc{}, &Msg{B: []byte("x")}, &out)
		}
		st, err := rg.Conn.NewStream(context.Background(), name, enc{})
		if err != nil {
			return nil, err
		}
		defer st.Close()
		switch shape {
		case "stream-send-first":
			st.MsgSend(&Msg{B: []byte("x")}, enc{})
		case "stream-halfclose-first":
			st.CloseSend()
		case "stream-send-halfclose-receive":
			st.MsgSend(&Msg{B: []byte("x")}, enc{})
			st.CloseSend()
		}
		var m Msg
		return nil, st.MsgRecv(&m, enc{})
	})
	if !op.Wait() {
		_, snap := census.Quiesce(rig.Watchdog)
		return runner.Violation(id, "error-identity:unknown-rpc:call-never-fails", desc+"\nthe call is still blocked with the whole process quiescent\n"+census.Dump(census.InDRPC(snap)))
	}
	var fails []string
	if op.Err == nil || !strings.Contains(op.Err.Error(), "unknown rpc") || !strings.Contains(op.Err.Error(), name) || drpcerr.Code(op.Err) != 0 {
		fails = append(fails, fmt.Sprintf("the call returned %s (code %d), want the dispatcher's unknown-rpc error naming %q and no code", rig.ErrStr(op.Err), drpcerr.Code(op.Err), name))
	}
	if len(fails) == 0 {
		var out Msg
		probe := rig.Go("probe", func() (interface{}, error) {
			return nil, rg.Conn.Invoke(context.Background(), "/svc/Unary", enc{}, &Msg{B: []byte("probe")}, &out)
		})
		if !probe.Wait() || probe.Err != nil || string(out.B) != "probe-response" {
			fails = append(fails, fmt.Sprintf("probe RPC after the call: returned=%v err=%v (connection closed: %v)", probe.Returned(), probe.Err, rig.IsClosed(rg.Conn.Closed())))
		}
	}
	if len(fails) > 0 {
		return runner.Violation(id, "error-identity:unknown-rpc", desc+"\n"+strings.Join(fails, "\n"))
	}
	res := runner.Hold(id, desc, true)
	res.Events = 2
	return res
}

// pooledCalls: the same calls through a drpcpool handle, as applications that pool their connections
// make them. A handler error (with or without a code, an unknown rpc) fails the one call; the
// connection underneath stays open and serves the next call: nothing is dialed a second time.
func pooledCalls(id string, seed uint64) runner.Result {
	r := &payload.SplitMix{S: seed}
	cfg := prog.GenConfig(r, false)
	if cfg.Net.Cap == 0 {
		cfg.Net.Cap = -1
	}
	mux := drpcmux.New()
	p := &plan{k: 0, resp: []byte("ok")}
	if err := mux.Register(&srv{p: p}, desc{}); err != nil {
		return runner.Violation(id, "register", "Register failed: "+err.Error())
	}
	rg := rig.New(rig.Config{Net: cfg.Net, Client: cfg.Client, Server: cfg.Server}, mux)
	defer rg.Teardown()
	pool := drpcpool.New[string, drpcpool.Conn](drpcpool.Options{Capacity: payload.Pick(r, []int{0, 1, 4})})
	defer pool.Close()
	dials := 0
	handle := pool.Get(context.Background(), "k", func(context.Context, string) (drpcpool.Conn, error) {
		dials++
		if dials > 1 {
			return nil, errors.New("a second dial: the connection of the first was given up")
		}
		return rg.Conn, nil
	})
	n := 3 + r.Intn(5)
	var hist, fails []string
	for i := 0; i < n && len(fails) == 0; i++ {
		kind := payload.Pick(r, []string{"ok", "plain-error", "coded-error", "unknown-rpc", "ok"})
		if i == n-1 {
			kind = "ok"
		}
		hist = append(hist, kind)
		p.fail, p.k = nil, 0
		rpc := "/svc/Unary"
		switch kind {
		case "plain-error":
			p.fail = errors.New("plain failure")
		case "coded-error":
			p.fail = drpcerr.WithCode(errors.New("coded failure"), 9)
		case "unknown-rpc":
			rpc = "/svc/Missing"
		}
		var out Msg
		err := handle.Invoke(context.Background(), rpc, enc{}, &Msg{B: []byte("x")}, &out)
		switch {
		case kind == "ok" && (err != nil || string(out.B) != "ok"):
			fails = append(fails, fmt.Sprintf("call %d (%s) through the pool: err=%v answer=%q (dials so far: %d, first connection closed: %v)", i+1, kind, err, out.B, dials, rig.IsClosed(rg.Conn.Closed())))
		case kind != "ok" && err == nil:
			fails = append(fails, fmt.Sprintf("call %d (%s) returned nil", i+1, kind))
		case kind == "plain-error" && err.Error() != "plain failure", kind == "coded-error" && (err.Error() != "coded failure" || drpcerr.Code(err) != 9):
			fails = append(fails, fmt.Sprintf("call %d (%s) returned %s code %d", i+1, kind, rig.ErrStr(err), drpcerr.Code(err)))
		}
		if len(fails) == 0 && rig.IsClosed(rg.Conn.Closed()) {
			fails = append(fails, fmt.Sprintf("after call %d (%s) the connection underneath the pool handle is closed", i+1, kind))
		}
	}
	desc := fmt.Sprintf("%s | pooled-calls: %s", cfg.Desc, strings.Join(hist, ", "))
	if len(fails) > 0 {
		return runner.Violation(id, "error-identity:pooled-connection-not-usable-after-a-failed-call", desc+"\n"+strings.Join(fails, "\n"))
	}
	res := runner.Hold(id, desc, true)
	res.Events = int64(n)
	return res
}

func firstDiff(a, b string) int {
	for i := 0; i < len(a) && i < len(b); i++ {
		if a[i] != b[i] {
			return i
		}
	}
	if len(a) < len(b) {
		return len(a)
	}
	return len(b)
}

func gen(tier string, seed uint64) []runner.Scenario {
	n := 250
	if tier == "thorough" {
		n = 8000
	}
	var out []runner.Scenario
	out = append(out, runner.Scenario{ID: "generated-client/all", Run: func() runner.Result { return generatedClientAll("generated-client/all") }})
	for i := 0; i < n; i++ {
		i := i
		id := fmt.Sprintf("calls/%d", i)
		out = append(out, runner.Scenario{ID: id, Run: func() runner.Result { return scenario(id, payload.Hash(seed, 0xC10, uint64(i))) }})
		if i%25 == 0 {
			id4 := fmt.Sprintf("shared-sentinel/%d", i)
			out = append(out, runner.Scenario{ID: id4, Run: func() runner.Result { return sharedSentinel(id4, payload.Hash(seed, 0xC10C, uint64(i))) }})
		}
		if i%8 == 0 {
			id8 := fmt.Sprintf("pooled-calls/%d", i)
			out = append(out, runner.Scenario{ID: id8, Run: func() runner.Result { return pooledCalls(id8, payload.Hash(seed, 0xC110, uint64(i))) }})
		}
		if i%6 == 0 {
			id7 := fmt.Sprintf("unknown-rpc/%d", i)
			out = append(out, runner.Scenario{ID: id7, Run: func() runner.Result { return unknownRPC(id7, payload.Hash(seed, 0xC10F, uint64(i))) }})
		}
		if i%8 == 0 {
			id9 := fmt.Sprintf("error-at-the-limit/%d", i)
			out = append(out, runner.Scenario{ID: id9, Run: func() runner.Result { return errorAtTheLimit(id9, payload.Hash(seed, 0xC111, uint64(i))) }})
		}
		if i%12 == 0 {
			id6 := fmt.Sprintf("large-error-text/%d", i)
			out = append(out, runner.Scenario{ID: id6, Run: func() runner.Result { return largeErrorText(id6, payload.Hash(seed, 0xC10E, uint64(i))) }})
		}
		if i%10 == 0 {
			id5 := fmt.Sprintf("error-behind-flushed-answers/%d", i)
			out = append(out, runner.Scenario{ID: id5, Run: func() runner.Result { return errorBehindFlushedAnswers(id5, payload.Hash(seed, 0xC10D, uint64(i))) }})
		}
		if i%5 == 0 {
			id3 := fmt.Sprintf("early-return/%d", i)
			out = append(out, runner.Scenario{ID: id3, Run: func() runner.Result { return earlyReturn(id3, payload.Hash(seed, 0xC10B, uint64(i))) }})
		}
		if i%5 == 0 {
			id2 := fmt.Sprintf("late-receive/%d", i)
			out = append(out, runner.Scenario{ID: id2, Run: func() runner.Result { return lateReceive(id2, payload.Hash(seed, 0xC10A, uint64(i))) }})
		}
	}
	return out
}

func main() {
	runner.Main(runner.Check{
		Property: "C10",
		Level:    "exploration",
		Rule:     "one case = 2-5 consecutive calls on one connection against a hand-written four-shape service registered with the real drpcmux; each call draws: shape, outcome (handler error with text in {empty, ASCII, 64 KiB, random bytes, NUL/invalid UTF-8, non-ASCII/CRLF} x code in {none,1,2,12,2^32,2^63,2^64-1} attached by WithCode or a Code() method x wrapping depth in {0,1,2,5,20,50} through Cause/Unwrap chains of six wrapper species (value and pointer types, comparable and not, mixed or one species throughout); success; unknown rpc; undecodable request), k in 0..3 responses before the outcome, request size in {0,10,5000,70000,~1 MiB}; unary calls are parked between their invoke and message writes until the server's answer has arrived in half of the cases; seeded configuration cell. Followed by a probe. Plus one case that runs the same clauses through the code protoc-gen-go-drpc (built from the repository) generates for a four-shape service: unknown rpc, a handler failing at once, a request that cannot be marshalled, with small and 100 KB requests, each followed by a probe on the same connection. Non-trivial: all. Distinct: by configuration and call list. (error-at-the-limit) the handler's encoded error is exactly as large as the client's reader limit (100 to 70000 bytes) or up to four bytes smaller, with transport chunks ending inside the frame's last bytes: text and code reach the caller and the connection serves the next call.",
		Assumptions: []string{
			"expected client text is the text of the error the handler returned (errs.Wrap without a class and the wrappers used keep the text); expected code is the code the scenario attached, read back on the client both by drpcerr.Code and by an independent walk of the Unwrap/Cause chain",
			"wrapping depth stays below the library's documented 100-step unwrap bound",
		},
		Gen:           gen,
		Shards:        14,
		MinNontrivial: 100,
	})
}
