package main

import (
	"bufio"
	"encoding/json"
	"fmt"
	"os"
	"os/exec"
	"path/filepath"
	"strings"
	"sync"

	"verifharness/genkit"
	"verifharness/runner"
)

// The generated-client family: the same error-identity clauses, observed through the client and
// server code that protoc-gen-go-drpc (built from the repository under test) generates for a service
// with the four method shapes, instead of through hand-written stream code.

const genDriver = `package main

import (
	"context"
	"encoding/json"
	"errors"
	"fmt"
	"io"
	"net"
	"os"
	"strings"
	"time"

	"storj.io/drpc/drpcconn"
	"storj.io/drpc/drpcerr"
	"storj.io/drpc/drpcmux"
	"storj.io/drpc/drpcserver"

	"genscratch/svc"
	"verifharness/census"
)

type impl struct{ mode string }

func fail(shape string) error { return drpcerr.WithCode(errors.New("boom "+shape), 77) }

func (i impl) U(ctx context.Context, in *svc.Req) (*svc.Req, error) {
	if i.mode == "handler-error" {
		return nil, fail("U")
	}
	return &svc.Req{Tag: "re:" + in.Tag}, nil
}
func (i impl) C(st svc.DRPCSvc_CStream) error {
	if i.mode == "handler-error" {
		return fail("C")
	}
	n := 0
	for {
		if _, err := st.Recv(); err != nil {
			break
		}
		n++
	}
	return st.SendAndClose(&svc.Req{Tag: fmt.Sprint("got ", n)})
}
func (i impl) S(in *svc.Req, st svc.DRPCSvc_SStream) error {
	if i.mode == "handler-error" {
		return fail("S")
	}
	return st.Send(&svc.Req{Tag: "re:" + in.Tag})
}
func (i impl) B(st svc.DRPCSvc_BStream) error {
	if i.mode == "handler-error" {
		return fail("B")
	}
	for {
		in, err := st.Recv()
		if err != nil {
			return nil
		}
		if err := st.Send(&svc.Req{Tag: "re:" + in.Tag}); err != nil {
			return err
		}
	}
}

type result struct {
	Scenario string ` + "`json:\"scenario\"`" + `
	Shape    string ` + "`json:\"shape\"`" + `
	Size     int    ` + "`json:\"size\"`" + `
	Err      string ` + "`json:\"err\"`" + `
	Nil      bool   ` + "`json:\"nil\"`" + `
	Code     uint64 ` + "`json:\"code\"`" + `
	Probe    string ` + "`json:\"probe\"`" + `
}

func call(cli svc.DRPCSvcClient, shape string, req *svc.Req) error {
	ctx := context.Background()
	switch shape {
	case "U":
		_, err := cli.U(ctx, req)
		return err
	case "C":
		st, err := cli.C(ctx)
		if err != nil {
			return err
		}
		if err := st.Send(req); err != nil && !errors.Is(err, io.EOF) {
			st.Close()
			return err // (io.EOF from a send means: the stream has ended, the receive says why)
		}
		_, err = st.CloseAndRecv()
		return err
	case "S":
		st, err := cli.S(ctx, req)
		if err != nil {
			return err
		}
		_, err = st.Recv()
		st.Close()
		return err
	default:
		st, err := cli.B(ctx)
		if err != nil {
			return err
		}
		if err := st.Send(req); err != nil && !errors.Is(err, io.EOF) {
			st.Close()
			return err
		}
		_, err = st.Recv()
		st.Close()
		return err
	}
}

func main() {
	enc := json.NewEncoder(os.Stdout)
	for _, scenario := range []string{"unknown-rpc", "handler-error", "marshal-failure"} {
		for _, shape := range []string{"U", "C", "S", "B"} {
			for _, size := range []int{10, 100000} {
				if scenario == "marshal-failure" && size != 10 {
					continue
				}
				mux := drpcmux.New()
				if scenario != "unknown-rpc" {
					if err := svc.DRPCRegisterSvc(mux, impl{mode: scenario}); err != nil {
						fmt.Println("HARNESS register:", err)
						os.Exit(3)
					}
				}
				c1, c2 := net.Pipe()
				sctx, stop := context.WithCancel(context.Background())
				go drpcserver.New(mux).ServeOne(sctx, c2)
				conn := drpcconn.New(c1)
				cli := svc.NewDRPCSvcClient(conn)
				req := &svc.Req{Tag: strings.Repeat("x", size)}
				if scenario == "marshal-failure" {
					req = &svc.Req{Tag: "\xff\xfe not utf-8"}
				}
				res := result{Scenario: scenario, Shape: shape, Size: size}
				done := make(chan error, 1)
				go func() { done <- call(cli, shape, req) }()
				closed := make(chan struct{})
				var err error
				go func() { err = <-done; close(closed) }()
				if st, _ := census.QuiesceOr(closed, 120*time.Second); st != "ready" {
					res.Err, res.Probe = "the call itself never returned ("+st+")", "skipped"
				} else {
					res.Nil = err == nil
					if err != nil {
						res.Err, res.Code = err.Error(), drpcerr.Code(err)
					}
					// afterwards the connection remains usable
					pdone := make(chan struct{})
					var perr error
					var pout *svc.Req
					go func() { pout, perr = cli.U(context.Background(), &svc.Req{Tag: "probe"}); close(pdone) }()
					switch st, _ := census.QuiesceOr(pdone, 120*time.Second); {
					case st != "ready":
						res.Probe = "blocked"
					case scenario == "unknown-rpc":
						res.Probe = "ok" // the probe is unknown as well; it only has to come back
					case scenario == "handler-error" && perr != nil && perr.Error() == "boom U":
						res.Probe = "ok"
					case scenario == "marshal-failure" && perr == nil && pout.Tag == "re:probe":
						res.Probe = "ok"
					default:
						res.Probe = fmt.Sprintf("failed: %v", perr)
					}
				}
				enc.Encode(res)
				stop()
				conn.Close()
				c1.Close()
				c2.Close()
			}
		}
	}
}
`

var (
	genOnce sync.Once
	genOut  []map[string]interface{}
	genErr  error
)

func runGenDriver() {
	root := filepath.Join(genkit.VerifDir(), ".build", "c10gen"+os.Getenv("VERIF_WORKSUFFIX"))
	kit, err := genkit.New(root)
	if err != nil {
		genErr = err
		return
	}
	defer kit.Close()
	bin, err := kit.BuildDriver(genDriver, "-race")
	if err != nil {
		genErr = err
		return
	}
	cmd := exec.Command(bin)
	out, err := cmd.StdoutPipe()
	if err != nil {
		genErr = err
		return
	}
	var stderr strings.Builder
	cmd.Stderr = &stderr
	if err := cmd.Start(); err != nil {
		genErr = err
		return
	}
	sc := bufio.NewScanner(out)
	sc.Buffer(make([]byte, 1<<20), 1<<24)
	for sc.Scan() {
		var m map[string]interface{}
		if json.Unmarshal(sc.Bytes(), &m) == nil {
			genOut = append(genOut, m)
		}
	}
	if err := cmd.Wait(); err != nil {
		genErr = fmt.Errorf("driver: %v\n%s", err, stderr.String())
	}
}

// generatedClientAll builds and runs the driver once and judges every sub-case.
func generatedClientAll(id string) runner.Result {
	genOnce.Do(runGenDriver)
	if genErr != nil {
		return runner.Result{ID: id, Verdict: "harness-failure", Detail: genErr.Error()}
	}
	var viol []runner.Result
	n := 0
	for _, scenario := range []string{"unknown-rpc", "handler-error", "marshal-failure"} {
		for _, shape := range []string{"U", "C", "S", "B"} {
			for _, size := range []int{10, 100000} {
				if scenario == "marshal-failure" && size != 10 {
					continue
				}
				r := generatedClient(id, scenario, shape, size)
				n++
				if r.Verdict == runner.Violated {
					viol = append(viol, r)
				} else if r.Verdict == runner.Inconclusive {
					return r
				}
			}
		}
	}
	if len(viol) > 0 {
		res := viol[0]
		res.More = viol[1:]
		return res
	}
	res := runner.Hold(id, "generated client and server for a four-shape service: unknown rpc / handler error / unmarshalable request x shapes x request sizes", true)
	res.Events = int64(n)
	res.Distinct = int64(n)
	return res
}

// generatedClient judges one sub-case of the driver's output.
func generatedClient(id, scenario, shape string, size int) runner.Result {
	var rec map[string]interface{}
	for _, m := range genOut {
		if m["scenario"] == scenario && m["shape"] == shape && int(m["size"].(float64)) == size {
			rec = m
		}
	}
	if rec == nil {
		return runner.Inconcl(id, "the driver produced no record for this case")
	}
	errText, _ := rec["err"].(string)
	isNil, _ := rec["nil"].(bool)
	code := uint64(rec["code"].(float64))
	probe, _ := rec["probe"].(string)
	desc := fmt.Sprintf("generated client, %s, shape %s, request of %d bytes: call error=%q code=%d probe=%s", scenario, shape, size, clipS(errText), code, probe)
	var fails []string
	switch scenario {
	case "unknown-rpc":
		if isNil || !strings.Contains(errText, "unknown rpc") {
			fails = append(fails, "the dispatcher's 'unknown rpc' failure did not reach the caller of the generated client")
		}
	case "handler-error":
		if isNil || errText != "boom "+shape || code != 77 {
			fails = append(fails, fmt.Sprintf("the handler returned error %q with code 77; the caller of the generated client got %q code %d", "boom "+shape, clipS(errText), code))
		}
	case "marshal-failure":
		if isNil {
			fails = append(fails, "a request that cannot be marshalled was accepted")
		}
	}
	if probe != "ok" {
		fails = append(fails, "afterwards the connection is not usable: the probe call is "+probe)
	}
	if len(fails) > 0 {
		key := fmt.Sprintf("error-identity:generated-client:%s:%s:%s", scenario, shape, map[bool]string{true: "large-request", false: "small-request"}[size > 65536])
		return runner.Violation(id, key, desc+"\n"+strings.Join(fails, "\n"))
	}
	res := runner.Hold(id, desc, true)
	res.Events = 2
	return res
}
