// C16: the listener multiplexer routes every connection once, by prefix,
// transparently; HeaderConn writes its header exactly once before any payload.
// Monitors: an exactly-once routing ledger over tagged connections (who got
// which connection and which bytes it yielded), a census for Accept calls that
// block after the multiplexer stopped, and a byte-level oracle on what reaches
// the connection underneath a HeaderConn under sequential and concurrent writes.
package main

import (
	"bytes"
	"context"
	"errors"
	"fmt"
	"io"
	"net"
	"strings"
	"sync"
	"time"

	"storj.io/drpc/drpcmigrate"

	"verifharness/census"
	"verifharness/payload"
	"verifharness/rig"
	"verifharness/runner"
	"verifharness/simnet"
)

// ---- fake base listener ----

type baseListener struct {
	ch       chan net.Conn
	done     chan struct{}
	once     sync.Once
	mu       sync.Mutex
	accepted []net.Conn
	failNext error
}

func newBase() *baseListener {
	return &baseListener{ch: make(chan net.Conn, 64), done: make(chan struct{})}
}

func (b *baseListener) Accept() (net.Conn, error) {
	select {
	case <-b.done:
		return nil, errors.New("base listener closed")
	default:
	}
	select {
	case <-b.done:
		return nil, errors.New("base listener closed")
	case c := <-b.ch:
		if c == nil {
			return nil, errors.New("injected accept failure")
		}
		b.mu.Lock()
		b.accepted = append(b.accepted, c)
		b.mu.Unlock()
		census.Bump()
		return c, nil
	}
}

func (b *baseListener) Close() error {
	b.once.Do(func() { close(b.done) })
	census.Bump()
	return nil
}

type addr struct{}

func (addr) Network() string { return "fake" }
func (addr) String() string  { return "fake" }

func (b *baseListener) Addr() net.Addr { return addr{} }

func (b *baseListener) wasAccepted(c net.Conn) bool {
	b.mu.Lock()
	defer b.mu.Unlock()
	for _, x := range b.accepted {
		if x == c {
			return true
		}
	}
	return false
}

// ---- mux scenario ----

type delivery struct {
	listener string
	data     []byte
	readErr  error
}

type client struct {
	id          int
	prefix      string
	payload     []byte
	short       bool   // sends fewer bytes than the prefix length, then closes
	stall       bool   // sends part of the prefix and keeps the connection open
	expectRoute string // live listener registered for the prefix when the connection arrived (cleared if the application closes it later)
	settled     bool   // the process was quiescent after this connection arrived and before the mux was stopped
	pair        *simnet.Pair
	sent        []byte
	conn        net.Conn // what the base listener hands out: the endpoint, or the endpoint with the optional fast-path interfaces
}

// fastConn is a base connection that also implements io.WriterTo and io.ReaderFrom, as *net.TCPConn
// does: wrappers that forward those to the connection underneath must not lose what they hold back.
type fastConn struct{ *simnet.End }

func (c fastConn) WriteTo(w io.Writer) (n int64, err error) {
	buf := make([]byte, 97)
	for {
		k, rerr := c.End.Read(buf)
		if k > 0 {
			m, werr := w.Write(buf[:k])
			n += int64(m)
			if werr != nil {
				return n, werr
			}
		}
		if rerr == io.EOF {
			return n, nil
		}
		if rerr != nil {
			return n, rerr
		}
	}
}

func (c fastConn) ReadFrom(r io.Reader) (n int64, err error) {
	buf := make([]byte, 53)
	for {
		k, rerr := r.Read(buf)
		if k > 0 {
			m, werr := c.End.Write(buf[:k])
			n += int64(m)
			if werr != nil {
				return n, werr
			}
		}
		if rerr == io.EOF {
			return n, nil
		}
		if rerr != nil {
			return n, rerr
		}
	}
}

// readAllSmall reads to EOF with a cycle of (possibly tiny) buffer sizes.
func readAllSmall(c net.Conn, sizes []int) ([]byte, error) {
	var out []byte
	for i := 0; ; i++ {
		buf := make([]byte, sizes[i%len(sizes)])
		n, err := c.Read(buf)
		out = append(out, buf[:n]...)
		if len(out) > 1<<20 {
			return out, errors.New("connection yields more than 1 MiB although the client sent a few hundred bytes")
		}
		if err != nil {
			if err == io.EOF {
				return out, nil
			}
			return out, err
		}
	}
}

func muxScenario(id string, seed uint64) runner.Result {
	r := &payload.SplitMix{S: seed}
	// (a zero-length Read is a legal call on an io.Reader: it reads nothing and loses nothing)
	readSizes := [][]int{{512}, {1}, {3}, {1, 2, 5}, {7, 64}, {0, 512}, {1, 0, 2}, {0, 0, 3}}[r.Intn(8)]
	drain := []int{0, 0, 1, 2}[r.Intn(4)]
	fast := r.Intn(2) == 0
	plen := []int{1, 4, 8}[r.Intn(3)]
	base := newBase()
	mux := drpcmigrate.NewListenMux(base, plen)
	ctx, cancel := context.WithCancel(context.Background())
	defer cancel()

	mkPrefix := func(i int) string { return string(bytes.Repeat([]byte{byte('A' + i)}, plen)) }
	nroutes := r.Intn(4)
	type lst struct {
		name     string
		l        net.Listener
		closedAt int // step at which the harness closes it (-1 never)
		closed   bool
		acceptor bool
	}
	liveRoute := map[string]string{} // prefix -> name of the live listener currently registered for it
	var lists []*lst
	lists = append(lists, &lst{name: "default", l: mux.Default(), closedAt: -1, acceptor: r.Intn(8) != 0})

	var mu sync.Mutex
	deliveries := map[string][]delivery{}
	var acceptOps []*rig.Op
	var acceptNames []string
	startAcceptor := func(ls *lst) {
		name, l := ls.name, ls.l
		acceptNames = append(acceptNames, name)
		acceptOps = append(acceptOps, rig.Go("accept:"+name, func() (interface{}, error) {
			for {
				c, err := l.Accept()
				if err != nil {
					return nil, err
				}
				census.Bump()
				rig.Go("read:"+name, func() (interface{}, error) {
					var data []byte
					var rerr error
					if drain == 0 {
						data, rerr = readAllSmall(c, readSizes)
					} else {
						// the way a proxy drains a connection: io.Copy, which prefers the fast-path interfaces
						var sink bytes.Buffer
						if drain == 1 {
							_, rerr = io.Copy(&sink, c)
						} else {
							_, rerr = io.Copy(struct{ io.Writer }{&sink}, c)
						}
						data = sink.Bytes()
					}
					// the wrapped conn promotes LocalAddr of the endpoint underneath
					end := c.LocalAddr().String()
					mu.Lock()
					deliveries[end] = append(deliveries[end], delivery{listener: name, data: data, readErr: rerr})
					mu.Unlock()
					census.Bump()
					return nil, nil
				})
			}
		}))
	}

	var steps []string
	preCancelled := r.Intn(15) == 0
	if preCancelled {
		// the context is already cancelled when Run is entered: the multiplexer stops at once,
		// which must look exactly like stopping later
		cancel()
	}
	runOp := rig.Go("Run", func() (interface{}, error) { return nil, mux.Run(ctx) })
	steps = append(steps, fmt.Sprintf("plen=%d drain=%d fast-path-conns=%v", plen, drain, fast))
	if preCancelled {
		steps = append(steps, "cancel-before-Run")
	}

	routesAdded := 0
	addRoute := func() {
		p := mkPrefix(routesAdded)
		routesAdded++
		ls := &lst{name: "route:" + p, l: mux.Route(p), closedAt: -1, acceptor: r.Intn(5) != 0}
		lists = append(lists, ls)
		liveRoute[p] = ls.name
		steps = append(steps, "Route("+p+")")
		if ls.acceptor {
			startAcceptor(ls)
		}
	}
	if lists[0].acceptor {
		startAcceptor(lists[0])
	}
	early := r.Intn(nroutes + 1)
	for i := 0; i < early; i++ {
		addRoute()
	}

	var clients []*client
	routeEverClosed := map[string]bool{}
	regen := map[string]int{}

	nconn := 2 + r.Intn(8)
	stopped := preCancelled
	var reRouteDead []string
	stallRelease := make(chan struct{})
	defer close(stallRelease)
	settle := func() {
		census.Quiesce(rig.Watchdog)
		if !stopped {
			for _, c := range clients {
				c.settled = true
			}
		}
	}
	for i := 0; i < nconn; i++ {
		if routesAdded < nroutes && r.Intn(3) == 0 {
			addRoute()
		}
		// maybe close a route listener, and maybe register the same prefix again right away
		if len(lists) > 1 && r.Intn(6) == 0 {
			ls := lists[1+r.Intn(len(lists)-1)]
			if !ls.closed {
				ls.closed = true
				p := strings.TrimPrefix(ls.name, "route:")
				if i := strings.IndexByte(p, '#'); i >= 0 {
					p = p[:i]
				}
				routeEverClosed[p] = true
				delete(liveRoute, p)
				for _, c := range clients {
					if c.prefix == p {
						c.expectRoute = "" // its route was closed by the application after it arrived: any allowed outcome
					}
				}
				ls.l.Close()
				steps = append(steps, "Close("+ls.name+")")
				if r.Intn(2) == 0 {
					census.Quiesce(rig.Watchdog)
				}
				if r.Intn(2) == 0 {
					regen[p]++
					nl := &lst{name: fmt.Sprintf("route:%s#%d", p, regen[p]), l: mux.Route(p), closedAt: -1, acceptor: true}
					lists = append(lists, nl)
					steps = append(steps, "Route-again("+p+")")
					startAcceptor(nl)
					census.Quiesce(rig.Watchdog)
					// registering a prefix again after its listener was closed is a legal order of calls: the
					// listener handed back must be a live one, and connections with that prefix arriving from
					// now on belong to it
					if acceptOps[len(acceptOps)-1].Returned() && !stopped {
						reRouteDead = append(reRouteDead, nl.name)
					}
					liveRoute[p] = nl.name
				}
			}
		}
		c := &client{id: i, pair: simnet.New(simnet.Opts{Cap: -1})}
		c.pair.B.Role = fmt.Sprintf("srv%d", i)
		switch r.Intn(5) {
		case 0:
			c.prefix = string(bytes.Repeat([]byte{'z'}, plen)) // never registered
		case 1:
			c.prefix = mkPrefix(r.Intn(4)) // maybe registered, maybe later, maybe never
		default:
			if routesAdded > 0 {
				c.prefix = mkPrefix(r.Intn(routesAdded))
			} else {
				c.prefix = mkPrefix(0)
			}
		}
		c.expectRoute = liveRoute[c.prefix]
		c.payload = payload.Make(uint64(i), 0, 0, 0, r.Intn(300))
		all := append([]byte(c.prefix), c.payload...)
		if r.Intn(7) == 0 {
			c.short = true
			all = all[:r.Intn(plen)]
			// some of these clients do not hang up: they keep the connection open with a partial
			// prefix on it. Once the multiplexer has stopped such a connection can never be
			// delivered any more, so it has to be closed.
			c.stall = r.Intn(2) == 0
		}
		c.sent = all
		clients = append(clients, c)
		steps = append(steps, fmt.Sprintf("conn%d(prefix=%s,short=%v)", i, c.prefix, c.short))
		c.conn = c.pair.B
		if fast {
			c.conn = fastConn{c.pair.B}
		}
		base.ch <- c.conn
		// the client writes in seeded pieces, including splits inside the prefix, then closes
		cuts := []int{}
		for p := 0; p < len(all); {
			p += 1 + r.Intn(1+len(all)/(1+r.Intn(4)))
			cuts = append(cuts, p)
		}
		cl := c
		rig.Go("client", func() (interface{}, error) {
			pos := 0
			for _, cut := range cuts {
				if cut > len(all) {
					cut = len(all)
				}
				if cut > pos {
					cl.pair.A.Write(all[pos:cut])
					pos = cut
				}
			}
			if cl.stall {
				<-stallRelease
			}
			cl.pair.A.Close()
			return nil, nil
		})
		if r.Intn(3) == 0 {
			settle()
		}
		if !stopped && r.Intn(12) == 0 {
			stopped = true
			if r.Intn(2) == 0 {
				cancel()
				steps = append(steps, "cancel")
			} else {
				base.Close()
				steps = append(steps, "base.Close")
			}
		}
	}
	settle()
	// late acceptors for listeners that had none, so pending connections can be observed
	for _, ls := range lists {
		if !ls.acceptor && !ls.closed && r.Intn(2) == 0 {
			ls.acceptor = true
			steps = append(steps, "late-acceptor("+ls.name+")")
			startAcceptor(ls)
		}
	}
	settle()
	if !stopped {
		if r.Intn(2) == 0 {
			cancel()
			steps = append(steps, "cancel")
		} else {
			base.Close()
			steps = append(steps, "base.Close")
		}
	}
	st, snap := census.QuiesceOr(nil, rig.Watchdog)
	if st == "watchdog" {
		return runner.Inconcl(id, "watchdog")
	}
	hist := strings.Join(steps, " ")
	var fails []string
	for _, name := range reRouteDead {
		fails = append(fails, fmt.Sprintf("Route() for a prefix whose previous listener the application had closed handed back %s, whose Accept fails at once although the multiplexer is running (a dead listener: connections with that prefix go elsewhere)", name))
	}
	if !runOp.Returned() {
		fails = append(fails, "Run has not returned at quiescence after the multiplexer was stopped\n"+census.Dump(census.InDRPC(snap)))
	}
	for i, op := range acceptOps {
		if !op.Returned() {
			fails = append(fails, fmt.Sprintf("Accept on %s is still blocked after the multiplexer stopped (must fail)", acceptNames[i]))
		} else if op.Err == nil {
			fails = append(fails, fmt.Sprintf("Accept loop on %s ended without an error", acceptNames[i]))
		}
	}
	mu.Lock()
	defer mu.Unlock()
	registered := map[string]bool{}
	for i := 0; i < routesAdded; i++ {
		registered[mkPrefix(i)] = true
	}
	delivered := 0
	for _, c := range clients {
		ds := deliveries[c.pair.B.Role]
		if !base.wasAccepted(c.conn) {
			if len(ds) > 0 {
				fails = append(fails, fmt.Sprintf("conn%d was never accepted from the base listener but was delivered", c.id))
			}
			continue
		}
		if len(ds) > 1 {
			fails = append(fails, fmt.Sprintf("conn%d delivered %d times (%s and %s)", c.id, len(ds), ds[0].listener, ds[1].listener))
			continue
		}
		if len(ds) == 0 {
			if c.pair.B.CloseCount() == 0 {
				fails = append(fails, fmt.Sprintf("conn%d (prefix %q short=%v keeps-connection-open=%v) was neither delivered to a listener nor closed although the multiplexer has stopped", c.id, c.prefix, c.short, c.stall))
			}
			continue
		}
		delivered++
		d := ds[0]
		if c.short {
			fails = append(fails, fmt.Sprintf("conn%d sent only %d of %d prefix bytes but was delivered to %s", c.id, len(c.sent), plen, d.listener))
			continue
		}
		switch {
		case d.listener == "default":
			if c.expectRoute != "" && c.settled {
				fails = append(fails, fmt.Sprintf("conn%d has prefix %q, for which the live listener %s was registered before the connection arrived (and not closed since), but it was delivered to the default listener", c.id, c.prefix, c.expectRoute))
			} else if registered[c.prefix] && !routeEverClosed[c.prefix] && registeredBefore(steps, c) && c.settled {
				fails = append(fails, fmt.Sprintf("conn%d has registered prefix %q but was delivered to the default listener", c.id, c.prefix))
			}
			if !bytes.Equal(d.data, c.sent) {
				fails = append(fails, fmt.Sprintf("conn%d via default listener yielded %d bytes %q..., want the unmodified stream of %d bytes starting with the prefix %q", c.id, len(d.data), clip(d.data), len(c.sent), c.prefix))
			}
		case d.listener == "route:"+c.prefix || strings.HasPrefix(d.listener, "route:"+c.prefix+"#"):
			if !bytes.Equal(d.data, c.payload) {
				fails = append(fails, fmt.Sprintf("conn%d via %s yielded %d bytes, want the %d payload bytes with the prefix consumed", c.id, d.listener, len(d.data), len(c.payload)))
			}
		default:
			fails = append(fails, fmt.Sprintf("conn%d with prefix %q was delivered to %s", c.id, c.prefix, d.listener))
		}
	}
	if len(fails) > 0 {
		return runner.Violation(id, "mux:"+keyOf(fails[0]), hist+"\n"+strings.Join(fails, "\n"))
	}
	res := runner.Hold(id, hist, delivered > 0)
	res.Events = int64(len(clients))
	res.Stats = map[string]int64{"conns": int64(len(clients)), "delivered": int64(delivered)}
	res.Sample = map[string]interface{}{"steps": steps, "delivered": delivered}
	return res
}

// manyShort: a long history on one multiplexer: hundreds to thousands of connections that hang up
// before their prefix is complete (port scans, health checks), one after the other, with a complete
// connection now and then. Every short connection must be closed, every complete one delivered to
// its route with its payload, however many came before.
func manyShort(id string, seed uint64, n int) runner.Result {
	r := &payload.SplitMix{S: seed}
	plen := []int{1, 4, 8}[r.Intn(3)]
	base := newBase()
	mux := drpcmigrate.NewListenMux(base, plen)
	ctx, cancel := context.WithCancel(context.Background())
	defer cancel()
	prefix := string(bytes.Repeat([]byte{'A'}, plen))
	route := mux.Route(prefix)
	runOp := rig.Go("Run", func() (interface{}, error) { return nil, mux.Run(ctx) })
	var mu sync.Mutex
	got := map[string][]byte{}
	accept := func(name string, l net.Listener) *rig.Op {
		return rig.Go("accept:"+name, func() (interface{}, error) {
			for {
				c, err := l.Accept()
				if err != nil {
					return nil, err
				}
				data, _ := readAllSmall(c, []int{512})
				mu.Lock()
				got[name+"/"+c.LocalAddr().String()] = data
				mu.Unlock()
				census.Bump()
			}
		})
	}
	acc := []*rig.Op{accept("route", route), accept("default", mux.Default())}
	desc := fmt.Sprintf("plen=%d: %d connections one after the other, most of them hang up with fewer than %d bytes sent, every %dth is complete", plen, n, plen, 97)
	var fails []string
	complete := 0
	for i := 0; i < n && len(fails) == 0; i++ {
		pair := simnet.New(simnet.Opts{Cap: -1})
		pair.B.Role = fmt.Sprintf("srv%d", i)
		full := i%97 == 96 || i == n-1
		var pl []byte
		if full {
			pl = payload.Make(uint64(i), 0, 0, 0, r.Intn(40))
			pair.A.Write(append([]byte(prefix), pl...))
		} else if k := r.Intn(plen); k > 0 {
			pair.A.Write([]byte(prefix)[:k])
		}
		pair.A.Close()
		base.ch <- pair.B
		// in batches: the multiplexer comes to rest, then everything handed over so far is judged
		if !full && i%50 != 49 {
			continue
		}
		if ok, snap := census.Quiesce(rig.Watchdog); !ok {
			return runner.Inconcl(id, "watchdog")
		} else if full {
			complete++
			mu.Lock()
			data, ok := got["route/"+pair.B.Role]
			mu.Unlock()
			switch {
			case !ok:
				fails = append(fails, fmt.Sprintf("connection #%d sent the registered prefix and its payload after %d earlier connections, and was not delivered to the route's listener at quiescence (closed by the multiplexer: %v)\n%s", i+1, i, pair.B.CloseCount() > 0, census.Dump(census.InDRPC(snap))))
			case !bytes.Equal(data, pl):
				fails = append(fails, fmt.Sprintf("connection #%d: the route's listener read %d bytes, want the %d payload bytes", i+1, len(data), len(pl)))
			}
		} else if pair.B.CloseCount() == 0 {
			fails = append(fails, fmt.Sprintf("connection #%d hung up before its prefix was complete and the running multiplexer has neither delivered nor closed it at quiescence\n%s", i+1, census.Dump(census.InDRPC(snap))))
		}
	}
	cancel()
	census.Quiesce(rig.Watchdog)
	if len(fails) == 0 {
		if !runOp.Returned() {
			fails = append(fails, "Run has not returned after the multiplexer was stopped")
		}
		for _, op := range acc {
			if !op.Returned() {
				fails = append(fails, "an Accept is still blocked after the multiplexer was stopped")
			}
		}
	}
	if len(fails) > 0 {
		return runner.Violation(id, "mux:long-history:"+keyOf(fails[0]), desc+"\n"+strings.Join(fails, "\n"))
	}
	res := runner.Hold(id, desc, true)
	res.Events = int64(n)
	res.Stats = map[string]int64{"conns": int64(n), "delivered": int64(complete)}
	return res
}

// closedRoute: the application closes a routed listener while the multiplexer keeps running. From then
// on no route is registered for that prefix: connections that start with it belong to the default
// listener, prefix included, until the prefix is registered again; the other routes are not affected.
func closedRoute(id string, seed uint64) runner.Result {
	r := &payload.SplitMix{S: seed}
	plen := []int{1, 4, 8}[r.Intn(3)]
	nroutes := 1 + r.Intn(3)
	victim := r.Intn(nroutes)
	again := r.Intn(2) == 0
	base := newBase()
	mux := drpcmigrate.NewListenMux(base, plen)
	ctx, cancel := context.WithCancel(context.Background())
	defer cancel()
	mkPrefix := func(i int) string { return string(bytes.Repeat([]byte{byte('A' + i)}, plen)) }
	var mu sync.Mutex
	got := map[string][]byte{}
	accept := func(name string, l net.Listener) *rig.Op {
		return rig.Go("accept:"+name, func() (interface{}, error) {
			for {
				c, err := l.Accept()
				if err != nil {
					return nil, err
				}
				data, _ := readAllSmall(c, []int{512})
				mu.Lock()
				got[c.LocalAddr().String()+" via "+name] = data
				mu.Unlock()
				census.Bump()
			}
		})
	}
	var routes []net.Listener
	for i := 0; i < nroutes; i++ {
		routes = append(routes, mux.Route(mkPrefix(i)))
		accept("route:"+mkPrefix(i), routes[i])
	}
	accept("default", mux.Default())
	runOp := rig.Go("Run", func() (interface{}, error) { return nil, mux.Run(ctx) })
	steps := []string{fmt.Sprintf("plen=%d routes=%d", plen, nroutes)}
	var fails []string
	nconn := 0
	send := func(prefix, want string, wantPrefix bool) {
		pair := simnet.New(simnet.Opts{Cap: -1})
		pair.B.Role = fmt.Sprintf("srv%d", nconn)
		nconn++
		pl := payload.Make(uint64(nconn), 0, 0, 0, r.Intn(60))
		pair.A.Write(append([]byte(prefix), pl...))
		pair.A.Close()
		base.ch <- pair.B
		steps = append(steps, fmt.Sprintf("conn(%s)", prefix))
		if ok, _ := census.Quiesce(rig.Watchdog); !ok {
			fails = append(fails, "watchdog")
			return
		}
		exp := pl
		if wantPrefix {
			exp = append([]byte(prefix), pl...)
		}
		mu.Lock()
		data, ok := got[pair.B.Role+" via "+want]
		var elsewhere []string
		for k := range got {
			if strings.HasPrefix(k, pair.B.Role+" via ") && k != pair.B.Role+" via "+want {
				elsewhere = append(elsewhere, k)
			}
		}
		mu.Unlock()
		switch {
		case len(elsewhere) > 0:
			fails = append(fails, fmt.Sprintf("the connection with prefix %q belongs to %s and was delivered as %v", prefix, want, elsewhere))
		case !ok:
			fails = append(fails, fmt.Sprintf("the connection with prefix %q belongs to %s and was not delivered to it at quiescence while the multiplexer runs (closed by the multiplexer: %v)", prefix, want, pair.B.CloseCount() > 0))
		case !bytes.Equal(data, exp):
			fails = append(fails, fmt.Sprintf("the connection with prefix %q: %s read %d bytes %q, want %d bytes (prefix included: %v)", prefix, want, len(data), clip(data), len(exp), wantPrefix))
		}
	}
	vp := mkPrefix(victim)
	if r.Intn(2) == 0 {
		send(vp, "route:"+vp, false)
	}
	routes[victim].Close()
	steps = append(steps, "Close(route:"+vp+")")
	census.Quiesce(rig.Watchdog)
	for k := 0; k < 1+r.Intn(3) && len(fails) == 0; k++ {
		send(vp, "default", true)
		if nroutes > 1 && len(fails) == 0 {
			o := mkPrefix((victim + 1) % nroutes)
			send(o, "route:"+o, false)
		}
	}
	if again && len(fails) == 0 {
		accept("route:"+vp+"#2", mux.Route(vp))
		steps = append(steps, "Route-again("+vp+")")
		census.Quiesce(rig.Watchdog)
		send(vp, "route:"+vp+"#2", false)
		send(string(bytes.Repeat([]byte{'z'}, plen)), "default", true)
	}
	cancel()
	census.Quiesce(rig.Watchdog)
	if len(fails) == 1 && fails[0] == "watchdog" {
		return runner.Inconcl(id, "watchdog")
	}
	if len(fails) == 0 && !runOp.Returned() {
		fails = append(fails, "Run has not returned after the multiplexer was stopped")
	}
	hist := strings.Join(steps, " ")
	if len(fails) > 0 {
		return runner.Violation(id, "mux:closed-route:"+keyOf(fails[0]), hist+"\n"+strings.Join(fails, "\n"))
	}
	res := runner.Hold(id, hist, true)
	res.Events = int64(nconn)
	res.Stats = map[string]int64{"conns": int64(nconn), "delivered": int64(nconn)}
	return res
}

// firstMessageOfPrefixLength: a client of the default listener whose first message is exactly as long as
// the prefix (or one byte longer, or shorter and then completed) and who then waits for an answer
// without sending more. The server reads with a large buffer: it must get those bytes while the
// client waits, not once the client sends more or hangs up.
func firstMessageOfPrefixLength(id string, seed uint64) runner.Result {
	r := &payload.SplitMix{S: seed}
	plen := []int{1, 4, 8}[r.Intn(3)]
	extra := r.Intn(3) // bytes beyond the prefix in the first message
	base := newBase()
	mux := drpcmigrate.NewListenMux(base, plen)
	ctx, cancel := context.WithCancel(context.Background())
	defer cancel()
	rig.Go("Run", func() (interface{}, error) { return nil, mux.Run(ctx) })
	mux.Route(string(bytes.Repeat([]byte{'R'}, plen))) // some other route exists
	first := bytes.Repeat([]byte{'h'}, plen+extra)
	pair := simnet.New(simnet.Opts{Cap: -1})
	var mu sync.Mutex
	var got []byte
	reader := rig.Go("server", func() (interface{}, error) {
		c, err := mux.Default().Accept()
		if err != nil {
			return nil, err
		}
		buf := make([]byte, 4096)
		for {
			n, err := c.Read(buf)
			mu.Lock()
			got = append(got, buf[:n]...)
			mu.Unlock()
			census.Bump()
			if err != nil {
				return nil, nil
			}
		}
	})
	base.ch <- pair.B
	split := r.Intn(plen + 1)
	pair.A.Write(first[:split])
	if r.Intn(2) == 0 {
		census.Quiesce(rig.Watchdog)
	}
	pair.A.Write(first[split:])
	census.Quiesce(rig.Watchdog)
	mu.Lock()
	seen := append([]byte(nil), got...)
	mu.Unlock()
	desc := fmt.Sprintf("plen=%d: the client of the default listener sends %d bytes (split at %d) and waits for an answer; the server reads with a 4096-byte buffer", plen, len(first), split)
	var fails []string
	if !bytes.Equal(seen, first) {
		fails = append(fails, fmt.Sprintf("while the client waits the server has read %d of the %d bytes it sent (%q)", len(seen), len(first), clip(seen)))
	}
	pair.A.Write([]byte("more"))
	pair.A.Close()
	census.Quiesce(rig.Watchdog)
	mu.Lock()
	if len(fails) == 0 && !bytes.Equal(got, append(append([]byte(nil), first...), "more"...)) {
		fails = append(fails, fmt.Sprintf("in the end the server read %q, want the client's stream unmodified", clip(got)))
	}
	mu.Unlock()
	cancel()
	census.Quiesce(rig.Watchdog)
	_ = reader
	if len(fails) > 0 {
		return runner.Violation(id, "mux:default-connection-withholds-bytes-the-client-sent", desc+"\n"+strings.Join(fails, "\n"))
	}
	res := runner.Hold(id, desc, true)
	res.Events = 3
	return res
}

// stackedMuxes: one multiplexer runs on the default listener of another (prefix lengths n1 and n2 in
// every order of size). Connections that match a route of the outer, a route of the inner, or nothing
// are delivered by the right listener; what the inner default listener hands out is the client's byte
// stream from its first byte.
func stackedMuxes(id string, seed uint64) runner.Result {
	r := &payload.SplitMix{S: seed}
	n1, n2 := []int{1, 4, 8}[r.Intn(3)], []int{1, 4, 8}[r.Intn(3)]
	base := newBase()
	outer := drpcmigrate.NewListenMux(base, n1)
	ctx, cancel := context.WithCancel(context.Background())
	defer cancel()
	outerRoute := outer.Route(string(bytes.Repeat([]byte{'O'}, n1)))
	inner := drpcmigrate.NewListenMux(outer.Default(), n2)
	innerRoute := inner.Route(string(bytes.Repeat([]byte{'I'}, n2)))
	rig.Go("outer.Run", func() (interface{}, error) { return nil, outer.Run(ctx) })
	rig.Go("inner.Run", func() (interface{}, error) { return nil, inner.Run(ctx) })
	var mu sync.Mutex
	got := map[string][]byte{}
	readSize := []int{512, 3, 1}[r.Intn(3)]
	accept := func(name string, l net.Listener) {
		rig.Go("accept:"+name, func() (interface{}, error) {
			for {
				c, err := l.Accept()
				if err != nil {
					return nil, err
				}
				rig.Go("read:"+name, func() (interface{}, error) {
					data, _ := readAllSmall(c, []int{readSize})
					mu.Lock()
					got[name+"/"+c.LocalAddr().String()] = data
					mu.Unlock()
					census.Bump()
					return nil, nil
				})
			}
		})
	}
	accept("outer-route", outerRoute)
	accept("inner-route", innerRoute)
	accept("inner-default", inner.Default())
	type conn struct {
		role, want string
		sent, exp  []byte
	}
	var conns []conn
	for i := 0; i < 3+r.Intn(4); i++ {
		pl := payload.Make(uint64(i), 0, 0, 0, 5+r.Intn(40))
		role := fmt.Sprintf("srv%d", i)
		switch r.Intn(3) {
		case 0:
			pre := bytes.Repeat([]byte{'O'}, n1)
			conns = append(conns, conn{role, "outer-route", append(pre, pl...), pl})
		case 1:
			pre := bytes.Repeat([]byte{'I'}, n2)
			if n1 <= n2 && n1 > 0 && pre[0] == 'O' {
				continue
			}
			conns = append(conns, conn{role, "inner-route", append(pre, pl...), pl})
		default:
			all := append(bytes.Repeat([]byte{'x'}, n1), append(bytes.Repeat([]byte{'y'}, n2), pl...)...)
			conns = append(conns, conn{role, "inner-default", all, all})
		}
	}
	for _, c := range conns {
		pair := simnet.New(simnet.Opts{Cap: -1})
		pair.B.Role = c.role
		base.ch <- pair.B
		cut := r.Intn(len(c.sent) + 1)
		pair.A.Write(c.sent[:cut])
		if r.Intn(2) == 0 {
			census.Quiesce(rig.Watchdog)
		}
		pair.A.Write(c.sent[cut:])
		pair.A.Close()
	}
	census.Quiesce(rig.Watchdog)
	desc := fmt.Sprintf("an inner multiplexer (prefix %d) on the default listener of an outer one (prefix %d), %d connections", n2, n1, len(conns))
	var fails []string
	mu.Lock()
	for _, c := range conns {
		data, ok := got[c.want+"/"+c.role]
		switch {
		case !ok:
			fails = append(fails, fmt.Sprintf("the connection that sent %q... was not delivered by %s", clip(c.sent), c.want))
		case !bytes.Equal(data, c.exp):
			fails = append(fails, fmt.Sprintf("%s handed out %d bytes %q..., want %d bytes %q... (the client sent %q...)", c.want, len(data), clip(data), len(c.exp), clip(c.exp), clip(c.sent)))
		}
	}
	mu.Unlock()
	cancel()
	census.Quiesce(rig.Watchdog)
	if len(fails) > 0 {
		return runner.Violation(id, "mux:stacked:"+keyOf(fails[0]), desc+"\n"+strings.Join(fails, "\n"))
	}
	res := runner.Hold(id, desc, len(conns) > 0)
	res.Events = int64(len(conns))
	return res
}

// registeredBefore reports whether the route for the client's prefix was
// registered before the client connection was handed to the base listener.
func registeredBefore(steps []string, c *client) bool {
	for _, s := range steps {
		if s == "Route("+c.prefix+")" {
			return true
		}
		if strings.HasPrefix(s, fmt.Sprintf("conn%d(", c.id)) {
			return false
		}
	}
	return false
}

func keyOf(s string) string {
	s = strings.Map(func(r rune) rune {
		if r >= '0' && r <= '9' {
			return -1
		}
		return r
	}, s)
	f := strings.Fields(s)
	if len(f) > 7 {
		f = f[:7]
	}
	return strings.Join(f, "-")
}

func clip(b []byte) []byte {
	if len(b) > 16 {
		return b[:16]
	}
	return b
}

// ---- HeaderConn ----

type recConn struct {
	net.Conn
	mu      sync.Mutex
	writes  [][]byte
	gate    chan struct{} // first write parks here when non-nil
	reached chan struct{}
	n       int
}

func (c *recConn) Write(p []byte) (int, error) {
	c.mu.Lock()
	idx := c.n
	c.n++
	gate := c.gate
	c.mu.Unlock()
	census.Bump()
	if idx == 0 && gate != nil {
		// a write blocked in the transport has not put its bytes on the wire yet
		close(c.reached)
		<-gate
		census.Bump()
	}
	c.mu.Lock()
	c.writes = append(c.writes, append([]byte(nil), p...))
	c.mu.Unlock()
	return len(p), nil
}
func (c *recConn) Close() error                       { return nil }
func (c *recConn) LocalAddr() net.Addr                { return addr{} }
func (c *recConn) RemoteAddr() net.Addr               { return addr{} }
func (c *recConn) SetDeadline(t time.Time) error      { return nil }
func (c *recConn) SetReadDeadline(t time.Time) error  { return nil }
func (c *recConn) SetWriteDeadline(t time.Time) error { return nil }
func (c *recConn) Read(p []byte) (int, error)         { return 0, io.EOF }

// timeoutErr is what an expired write deadline reports.
type timeoutErr struct{}

func (timeoutErr) Error() string   { return "i/o timeout" }
func (timeoutErr) Timeout() bool   { return true }
func (timeoutErr) Temporary() bool { return true }

// cutConn accepts only the first `accept` bytes of its first write and reports a timeout for the rest;
// later writes go through.
type cutConn struct {
	recConn
	accept int
}

func (c *cutConn) Write(p []byte) (int, error) {
	c.mu.Lock()
	first := c.n == 0
	c.n++
	if first && c.accept < len(p) {
		c.writes = append(c.writes, append([]byte(nil), p[:c.accept]...))
		c.mu.Unlock()
		return c.accept, timeoutErr{}
	}
	c.writes = append(c.writes, append([]byte(nil), p...))
	c.mu.Unlock()
	return len(p), nil
}

// headerAfterCutWrite: the first write is cut short by a write deadline after the whole header and k
// payload bytes went out; the application extends the deadline and carries on with the rest of its
// buffer, as one does with any short write. The peer must see the header once, then the payload.
func headerAfterCutWrite(id string, seed uint64) runner.Result {
	r := &payload.SplitMix{S: seed}
	header := []string{"DRPC!!!1", "H", "0123456789abcdef"}[r.Intn(3)]
	data := payload.Make(1, 0, 0, 0, 10+r.Intn(60))
	k := r.Intn(len(data))
	under := &cutConn{accept: len(header) + k}
	hc := drpcmigrate.NewHeaderConn(under, header)
	desc := fmt.Sprintf("header=%q first write of %d bytes cut after the header and %d payload bytes (timeout), then the rest", header, len(data), k)
	n, err := hc.Write(data)
	var fails []string
	if err == nil || n != k {
		fails = append(fails, fmt.Sprintf("the cut first Write returned (%d, %v), want (%d, timeout): counts must exclude the header", n, err, k))
	}
	rest := data[n:]
	for len(rest) > 0 {
		m, err := hc.Write(rest)
		if err != nil {
			fails = append(fails, "a later Write failed: "+err.Error())
			break
		}
		rest = rest[m:]
	}
	more := payload.Make(1, 0, 0, 1, r.Intn(30))
	hc.Write(more)
	under.mu.Lock()
	var wire []byte
	for _, w := range under.writes {
		wire = append(wire, w...)
	}
	under.mu.Unlock()
	want := append(append([]byte(header), data...), more...)
	if len(fails) == 0 && !bytes.Equal(wire, want) {
		fails = append(fails, fmt.Sprintf("the peer received %d bytes %q..., want the header once and then the payload (%d bytes); the header occurs %d times", len(wire), clip(wire), len(want), bytes.Count(wire, []byte(header))))
	}
	if len(fails) > 0 {
		return runner.Violation(id, "header:not-exactly-once-after-a-cut-first-write", desc+"\n"+strings.Join(fails, "\n"))
	}
	res := runner.Hold(id, desc, true)
	res.Events = 3
	return res
}

// rfConn is an underlying connection with the io.ReaderFrom fast path (*net.TCPConn has one): what
// it is handed that way goes to the wire exactly like written bytes.
type rfConn struct{ recConn }

func (c *rfConn) ReadFrom(r io.Reader) (n int64, err error) {
	buf := make([]byte, 13)
	for {
		m, rerr := r.Read(buf)
		if m > 0 {
			c.Write(buf[:m])
			n += int64(m)
		}
		if rerr == io.EOF {
			return n, nil
		}
		if rerr != nil {
			return n, rerr
		}
	}
}

// headerWithCopy: the application does not call Write itself but hands the connection to io.Copy
// (a proxy does), which uses whatever fast-path interfaces source and destination offer. The peer
// must see the header once and first all the same.
func headerWithCopy(id string, seed uint64) runner.Result {
	r := &payload.SplitMix{S: seed}
	header := []string{"DRPC!!!1", "H", "0123456789abcdef"}[r.Intn(3)]
	var under net.Conn
	var rec *recConn
	fast := r.Intn(3) != 0
	if fast {
		c := &rfConn{}
		under, rec = c, &c.recConn
	} else {
		c := &recConn{}
		under, rec = c, c
	}
	hc := drpcmigrate.NewHeaderConn(under, header)
	steps := 1 + r.Intn(3)
	var want []byte
	want = append(want, header...)
	var fails, hist []string
	for i := 0; i < steps; i++ {
		data := payload.Make(1, 0, 0, uint32(i), r.Intn(70))
		if i == 0 && r.Intn(4) == 0 {
			data = nil
		}
		var n int64
		var err error
		switch r.Intn(3) {
		case 0:
			hist = append(hist, fmt.Sprintf("Write(%d)", len(data)))
			var m int
			m, err = hc.Write(data)
			n = int64(m)
		case 1:
			// a source with its own WriteTo (bytes.Reader): io.Copy lets the source write
			hist = append(hist, fmt.Sprintf("io.Copy(conn, bytes.Reader of %d)", len(data)))
			n, err = io.Copy(hc, bytes.NewReader(data))
		default:
			// a plain source (a socket, a pipe): io.Copy asks the destination for ReadFrom
			hist = append(hist, fmt.Sprintf("io.Copy(conn, plain reader of %d)", len(data)))
			n, err = io.Copy(hc, struct{ io.Reader }{bytes.NewReader(data)})
		}
		if err != nil || n != int64(len(data)) {
			fails = append(fails, fmt.Sprintf("step %d %s returned (%d, %v), want (%d, nil): counts must exclude the header", i, hist[i], n, err, len(data)))
		}
		want = append(want, data...)
	}
	desc := fmt.Sprintf("header=%q underlying-conn-has-ReadFrom=%v steps=%v", header, fast, hist)
	rec.mu.Lock()
	var wire []byte
	for _, w := range rec.writes {
		wire = append(wire, w...)
	}
	rec.mu.Unlock()
	// without a single payload byte the header may still be unsent (a copy of nothing writes nothing)
	if !bytes.Equal(wire, want) && !(len(want) == len(header) && len(wire) == 0) {
		fails = append(fails, fmt.Sprintf("the peer received %d bytes %q..., want the header once and then the payload (%d bytes); the header occurs %d times", len(wire), clip(wire), len(want), bytes.Count(wire, []byte(header))))
	}
	if len(fails) > 0 {
		return runner.Violation(id, "header:not-exactly-once-first-with-io.Copy", desc+"\n"+strings.Join(fails, "\n"))
	}
	res := runner.Hold(id, desc, true)
	res.Events = int64(steps)
	return res
}

func headerScenario(id string, seed uint64) runner.Result {
	r := &payload.SplitMix{S: seed}
	header := []string{"DRPC!!!1", "H", "", "0123456789abcdef"}[r.Intn(4)]
	under := &recConn{}
	parkFirst := r.Intn(2) == 0
	if parkFirst {
		under.gate = make(chan struct{})
		under.reached = make(chan struct{})
	}
	hc := drpcmigrate.NewHeaderConn(under, header)
	nw := 1 + r.Intn(3)
	type wrec struct {
		data []byte
		n    int
		err  error
	}
	var ops []*rig.Op
	var recs []*wrec
	desc := fmt.Sprintf("header=%q writers=%d parkFirstWrite=%v", header, nw, parkFirst)
	for w := 0; w < nw; w++ {
		w := w
		k := 1 + r.Intn(3)
		var datas [][]byte
		for i := 0; i < k; i++ {
			n := r.Intn(40)
			if i == 0 && r.Intn(3) == 0 {
				n = 0 // empty first write
			}
			datas = append(datas, payload.Make(uint64(w), 0, uint16(w), uint32(i), n)[:payload.HeaderLen*b2i(n > 0)+n])
		}
		ops = append(ops, rig.Go("writer", func() (interface{}, error) {
			for _, d := range datas {
				n, err := hc.Write(d)
				rc := &wrec{data: d, n: n, err: err}
				under.mu.Lock()
				recs = append(recs, rc)
				under.mu.Unlock()
			}
			return nil, nil
		}))
		if parkFirst && w == 0 {
			if st, _ := census.QuiesceOr(under.reached, rig.Watchdog); st != "ready" {
				return runner.Inconcl(id, "first write did not reach the underlying conn")
			}
		}
	}
	if parkFirst {
		census.Quiesce(rig.Watchdog)
		close(under.gate)
	}
	for _, op := range ops {
		if !op.Wait() {
			return runner.Violation(id, "header:writer-blocked", desc+": a Write never returned")
		}
	}
	under.mu.Lock()
	defer under.mu.Unlock()
	var wire []byte
	for _, w := range under.writes {
		wire = append(wire, w...)
	}
	var fails []string
	if !bytes.HasPrefix(wire, []byte(header)) {
		fails = append(fails, fmt.Sprintf("the underlying connection received %q... first; the header %q must come before any payload byte", clip(wire), header))
	}
	total := 0
	for _, rc := range recs {
		total += len(rc.data)
		if rc.err != nil || rc.n != len(rc.data) {
			fails = append(fails, fmt.Sprintf("Write of %d bytes returned (%d, %v): counts must exclude the header", len(rc.data), rc.n, rc.err))
		}
	}
	if len(wire) != len(header)+total {
		fails = append(fails, fmt.Sprintf("underlying connection received %d bytes, want header(%d) + payload(%d): header written %d times?", len(wire), len(header), total, bytes.Count(wire, []byte(header))))
	} else {
		rest := wire[len(header):]
		// every write's bytes appear contiguously; remove them one by one
		for _, rc := range recs {
			if len(rc.data) == 0 {
				continue
			}
			i := bytes.Index(rest, rc.data)
			if i < 0 {
				fails = append(fails, "a write's bytes do not appear contiguously after the header")
				break
			}
			rest = append(append([]byte(nil), rest[:i]...), rest[i+len(rc.data):]...)
		}
		if len(fails) == 0 && len(rest) != 0 {
			fails = append(fails, "extra bytes on the underlying connection")
		}
	}
	if len(fails) > 0 {
		return runner.Violation(id, "header:"+keyOf(fails[0]), desc+"\n"+strings.Join(fails, "\n"))
	}
	res := runner.Hold(id, desc+fmt.Sprint(len(recs)), true)
	res.Events = int64(len(recs))
	res.Sample = map[string]interface{}{"case": desc, "writes": len(recs)}
	return res
}

func b2i(b bool) int {
	if b {
		return 1
	}
	return 0
}

func gen(tier string, seed uint64) []runner.Scenario {
	var out []runner.Scenario
	n := 2500
	if tier == "thorough" {
		n = 60000
	}
	longs := []int{1500}
	if tier == "thorough" {
		longs = []int{300, 1100, 2100, 4200, 9000, 20000, 70000}
	}
	for i, k := range longs {
		i, k := i, k
		id := fmt.Sprintf("mux-long-history/%d", k)
		out = append(out, runner.Scenario{ID: id, Run: func() runner.Result { return manyShort(id, payload.Hash(seed, 0x164, uint64(i)), k) }})
	}
	for i := 0; i < n; i++ {
		i := i
		id := fmt.Sprintf("mux/%d", i)
		out = append(out, runner.Scenario{ID: id, Run: func() runner.Result { return muxScenario(id, payload.Hash(seed, 0x16, uint64(i))) }})
		id2 := fmt.Sprintf("header/%d", i)
		out = append(out, runner.Scenario{ID: id2, Run: func() runner.Result { return headerScenario(id2, payload.Hash(seed, 0x161, uint64(i))) }})
		if i%15 == 0 {
			id6 := fmt.Sprintf("stacked-muxes/%d", i)
			out = append(out, runner.Scenario{ID: id6, Run: func() runner.Result { return stackedMuxes(id6, payload.Hash(seed, 0x166, uint64(i))) }})
		}
		if i%20 == 0 {
			id5 := fmt.Sprintf("first-message-of-prefix-length/%d", i)
			out = append(out, runner.Scenario{ID: id5, Run: func() runner.Result { return firstMessageOfPrefixLength(id5, payload.Hash(seed, 0x165, uint64(i))) }})
		}
		if i%12 == 0 {
			id7 := fmt.Sprintf("closed-route/%d", i)
			out = append(out, runner.Scenario{ID: id7, Run: func() runner.Result { return closedRoute(id7, payload.Hash(seed, 0x167, uint64(i))) }})
		}
		if i%10 == 0 {
			id4 := fmt.Sprintf("header-with-io-copy/%d", i)
			out = append(out, runner.Scenario{ID: id4, Run: func() runner.Result { return headerWithCopy(id4, payload.Hash(seed, 0x163, uint64(i))) }})
		}
		if i%20 == 0 {
			id3 := fmt.Sprintf("header-after-cut-write/%d", i)
			out = append(out, runner.Scenario{ID: id3, Run: func() runner.Result { return headerAfterCutWrite(id3, payload.Hash(seed, 0x162, uint64(i))) }})
		}
	}
	return out
}

func main() {
	runner.Main(runner.Check{
		Property: "C16",
		Level:    "exploration",
		Rule:     "mux case: prefix length in {1,4,8}, 0-3 routes registered before or between connections, 2-9 client connections whose bytes (prefix+tagged payload, or fewer bytes than the prefix) are written in seeded splits incl. inside the prefix and then closed, listeners with and without an acceptor (also started late), route listeners closed at seeded moments, the multiplexer stopped by context cancel or base Close at a seeded moment; ledger: delivered exactly once to the right listener with the right bytes, or closed; every Accept returned an error and Run returned at quiescence. mux-long-history: 1500 (thorough: up to 70000) connections one after the other on one multiplexer, most hanging up inside the prefix, every 97th complete: each short one closed, each complete one delivered with its payload. header case: 1-3 concurrent writers x 1-3 writes (empty first writes), 4 header strings, the first underlying write optionally parked; header-with-io-copy: 1-3 steps each a Write or an io.Copy into the header connection from a source with or without WriteTo, over an underlying connection with or without ReadFrom. Non-trivial: at least one connection delivered / any header case. Distinct: by step history. (closed-route) the application closes a routed listener while the multiplexer runs: connections with that prefix then belong to the default listener with the prefix included, until the prefix is registered again; other routes are not affected.",
		Assumptions: []string{
			"clients always finish writing and close (a peer that never sends its prefix keeps a routing goroutine waiting by design)",
			"a connection whose route was closed by the application at some point may be delivered to that route, to the default listener (with its prefix) or closed; a connection whose route was registered only after it arrived may go to either",
			"connections queued in the fake base listener but never returned by its Accept are not 'accepted by the base listener'",
		},
		Gen:           gen,
		Shards:        14,
		MinNontrivial: 100,
	})
}
