// C05: a transport failure at any point is contained.
// Fault enumeration: each deterministic workload is first run fault-free to
// learn its byte streams and frame edges; it is then re-run once per (byte
// offset, fault kind, endpoint, read chunking) with a fail-stop fault injected
// by the simnet transport. Oracle at quiescence (blocked-goroutine census):
// every call returned, later calls fail, both sides report closed, Close
// returns and leaves no library goroutine, everything delivered before the
// fault is an intact, correctly attributed prefix, and the process is alive.
package main

import (
	"context"
	"fmt"
	"io"
	"sort"
	"strings"

	"storj.io/drpc"
	"storj.io/drpc/drpcconn"
	"storj.io/drpc/drpcmanager"
	"storj.io/drpc/drpcmigrate"
	"storj.io/drpc/drpcserver"
	"storj.io/drpc/drpcstream"

	"verifharness/census"
	"verifharness/director"
	"verifharness/payload"
	"verifharness/prog"
	"verifharness/refwire"
	"verifharness/rig"
	"verifharness/runner"
	"verifharness/simnet"
	"verifharness/wiregen"
	"verifharness/wl"
)

type cell struct {
	w      int
	server bool // faulted endpoint
	kind   simnet.FaultKind
	offset int64
	chunk  int // 0 all, 1 one byte, 2 seeded random
}

func (c cell) String() string {
	end := "client"
	if c.server {
		end = "server"
	}
	return fmt.Sprintf("%s endpoint=%s fault=%s offset=%d chunk=%d", wl.Workloads[c.w].Name, end, c.kind, c.offset, c.chunk)
}

func mkConfig(w wl.Workload, chunk int, seed uint64) prog.Config {
	m := drpcmanager.Options{WriterBufferSize: w.Wbuf, Stream: drpcstream.Options{SplitSize: 1024, ManualFlush: wl.Manual(w.Name)}}
	mk := func(i uint64) simnet.Chunker {
		switch chunk {
		case 1:
			return simnet.ChunkK{K: 1}
		case 2:
			return &simnet.ChunkRand{K: 200, State: seed + i}
		}
		return simnet.ChunkAll{}
	}
	return prog.Config{Net: simnet.Opts{Cap: w.Capn, ChunkA: mk(1), ChunkB: mk(2)}, Client: m, Server: m, Desc: w.Name}
}

// dryRun returns the outgoing byte counts and frame edges of both endpoints.
func dryRun(w wl.Workload) (la, lb int64, ea, eb []int64, ok bool) {
	x := prog.New(mkConfig(w, 0, 1), w.Scripts())
	defer x.Rig.Teardown()
	x.Start([][]*prog.Script{scripts2(w, x)})
	if x.WaitClients() != "ready" {
		return 0, 0, nil, nil, false
	}
	census.Quiesce(rig.Watchdog)
	edges := func(e *simnet.End) (int64, []int64) {
		b := e.Handed()
		var es []int64
		pos := 0
		for pos < len(b) {
			_, n, st := refwire.Decode(b[pos:])
			if st != refwire.OK {
				break
			}
			pos += n
			es = append(es, int64(pos))
		}
		return int64(len(b)), es
	}
	la, ea = edges(x.Rig.Pair.A)
	lb, eb = edges(x.Rig.Pair.B)
	return la, lb, ea, eb, true
}

// scripts2 returns the script objects registered in x (same tags as w.Scripts()).
func scripts2(w wl.Workload, x *prog.Exec) []*prog.Script {
	var out []*prog.Script
	for _, l := range x.Logs() {
		out = append(out, l.Script)
	}
	return out
}

func runCell(id string, c cell) runner.Result {
	base := census.IDs(census.Snapshot())
	w := wl.Workloads[c.w]
	cfg := mkConfig(w, c.chunk, uint64(c.offset)+7)
	x := prog.New(cfg, w.Scripts())
	end := x.Rig.Pair.A
	if c.server {
		end = x.Rig.Pair.B
	}
	// every other injected read/write error describes itself as a timeout (Temporary() == true):
	// it is a failure of the transport all the same
	end.SetFault(simnet.Fault{Kind: c.kind, Offset: c.offset, Temporary: c.offset%2 == 1})
	// every third case the client transport's own Close is a slow one: it tears everything down
	// but returns late. While it is in progress the connection has to report itself closed already.
	slowClose := c.offset%3 == 0
	if slowClose {
		x.Rig.Pair.A.HoldClose()
	}
	x.Start([][]*prog.Script{scripts2(w, x)})
	var fails []string
	failf := func(f string, a ...interface{}) { fails = append(fails, fmt.Sprintf(f, a...)) }
	if slowClose {
		census.Quiesce(rig.Watchdog)
		if x.Rig.Pair.A.CloseHeld() && !rig.IsClosed(x.Rig.Conn.Closed()) {
			failf("the client connection is closing its failed transport (the transport's Close is in progress) and does not report closed")
		}
		x.Rig.Pair.A.ReleaseClose()
	}
	st := x.WaitClients()
	if st == "watchdog" {
		x.Rig.Teardown()
		return runner.Inconcl(id, "watchdog: "+c.String())
	}
	_, snap := census.Quiesce(rig.Watchdog)
	fired := end.FaultFired()
	// 1. nothing hangs
	for _, l := range x.Logs() {
		for _, e := range l.Snapshot() {
			if !e.Returned {
				failf("rpc %d %c:%s is still blocked at quiescence after the transport failed", l.Script.Tag, e.Side, e.Op)
			}
		}
		if l.HandlerRan && !l.HandlerDone {
			failf("handler of rpc %d has not returned at quiescence", l.Script.Tag)
		}
	}
	if st != "ready" {
		failf("the client goroutine has not finished at quiescence")
	}
	if len(fails) > 0 {
		fails = append(fails, census.Dump(census.InDRPC(snap)))
	}
	// 2. delivered messages are an intact, correctly attributed prefix
	for _, l := range x.Logs() {
		for _, side := range []byte{'c', 's'} {
			wantDir := uint8(1)
			if side == 's' {
				wantDir = 0
			}
			next := uint32(0)
			for _, e := range l.Snapshot() {
				if e.Side != side || !e.Returned || e.Err != nil || (e.Op != "recv" && e.Op != "invoke") {
					continue
				}
				switch {
				case e.MsgErr != nil:
					failf("rpc %d %c side received a damaged message: %v", l.Script.Tag, side, e.MsgErr)
				case e.Msg.Tag != l.Script.Tag || e.Msg.Dir != wantDir:
					failf("rpc %d %c side received a message of rpc %d dir %d", l.Script.Tag, side, e.Msg.Tag, e.Msg.Dir)
				case e.Msg.Seq != next:
					failf("rpc %d %c side received sequence %d when %d was next (duplicate, loss or reorder)", l.Script.Tag, side, e.Msg.Seq, next)
				}
				next = e.Msg.Seq + 1
			}
		}
	}
	// 2b. the call during which a transport write failed reports an error
	if fired && c.kind.IsWrite() {
		side := byte('c')
		if c.server {
			side = 's'
		}
		for _, w := range end.Writes() {
			if w.Err == nil || w.End == 0 {
				continue
			}
			for _, l := range x.Logs() {
				for _, e := range l.Snapshot() {
					if e.Side != side || !e.Returned || e.Call > w.Begin || e.Ret < w.End {
						continue
					}
					if (e.Op == "send" || e.Op == "invoke" || e.Op == "flush") && e.Err == nil {
						failf("rpc %d %c:%s returned nil although the transport write issued inside it (write #%d, %d bytes) failed with %v", l.Script.Tag, side, e.Op, w.Idx, len(w.Data), w.Err)
					}
				}
			}
		}
	}
	if fired && len(fails) == 0 {
		// 3. the connection reports closed and every later call fails
		if !rig.IsClosed(x.Rig.Conn.Closed()) {
			failf("after the fault the client connection does not report closed")
		}
		if !x.Rig.ServeOp.Returned() {
			failf("after the fault ServeOne has not returned")
		}
		for _, l := range x.Logs() {
			// (in every other case the old streams are left alone: a later call on a stream can help it
			// along, and Close must not depend on the application making one)
			if l.Stream == nil || c.offset%2 == 1 {
				continue
			}
			stm := l.Stream
			for _, name := range []string{"send", "recv"} {
				name := name
				op := rig.Go("later-"+name, func() (interface{}, error) {
					if name == "send" {
						m := payload.Make(l.Script.Tag, 0, 0, 99, 5)
						return nil, stm.MsgSend(&m, payload.Enc{})
					}
					var m []byte
					return nil, stm.MsgRecv(&m, payload.Enc{})
				})
				if !op.Wait() {
					failf("a %s on the old stream after the fault blocks", name)
				} else if op.Err == nil {
					failf("a %s on the old stream after the fault succeeded", name)
				}
			}
		}
		in := payload.Make(9, 0, 0, 0, 5)
		var out []byte
		op := rig.Go("later-invoke", func() (interface{}, error) {
			return nil, x.Rig.Conn.Invoke(context.Background(), prog.RPCName(1), payload.Enc{}, &in, &out)
		})
		if !op.Wait() {
			failf("Invoke after the fault blocks")
		} else if op.Err == nil {
			failf("Invoke after the fault succeeded")
		}
		op2 := rig.Go("later-newstream", func() (interface{}, error) {
			s, err := x.Rig.Conn.NewStream(context.Background(), prog.RPCName(1), payload.Enc{})
			if err == nil {
				go s.Close()
			}
			return nil, err
		})
		if !op2.Wait() {
			failf("NewStream after the fault blocks")
		} else if op2.Err == nil {
			failf("NewStream after the fault succeeded")
		}
	}
	// 4. closing returns and nothing of the library is left behind
	cl := rig.Go("conn.Close", func() (interface{}, error) { return nil, x.Rig.Conn.Close() })
	x.Rig.StopServe()
	if !cl.Wait() {
		failf("Conn.Close does not return after the fault")
	}
	x.Rig.Pair.A.Close()
	x.Rig.Pair.B.Close()
	_, snap = census.Quiesce(rig.Watchdog)
	if left := census.NewSince(census.InDRPC(snap), base); len(left) > 0 && len(fails) == 0 {
		failf("library goroutines left behind after the failure and Close:\n%s", census.Dump(left))
	}
	x.Rig.Teardown()
	if len(fails) > 0 {
		return runner.Violation(id, "fault:"+keyOf(fails[0]), c.String()+fmt.Sprintf(" fired=%v", fired)+"\n"+strings.Join(fails, "\n"))
	}
	res := runner.Hold(id, c.String(), fired)
	res.Events = 1
	if fired {
		res.Stats = map[string]int64{"faults_fired": 1}
	}
	res.Sample = map[string]interface{}{"cell": c.String(), "fault_fired": fired}
	return res
}

func keyOf(s string) string {
	s = strings.Map(func(r rune) rune {
		if r >= '0' && r <= '9' {
			return -1
		}
		return r
	}, s)
	f := strings.Fields(s)
	if len(f) > 8 {
		f = f[:8]
	}
	return strings.Join(f, "-")
}

var writeKinds = []simnet.FaultKind{simnet.FaultWriteErr, simnet.FaultWritePartial, simnet.FaultWriteErrOnly, simnet.FaultWritePartialOnly}
var readKinds = []simnet.FaultKind{simnet.FaultReadErr, simnet.FaultReadDataErr, simnet.FaultPeerEOF, simnet.FaultPeerReset, simnet.FaultLocalClose, simnet.FaultReadDataErrOnly}

// rawServer: a raw peer writes a prefix of a valid client session (including RPCs abandoned before
// their invoke) and the transport then ends at that point; the server endpoint must notice by itself.
func rawServer(id string, seed uint64) runner.Result {
	base := census.IDs(census.Snapshot())
	r := &payload.SplitMix{S: seed}
	fs := wiregen.ConformingClientSession(r)
	var in []byte
	var edges []int
	for _, f := range fs {
		in = refwire.Encode(in, f)
		edges = append(edges, len(in))
	}
	cut := len(in)
	switch r.Intn(4) {
	case 0:
		cut = edges[r.Intn(len(edges))]
	case 1:
		cut = r.Intn(len(in) + 1)
	}
	kind := payload.Pick(r, []simnet.FaultKind{simnet.FaultReadErr, simnet.FaultPeerEOF, simnet.FaultPeerReset, simnet.FaultNone})
	opts := drpcmanager.Options{SoftCancel: r.Intn(2) == 0}
	echo := rig.HandlerFunc(func(stream drpc.Stream, rpc string) error {
		for {
			var m []byte
			if err := stream.MsgRecv(&m, payload.Enc{}); err != nil {
				return nil
			}
			if err := stream.MsgSend(&m, payload.Enc{}); err != nil {
				return err
			}
		}
	})
	rg := rig.New(rig.Config{Net: simnet.Opts{Cap: -1}, Server: opts, NoConn: true}, echo)
	raw, under := rg.Pair.A, rg.Pair.B
	rig.Go("drain", func() (interface{}, error) {
		buf := make([]byte, 4096)
		for {
			if _, err := raw.Read(buf); err != nil {
				return nil, nil
			}
		}
	})
	desc := fmt.Sprintf("raw client session, %d of %d bytes, then %v (soft=%v): %x", cut, len(in), kind, opts.SoftCancel, in[:cut])
	if kind != simnet.FaultNone {
		under.SetFault(simnet.Fault{Kind: kind, Offset: int64(cut)})
	}
	if kind != simnet.FaultNone {
		// the fault plan fires on the read that would cross the offset: one more byte is on its way
		raw.Write(append(append([]byte{}, in[:cut]...), 0))
	} else {
		raw.Write(in[:cut])
	}
	census.Quiesce(rig.Watchdog)
	if kind == simnet.FaultNone {
		raw.Close() // the peer simply goes away
	}
	st, snap := census.QuiesceOr(nil, rig.Watchdog)
	if st == "watchdog" {
		rg.Teardown()
		return runner.Inconcl(id, "watchdog: "+desc)
	}
	var fails []string
	if !rg.ServeOp.Returned() {
		fails = append(fails, "the transport ended but ServeOne has not returned at quiescence: the server endpoint did not notice\n"+census.Dump(census.InDRPC(snap)))
	}
	rg.StopServe()
	raw.Close()
	under.Close()
	_, snap = census.Quiesce(rig.Watchdog)
	if left := census.NewSince(census.InDRPC(snap), base); len(left) > 0 && len(fails) == 0 {
		fails = append(fails, "library goroutines left behind after the transport ended:\n"+census.Dump(left))
	}
	rg.Teardown()
	if len(fails) > 0 {
		return runner.Violation(id, "fault:raw-session:"+keyOf(fails[0]), desc+"\n"+strings.Join(fails, "\n"))
	}
	res := runner.Hold(id, desc, true)
	res.Events = int64(len(fs))
	res.Stats = map[string]int64{"raw_sessions": 1}
	return res
}

// finishRace: the context of the first RPCs is cancelled exactly while their stream is being marked
// finished (the usual "defer cancel()" racing the end of the call); the connection stays healthy. A
// later RPC then has operations pending on both sides when the transport dies.
func finishRace(id string, seed uint64) runner.Result {
	base := census.IDs(census.Snapshot())
	r := &payload.SplitMix{S: seed}
	cfg := prog.GenConfig(r, false)
	nfirst := 1 + r.Intn(2)
	var all []*prog.Script
	for i := 0; i < nfirst; i++ {
		s := prog.GenClean(r, uint64(i+1), cfg)
		all = append(all, s)
	}
	last := &prog.Script{Tag: uint64(nfirst + 1), Client: []prog.Act{{Op: 's', Size: 20}, {Op: 'r'}, {Op: 'R'}}, Handler: []prog.Act{{Op: 'r'}, {Op: 's', Size: 30}, {Op: 'R'}}}
	all = append(all, last)
	x := prog.New(cfg, all)
	var parks []*director.Park
	for i := 0; i < nfirst; i++ {
		parks = append(parks, x.Rig.Dir.ParkAt("stream.fin", x.Rig.Pair.A, i+1))
	}
	x.Start([][]*prog.Script{all})
	raced := 0
	for i, p := range parks {
		st, _ := census.QuiesceOr(p.Reached(), rig.Watchdog)
		if st == "ready" {
			census.Quiesce(rig.Watchdog)
			x.Log(uint64(i + 1)).CancelRPC()
			census.Quiesce(rig.Watchdog)
			raced++
		}
		p.Release()
	}
	st := x.WaitClients() // quiescent: the last RPC has a receive pending on both sides
	desc := fmt.Sprintf("%s | %d RPC(s) whose context is cancelled while their stream finishes, then an RPC with receives pending on both sides", cfg.Desc, nfirst)
	if st == "watchdog" {
		x.Rig.Teardown()
		return runner.Inconcl(id, "watchdog: "+desc)
	}
	if rig.IsClosed(x.Rig.Conn.Closed()) || !x.Log(last.Tag).ClientStart {
		// the cancel was not "clean" (stream not finished yet): the connection was closed legitimately
		x.Rig.Teardown()
		return runner.Hold(id, "the raced cancel closed the connection before the last RPC: "+desc, false)
	}
	how := r.Intn(3)
	switch how {
	case 0:
		x.Rig.Pair.B.Reset()
	case 1:
		x.Rig.Pair.A.Reset()
	case 2:
		x.Rig.Pair.B.Close()
	}
	desc += fmt.Sprintf("; transport ended by %s", []string{"server-side reset", "client-side reset", "server-side close"}[how])
	_, snap := census.Quiesce(rig.Watchdog)
	var fails []string
	for _, l := range x.Logs() {
		for _, e := range l.Snapshot() {
			if !e.Returned {
				fails = append(fails, fmt.Sprintf("rpc %d %c:%s is still blocked at quiescence after the transport failed", l.Script.Tag, e.Side, e.Op))
			}
		}
		if ran, done := l.HandlerState(); ran && !done {
			fails = append(fails, fmt.Sprintf("handler of rpc %d has not returned at quiescence", l.Script.Tag))
		}
	}
	if len(fails) > 0 {
		fails = append(fails, census.Dump(census.InDRPC(snap)))
	} else {
		if !rig.IsClosed(x.Rig.Conn.Closed()) {
			fails = append(fails, "after the fault the client connection does not report closed")
		}
		if !x.Rig.ServeOp.Returned() {
			fails = append(fails, "after the fault ServeOne has not returned")
		}
	}
	cl := rig.Go("conn.Close", func() (interface{}, error) { return nil, x.Rig.Conn.Close() })
	x.Rig.StopServe()
	if !cl.Wait() {
		fails = append(fails, "Conn.Close does not return after the fault")
	}
	x.Rig.Pair.A.Close()
	x.Rig.Pair.B.Close()
	_, snap = census.Quiesce(rig.Watchdog)
	if left := census.NewSince(census.InDRPC(snap), base); len(left) > 0 && len(fails) == 0 {
		fails = append(fails, "library goroutines left behind after the failure and Close:\n"+census.Dump(left))
	}
	x.Rig.Teardown()
	if len(fails) > 0 {
		return runner.Violation(id, "fault:finish-race:"+keyOf(fails[0]), desc+"\n"+strings.Join(fails, "\n"))
	}
	res := runner.Hold(id, desc, raced > 0)
	res.Events = int64(raced)
	res.Stats = map[string]int64{"cancel_while_finishing": int64(raced)}
	return res
}

// faultWithBlockedOps: a send of the client is stuck inside the transport, a terminal call of another
// goroutine (Close / CloseSend) is queued behind it, and then the transport fails on the read side
// (peer reset, peer close) or the connection is closed locally: everything must come back.
func faultWithBlockedOps(id string, seed uint64) runner.Result {
	base := census.IDs(census.Snapshot())
	r := &payload.SplitMix{S: seed}
	cfg := prog.GenConfig(r, false)
	cfg.Net.Cap = -1
	handler := rig.HandlerFunc(func(stream drpc.Stream, rpc string) error {
		var m []byte
		for stream.MsgRecv(&m, payload.Enc{}) == nil {
		}
		return nil
	})
	how := payload.Pick(r, []string{"server-side reset", "server-side close", "Conn.Close", "the call's context is cancelled (soft cancel finds the stream busy and the manager closes the transport)"})
	sctx, scancel := context.WithCancel(context.Background())
	defer scancel()
	if strings.HasPrefix(how, "the call's context") {
		cfg.Client.SoftCancel, cfg.Server.SoftCancel = true, true
	}
	rg := rig.New(rig.Config{Net: cfg.Net, Client: cfg.Client, Server: cfg.Server}, handler)
	st, err := rg.Conn.NewStream(sctx, "/x", payload.Enc{})
	if err != nil {
		rg.Teardown()
		return runner.Inconcl(id, "NewStream failed")
	}
	first := payload.Make(1, 0, 0, 0, 10)
	st.MsgSend(&first, payload.Enc{})
	census.Quiesce(rig.Watchdog)
	rg.Pair.A.StallWrites(true)
	a := rig.Go("send", func() (interface{}, error) {
		m := payload.Make(1, 0, 0, 1, 5000)
		return nil, st.MsgSend(&m, payload.Enc{})
	})
	census.Quiesce(rig.Watchdog)
	term := payload.Pick(r, []string{"Close", "CloseSend", "none"})
	var b *rig.Op
	switch term {
	case "Close":
		b = rig.Go("close", func() (interface{}, error) { return nil, st.Close() })
	case "CloseSend":
		b = rig.Go("closesend", func() (interface{}, error) { return nil, st.CloseSend() })
	}
	census.Quiesce(rig.Watchdog)
	var cl *rig.Op
	switch how {
	case "server-side reset":
		rg.Pair.B.Reset()
	case "server-side close":
		rg.Pair.B.Close()
	case "Conn.Close":
		cl = rig.Go("conn.Close", func() (interface{}, error) { return nil, rg.Conn.Close() })
	default:
		scancel()
	}
	_, snap := census.Quiesce(rig.Watchdog)
	desc := fmt.Sprintf("%s | a send stuck in the transport (write stalled), %s queued behind it, then %s", cfg.Desc, term, how)
	var fails []string
	if !a.Returned() {
		fails = append(fails, "the send stuck in the transport is still blocked at quiescence after the transport failed")
	} else if a.Err == nil {
		fails = append(fails, "the send stuck in the transport returned nil although the transport failed under it")
	}
	if b != nil && !b.Returned() {
		fails = append(fails, term+" (queued behind the stuck send) is still blocked at quiescence after the transport failed")
	}
	if cl != nil && !cl.Returned() {
		fails = append(fails, "Conn.Close has not returned")
	}
	if len(fails) > 0 {
		fails = append(fails, census.Dump(census.InDRPC(snap)))
	} else if !rig.IsClosed(rg.Conn.Closed()) {
		fails = append(fails, "after the fault the client connection does not report closed")
	} else {
		// every later call fails (and the process survives it)
		for _, name := range []string{"Invoke", "NewStream"} {
			name := name
			later := rig.Go("later-"+name, func() (res interface{}, err error) {
				defer func() {
					if p := recover(); p != nil {
						err = nil
						res = fmt.Sprint("panic: ", p)
					}
				}()
				in := payload.Make(9, 0, 0, 0, 5)
				var out []byte
				if name == "Invoke" {
					return nil, rg.Conn.Invoke(context.Background(), "/x", payload.Enc{}, &in, &out)
				}
				s2, err := rg.Conn.NewStream(context.Background(), "/x", payload.Enc{})
				if err == nil && s2 != nil {
					go s2.Close()
				}
				return nil, err
			})
			if !later.Wait() {
				fails = append(fails, "a later "+name+" blocks")
			} else if later.Val != nil {
				fails = append(fails, fmt.Sprintf("a later %s on the closed connection: %v", name, later.Val))
			} else if later.Err == nil {
				fails = append(fails, "a later "+name+" on the closed connection succeeded")
			}
		}
	}
	rg.StopServe()
	cl2 := rig.Go("conn.Close#2", func() (interface{}, error) { return nil, rg.Conn.Close() })
	if len(fails) == 0 && !cl2.Wait() {
		fails = append(fails, "Conn.Close after the fault has not returned")
	}
	rg.Pair.A.Close()
	rg.Pair.B.Close()
	_, snap = census.Quiesce(rig.Watchdog)
	if left := census.NewSince(census.InDRPC(snap), base); len(left) > 0 && len(fails) == 0 {
		fails = append(fails, "library goroutines left behind:\n"+census.Dump(left))
	}
	rg.Teardown()
	if len(fails) > 0 {
		return runner.Violation(id, "fault:blocked-ops:"+keyOf(fails[0]), desc+"\n"+strings.Join(fails, "\n"))
	}
	res := runner.Hold(id, desc, true)
	res.Events = 3
	return res
}

// closeDuringDecode: a receiver is inside the decode of a delivered message (the buffer is lent out),
// the next message is already waiting behind it, and the connection is closed locally at that moment.
func closeDuringDecode(id string, seed uint64) runner.Result {
	base := census.IDs(census.Snapshot())
	r := &payload.SplitMix{S: seed}
	cfg := prog.GenConfig(r, false)
	cfg.Net.Cap = -1
	server := r.Intn(2) == 0
	var s *prog.Script
	if server {
		s = &prog.Script{Tag: 1, Client: []prog.Act{{Op: 's', Size: 20}, {Op: 's', Size: 30}, {Op: 's', Size: 40}, {Op: 'R'}}, Handler: []prog.Act{{Op: 'r'}, {Op: 'r'}, {Op: 'R'}}}
	} else {
		s = &prog.Script{Tag: 1, Client: []prog.Act{{Op: 's', Size: 20}, {Op: 'r'}, {Op: 'r'}, {Op: 'R'}}, Handler: []prog.Act{{Op: 'r'}, {Op: 's', Size: 30}, {Op: 's', Size: 40}, {Op: 's', Size: 50}, {Op: 'R'}}}
	}
	x := prog.New(cfg, []*prog.Script{s})
	end := x.Rig.Pair.A
	if server {
		end = x.Rig.Pair.B
	}
	park := x.Rig.Dir.ParkAt("stream.msgrecv.held", end, 1)
	x.Start([][]*prog.Script{{s}})
	st, _ := census.QuiesceOr(park.Reached(), rig.Watchdog)
	reached := st == "ready"
	census.Quiesce(rig.Watchdog) // the reader has the next message in hand and waits for the buffer
	var closer *rig.Op
	how := "Conn.Close"
	if server {
		how = "the server's context is cancelled"
		x.Rig.StopServe()
	} else {
		closer = rig.Go("conn.Close", func() (interface{}, error) { return nil, x.Rig.Conn.Close() })
	}
	census.Quiesce(rig.Watchdog)
	park.Release()
	_, snap := census.Quiesce(rig.Watchdog)
	desc := fmt.Sprintf("%s | %s while a receiver on that side is inside the decode of a message (reached=%v) and the next message waits behind it", cfg.Desc, how, reached)
	var fails []string
	for _, l := range x.Logs() {
		for _, e := range l.Snapshot() {
			if !e.Returned {
				fails = append(fails, fmt.Sprintf("rpc %d %c:%s is still blocked at quiescence after the connection was closed", l.Script.Tag, e.Side, e.Op))
			}
		}
		if ran, done := l.HandlerState(); ran && !done {
			fails = append(fails, "the handler has not returned at quiescence")
		}
	}
	if closer != nil && !closer.Returned() {
		fails = append(fails, "Conn.Close has not returned")
	}
	if server && !x.Rig.ServeOp.Returned() {
		fails = append(fails, "ServeOne has not returned after its context was cancelled")
	}
	if len(fails) > 0 {
		fails = append(fails, census.Dump(census.InDRPC(snap)))
	} else if l := x.Log(1); !server && l.Stream != nil {
		stm := l.Stream
		op := rig.Go("later-recv", func() (interface{}, error) { var m []byte; return nil, stm.MsgRecv(&m, payload.Enc{}) })
		if !op.Wait() {
			fails = append(fails, "a receive on the stream after the close blocks")
		} else if op.Err == nil {
			fails = append(fails, "a receive on the stream after the close succeeded")
		}
	}
	x.Rig.StopServe()
	cl := rig.Go("conn.Close#2", func() (interface{}, error) { return nil, x.Rig.Conn.Close() })
	if len(fails) == 0 && !cl.Wait() {
		fails = append(fails, "a second Conn.Close does not return")
	}
	x.Rig.Pair.A.Close()
	x.Rig.Pair.B.Close()
	_, snap = census.Quiesce(rig.Watchdog)
	if left := census.NewSince(census.InDRPC(snap), base); len(left) > 0 && len(fails) == 0 {
		fails = append(fails, "library goroutines left behind:\n"+census.Dump(left))
	}
	x.Rig.Teardown()
	if len(fails) > 0 {
		return runner.Violation(id, "fault:close-during-decode:"+keyOf(fails[0]), desc+"\n"+strings.Join(fails, "\n"))
	}
	res := runner.Hold(id, desc, reached)
	res.Events = 1
	return res
}

// localCloseSeenByWrite: the transport is closed underneath the connection by somebody else while the
// connection's reader is not inside Read (it is parked with a message the application has not taken
// yet), so the first to notice is a write. The connection must still report itself closed, and calls
// that are waiting for their turn must return.
func localCloseSeenByWrite(id string, seed uint64) runner.Result {
	r := &payload.SplitMix{S: seed}
	soft := r.Intn(2) == 0
	mopts := drpcmanager.Options{SoftCancel: soft}
	server := r.Intn(3) == 0 // the same on the server endpoint
	hold := make(chan struct{})
	var hst drpc.Stream
	hready := make(chan struct{})
	handler := rig.HandlerFunc(func(stream drpc.Stream, rpc string) error {
		var m []byte
		if err := stream.MsgRecv(&m, payload.Enc{}); err != nil {
			return nil
		}
		if server {
			hst = stream
			close(hready)
			<-hold
			return nil
		}
		for i := 0; i < 2; i++ {
			out := payload.Make(1, 1, 0, uint32(i), 20)
			if stream.MsgSend(&out, payload.Enc{}) != nil {
				return nil
			}
		}
		<-stream.Context().Done()
		return nil
	})
	rg := rig.New(rig.Config{Net: simnet.Opts{Cap: -1}, Client: mopts, Server: mopts}, handler)
	defer rg.Teardown()
	defer close(hold)
	st, err := rg.Conn.NewStream(context.Background(), "/x", payload.Enc{})
	if err != nil {
		return runner.Inconcl(id, "NewStream: "+err.Error())
	}
	first := payload.Make(1, 0, 0, 0, 10)
	st.MsgSend(&first, payload.Enc{})
	desc := fmt.Sprintf("local-close-seen-by-write soft=%v endpoint-server=%v", soft, server)
	var sender drpc.Stream = st
	end := rg.Pair.A
	if server {
		if s, _ := census.QuiesceOr(hready, rig.Watchdog); s != "ready" {
			return runner.Inconcl(id, "handler did not start")
		}
		// two more client messages: the server's reader parks with the first one nobody receives
		for i := 1; i < 3; i++ {
			m := payload.Make(1, 0, 0, uint32(i), 10)
			st.MsgSend(&m, payload.Enc{})
		}
		sender, end = hst, rg.Pair.B
	}
	census.Quiesce(rig.Watchdog) // the reader of the endpoint is parked with a message nobody has received
	var queued *rig.Op
	if !server {
		queued = rig.Go("queued-newstream", func() (interface{}, error) {
			_, err := rg.Conn.NewStream(context.Background(), "/y", payload.Enc{})
			return nil, err
		})
		census.Quiesce(rig.Watchdog)
	}
	end.Close() // somebody else closes the transport
	census.Quiesce(rig.Watchdog)
	m := payload.Make(1, 0, 0, 9, 10)
	send := rig.Go("send", func() (interface{}, error) { return nil, sender.MsgSend(&m, payload.Enc{}) })
	_, snap := census.Quiesce(rig.Watchdog)
	var fails []string
	if !send.Returned() {
		fails = append(fails, "the send on the closed transport never returned")
	} else if send.Err == nil {
		fails = append(fails, "the send on the closed transport succeeded")
	}
	if server {
		if !rg.ServeOp.Returned() {
			// the handler is held by the scenario; what matters is that its stream has been told
			if hst != nil && !rig.IsClosed(hst.Context().Done()) {
				fails = append(fails, "after the failed write the server side does not consider the connection closed: the handler's stream context is not done")
			}
		}
	} else {
		if !rig.IsClosed(rg.Conn.Closed()) {
			fails = append(fails, "after the failed write the connection does not report itself closed")
		}
		if queued != nil && !queued.Returned() {
			fails = append(fails, "a NewStream that was waiting for its turn is still blocked")
		}
	}
	if len(fails) > 0 {
		return runner.Violation(id, "fault:local-close-seen-by-write:"+strings.ReplaceAll(strings.Join(strings.Fields(fails[0])[:6], "-"), ":", ""), desc+"\n"+strings.Join(fails, "\n")+"\n"+census.Dump(census.InDRPC(snap)))
	}
	res := runner.Hold(id, desc, true)
	res.Events = 3
	return res
}

// headerConnFault: the client's connection runs over a drpcmigrate.HeaderConn (what DialWithHeader
// returns), and a write of the transport underneath fails: the first one, which carries the header, or
// a later one; fail-stop or only that one write. The wrapper must not hide the failure: the pending
// call returns an error, the connection reports closed, later calls fail.
func headerConnFault(id string, seed uint64) runner.Result {
	base := census.IDs(census.Snapshot())
	r := &payload.SplitMix{S: seed}
	pair := simnet.New(simnet.Opts{Cap: payload.Pick(r, []int{-1, 0, 4096})})
	kind := payload.Pick(r, []simnet.FaultKind{simnet.FaultWriteErr, simnet.FaultWritePartial, simnet.FaultWriteErrOnly, simnet.FaultWritePartialOnly})
	off := payload.Pick(r, []int64{0, 1, 7, 8, 9, 20, 40})
	pair.A.SetFault(simnet.Fault{Kind: kind, Offset: off, Temporary: r.Intn(2) == 0})
	header := drpcmigrate.DRPCHeader
	conn := drpcconn.New(drpcmigrate.NewHeaderConn(pair.A, header))
	ctx, cancel := context.WithCancel(context.Background())
	defer cancel()
	srv := drpcserver.New(rig.HandlerFunc(func(stream drpc.Stream, rpc string) error {
		var m []byte
		if err := stream.MsgRecv(&m, payload.Enc{}); err != nil {
			return err
		}
		return stream.MsgSend(&m, payload.Enc{})
	}))
	serve := rig.Go("serve", func() (interface{}, error) {
		hdr := make([]byte, len(header))
		if _, err := io.ReadFull(pair.B, hdr); err != nil {
			return nil, err
		}
		return nil, srv.ServeOne(ctx, pair.B)
	})
	in := payload.Make(1, 0, 0, 0, 30)
	var out []byte
	call := rig.Go("invoke", func() (interface{}, error) {
		return nil, conn.Invoke(context.Background(), "/x", payload.Enc{}, &in, &out)
	})
	_, snap := census.Quiesce(rig.Watchdog)
	desc := fmt.Sprintf("client over a HeaderConn, the transport underneath fails with %s at byte %d of what the client writes (the header is bytes 0-%d)", kind, off, len(header)-1)
	var fails []string
	fired := pair.A.FaultFired()
	if !call.Returned() {
		fails = append(fails, "the Invoke is still pending at quiescence although a write of its transport failed\n"+census.Dump(census.InDRPC(snap)))
	} else if fired && call.Err == nil {
		fails = append(fails, "the Invoke returned nil although a write of its transport failed")
	}
	if fired && len(fails) == 0 {
		if !rig.IsClosed(conn.Closed()) {
			fails = append(fails, "after the failed write the connection does not report closed")
		}
		later := rig.Go("later", func() (interface{}, error) {
			return nil, conn.Invoke(context.Background(), "/x", payload.Enc{}, &in, &out)
		})
		if !later.Wait() {
			fails = append(fails, "an Invoke after the fault blocks")
		} else if later.Err == nil {
			fails = append(fails, "an Invoke after the fault succeeded")
		}
	}
	cl := rig.Go("close", func() (interface{}, error) { return nil, conn.Close() })
	cancel()
	if !cl.Wait() && len(fails) == 0 {
		fails = append(fails, "Conn.Close does not return")
	}
	pair.A.Close()
	pair.B.Close()
	_, snap = census.Quiesce(rig.Watchdog)
	_ = serve
	if left := census.NewSince(census.InDRPC(snap), base); len(left) > 0 && len(fails) == 0 {
		fails = append(fails, "library goroutines left behind:\n"+census.Dump(left))
	}
	if len(fails) > 0 {
		return runner.Violation(id, "fault:header-conn:"+keyOf(fails[0]), desc+"\n"+strings.Join(fails, "\n"))
	}
	res := runner.Hold(id, desc, fired)
	res.Events = 2
	return res
}

func gen(tier string, seed uint64) []runner.Scenario {
	var out []runner.Scenario
	nraw := 300
	nrace := 60
	for i := 0; i < 40; i++ {
		i := i
		idb := fmt.Sprintf("fault-with-blocked-ops/%d", i)
		out = append(out, runner.Scenario{ID: idb, Run: func() runner.Result { return faultWithBlockedOps(idb, payload.Hash(seed, 0xC05D, uint64(i))) }})
		idl := fmt.Sprintf("local-close-seen-by-write/%d", i)
		out = append(out, runner.Scenario{ID: idl, Run: func() runner.Result { return localCloseSeenByWrite(idl, payload.Hash(seed, 0xC05E, uint64(i))) }})
		id := fmt.Sprintf("close-during-decode/%d", i)
		out = append(out, runner.Scenario{ID: id, Run: func() runner.Result { return closeDuringDecode(id, payload.Hash(seed, 0xC05C, uint64(i))) }})
		idh := fmt.Sprintf("header-conn-fault/%d", i)
		out = append(out, runner.Scenario{ID: idh, Run: func() runner.Result { return headerConnFault(idh, payload.Hash(seed, 0xC05F, uint64(i))) }})
	}
	if tier == "thorough" {
		nrace = 3000
	}
	for i := 0; i < nrace; i++ {
		i := i
		id := fmt.Sprintf("finish-race/%d", i)
		out = append(out, runner.Scenario{ID: id, Run: func() runner.Result { return finishRace(id, payload.Hash(seed, 0xC05B, uint64(i))) }})
	}
	if tier == "thorough" {
		nraw = 20000
	}
	for i := 0; i < nraw; i++ {
		i := i
		id := fmt.Sprintf("raw-server/%d", i)
		out = append(out, runner.Scenario{ID: id, Run: func() runner.Result { return rawServer(id, payload.Hash(seed, 0xC05A, uint64(i))) }})
	}
	r := &payload.SplitMix{S: payload.Hash(seed, 0xC05)}
	for wi, w := range wl.Workloads {
		la, lb, ea, eb, ok := dryRun(w)
		if !ok {
			wi := wi
			out = append(out, runner.Scenario{ID: "dry/" + w.Name, Run: func() runner.Result {
				return runner.Inconcl("dry/"+wl.Workloads[wi].Name, "fault-free run did not complete")
			}})
			continue
		}
		offsets := func(l int64, edges []int64) []int64 {
			set := map[int64]bool{0: true}
			if tier == "thorough" {
				for o := int64(0); o <= l; o++ {
					set[o] = true
				}
			} else {
				for _, e := range edges {
					for d := int64(-1); d <= 1; d++ {
						if e+d >= 0 && e+d <= l {
							set[e+d] = true
						}
					}
				}
				for i := 0; i < 8 && l > 0; i++ {
					set[int64(r.Intn(int(l)))] = true
				}
			}
			var o []int64
			for k := range set {
				o = append(o, k)
			}
			sort.Slice(o, func(i, j int) bool { return o[i] < o[j] })
			return o
		}
		add := func(server bool, kinds []simnet.FaultKind, offs []int64) {
			for _, k := range kinds {
				for _, o := range offs {
					chunks := []int{0, 1, 2}
					if tier != "thorough" {
						chunks = []int{r.Intn(3)}
					}
					for _, ch := range chunks {
						c := cell{w: wi, server: server, kind: k, offset: o, chunk: ch}
						id := c.String()
						out = append(out, runner.Scenario{ID: id, Run: func() runner.Result { return runCell(id, c) }})
					}
				}
			}
		}
		// client endpoint: writes are the client->server stream, reads the server->client stream
		add(false, writeKinds, offsets(la, ea))
		add(false, readKinds, offsets(lb, eb))
		add(true, writeKinds, offsets(lb, eb))
		add(true, readKinds, offsets(la, ea))
	}
	return out
}

func main() {
	runner.Main(runner.Check{
		Property: "C05",
		Level:    "fault_enumeration",
		Rule:     "fault points: for each of 16 deterministic workloads (unary small / multi-frame / with metadata / failing handler, client-, server-, bidirectional streams, failing bidi, two RPCs on one connection, early client close, flush-per-frame and 6 KB unary over a rendezvous transport) a fault-free run yields the byte streams and frame edges; one case = (workload, faulted endpoint, fault kind in {write error, partial write, read error, data+error, peer EOF, peer reset, local close (all fail-stop), write error only, partial write only (that one write fails, the transport stays usable), data+error only (that one read returns its bytes together with an error, later reads would deliver the rest)}; in every third case the client transport's Close is slow (torn down, returns late) and the connection must report closed while it is in progress, byte offset, read chunking). quick: every frame edge, edge-1, edge+1, offset 0 and 8 seeded interior offsets per direction with one seeded chunking; thorough: every byte offset x all three chunkings. Plus raw-server cases: a raw peer writes a seeded prefix (whole, frame edge, any byte) of a valid client session that may contain RPCs abandoned before their invoke (metadata and/or cancel only), then the transport ends (read error, EOF, reset, peer close); ServeOne must return without anybody telling it. Plus finish-race cases: the contexts of the first RPCs are cancelled exactly while their streams are being marked finished (parked at the hook), then a last RPC has receives pending on both sides when the transport is reset or closed. Plus fault-with-blocked-ops cases (a send stuck in the transport, Close/CloseSend of another goroutine queued behind it, then peer reset / peer close / Conn.Close). Plus header-conn-fault cases (the client connection over a drpcmigrate.HeaderConn whose underlying transport fails a write inside or after the header, fail-stop or only that write). Plus close-during-decode cases: the connection is closed locally while a receiver is inside the decode of a message and the next message waits behind it. Non-trivial: the fault actually fired. Distinct: by case tuple.",
		Assumptions: []string{
			"fault model is fail-stop: after the fault the endpoint's reads and writes both fail and the peer sees EOF or a reset after the surviving bytes; a transport whose writes fail while its reads stay healthy forever is not modelled (by design write errors are returned to the caller and the read error terminates the manager)",
			"'every later call fails' is checked by issuing a send and a receive on each old stream, an Invoke and a NewStream after the process came to rest",
		},
		Gen:           gen,
		Shards:        14,
		UnstableList:  true,
		MinNontrivial: 100,
		Exhaustive:    func(tier string) bool { return tier == "thorough" },
	})
}
