// C03: the stream lifecycle follows the documented state machine.
// Monitor: a real drpcstream.Stream is driven in lock-step with a reference
// automaton (open / send-closed / recv-closed / terminated(canceled) / finished)
// over every sequence of local calls and remote packets up to a bound. After
// each step the process is brought to quiescence and the monitor compares which
// calls returned and with what category of result, the frames emitted, and the
// Terminated/Finished/Context signals. Variants park one emitting write inside
// the writer's io.Writer while the rest of the sequence is issued.
package main

import (
	"bytes"
	"context"
	"encoding/binary"
	"errors"
	"fmt"
	"io"
	"sort"
	"strings"
	"sync"
	"time"

	"storj.io/drpc"
	"storj.io/drpc/drpcerr"
	"storj.io/drpc/drpcstream"
	"storj.io/drpc/drpcwire"

	"verifharness/census"
	"verifharness/director"
	"verifharness/payload"
	"verifharness/refwire"
	"verifharness/rig"
	"verifharness/runner"
)

// symbols of the alphabet
const (
	S   = "S"   // MsgSend
	W   = "W"   // RawWrite of a message (what Conn.Invoke uses)
	R   = "R"   // MsgRecv
	CS  = "CS"  // CloseSend
	C   = "C"   // Close
	E   = "E"   // SendError
	SC  = "SC"  // SendCancel
	X   = "X"   // Cancel
	RM  = "rM"  // remote message
	RMU = "rMu" // remote message that the local decoder rejects
	RCS = "rCS" // remote CloseSend
	RC  = "rC"  // remote Close
	RE  = "rE"  // remote Error
	RX  = "rX"  // remote Cancel
	RI  = "rI"  // remote Invoke on the existing stream
	RU  = "rU"  // unknown kind without control bit
	RUC = "rUc" // unknown kind with control bit
	RF  = "rF"  // packet for a foreign stream id
)

var alphabet = []string{S, W, R, CS, C, E, SC, X, RM, RMU, RCS, RC, RE, RX, RI, RU, RUC, RF}

var errCancel = errors.New("verif cancel cause")
var errApp = drpcerr.WithCode(errors.New("application failure"), 77)

const streamID = 5

// gateWriter is the io.Writer under the stream's drpcwire.Writer.
type gateWriter struct {
	mu      sync.Mutex
	writes  [][]byte
	parkAt  int // park the n-th write (0-based); -1 none
	n       int
	reached chan struct{}
	release chan struct{}
	failErr error // what the parked write returns once released (nil: it succeeds)
}

func (g *gateWriter) Write(p []byte) (int, error) {
	g.mu.Lock()
	g.writes = append(g.writes, append([]byte(nil), p...))
	idx := g.n
	g.n++
	park := idx == g.parkAt
	g.mu.Unlock()
	census.Bump()
	if park {
		close(g.reached)
		<-g.release
		census.Bump()
		if g.failErr != nil {
			return 0, g.failErr
		}
	}
	return len(p), nil
}

func (g *gateWriter) take() []byte {
	g.mu.Lock()
	defer g.mu.Unlock()
	var out []byte
	for _, w := range g.writes {
		out = append(out, w...)
	}
	g.writes = nil
	return out
}

// expectation categories for results
const (
	xNil      = "nil"
	xEOF      = "eof"
	xNonNil   = "non-nil"
	xRemote   = "remote-error"
	xCancelIs = "is-cancel-cause"
	xCtxCanc  = "context.Canceled"
	xMsg      = "message"
	xAnyErr   = "nil-or-cancel"
)

type opRec struct {
	sym    string
	idx    int
	op     *rig.Op
	want   string // expected result category once it returns
	data   []byte // S: payload; R: expected message when want==xMsg
	got    []byte // R: received
	busy   bool
	fin    bool // X: returned value
	judged bool
}

type model struct {
	term, sendSet, recvSet bool
	sendCause, recvCause   string
	pending                []byte
	hasPending             bool
	readerBlocked          bool // reader goroutine parked in Put (or on mu)
	blockedR               *opRec
	lastMsgID              uint64
	flushOnce              bool
	// parked variants
	writeHeld   bool
	muHeld      bool
	writeWaiter *opRec
	readerOnMu  bool
	readerMuSym string
	cancelSet   bool
}

func (m *model) terminate(cause string) {
	if !m.sendSet {
		m.sendSet, m.sendCause = true, cause
	}
	if !m.recvSet {
		m.recvSet, m.recvCause = true, cause
	}
	m.term = true
	m.pending, m.hasPending = nil, false
}

func sendWant(cause string) string {
	switch cause {
	case "remote-error", "remote-cancel":
		return xEOF // "sends after a remote error/cancel report end-of-stream"
	}
	return xNonNil
}

func recvWant(cause string) string {
	switch cause {
	case "remote-closesend":
		return xEOF // "receives after a remote half-close report end-of-stream"
	case "remote-error":
		return xRemote
	case "local-cancel":
		return xCancelIs
	}
	return xNonNil
}

type run struct {
	id          string
	seq         []string
	st          *drpcstream.Stream
	gw          *gateWriter
	m           *model
	pkts        chan drpcwire.Packet
	rdDone      chan struct{}
	rdMu        sync.Mutex
	rdErrs      []error // HandlePacket results in order
	ops         []*opRec
	fails       []string
	rmsg        uint64
	msgN        uint32
	steps       []string
	part        *partialMsg
	parkedMsg   *opRec
	pendingCont *emitExp
}

func (r *run) failf(format string, args ...interface{}) {
	if len(r.fails) < 6 {
		r.fails = append(r.fails, fmt.Sprintf(format, args...))
	}
}

func newRun(id string, seq []string, parkAt int) *run {
	r := &run{id: id, seq: seq, m: &model{}, pkts: make(chan drpcwire.Packet, 64), rdDone: make(chan struct{})}
	r.gw = &gateWriter{parkAt: parkAt, reached: make(chan struct{}), release: make(chan struct{})}
	wr := drpcwire.NewWriter(r.gw, 1) // every frame is handed to the io.Writer at once: nothing stays buffered
	r.st = drpcstream.NewWithOptions(context.Background(), streamID, wr, drpcstream.Options{SplitSize: 40})
	go func() {
		defer close(r.rdDone)
		for pkt := range r.pkts {
			err := r.st.HandlePacket(pkt)
			r.rdMu.Lock()
			r.rdErrs = append(r.rdErrs, err)
			r.rdMu.Unlock()
			census.Bump()
		}
	}()
	return r
}

func (r *run) handled() int {
	r.rdMu.Lock()
	defer r.rdMu.Unlock()
	return len(r.rdErrs)
}

// local launches a local call in its own goroutine.
func (r *run) local(sym string, idx int) *opRec {
	rec := &opRec{sym: sym, idx: idx}
	switch sym {
	case S:
		r.msgN++
		rec.data = payload.Make(1, 0, 0, r.msgN, int(r.msgN%3)*45)
		d := rec.data
		rec.op = rig.Go(sym, func() (interface{}, error) { return nil, r.st.MsgSend(&d, payload.Enc{}) })
	case W:
		r.msgN++
		rec.data = payload.Make(1, 0, 0, r.msgN, int(r.msgN%3)*45)
		d := rec.data
		rec.op = rig.Go(sym, func() (interface{}, error) { return nil, r.st.RawWrite(drpcwire.KindMessage, d) })
	case R:
		rec.op = rig.Go(sym, func() (interface{}, error) {
			var out []byte
			err := r.st.MsgRecv(&out, payload.Enc{})
			rec.got = out
			return nil, err
		})
	case CS:
		rec.op = rig.Go(sym, func() (interface{}, error) { return nil, r.st.CloseSend() })
	case C:
		rec.op = rig.Go(sym, func() (interface{}, error) { return nil, r.st.Close() })
	case E:
		rec.op = rig.Go(sym, func() (interface{}, error) { return nil, r.st.SendError(errApp) })
	case SC:
		rec.op = rig.Go(sym, func() (interface{}, error) {
			busy, err := r.st.SendCancel(errCancel)
			rec.busy = busy
			return nil, err
		})
	case X:
		rec.op = rig.Go(sym, func() (interface{}, error) {
			rec.fin = r.st.Cancel(errCancel)
			return nil, nil
		})
	}
	r.ops = append(r.ops, rec)
	return rec
}

func (r *run) remote(sym string) drpcwire.Packet {
	r.rmsg++
	pkt := drpcwire.Packet{ID: drpcwire.ID{Stream: streamID, Message: r.rmsg}}
	switch sym {
	case RM:
		pkt.Kind = drpcwire.KindMessage
		pkt.Data = payload.Make(1, 1, 0, uint32(r.rmsg), 30)
	case RMU:
		pkt.Kind = drpcwire.KindMessage
		pkt.Data = payload.Undecodable(10 + int(r.rmsg))
	case RCS:
		pkt.Kind = drpcwire.KindCloseSend
	case RC:
		pkt.Kind = drpcwire.KindClose
	case RE:
		pkt.Kind = drpcwire.KindError
		pkt.Data = drpcwire.MarshalError(drpcerr.WithCode(errors.New("remote failure text"), 4242))
	case RX:
		pkt.Kind = drpcwire.KindCancel
		pkt.Control = true
	case RI:
		pkt.Kind = drpcwire.KindInvoke
		pkt.Data = []byte("/again")
	case RU:
		pkt.Kind = drpcwire.Kind(33)
		pkt.Data = []byte("??")
	case RUC:
		pkt.Kind = drpcwire.Kind(34)
		pkt.Control = true
		pkt.Data = []byte("future")
	case RF:
		pkt.Kind = drpcwire.KindClose
		pkt.ID.Stream = streamID - 1
	}
	return pkt
}

// applyRemote updates the model for a packet the reader goroutine processes now.
// It returns false if the reader blocks inside this packet.
func (r *run) applyRemote(sym string, pkt drpcwire.Packet) (proceeds bool) {
	m := r.m
	if sym == RF || m.term {
		return true
	}
	if sym == RUC {
		// ignored, but like every non-message packet it is looked at under the state lock
		if m.muHeld {
			m.readerOnMu = true
			m.readerMuSym = sym
			return false
		}
		return true
	}
	if sym == RM || sym == RMU {
		if m.recvSet {
			return true // dropped: the buffer is closed
		}
		if m.blockedR != nil {
			b := m.blockedR
			m.blockedR = nil
			b.want, b.data = xMsg, pkt.Data
			return true
		}
		m.pending, m.hasPending = pkt.Data, true
		return false
	}
	// all other kinds take the state lock
	if m.muHeld {
		m.readerOnMu = true
		m.readerMuSym = sym
		return false
	}
	r.applyRemoteState(sym)
	return true
}

func (r *run) applyRemoteState(sym string) {
	m := r.m
	wake := func(cause string) {
		if m.blockedR != nil {
			m.blockedR.want = recvWant(cause)
			m.blockedR = nil
		}
	}
	switch sym {
	case RCS:
		if !m.recvSet {
			m.recvSet, m.recvCause = true, "remote-closesend"
			wake("remote-closesend")
		}
		if m.sendSet {
			m.terminate("both")
		}
	case RC:
		if !m.recvSet {
			m.recvSet, m.recvCause = true, "remote-close"
			wake("remote-close")
		}
		m.terminate("remote-close")
	case RE:
		if !m.sendSet {
			m.sendSet, m.sendCause = true, "remote-error"
		}
		if !m.recvSet {
			wake("remote-error")
		}
		m.terminate("remote-error")
	case RX:
		m.cancelSet = true
		if !m.sendSet {
			m.sendSet, m.sendCause = true, "remote-cancel"
		}
		if !m.recvSet {
			wake("remote-cancel")
		}
		m.terminate("remote-cancel")
	case RI:
		if !m.recvSet {
			wake("protocol")
		}
		m.terminate("protocol")
	case RU:
		if !m.recvSet {
			wake("internal")
		}
		m.terminate("internal")
	}
}

// localTerminate applies a local terminal transition in the model.
func (r *run) localTerminate(cause string) {
	m := r.m
	if m.blockedR != nil {
		m.blockedR.want = recvWant(cause)
		m.blockedR = nil
	}
	m.terminate(cause)
}

type emitExp struct {
	kind    uint8
	control bool
	data    []byte
	msg     bool   // message packet (possibly several frames)
	contOf  uint64 // non-zero: continuation frames of this message id (data is the remaining suffix)
}

// partialMsg is a message whose first frame(s) were written when its write parked.
type partialMsg struct {
	msgID   uint64
	data    []byte
	emitted int
	rec     *opRec
}

// step executes one symbol; returns the emission expected to become visible when the op runs.
func (r *run) step(i int, sym string, parkThis bool) {
	m := r.m
	desc := sym
	before := r.handled()
	var exp *emitExp
	var rec *opRec
	isRemote := strings.HasPrefix(sym, "r")
	skip := false

	if isRemote {
		pkt := r.remote(sym)
		if m.readerBlocked {
			// the connection reader is stuck inside an earlier packet: a real
			// manager could not deliver this one yet. It queues behind.
			skip = true
			r.rmsg--
		} else {
			proceeds := r.applyRemote(sym, pkt)
			m.readerBlocked = !proceeds
			r.pkts <- pkt
			_ = before
		}
	} else {
		switch sym {
		case S, W:
			if m.writeWaiter != nil && m.writeWaiter.sym == R && sym == S {
				skip = true // the first receive's flush is in progress (sync.Once): order not determined
				break
			}
			if m.writeHeld {
				if m.writeWaiter != nil {
					skip = true
					break
				}
				rec = r.local(sym, i)
				m.writeWaiter = rec
				if sym == S {
					m.flushOnce = true
				}
				break
			}
			rec = r.local(sym, i)
			if sym == S {
				m.flushOnce = true
			}
			if m.sendSet {
				rec.want = sendWant(m.sendCause)
			} else {
				rec.want = xNil
				exp = &emitExp{msg: true, kind: 2, data: rec.data}
			}
		case R:
			if m.writeWaiter != nil && m.writeWaiter.sym == R {
				skip = true
				break
			}
			if !m.flushOnce && m.writeHeld && !m.sendSet {
				// the first receive flushes, which needs the write lock (once the send side
				// has ended there is nothing of this stream left to flush and it does not)
				if m.writeWaiter != nil {
					skip = true
					break
				}
				rec = r.local(sym, i)
				m.writeWaiter = rec
				m.flushOnce = true
				break
			}
			if m.blockedR != nil {
				skip = true // one outstanding receive at a time
				break
			}
			m.flushOnce = true
			rec = r.local(sym, i)
			r.modelRecv(rec)
		case CS, C, E:
			short := m.term || (sym == CS && m.sendSet)
			if m.muHeld {
				skip = true // would queue on the state lock behind another waiter: order not determined
				break
			}
			if short {
				rec = r.local(sym, i)
				rec.want = xNil
				break
			}
			if m.writeHeld {
				if m.writeWaiter != nil {
					skip = true
					break
				}
				rec = r.local(sym, i)
				m.writeWaiter = rec
				m.muHeld = true
				break
			}
			rec = r.local(sym, i)
			rec.want = xNil
			exp = r.applyTerminal(sym)
		case SC:
			rec = r.local(sym, i)
			rec.want = xNil
			if m.muHeld || m.writeHeld {
				rec.want = "busy"
				break
			}
			if !m.term {
				if !m.sendSet {
					m.sendSet, m.sendCause = true, "local-cancel"
				}
				r.localTerminate("local-cancel")
				exp = &emitExp{kind: 4, control: true}
			}
		case X:
			if m.muHeld {
				skip = true
				break
			}
			rec = r.local(sym, i)
			finished := m.term && !m.writeHeld && m.blockedR == nil && m.writeWaiter == nil
			if finished {
				rec.want = "cancel-true"
			} else {
				rec.want = "cancel-false"
				m.cancelSet = true
				if !m.sendSet {
					m.sendSet, m.sendCause = true, "local-cancel"
				}
				r.localTerminate("local-cancel")
			}
		}
	}
	if skip {
		r.steps = append(r.steps, "("+sym+")")
		return
	}
	r.steps = append(r.steps, desc)

	if parkThis && exp != nil {
		// this op's write parks inside the io.Writer; it holds the write lock
		m.writeHeld = true
		st, _ := census.QuiesceOr(r.gw.reached, rig.Watchdog)
		if st != "ready" {
			r.failf("step %d %s: expected the write to reach the transport (%s)", i, sym, st)
		}
		rec.want = "parked:" + rec.want
		if exp.msg {
			r.parkedMsg = rec
		}
	}
	r.observe(i, sym, exp, parkThis && exp != nil)
}

func (r *run) modelRecv(rec *opRec) {
	m := r.m
	switch {
	case m.hasPending:
		rec.want, rec.data = xMsg, m.pending
		m.pending, m.hasPending = nil, false
		m.readerBlocked = false
	case m.recvSet:
		rec.want = recvWant(m.recvCause)
	default:
		m.blockedR = rec
		rec.want = "blocked"
	}
}

func (r *run) applyTerminal(sym string) *emitExp {
	m := r.m
	switch sym {
	case CS:
		m.sendSet, m.sendCause = true, "closesend"
		if m.recvSet {
			r.localTerminate("both")
		}
		return &emitExp{kind: 6}
	case C:
		r.localTerminate("local-close")
		return &emitExp{kind: 5}
	case E:
		if !m.sendSet {
			m.sendSet, m.sendCause = true, "local-error"
		}
		r.localTerminate("local-error")
		want := make([]byte, 8)
		binary.BigEndian.PutUint64(want, 77)
		return &emitExp{kind: 3, data: append(want, "application failure"...)}
	}
	return nil
}

func errCat(err error) string {
	switch {
	case err == nil:
		return xNil
	case errors.Is(err, io.EOF):
		return xEOF
	case errors.Is(err, errCancel):
		return xCancelIs
	case errors.Is(err, context.Canceled):
		return xCtxCanc
	case drpcerr.Code(err) == 4242 && err.Error() == "remote failure text":
		return xRemote
	}
	return "error(" + rig.ErrStr(err) + ")"
}

func matches(want string, err error) bool {
	got := errCat(err)
	switch want {
	case xNil, xEOF, xRemote, xCancelIs:
		return got == want
	case xNonNil:
		return err != nil
	case xAnyErr:
		return true
	}
	return false
}

// observe brings the process to quiescence and compares everything observable.
func (r *run) observe(i int, sym string, exp *emitExp, parked bool) {
	m := r.m
	census.Quiesce(rig.Watchdog)
	where := fmt.Sprintf("after step %d (%s) of [%s]", i, sym, strings.Join(r.steps, " "))

	// 1. which calls returned, and with what
	for _, rec := range r.ops {
		if rec.judged {
			continue
		}
		ret := rec.op.Returned()
		switch {
		case rec == m.blockedR, rec == m.writeWaiter, strings.HasPrefix(rec.want, "parked:"):
			if ret {
				r.failf("%s: %s#%d returned (%s) but the state machine says it is still in flight", where, rec.sym, rec.idx, rig.ErrStr(rec.op.Err))
				rec.judged = true
			}
		default:
			if !ret {
				r.failf("%s: %s#%d has not returned at quiescence (expected %s)", where, rec.sym, rec.idx, rec.want)
				rec.judged = true
				continue
			}
			rec.judged = true
			switch rec.want {
			case xMsg:
				if len(rec.data) >= 2 && rec.data[0] == 0xFE && rec.data[1] == 0xFE {
					// the receive consumes the message and reports the decoder's error; nothing else changes
					if !errors.Is(rec.op.Err, payload.ErrUndecodable) {
						r.failf("%s: %s#%d should have reported the decoder's error for the undecodable message; got err=%s", where, rec.sym, rec.idx, rig.ErrStr(rec.op.Err))
					}
				} else if rec.op.Err != nil || !bytes.Equal(rec.got, rec.data) {
					r.failf("%s: %s#%d should have received the delivered message; got err=%s data=%d bytes", where, rec.sym, rec.idx, rig.ErrStr(rec.op.Err), len(rec.got))
				}
			case "busy":
				if !rec.busy || rec.op.Err != nil {
					r.failf("%s: SendCancel with a write in flight must report busy; got busy=%v err=%s", where, rec.busy, rig.ErrStr(rec.op.Err))
				}
			case "cancel-true", "cancel-false":
				if rec.fin != (rec.want == "cancel-true") {
					r.failf("%s: Cancel returned %v, want %v (finished stream => true)", where, rec.fin, rec.want == "cancel-true")
				}
			default:
				if rec.sym == SC && rec.busy {
					r.failf("%s: SendCancel reported busy with no write in flight", where)
				}
				if !matches(rec.want, rec.op.Err) {
					r.failf("%s: %s#%d returned %s, want %s", where, rec.sym, rec.idx, errCat(rec.op.Err), rec.want)
				}
			}
		}
	}

	// 2. frames emitted by this step
	if parked && exp != nil && exp.msg {
		r.checkPartial(where, exp)
	} else if exp2 := r.pendingCont; exp2 != nil {
		r.pendingCont = nil
		r.checkEmission(where, exp2, exp)
	} else {
		r.checkEmission(where, exp)
	}

	// 3. signals
	term := r.st.IsTerminated()
	select {
	case <-r.st.Terminated():
		if !term {
			r.failf("%s: Terminated() closed but IsTerminated()=false", where)
		}
	default:
		if term {
			r.failf("%s: IsTerminated() but Terminated() not closed", where)
		}
	}
	if term != m.term {
		r.failf("%s: terminated=%v, state machine says %v", where, term, m.term)
	}
	inflight := m.writeHeld || m.blockedR != nil || m.writeWaiter != nil
	wantFin := m.term && !inflight
	fin := r.st.IsFinished()
	if rig.IsClosed(r.st.Finished()) != fin {
		r.failf("%s: Finished() channel and IsFinished() disagree", where)
	}
	if fin != wantFin {
		r.failf("%s: finished=%v, want %v (terminated=%v, operation in flight=%v)", where, fin, wantFin, m.term, inflight)
	}
	ctx := r.st.Context()
	if done := rig.IsClosed(ctx.Done()); done != wantFin {
		r.failf("%s: Context().Done() closed=%v, want %v", where, done, wantFin)
	}
	if err := ctx.Err(); (err != nil) != wantFin {
		r.failf("%s: Context().Err()=%v, want set=%v", where, err, wantFin)
	} else if wantFin && !errors.Is(err, context.Canceled) {
		r.failf("%s: Context().Err()=%v, want context.Canceled", where, err)
	}
	// 4. connection reader progress
	// (the number of handled packets is compared at the end; here only that it is not ahead)
}

// checkPartial: the write of a message parked on its first frame: what has been
// handed to the io.Writer must be a prefix of the message's frames.
func (r *run) checkPartial(where string, exp *emitExp) {
	raw := r.gw.take()
	frames, rest, st := refwire.DecodeAll(raw)
	if st != refwire.OK || len(rest) != 0 || len(frames) == 0 {
		r.failf("%s: expected the first frame(s) of the message on the writer, got %d frames (%d trailing bytes)", where, len(frames), len(rest))
		return
	}
	var data []byte
	for _, f := range frames {
		if f.Kind != 2 || f.Stream != streamID || f.Message != frames[0].Message || f.Control {
			r.failf("%s: unexpected frame while the message write is parked: kind=%d id=(%d,%d)", where, f.Kind, f.Stream, f.Message)
		}
		data = append(data, f.Data...)
	}
	if frames[0].Message <= r.m.lastMsgID {
		r.failf("%s: message id %d does not increase (last %d)", where, frames[0].Message, r.m.lastMsgID)
	}
	r.m.lastMsgID = frames[0].Message
	if !bytes.HasPrefix(exp.data, data) {
		r.failf("%s: frames written so far are not a prefix of the message", where)
	}
	last := frames[len(frames)-1]
	if last.Done != (len(data) == len(exp.data)) {
		r.failf("%s: done flag %v after %d of %d bytes", where, last.Done, len(data), len(exp.data))
	}
	r.part = &partialMsg{msgID: frames[0].Message, data: exp.data, emitted: len(data), rec: r.parkedMsg}
}

func (r *run) checkEmission(where string, exps ...*emitExp) {
	raw := r.gw.take()
	frames, rest, st := refwire.DecodeAll(raw)
	if st != refwire.OK || len(rest) != 0 {
		r.failf("%s: bytes written are not whole frames (%d trailing)", where, len(rest))
		return
	}
	var want []*emitExp
	for _, e := range exps {
		if e != nil {
			want = append(want, e)
		}
	}
	// group frames into packets by message id
	var groups [][]refwire.Frame
	for _, f := range frames {
		if n := len(groups); n > 0 && groups[n-1][0].Message == f.Message && !groups[n-1][len(groups[n-1])-1].Done {
			groups[n-1] = append(groups[n-1], f)
		} else {
			groups = append(groups, []refwire.Frame{f})
		}
	}
	if len(groups) != len(want) {
		kinds := []string{}
		for _, g := range groups {
			kinds = append(kinds, fmt.Sprintf("kind=%d(msg %d, %d frames)", g[0].Kind, g[0].Message, len(g)))
		}
		r.failf("%s: %d packet(s) emitted %v but the state machine emits %d here", where, len(groups), kinds, len(want))
		return
	}
	for gi, g := range groups {
		exp := want[gi]
		var data []byte
		for k, f := range g {
			if f.Stream != streamID {
				r.failf("%s: frame with stream id %d", where, f.Stream)
			}
			if f.Kind != exp.kind || f.Control != exp.control {
				r.failf("%s: frame kind=%d control=%v, want kind=%d control=%v", where, f.Kind, f.Control, exp.kind, exp.control)
			}
			if f.Done != (k == len(g)-1) {
				r.failf("%s: done flag on frame %d of %d is %v", where, k, len(g), f.Done)
			}
			data = append(data, f.Data...)
		}
		if exp.contOf != 0 {
			if g[0].Message != exp.contOf {
				r.failf("%s: continuation frames carry message id %d, want %d", where, g[0].Message, exp.contOf)
			}
		} else {
			if g[0].Message <= r.m.lastMsgID {
				r.failf("%s: message id %d does not increase (last %d)", where, g[0].Message, r.m.lastMsgID)
			}
			r.m.lastMsgID = g[0].Message
		}
		if !exp.msg && len(g) != 1 {
			r.failf("%s: control packet split into %d frames", where, len(g))
		}
		if !bytes.Equal(data, exp.data) {
			r.failf("%s: packet kind %d carries %d bytes (%x), want %d bytes", where, exp.kind, len(data), trunc(data), len(exp.data))
		}
	}
}

func trunc(b []byte) []byte {
	if len(b) > 32 {
		return b[:32]
	}
	return b
}

// releaseParked lets the parked write continue and advances the model.
func (r *run) releaseParked(i int) {
	m := r.m
	close(r.gw.release)
	census.Bump()
	m.writeHeld = false
	for _, rec := range r.ops {
		if strings.HasPrefix(rec.want, "parked:") {
			rec.want = strings.TrimPrefix(rec.want, "parked:")
			if m.cancelSet {
				rec.want = xAnyErr // a cancel that arrived while the write was parked may replace the result
			}
		}
	}
	if p := r.part; p != nil {
		r.part = nil
		if p.emitted < len(p.data) {
			if m.sendSet {
				// the stream's send side was ended while the message was half written:
				// nothing more of it may be emitted, and the send must report it
				p.rec.want = sendWant(m.sendCause)
			} else {
				p.rec.want = xNil
				r.pendingCont = &emitExp{msg: true, kind: 2, data: p.data[p.emitted:], contOf: p.msgID}
			}
		}
	}
	var exp *emitExp
	if w := m.writeWaiter; w != nil {
		m.writeWaiter = nil
		switch w.sym {
		case S, W:
			if m.sendSet {
				w.want = sendWant(m.sendCause)
			} else {
				w.want = xNil
				exp = &emitExp{msg: true, kind: 2, data: w.data}
			}
		case R:
			r.modelRecv(w)
		case CS, C, E:
			m.muHeld = false
			w.want = xNil
			exp = r.applyTerminal(w.sym)
			if m.readerOnMu && m.readerMuSym == RX {
				// the remote cancel is applied as soon as the state lock is free, racing
				// with this call's emission: its result may be replaced by the cancel error
				w.want = xAnyErr
				m.cancelSet = true
			}
			if m.readerOnMu {
				// the reader was waiting for the state lock inside a packet; it runs now
				m.readerOnMu = false
				m.readerBlocked = false
				// after a local terminal call the stream is terminated or send-closed;
				// re-evaluate the queued packet against the new state
				r.requeueReaderPacket()
			}
		}
	}
	r.steps = append(r.steps, "release")
	r.observe(i, "release", exp, false)
}

// requeueReaderPacket re-applies the model transition of the packet the reader was blocked on.
func (r *run) requeueReaderPacket() {
	if r.m.readerMuSym != "" && !r.m.term {
		r.applyRemoteState(r.m.readerMuSym)
	}
	r.m.readerMuSym = ""
}

func runSequence(id string, seq []string, parkStep int) runner.Result {
	parkAt := -1
	r := newRun(id, seq, -1)
	_ = parkAt
	released := true
	for i, sym := range seq {
		park := i == parkStep
		if park {
			// arm the gate for the next write
			r.gw.mu.Lock()
			r.gw.parkAt = r.gw.n
			r.gw.mu.Unlock()
		}
		r.step(i, sym, park)
		if park {
			if r.m.writeHeld {
				released = false
			} else {
				// the step emitted nothing: disarm
				r.gw.mu.Lock()
				r.gw.parkAt = -1
				r.gw.mu.Unlock()
			}
		}
	}
	if !released {
		r.releaseParked(len(seq))
	}
	// teardown: cancel releases every blocked goroutine
	handledWant := 0
	_ = handledWant
	// (from its own goroutine: if the stream under test is wedged, the verdict below must still be reached)
	td := rig.Go("teardown", func() (interface{}, error) { r.st.Cancel(errors.New("teardown")); return nil, nil })
	close(r.pkts)
	st, _ := census.QuiesceOr(r.rdDone, rig.Watchdog)
	sig := strings.Join(seq, " ")
	if parkStep >= 0 {
		sig += fmt.Sprintf(" park@%d", parkStep)
	}
	if len(r.fails) > 0 {
		res := runner.Violation(id, "state-machine:"+failKey(r.fails[0]), strings.Join(r.fails, "\n"))
		res.Sig = sig
		return res
	}
	if !td.Wait() {
		return runner.Inconcl(id, "teardown: Cancel did not return")
	}
	if st != "ready" {
		return runner.Inconcl(id, "teardown did not release the reader goroutine: "+st)
	}
	for _, rec := range r.ops {
		if !rec.op.Wait() {
			return runner.Inconcl(id, "teardown did not release "+rec.sym)
		}
	}
	if len(r.fails) > 0 {
		res := runner.Violation(id, "state-machine:"+failKey(r.fails[0]), strings.Join(r.fails, "\n"))
		res.Sig = sig
		return res
	}
	res := runner.Hold(id, sig, len(seq) >= 2)
	res.Events = int64(len(r.steps))
	res.Sample = map[string]interface{}{"sequence": seq, "park_step": parkStep, "executed": r.steps, "final": map[string]interface{}{"terminated": r.m.term, "send_closed_by": r.m.sendCause, "recv_closed_by": r.m.recvCause}}
	return res
}

// bufferedFlush: frames are still in the writer's buffer (manual flushing, or RawWrite) when the stream
// is cancelled locally or by the peer; the flush that follows must report the cancellation's own error
// ("Cancel ... all writes to the transport will return the provided error"), and nothing is emitted.
func bufferedFlush(id string, how string, cause string) runner.Result {
	var sink bytes.Buffer
	wr := drpcwire.NewWriter(&sink, 1<<20)
	st := drpcstream.NewWithOptions(context.Background(), streamID, wr, drpcstream.Options{ManualFlush: how == "manual-send"})
	d := payload.Make(1, 0, 0, 1, 100)
	var err error
	if how == "manual-send" {
		err = st.MsgSend(&d, payload.Enc{})
	} else {
		err = st.RawWrite(drpcwire.KindMessage, d)
	}
	if err != nil {
		return runner.Inconcl(id, "setup write failed: "+err.Error())
	}
	var want error
	switch cause {
	case "Cancel":
		st.Cancel(errCancel)
		want = errCancel
	case "remote-cancel":
		if err := st.HandlePacket(drpcwire.Packet{ID: drpcwire.ID{Stream: streamID, Message: 1}, Kind: drpcwire.KindCancel, Control: true}); err != nil {
			return runner.Inconcl(id, "HandlePacket failed: "+err.Error())
		}
		want = context.Canceled
	case "SendCancel":
		if _, err := st.SendCancel(context.DeadlineExceeded); err != nil {
			return runner.Inconcl(id, "SendCancel failed: "+err.Error())
		}
		st.Cancel(context.DeadlineExceeded)
		sink.Reset()
		_ = st.RawWrite // the soft-cancel packet flushed what was buffered; buffer a new frame is impossible now
		want = nil
	}
	before := sink.Len()
	ferr := st.RawFlush()
	var fails []string
	if want != nil && !errors.Is(ferr, want) {
		fails = append(fails, fmt.Sprintf("[%s %s RawFlush]: the flush of frames buffered before the cancellation returned %s, want the cancellation's error (%v)", how, cause, rig.ErrStr(ferr), want))
	}
	if sink.Len() != before {
		fails = append(fails, fmt.Sprintf("[%s %s RawFlush]: %d bytes were emitted by a flush after the stream was cancelled", how, cause, sink.Len()-before))
	}
	if len(fails) > 0 {
		return runner.Violation(id, "state-machine:flush-after-cancel", strings.Join(fails, "\n"))
	}
	res := runner.Hold(id, id, true)
	res.Events = 3
	return res
}

// recvFlushParked: something is buffered (the invoke a connection writes when it makes the stream, or
// sends under manual flushing), a receive flushes it and that write is parked inside the transport;
// the stream is cancelled meanwhile; the write is let go. The receive is the only operation in flight:
// once it has returned the stream must be finished (signal, context) like after any other operation.
func recvFlushParked(id string, how string, cause string, raw bool) runner.Result {
	gw := &gateWriter{parkAt: 0, reached: make(chan struct{}), release: make(chan struct{})}
	wr := drpcwire.NewWriter(gw, 1<<20)
	st := drpcstream.NewWithOptions(context.Background(), streamID, wr, drpcstream.Options{ManualFlush: how == "manual-send"})
	d := payload.Make(1, 0, 0, 1, 100)
	var err error
	if how == "manual-send" {
		err = st.MsgSend(&d, payload.Enc{})
	} else {
		err = st.RawWrite(drpcwire.KindInvoke, []byte("/rpc"))
	}
	if err != nil {
		return runner.Inconcl(id, "setup write failed: "+err.Error())
	}
	recv := rig.Go("recv", func() (interface{}, error) {
		if raw {
			_, err := st.RawRecv()
			return nil, err
		}
		var m []byte
		return nil, st.MsgRecv(&m, payload.Enc{})
	})
	if s, _ := census.QuiesceOr(gw.reached, rig.Watchdog); s != "ready" {
		close(gw.release)
		return runner.Inconcl(id, "the receive's flush did not reach the transport")
	}
	canceller := rig.Go("cancel", func() (interface{}, error) {
		switch cause {
		case "Cancel":
			st.Cancel(errCancel)
		case "remote-cancel":
			st.HandlePacket(drpcwire.Packet{ID: drpcwire.ID{Stream: streamID, Message: 1}, Kind: drpcwire.KindCancel, Control: true})
		case "remote-error":
			st.HandlePacket(drpcwire.Packet{ID: drpcwire.ID{Stream: streamID, Message: 1}, Kind: drpcwire.KindError, Data: drpcwire.MarshalError(errors.New("remote failed"))})
		}
		return nil, nil
	})
	census.Quiesce(rig.Watchdog)
	close(gw.release)
	census.Quiesce(rig.Watchdog)
	where := fmt.Sprintf("[%s, receive (raw=%v) whose flush is parked in the transport, %s, write released]", how, raw, cause)
	var fails []string
	if !recv.Returned() || !canceller.Returned() {
		fails = append(fails, fmt.Sprintf("%s: receive returned=%v, cancelling call returned=%v at quiescence", where, recv.Returned(), canceller.Returned()))
	} else {
		if recv.Err == nil {
			fails = append(fails, where+": the receive returned nil")
		}
		select {
		case <-st.Finished():
		default:
			fails = append(fails, where+": the stream is terminated and no operation is in flight, but it is not finished")
		}
		if st.Context().Err() == nil {
			fails = append(fails, where+": the stream's context is not done although the stream should be finished")
		}
	}
	if len(fails) > 0 {
		return runner.Violation(id, "state-machine:not-finished-after-receive-flush", strings.Join(fails, "\n"))
	}
	res := runner.Hold(id, where, true)
	res.Events = 3
	return res
}

// sharedWriter: two streams of one connection share the writer. Stream 1 leaves something buffered
// (a RawWrite, or sends under SetManualFlush) and is ended by the peer; stream 2 is made afterwards, as
// a connection does, and sends. Nothing of stream 1 may be emitted after its termination: the wire must
// carry stream 2's frames only.
func sharedWriter(id string, how string, end string) runner.Result {
	var sink lockedBuffer
	wr := drpcwire.NewWriter(&sink, 1<<20)
	st1 := drpcstream.NewWithOptions(context.Background(), 1, wr, drpcstream.Options{})
	d := payload.Make(1, 0, 0, 1, 40)
	var err error
	switch how {
	case "raw-write":
		err = st1.RawWrite(drpcwire.KindMessage, d)
	case "set-manual-flush":
		st1.SetManualFlush(true)
		err = st1.MsgSend(&d, payload.Enc{})
		st1.SetManualFlush(false)
	}
	if err != nil {
		return runner.Inconcl(id, "setup write failed: "+err.Error())
	}
	switch end {
	case "remote-error":
		st1.HandlePacket(drpcwire.Packet{ID: drpcwire.ID{Stream: 1, Message: 1}, Kind: drpcwire.KindError, Data: drpcwire.MarshalError(errors.New("remote failed"))})
	case "remote-close":
		st1.HandlePacket(drpcwire.Packet{ID: drpcwire.ID{Stream: 1, Message: 1}, Kind: drpcwire.KindClose})
	case "remote-cancel":
		st1.HandlePacket(drpcwire.Packet{ID: drpcwire.ID{Stream: 1, Message: 1}, Kind: drpcwire.KindCancel, Control: true})
	case "local-cancel":
		st1.Cancel(errCancel)
	}
	where := fmt.Sprintf("[stream 1: %s left unflushed, then %s; stream 2 made on the same writer sends one message]", how, end)
	select {
	case <-st1.Finished():
	default:
		return runner.Violation(id, "state-machine:shared-writer-first-stream-not-finished", where+": stream 1 is terminated with nothing in flight but not finished")
	}
	before := sink.Len()
	st2 := drpcstream.NewWithOptions(context.Background(), 2, wr, drpcstream.Options{})
	d2 := payload.Make(2, 0, 0, 1, 10)
	if err := st2.MsgSend(&d2, payload.Enc{}); err != nil {
		return runner.Inconcl(id, "stream 2 send failed: "+err.Error())
	}
	st2.Close()
	sink.mu.Lock()
	wire := append([]byte(nil), sink.b.Bytes()[before:]...)
	sink.mu.Unlock()
	var fails []string
	for len(wire) > 0 {
		rem, fr, ok, perr := drpcwire.ParseFrame(wire)
		if !ok || perr != nil {
			fails = append(fails, where+": the bytes written after stream 1 ended are not whole frames")
			break
		}
		if fr.ID.Stream != 2 {
			fails = append(fails, fmt.Sprintf("%s: a frame of stream %d (kind %v, %d bytes) was emitted after that stream had terminated", where, fr.ID.Stream, fr.Kind, len(fr.Data)))
			break
		}
		wire = rem
	}
	if len(fails) > 0 {
		return runner.Violation(id, "state-machine:emitted-after-termination-through-the-shared-writer", strings.Join(fails, "\n"))
	}
	res := runner.Hold(id, where, true)
	res.Events = 3
	return res
}

// parentContext: the context a stream is made from ends (cancel or deadline) without the stream being
// told. The stream is still open: its own context must not report an error before the stream has
// finished, and must report exactly context.Canceled once it has.
func parentContext(id string, deadline bool) runner.Result {
	var sink lockedBuffer
	wr := drpcwire.NewWriter(&sink, 1)
	parent, cancel := context.WithCancel(context.Background())
	if deadline {
		parent, cancel = context.WithDeadline(context.Background(), time.Now().Add(-time.Second))
	}
	defer cancel()
	st := drpcstream.NewWithOptions(parent, streamID, wr, drpcstream.Options{})
	cancel()
	where := fmt.Sprintf("[parent context ended (deadline=%v), stream not told]", deadline)
	var fails []string
	check := func(step string, wantFin bool) {
		fin := false
		select {
		case <-st.Finished():
			fin = true
		default:
		}
		done := false
		select {
		case <-st.Context().Done():
			done = true
		default:
		}
		cerr := st.Context().Err()
		if fin != wantFin {
			fails = append(fails, fmt.Sprintf("%s %s: finished=%v, want %v", where, step, fin, wantFin))
		}
		if done != fin || (cerr != nil) != fin || (fin && !errors.Is(cerr, context.Canceled)) {
			fails = append(fails, fmt.Sprintf("%s %s: Context().Done() closed=%v, Context().Err()=%v while finished=%v (the context is done, with context.Canceled, exactly when the stream is finished)", where, step, done, cerr, fin))
		}
	}
	check("after the parent ended", false)
	d := payload.Make(1, 0, 0, 1, 10)
	if err := st.MsgSend(&d, payload.Enc{}); err != nil {
		fails = append(fails, where+": a send on the open stream failed: "+err.Error())
	}
	check("after a send", false)
	st.CloseSend()
	check("after CloseSend", false)
	st.Cancel(errCancel)
	check("after Cancel", true)
	if len(fails) > 0 {
		return runner.Violation(id, "state-machine:context-error-before-finished", strings.Join(fails, "\n"))
	}
	res := runner.Hold(id, where, true)
	res.Events = 4
	return res
}

// blockFailEnc is an encoding whose Marshal waits for a signal and then rejects the message.
type blockFailEnc struct {
	entered chan struct{}
	release chan struct{}
}

func (e blockFailEnc) Marshal(msg drpc.Message) ([]byte, error) {
	close(e.entered)
	<-e.release
	return nil, errors.New("encoder rejects the message")
}
func (e blockFailEnc) Unmarshal(buf []byte, msg drpc.Message) error {
	return payload.Enc{}.Unmarshal(buf, msg)
}

// failedSendWithReceive: the invoke is buffered (as a connection leaves it), the stream's first send
// is inside its encoder when a receive is issued on another goroutine, and the encoder then rejects the
// message. One of the two calls has to put the buffered invoke on the wire, or the receive waits for
// a peer that was never told about the rpc.
func failedSendWithReceive(id string, manual bool) runner.Result {
	var sink lockedBuffer
	wr := drpcwire.NewWriter(&sink, 1<<20)
	st := drpcstream.NewWithOptions(context.Background(), streamID, wr, drpcstream.Options{ManualFlush: manual})
	if err := st.RawWrite(drpcwire.KindInvoke, []byte("/rpc")); err != nil {
		return runner.Inconcl(id, "setup write failed: "+err.Error())
	}
	enc := blockFailEnc{entered: make(chan struct{}), release: make(chan struct{})}
	d := []byte("x")
	send := rig.Go("send", func() (interface{}, error) { return nil, st.MsgSend(&d, enc) })
	if s, _ := census.QuiesceOr(enc.entered, rig.Watchdog); s != "ready" {
		close(enc.release)
		return runner.Inconcl(id, "the send did not reach its encoder")
	}
	recv := rig.Go("recv", func() (interface{}, error) {
		var m []byte
		return nil, st.MsgRecv(&m, payload.Enc{})
	})
	census.Quiesce(rig.Watchdog)
	close(enc.release)
	census.Quiesce(rig.Watchdog)
	where := fmt.Sprintf("[buffered invoke, first send inside its encoder, receive issued (manual flush=%v), encoder rejects the message]", manual)
	var fails []string
	if !send.Returned() || send.Err == nil {
		fails = append(fails, fmt.Sprintf("%s: the send returned=%v err=%v, want the encoder's error", where, send.Returned(), send.Err))
	}
	if sink.Len() == 0 {
		fails = append(fails, where+": at quiescence the buffered invoke has not been written although a receive is waiting for the peer's answer")
	}
	st.HandlePacket(drpcwire.Packet{ID: drpcwire.ID{Stream: streamID, Message: 1}, Kind: drpcwire.KindMessage, Data: payload.Make(1, 1, 0, 0, 5)})
	census.Quiesce(rig.Watchdog)
	if !recv.Returned() || recv.Err != nil {
		fails = append(fails, fmt.Sprintf("%s: after the peer's message the receive returned=%v err=%v", where, recv.Returned(), recv.Err))
	}
	st.Cancel(errCancel)
	if len(fails) > 0 {
		return runner.Violation(id, "state-machine:buffered-invoke-not-flushed", strings.Join(fails, "\n"))
	}
	res := runner.Hold(id, where, true)
	res.Events = 3
	return res
}

// emitsBeforeReturn: the packets of a call are on the wire when the call returns (automatic flushing),
// whatever the stream's MaximumBufferSize (which only says which marshal buffers are kept) and however
// the message sizes sit around it; the writer's own buffer is larger than any of the messages, so
// nothing reaches the wire unless the stream flushes.
func emitsBeforeReturn(id string, maxbuf int, sizes []int) runner.Result {
	var sink lockedBuffer
	wr := drpcwire.NewWriter(&sink, 1<<16)
	st := drpcstream.NewWithOptions(context.Background(), streamID, wr, drpcstream.Options{MaximumBufferSize: maxbuf})
	where := fmt.Sprintf("[stream MaximumBufferSize=%d, writer buffer 64 KiB, sends of %v bytes]", maxbuf, sizes)
	var fails []string
	count := func() (msgs int, bad string) {
		sink.mu.Lock()
		b := append([]byte(nil), sink.b.Bytes()...)
		sink.mu.Unlock()
		for len(b) > 0 {
			rem, fr, ok, err := drpcwire.ParseFrame(b)
			if err != nil || !ok {
				return msgs, fmt.Sprintf("the wire ends inside a frame (%d bytes left over, err=%v)", len(b), err)
			}
			if fr.Kind == drpcwire.KindMessage && fr.Done {
				msgs++
			}
			b = rem
		}
		return msgs, ""
	}
	for i, sz := range sizes {
		d := make([]byte, sz)
		for j := range d {
			d[j] = byte(i + 1)
		}
		if err := st.MsgSend(&d, payload.Enc{}); err != nil {
			fails = append(fails, fmt.Sprintf("%s: send #%d failed on an open stream: %v", where, i+1, err))
			break
		}
		if n, bad := count(); bad != "" || n != i+1 {
			fails = append(fails, fmt.Sprintf("%s: send #%d (%d bytes) returned nil and %d complete message packets are on the wire, want %d %s", where, i+1, sz, n, i+1, bad))
			break
		}
	}
	st.Cancel(errCancel)
	if len(fails) > 0 {
		return runner.Violation(id, "state-machine:send-returned-before-its-packet-was-emitted", strings.Join(fails, "\n"))
	}
	res := runner.Hold(id, where, true)
	res.Events = int64(len(sizes))
	return res
}

// terminalCallInTransport: the write of a terminal call (Close, CloseSend, SendError, SendCancel) is
// inside the io.Writer when the stream is cancelled, and that write then fails, as it does when a hard
// cancel closes the transport under it. The call was in progress when the cancel happened: it reports
// the cancel's error, by whichever of the writer's two ways (a frame written through at once because
// the buffer is small or full, or the flush) its bytes reached the transport.
func terminalCallInTransport(id string, op string, how string) runner.Result {
	gw := &gateWriter{parkAt: 0, reached: make(chan struct{}), release: make(chan struct{}), failErr: io.ErrClosedPipe}
	size, manual := 1, false
	text := "handler failed"
	switch how {
	case "default-writer-long-error-text":
		size, text = 4096, strings.Repeat("e", 5000)
	case "default-writer-flush":
		size = 4096
	case "manual-flush-buffered-message":
		size, manual = 64, true
	}
	wr := drpcwire.NewWriter(gw, size)
	st := drpcstream.NewWithOptions(context.Background(), streamID, wr, drpcstream.Options{ManualFlush: manual})
	if manual {
		d := make([]byte, 40)
		if err := st.MsgSend(&d, payload.Enc{}); err != nil {
			return runner.Inconcl(id, "setup send failed")
		}
	}
	call := rig.Go(op, func() (interface{}, error) {
		switch op {
		case "Close":
			return nil, st.Close()
		case "CloseSend":
			return nil, st.CloseSend()
		case "SendError":
			return nil, st.SendError(errors.New(text))
		}
		_, err := st.SendCancel(errors.New("soft"))
		return nil, err
	})
	where := fmt.Sprintf("[%s whose write is inside the io.Writer (%s), Cancel, the write then fails]", op, how)
	if s, _ := census.QuiesceOr(gw.reached, rig.Watchdog); s != "ready" {
		close(gw.release)
		return runner.Inconcl(id, where+": the call's write did not reach the io.Writer")
	}
	canc := rig.Go("Cancel", func() (interface{}, error) { st.Cancel(errCancel); return nil, nil })
	census.Quiesce(rig.Watchdog)
	close(gw.release)
	census.Quiesce(rig.Watchdog)
	var fails []string
	if !call.Returned() || !canc.Returned() {
		fails = append(fails, fmt.Sprintf("%s: at quiescence the call returned=%v, Cancel returned=%v", where, call.Returned(), canc.Returned()))
	} else if !errors.Is(call.Err, errCancel) {
		fails = append(fails, fmt.Sprintf("%s: the call returned %v, want the error given to Cancel", where, call.Err))
	}
	if len(fails) > 0 {
		return runner.Violation(id, "state-machine:terminal-call-in-transport-does-not-report-the-cancel-error", strings.Join(fails, "\n"))
	}
	res := runner.Hold(id, where, true)
	res.Events = 3
	return res
}

// manualFlushToggles: the flush mode is an option of the stream and can be switched with
// SetManualFlush; what counts is the mode in force when a call is made. With the invoke still in the
// writer (as a connection leaves it): a first receive puts it on the wire in either mode; a send
// that returns nil has its message on the wire if the mode in force is automatic.
func manualFlushToggles(id string, optManual bool, toggles []bool, first string) runner.Result {
	var sink lockedBuffer
	wr := drpcwire.NewWriter(&sink, 1<<16)
	st := drpcstream.NewWithOptions(context.Background(), streamID, wr, drpcstream.Options{ManualFlush: optManual})
	if err := st.RawWrite(drpcwire.KindInvoke, []byte("/rpc")); err != nil {
		return runner.Inconcl(id, "setup write failed: "+err.Error())
	}
	manual := optManual
	for _, t := range toggles {
		st.SetManualFlush(t)
		manual = t
	}
	where := fmt.Sprintf("[option ManualFlush=%v, SetManualFlush%v, invoke buffered, then %s first]", optManual, toggles, first)
	kinds := func() (out []drpcwire.Kind) {
		sink.mu.Lock()
		b := append([]byte(nil), sink.b.Bytes()...)
		sink.mu.Unlock()
		for len(b) > 0 {
			rem, fr, ok, err := drpcwire.ParseFrame(b)
			if err != nil || !ok {
				break
			}
			if fr.Done {
				out = append(out, fr.Kind)
			}
			b = rem
		}
		return out
	}
	var fails []string
	var recv *rig.Op
	if first == "receive" {
		recv = rig.Go("recv", func() (interface{}, error) {
			var m []byte
			return nil, st.MsgRecv(&m, payload.Enc{})
		})
		census.Quiesce(rig.Watchdog)
		if k := kinds(); len(k) != 1 || k[0] != drpcwire.KindInvoke {
			fails = append(fails, fmt.Sprintf("%s: a receive is waiting and the wire holds %v, want the buffered invoke: the peer has not been told about the rpc", where, k))
		}
	}
	d := []byte("hello")
	if err := st.MsgSend(&d, payload.Enc{}); err != nil {
		fails = append(fails, fmt.Sprintf("%s: send failed: %v", where, err))
	} else if k := kinds(); !manual && (len(k) != 2 || k[1] != drpcwire.KindMessage) {
		fails = append(fails, fmt.Sprintf("%s: the send returned nil with automatic flushing in force and the wire holds %v, want the invoke and the message", where, k))
	}
	if recv != nil {
		st.HandlePacket(drpcwire.Packet{ID: drpcwire.ID{Stream: streamID, Message: 1}, Kind: drpcwire.KindMessage, Data: payload.Make(1, 1, 0, 0, 5)})
		census.Quiesce(rig.Watchdog)
		if !recv.Returned() || recv.Err != nil {
			fails = append(fails, fmt.Sprintf("%s: after the peer's message the receive returned=%v err=%v", where, recv.Returned(), recv.Err))
		}
	}
	st.Cancel(errCancel)
	if len(fails) > 0 {
		return runner.Violation(id, "state-machine:flush-mode-in-force-not-honoured", strings.Join(fails, "\n"))
	}
	res := runner.Hold(id, where, true)
	res.Events = int64(2 + len(toggles))
	return res
}

// seqGateWriter parks every write in turn: write i returns when release(i) is called.
type seqGateWriter struct {
	mu      sync.Mutex
	n       int
	reached []chan struct{}
	release []chan struct{}
}

func newSeqGateWriter(k int) *seqGateWriter {
	g := &seqGateWriter{}
	for i := 0; i < k; i++ {
		g.reached = append(g.reached, make(chan struct{}))
		g.release = append(g.release, make(chan struct{}))
	}
	return g
}

func (g *seqGateWriter) Write(p []byte) (int, error) {
	g.mu.Lock()
	i := g.n
	g.n++
	g.mu.Unlock()
	census.Bump()
	if i < len(g.reached) {
		close(g.reached[i])
		<-g.release[i]
		census.Bump()
	}
	return len(p), nil
}

// queuedTerminalThenInTransport: a send is inside the transport, a terminal call (or a second send
// followed by one) queues behind it on the stream's write lock, the send completes, and the queued
// call's own packet is now inside the transport. The stream may be terminated by then; it is not
// finished and its context is not done while that call is still in flight.
func queuedTerminalThenInTransport(id string, op string) runner.Result {
	gw := newSeqGateWriter(2)
	wr := drpcwire.NewWriter(gw, 1)
	st := drpcstream.NewWithOptions(context.Background(), streamID, wr, drpcstream.Options{})
	d := []byte("first")
	send := rig.Go("send", func() (interface{}, error) { return nil, st.MsgSend(&d, payload.Enc{}) })
	where := fmt.Sprintf("[send inside the transport, %s queued behind it, the send completes, %s's own packet inside the transport]", op, op)
	if s, _ := census.QuiesceOr(gw.reached[0], rig.Watchdog); s != "ready" {
		return runner.Inconcl(id, where+": the send did not reach the transport")
	}
	call := rig.Go(op, func() (interface{}, error) {
		switch op {
		case "Close":
			return nil, st.Close()
		case "CloseSend":
			return nil, st.CloseSend()
		}
		return nil, st.SendError(errors.New("failed"))
	})
	census.Quiesce(rig.Watchdog)
	if op == "CloseSend" {
		// the peer has half-closed already: this half-close is what terminates the stream
		go st.HandlePacket(drpcwire.Packet{ID: drpcwire.ID{Stream: streamID, Message: 1}, Kind: drpcwire.KindCloseSend})
		census.Quiesce(rig.Watchdog)
	}
	close(gw.release[0])
	s2, _ := census.QuiesceOr(gw.reached[1], rig.Watchdog)
	census.Quiesce(rig.Watchdog)
	var fails []string
	if s2 == "ready" && !call.Returned() {
		if st.IsFinished() {
			fails = append(fails, where+": the stream reports finished while the call is still writing its packet")
		}
		select {
		case <-st.Context().Done():
			fails = append(fails, where+": the stream's context is done while the call is still writing its packet")
		default:
		}
	}
	close(gw.release[1])
	census.Quiesce(rig.Watchdog)
	if !send.Returned() || !call.Returned() {
		fails = append(fails, fmt.Sprintf("%s: at the end send returned=%v, %s returned=%v", where, send.Returned(), op, call.Returned()))
	} else if !st.IsFinished() {
		fails = append(fails, where+": every call returned and the stream is terminated but not finished")
	}
	st.Cancel(errCancel)
	if len(fails) > 0 {
		return runner.Violation(id, "state-machine:finished-while-a-queued-call-is-in-flight", strings.Join(fails, "\n"))
	}
	res := runner.Hold(id, where, s2 == "ready")
	res.Events = 3
	return res
}

// queuedWriteCancelled: a send is inside the transport, a second write (MsgSend, RawWrite, RawFlush of
// buffered data) of another goroutine waits for the stream's write lock, and the stream is cancelled
// locally. Both writes were in progress when the cancel happened: both report the error given to
// Cancel, whichever entry point they came through. A write issued after the cancel gets io.EOF.
func queuedWriteCancelled(id string, op string) runner.Result {
	gw := newSeqGateWriter(1)
	wr := drpcwire.NewWriter(gw, 1)
	st := drpcstream.NewWithOptions(context.Background(), streamID, wr, drpcstream.Options{})
	d := []byte("first")
	send := rig.Go("send", func() (interface{}, error) { return nil, st.MsgSend(&d, payload.Enc{}) })
	where := fmt.Sprintf("[send inside the transport, %s of another goroutine waiting for the write lock, Cancel, the transport lets the send go]", op)
	if s, _ := census.QuiesceOr(gw.reached[0], rig.Watchdog); s != "ready" {
		return runner.Inconcl(id, where+": the send did not reach the transport")
	}
	queued := rig.Go(op, func() (interface{}, error) {
		d2 := []byte("second")
		if op == "MsgSend" {
			return nil, st.MsgSend(&d2, payload.Enc{})
		}
		return nil, st.RawWrite(drpcwire.KindMessage, d2)
	})
	census.Quiesce(rig.Watchdog)
	canc := rig.Go("Cancel", func() (interface{}, error) { st.Cancel(errCancel); return nil, nil })
	census.Quiesce(rig.Watchdog)
	close(gw.release[0])
	census.Quiesce(rig.Watchdog)
	var fails []string
	for name, o := range map[string]*rig.Op{"the send that was inside the transport": send, "the queued " + op: queued} {
		if !o.Returned() {
			fails = append(fails, where+": "+name+" has not returned")
		} else if !errors.Is(o.Err, errCancel) {
			fails = append(fails, fmt.Sprintf("%s: %s returned %v, want the error given to Cancel", where, name, o.Err))
		}
	}
	if !canc.Returned() {
		fails = append(fails, where+": Cancel has not returned")
	}
	d3 := []byte("late")
	if err := st.RawWrite(drpcwire.KindMessage, d3); !errors.Is(err, io.EOF) {
		fails = append(fails, fmt.Sprintf("%s: a RawWrite issued after the cancel returned %v, want io.EOF", where, err))
	}
	sort.Strings(fails)
	if len(fails) > 0 {
		return runner.Violation(id, "state-machine:queued-write-does-not-report-the-cancel-error", strings.Join(fails, "\n"))
	}
	res := runner.Hold(id, where, true)
	res.Events = 4
	return res
}

// lockedBuffer is a bytes.Buffer safe for one writer and a reader of Len.
type lockedBuffer struct {
	mu sync.Mutex
	b  bytes.Buffer
}

func (l *lockedBuffer) Write(p []byte) (int, error) {
	l.mu.Lock()
	defer l.mu.Unlock()
	return l.b.Write(p)
}
func (l *lockedBuffer) Len() int {
	l.mu.Lock()
	defer l.mu.Unlock()
	return l.b.Len()
}

// failKey reduces a failure message to its kind (the part after the position).
func failKey(s string) string {
	if i := strings.Index(s, "]: "); i >= 0 {
		s = s[i+3:]
	}
	for _, cut := range []string{" (", ";", ","} {
		if j := strings.Index(s, cut); j > 0 {
			s = s[:j]
		}
	}
	f := strings.Fields(s)
	if len(f) > 6 {
		f = f[:6]
	}
	for k, w := range f {
		if strings.ContainsAny(w, "#0123456789") {
			f[k] = strings.Map(func(r rune) rune {
				if r >= '0' && r <= '9' {
					return -1
				}
				return r
			}, w)
		}
	}
	return strings.Join(f, "-")
}

// heldScenario: a receive is parked between taking the delivered message and
// releasing it (inside Unmarshal), a terminating event T arrives, then another
// call completes. The stream is terminated but must not be finished while the
// receive is in flight.
func heldScenario(id, t, follow string) runner.Result {
	d := director.New(nil)
	director.Install(d)
	defer director.Install(nil)
	park := d.ParkAt("stream.msgrecv.held", nil, 1)
	r := newRun(id, []string{RM, R, t, follow}, -1)
	var fails []string
	pkt := r.remote(RM)
	r.pkts <- pkt
	recv := r.local(R, 1)
	if st, _ := census.QuiesceOr(park.Reached(), rig.Watchdog); st != "ready" {
		park.Release()
		r.st.Cancel(errors.New("teardown"))
		close(r.pkts)
		return runner.Inconcl(id, "receive did not reach the held point: "+st)
	}
	var top *opRec
	switch t {
	case X:
		top = r.local(X, 2)
	default:
		r.pkts <- r.remote(t)
	}
	census.Quiesce(rig.Watchdog)
	if !r.st.IsTerminated() {
		fails = append(fails, fmt.Sprintf("after %s with a receive in flight: not terminated", t))
	}
	var fop *opRec
	switch follow {
	case S:
		fop = r.local(S, 3)
	case "F":
		fop = &opRec{sym: "F", idx: 3}
		fop.op = rig.Go("F", func() (interface{}, error) { return nil, r.st.RawFlush() })
	}
	census.Quiesce(rig.Watchdog)
	if !fop.op.Returned() {
		fails = append(fails, fmt.Sprintf("%s after %s did not return while a receive was in flight", follow, t))
	} else if follow == S && fop.op.Err == nil {
		fails = append(fails, "MsgSend succeeded on a terminated stream")
	}
	if recv.op.Returned() {
		fails = append(fails, "the parked receive returned before it was released")
	}
	if r.st.IsFinished() || rig.IsClosed(r.st.Finished()) || rig.IsClosed(r.st.Context().Done()) {
		fails = append(fails, fmt.Sprintf("[rM R(held) %s %s]: stream reports finished / context done while a receive is still in flight", t, follow))
	}
	park.Release()
	census.Quiesce(rig.Watchdog)
	if !recv.op.Returned() || recv.op.Err != nil || !bytes.Equal(recv.got, pkt.Data) {
		fails = append(fails, fmt.Sprintf("the in-flight receive must complete with the message it had taken; returned=%v err=%s", recv.op.Returned(), rig.ErrStr(recv.op.Err)))
	}
	if top != nil && !top.op.Returned() {
		fails = append(fails, "Cancel did not return after the receive completed")
	}
	if !r.st.IsFinished() || !rig.IsClosed(r.st.Context().Done()) {
		fails = append(fails, "stream not finished after every call returned")
	}
	r.st.Cancel(errors.New("teardown"))
	close(r.pkts)
	census.QuiesceOr(r.rdDone, rig.Watchdog)
	if len(fails) > 0 {
		return runner.Violation(id, "state-machine:held:"+failKey(fails[0]), strings.Join(fails, "\n"))
	}
	res := runner.Hold(id, id, true)
	res.Events = 5
	return res
}

func gen(tier string, seed uint64) []runner.Scenario {
	var out []runner.Scenario
	for _, t := range []string{X} {
		for _, f := range []string{S, "F"} {
			t, f := t, f
			id := fmt.Sprintf("held/rM.R@unmarshal.%s.%s", t, f)
			out = append(out, runner.Scenario{ID: id, Run: func() runner.Result { return heldScenario(id, t, f) }})
		}
	}
	maxLen := 3
	if tier == "thorough" {
		maxLen = 4
	}
	var rec func(prefix []string)
	addSeq := func(seq []string, park int) {
		s := append([]string(nil), seq...)
		id := strings.Join(s, ".")
		if park >= 0 {
			id += fmt.Sprintf("/park@%d", park)
		}
		out = append(out, runner.Scenario{ID: id, Run: func() runner.Result { return runSequence(id, s, park) }})
	}
	rec = func(prefix []string) {
		if len(prefix) > 0 {
			addSeq(prefix, -1)
		}
		if len(prefix) == maxLen {
			return
		}
		for _, a := range alphabet {
			rec(append(prefix, a))
		}
	}
	rec(nil)
	// parked-write variants: every sequence up to length 3 (quick) / 4 (thorough) x every step that may emit
	parkLen := 3
	if tier == "thorough" {
		parkLen = 4
	}
	var recP func(prefix []string)
	recP = func(prefix []string) {
		if len(prefix) >= 2 {
			for p, sym := range prefix[:len(prefix)-1] {
				if sym == S || sym == W || sym == CS || sym == C || sym == E || sym == SC {
					addSeq(prefix, p)
				}
			}
		}
		if len(prefix) == parkLen {
			return
		}
		for _, a := range alphabet {
			recP(append(prefix, a))
		}
	}
	recP(nil)
	for _, how := range []string{"manual-send", "raw-write"} {
		for _, cause := range []string{"Cancel", "remote-cancel", "SendCancel"} {
			how, cause := how, cause
			id := fmt.Sprintf("buffered-flush/%s/%s", how, cause)
			out = append(out, runner.Scenario{ID: id, Run: func() runner.Result { return bufferedFlush(id, how, cause) }})
			if cause != "SendCancel" {
				for _, raw := range []bool{false, true} {
					how2, cause2, raw := how, cause, raw
					if how2 != "manual-send" {
						how2 = "buffered-invoke"
					}
					id2 := fmt.Sprintf("recv-flush-parked/%s/%s/raw=%v", how2, cause2, raw)
					out = append(out, runner.Scenario{ID: id2, Run: func() runner.Result { return recvFlushParked(id2, how2, cause2, raw) }})
				}
			}
		}
	}
	for _, how := range []string{"raw-write", "set-manual-flush"} {
		for _, end := range []string{"remote-error", "remote-close", "remote-cancel", "local-cancel"} {
			how, end := how, end
			id := fmt.Sprintf("shared-writer/%s/%s", how, end)
			out = append(out, runner.Scenario{ID: id, Run: func() runner.Result { return sharedWriter(id, how, end) }})
		}
	}
	for _, op := range []string{"MsgSend", "RawWrite"} {
		for rep := 0; rep < 3; rep++ {
			op := op
			id := fmt.Sprintf("queued-write-cancelled/%s/%d", op, rep)
			out = append(out, runner.Scenario{ID: id, Run: func() runner.Result { return queuedWriteCancelled(id, op) }})
		}
	}
	for _, op := range []string{"Close", "CloseSend", "SendError"} {
		for rep := 0; rep < 3; rep++ {
			op := op
			id := fmt.Sprintf("queued-terminal-then-in-transport/%s/%d", op, rep)
			out = append(out, runner.Scenario{ID: id, Run: func() runner.Result { return queuedTerminalThenInTransport(id, op) }})
		}
	}
	for _, optManual := range []bool{false, true} {
		for ti, toggles := range [][]bool{{}, {true}, {false}, {true, false}, {false, true}, {true, false, true, false}, {true, true, false}} {
			for _, first := range []string{"receive", "send"} {
				optManual, toggles, first := optManual, toggles, first
				id := fmt.Sprintf("manual-flush-toggles/option=%v/%d/%s-first", optManual, ti, first)
				out = append(out, runner.Scenario{ID: id, Run: func() runner.Result { return manualFlushToggles(id, optManual, toggles, first) }})
			}
		}
	}
	for _, op := range []string{"Close", "CloseSend", "SendError", "SendCancel"} {
		for _, how := range []string{"writer-of-1-byte", "default-writer-flush", "default-writer-long-error-text", "manual-flush-buffered-message"} {
			if how == "default-writer-long-error-text" && op != "SendError" {
				continue
			}
			op, how := op, how
			id := fmt.Sprintf("terminal-call-in-transport/%s/%s", op, how)
			out = append(out, runner.Scenario{ID: id, Run: func() runner.Result { return terminalCallInTransport(id, op, how) }})
		}
	}
	for _, maxbuf := range []int{0, 1, 16, 64, 1024, 1 << 20} {
		for k, sizes := range [][]int{{0, 1}, {15, 16, 17}, {63, 64, 65}, {5, 200, 5}, {1023, 1024, 1025, 3}, {2000, 0, 2000}} {
			maxbuf, sizes := maxbuf, sizes
			id := fmt.Sprintf("emits-before-return/maxbuf=%d/%d", maxbuf, k)
			out = append(out, runner.Scenario{ID: id, Run: func() runner.Result { return emitsBeforeReturn(id, maxbuf, sizes) }})
		}
	}
	for _, deadline := range []bool{false, true} {
		deadline := deadline
		id := fmt.Sprintf("parent-context/deadline=%v", deadline)
		out = append(out, runner.Scenario{ID: id, Run: func() runner.Result { return parentContext(id, deadline) }})
	}
	for _, manual := range []bool{false, true} {
		manual := manual
		id := fmt.Sprintf("failed-send-with-receive/manual=%v", manual)
		out = append(out, runner.Scenario{ID: id, Run: func() runner.Result { return failedSendWithReceive(id, manual) }})
	}
	// directed sequences around one parked write: sends, raw writes and terminal calls queue up behind
	// it while packets arrive, and a receive is issued in that state (it must not wait for the write lock
	// once a send has been made, and must get what has been delivered)
	for _, first := range []string{W, S} {
		for _, q := range [][]string{{S}, {W}, {S, S}, {S, W}, {CS}, {S, CS}, {}} {
			for _, pk := range []string{RM, RCS, RMU} {
				for _, tail := range [][]string{{R}, {R, R}, {R, CS}} {
					seq := append(append(append([]string{first}, q...), pk), tail...)
					id := fmt.Sprintf("directed/%s/park@0", strings.Join(seq, "."))
					sq := seq
					out = append(out, runner.Scenario{ID: id, Run: func() runner.Result { return runSequence(id, sq, 0) }})
				}
			}
		}
	}
	// seeded longer sequences
	n := 2000
	if tier == "thorough" {
		n = 150000
	}
	r := payload.SplitMix{S: payload.Hash(seed, 0xC03)}
	for i := 0; i < n; i++ {
		l := 5 + r.Intn(4)
		seq := make([]string, l)
		for k := range seq {
			seq[k] = alphabet[r.Intn(len(alphabet))]
			// bias towards non-terminal symbols so sequences stay interesting
			if r.Intn(3) == 0 {
				seq[k] = []string{S, W, R, RM, RUC, RF, CS, RCS, RMU}[r.Intn(9)]
			}
		}
		park := -1
		if r.Intn(2) == 0 {
			park = r.Intn(l - 1)
		}
		id := fmt.Sprintf("seeded/%d/%s/park@%d", i, strings.Join(seq, "."), park)
		s := seq
		out = append(out, runner.Scenario{ID: id, Run: func() runner.Result { return runSequence(id, s, park) }})
	}
	return out
}

func main() {
	runner.Main(runner.Check{
		Property: "C03",
		Level:    "exploration",
		Rule:     "one case = one sequence over the 18-symbol alphabet {MsgSend, RawWrite, MsgRecv, CloseSend, Close, SendError, SendCancel, Cancel, remote Message/undecodable Message/CloseSend/Close/Error/Cancel/Invoke/unknown/unknown+control/foreign-id}, optionally with the write of one emitting step parked inside the io.Writer while the remaining steps are issued. All sequences of length <= 3 (quick) / <= 4 (thorough) are enumerated, all parked variants of those lengths, plus seeded sequences of length 5-8. After every step the process is quiescent and results, emitted frames (parsed by the reference codec), Terminated/Finished/Context signals are compared with the reference automaton. Non-trivial: length >= 2. Distinct: by sequence and park position.",
		Assumptions: []string{
			"remote packets are delivered by one reader goroutine in order, as a manager does: a packet queued behind a message that nobody receives is not delivered",
			"asserted strictly: idempotent terminal calls, no emission after termination, EOF on send after remote error/cancel (when the local side had not already half-closed), EOF on receive after remote half-close, remote error text and code on receive after remote error, the cancel cause on receive after local cancel, unknown control packets ignored, finished <=> terminated and no call in flight, Context().Err()==context.Canceled exactly when finished; elsewhere only nil vs non-nil",
			"when two calls would queue on the same lock the order is not determined; such steps are skipped (recorded in parentheses) rather than modelled",
		},
		Gen:           gen,
		Shards:        14,
		MinNontrivial: 1000,
		Exhaustive:    func(string) bool { return true },
		Extra: func(tier string) map[string]interface{} {
			return map[string]interface{}{"exhaustive_scope": "all sequences up to the stated length over the 16-symbol alphabet and all their parked-write variants; longer sequences are seeded samples"}
		},
	})
}
