// C12: closing always completes and releases everything.
// Fault enumeration over close points: a dry run of each workload lists the
// internal Points it passes (per role) and its transport writes; for each of
// them the workload is re-run, the goroutine reaching that point (or that
// write) is parked, Close (client conn, once or twice concurrently) or the
// cancellation of the server's context is issued from another goroutine, the
// parked goroutine is released, and the verdict is taken at quiescence by the
// blocked-goroutine census: Close returned, each transport was closed exactly
// once, every call returned and later calls fail, stream contexts are done, no
// library goroutine is left. A Serve family checks that Serve returns only
// after every accepted connection has been torn down.
package main

import (
	"context"
	"errors"
	"fmt"
	"net"
	"runtime"
	"strings"
	"sync"

	"storj.io/drpc"
	"storj.io/drpc/drpcconn"
	"storj.io/drpc/drpcmanager"
	"storj.io/drpc/drpcpool"
	"storj.io/drpc/drpcserver"
	"storj.io/drpc/drpcstream"

	"verifharness/census"
	"verifharness/director"
	"verifharness/payload"
	"verifharness/prog"
	"verifharness/refwire"
	"verifharness/rig"
	"verifharness/runner"
	"verifharness/simnet"
	"verifharness/wiregen"
	"verifharness/wl"
)

func mkConfig(w wl.Workload) prog.Config {
	m := drpcmanager.Options{WriterBufferSize: w.Wbuf, Stream: drpcstream.Options{SplitSize: 1024, ManualFlush: wl.Manual(w.Name)}}
	return prog.Config{Net: simnet.Opts{Cap: w.Capn}, Client: m, Server: m, Desc: w.Name}
}

func scripts2(x *prog.Exec) []*prog.Script {
	var out []*prog.Script
	for _, l := range x.Logs() {
		out = append(out, l.Script)
	}
	return out
}

// closePoint identifies where the close is issued.
type closePoint struct {
	w      int
	role   string // client | server (whose goroutine is parked)
	point  string // point name, or "write#k:before|after"
	nth    int
	action string // conn.Close | conn.Close x2 | serve-cancel
	soft   bool
}

func (c closePoint) String() string {
	return fmt.Sprintf("%s park=%s:%s#%d action=%s soft=%v", wl.Workloads[c.w].Name, c.role, c.point, c.nth, c.action, c.soft)
}

func dry(w wl.Workload, soft bool) (trace []string, writesA, writesB int, ok bool) {
	cfg := mkConfig(w)
	cfg.Client.SoftCancel, cfg.Server.SoftCancel = soft, soft
	x := prog.New(cfg, w.Scripts())
	defer x.Rig.Teardown()
	x.Rig.Dir.Ignore(func(name string) bool { return strings.HasPrefix(name, "signal.") || strings.HasPrefix(name, "chan.") })
	x.Rig.Dir.StartTrace()
	x.Start([][]*prog.Script{scripts2(x)})
	if x.WaitClients() != "ready" {
		return nil, 0, 0, false
	}
	census.Quiesce(rig.Watchdog)
	return x.Rig.Dir.Trace(), x.Rig.Pair.A.WriteCount(), x.Rig.Pair.B.WriteCount(), true
}

func runClose(id string, c closePoint) runner.Result {
	base := census.IDs(census.Snapshot())
	w := wl.Workloads[c.w]
	cfg := mkConfig(w)
	cfg.Client.SoftCancel, cfg.Server.SoftCancel = c.soft, c.soft
	x := prog.New(cfg, w.Scripts())
	x.Rig.Dir.Ignore(func(name string) bool { return strings.HasPrefix(name, "signal.") || strings.HasPrefix(name, "chan.") })
	end := x.Rig.Pair.A
	if c.role == "server" {
		end = x.Rig.Pair.B
	}
	var reachedCh <-chan struct{}
	var release func()
	if strings.HasPrefix(c.point, "write#") {
		var k int
		var when string
		fmt.Sscanf(c.point, "write#%d:%s", &k, &when)
		wh := simnet.Before
		if when == "after" || when == "after-ok" {
			wh = simnet.After
		}
		g := end.GateWriteIdx(k, wh)
		// after-ok: the transport has taken all the bytes of the write and reports success for it
		// even though it is closed meanwhile (a real Write that has handed everything over does)
		g.SucceedOnClose = when == "after-ok"
		g.HoldThroughClose = when == "after-ok" // ... and returns only after the close has been processed
		reachedCh, release = g.Reached(), g.Release
	} else {
		p := x.Rig.Dir.ParkAt(c.point, end, c.nth)
		reachedCh, release = p.Reached(), p.Release
	}
	x.Start([][]*prog.Script{scripts2(x)})
	st, _ := census.QuiesceOr(reachedCh, rig.Watchdog)
	reached := st == "ready"
	if st == "watchdog" {
		release()
		x.Rig.Teardown()
		return runner.Inconcl(id, "watchdog: "+c.String())
	}
	// issue the close while the goroutine is parked
	closeAt := simnet.Tick()
	var closers []*rig.Op
	switch c.action {
	case "conn.Close":
		closers = append(closers, rig.Go("conn.Close", func() (interface{}, error) { return nil, x.Rig.Conn.Close() }))
	case "conn.Close x2":
		for i := 0; i < 2; i++ {
			closers = append(closers, rig.Go("conn.Close", func() (interface{}, error) { return nil, x.Rig.Conn.Close() }))
		}
	case "serve-cancel":
		x.Rig.StopServe()
	}
	census.Quiesce(rig.Watchdog)
	if !strings.HasPrefix(c.point, "write#") || strings.HasSuffix(c.point, ":after-ok") {
		// (after-ok: the held write returns, successfully, now that the close has been processed as far
		// as it can be without it)
		release()
	}
	// a write parked inside the transport is pending I/O: closing must make the
	// transport let go of it by itself, so it is not released before the verdict
	st2, snap := census.QuiesceOr(nil, rig.Watchdog)
	if st2 == "watchdog" {
		release()
		x.Rig.Teardown()
		return runner.Inconcl(id, "watchdog after close: "+c.String())
	}
	defer release()
	var fails []string
	failf := func(f string, a ...interface{}) { fails = append(fails, fmt.Sprintf(f, a...)) }
	for _, cl := range closers {
		if !cl.Returned() {
			failf("Close has not returned although the transport let go of all pending I/O")
		}
	}
	if c.action == "serve-cancel" && !x.Rig.ServeOp.Returned() {
		failf("ServeOne has not returned after its context was cancelled")
	}
	for _, l := range x.Logs() {
		for _, e := range l.Snapshot() {
			if !e.Returned {
				failf("rpc %d %c:%s is still blocked at quiescence after the close", l.Script.Tag, e.Side, e.Op)
			}
		}
		if l.HandlerRan && !l.HandlerDone {
			failf("handler of rpc %d has not returned", l.Script.Tag)
		}
		if l.HandlerRan && l.HandlerCtx != nil && !rig.IsClosed(l.HandlerCtx.Done()) {
			failf("the context of the server stream of rpc %d is not done after the close", l.Script.Tag)
		}
		if l.Stream != nil && !rig.IsClosed(l.Stream.Context().Done()) {
			failf("the context of the client stream of rpc %d is not done after the close", l.Script.Tag)
		}
	}
	// "makes every pending call fail": a call of the closed side that was in progress (inside the
	// transport) when the close was issued must not report success afterwards, even if the transport
	// still completed its write
	closedSide := byte('c')
	if c.action == "serve-cancel" {
		closedSide = 's'
	}
	if strings.HasSuffix(c.point, ":after-ok") && reached && ((c.role == "client") == (closedSide == 'c')) {
		for _, l := range x.Logs() {
			for _, e := range l.Snapshot() {
				pendingKind := e.Op == "send" || e.Op == "send-undecodable" || e.Op == "closesend" || e.Op == "flush" || e.Op == "invoke"
				if e.Side == closedSide && pendingKind && e.Returned && e.Call < closeAt && e.Ret > closeAt && e.Err == nil {
					failf("rpc %d %c:%s was in progress inside the transport when the close was issued and returned nil afterwards (every pending call must fail)", l.Script.Tag, e.Side, e.Op)
				}
			}
		}
	}
	// the close of one side tears the other side down through the transport
	if !x.Rig.ServeOp.Returned() {
		failf("ServeOne has not returned at quiescence")
	}
	if !rig.IsClosed(x.Rig.Conn.Closed()) {
		failf("the client connection does not report closed")
	}
	for _, e := range []*simnet.End{x.Rig.Pair.A, x.Rig.Pair.B} {
		if n := e.CloseCount(); n != 1 {
			failf("the %s transport was closed %d times (must be exactly once)", e.Role, n)
		}
	}
	if left := census.NewSince(census.InDRPC(snap), base); len(left) > 0 {
		failf("library goroutines left behind:\n%s", census.Dump(left))
	}
	if len(fails) == 0 {
		in := payload.Make(9, 0, 0, 0, 5)
		var out []byte
		op := rig.Go("later-invoke", func() (interface{}, error) {
			return nil, x.Rig.Conn.Invoke(context.Background(), prog.RPCName(1), payload.Enc{}, &in, &out)
		})
		if !op.Wait() {
			failf("Invoke after the close blocks")
		} else if op.Err == nil {
			failf("Invoke after the close succeeded")
		}
		op2 := rig.Go("later-newstream", func() (interface{}, error) {
			_, err := x.Rig.Conn.NewStream(context.Background(), prog.RPCName(1), payload.Enc{})
			return nil, err
		})
		if !op2.Wait() {
			failf("NewStream after the close blocks")
		} else if op2.Err == nil {
			failf("NewStream after the close succeeded")
		}
		for _, l := range x.Logs() {
			if l.Stream == nil {
				continue
			}
			stm := l.Stream
			op := rig.Go("later-send", func() (interface{}, error) {
				m := payload.Make(l.Script.Tag, 0, 0, 99, 5)
				return nil, stm.MsgSend(&m, payload.Enc{})
			})
			if !op.Wait() {
				failf("a send on an old stream after the close blocks")
			} else if op.Err == nil {
				failf("a send on an old stream after the close succeeded")
			}
		}
	}
	x.Rig.Teardown()
	if len(fails) > 0 {
		return runner.Violation(id, "close:"+keyOf(fails[0]), c.String()+fmt.Sprintf(" reached=%v", reached)+"\n"+strings.Join(fails, "\n"))
	}
	res := runner.Hold(id, c.String(), reached)
	res.Events = 1
	if reached {
		res.Stats = map[string]int64{"close_points_reached": 1}
	}
	res.Sample = map[string]interface{}{"case": c.String(), "reached": reached}
	return res
}

func keyOf(s string) string {
	if i := strings.Index(s, "\n"); i > 0 {
		s = s[:i]
	}
	s = strings.Map(func(r rune) rune {
		if r >= '0' && r <= '9' {
			return -1
		}
		return r
	}, s)
	f := strings.Fields(s)
	if len(f) > 8 {
		f = f[:8]
	}
	return strings.Join(f, "-")
}

// ---- Serve family ----

type fakeListener struct {
	ch   chan net.Conn
	done chan struct{}
	once sync.Once
	mu   sync.Mutex
	acc  []*simnet.End

	calls        int
	cancelOnCall int // the n-th Accept call (1-based) cancels the server context itself and fails; 0 = never
	cancel       func()
}

func (l *fakeListener) Accept() (net.Conn, error) {
	l.mu.Lock()
	l.calls++
	hit := l.cancelOnCall != 0 && l.calls == l.cancelOnCall
	l.mu.Unlock()
	if hit {
		// the shutdown arrives exactly between two accepts
		l.cancel()
		return nil, errors.New("listener closed")
	}
	select {
	case <-l.done:
		return nil, errors.New("listener closed")
	default:
	}
	select {
	case <-l.done:
		return nil, errors.New("listener closed")
	case c := <-l.ch:
		l.mu.Lock()
		l.acc = append(l.acc, c.(*simnet.End))
		l.mu.Unlock()
		census.Bump()
		return c, nil
	}
}
func (l *fakeListener) Close() error   { l.once.Do(func() { close(l.done) }); census.Bump(); return nil }
func (l *fakeListener) Addr() net.Addr { return fakeAddr{} }

type fakeAddr struct{}

func (fakeAddr) Network() string { return "fake" }
func (fakeAddr) String() string  { return "fake" }

func serveScenario(id string, seed uint64) runner.Result {
	base := census.IDs(census.Snapshot())
	r := &payload.SplitMix{S: seed}
	d := director.New(rig.RoleOf)
	director.Install(d)
	defer director.Install(nil)
	d.Ignore(func(name string) bool { return strings.HasPrefix(name, "signal.") || strings.HasPrefix(name, "chan.") })
	lis := &fakeListener{ch: make(chan net.Conn, 16), done: make(chan struct{})}
	block := make(chan struct{})
	handler := rig.HandlerFunc(func(stream drpc.Stream, rpc string) error {
		var m []byte
		if err := stream.MsgRecv(&m, payload.Enc{}); err != nil {
			return err
		}
		if rpc == "/slow" {
			select {
			case <-block:
			case <-stream.Context().Done():
			}
		}
		out := payload.Make(1, 1, 0, 0, 10)
		return stream.MsgSend(&out, payload.Enc{})
	})
	srv := drpcserver.New(handler)
	ctx, cancel := context.WithCancel(context.Background())
	defer cancel()
	lis.cancel = cancel
	nconn := 1 + r.Intn(4)
	if r.Intn(3) == 0 {
		lis.cancelOnCall = 1 + nconn // right after the last connection was handed out
	}
	// snapshot the goroutines the instant Serve returns
	var atReturn []census.G
	var ends []*simnet.End
	var openAtReturn []string
	serve := rig.Go("Serve", func() (interface{}, error) {
		err := srv.Serve(ctx, lis)
		lis.mu.Lock()
		for _, e := range lis.acc {
			if e.CloseCount() == 0 {
				openAtReturn = append(openAtReturn, e.Role)
			}
		}
		lis.mu.Unlock()
		atReturn = census.Snapshot()
		return nil, err
	})
	var conns []*drpcconn.Conn
	var calls []*rig.Op
	parkPt := payload.Pick(r, []string{"", "manager.server.invoke", "manager.sem.acquired", "manager.reader.read", "stream.handle.beforePut", "manager.terminate.beforeClose", "manager.newstream.beforeSet"})
	var park *director.Park
	for i := 0; i < nconn; i++ {
		p := simnet.New(simnet.Opts{Cap: -1})
		p.B.Role = fmt.Sprintf("server%d", i)
		ends = append(ends, p.B)
		if parkPt != "" && park == nil && r.Intn(2) == 0 {
			park = d.ParkAt(parkPt, p.B, 1)
		}
		lis.ch <- p.B
		conn := drpcconn.New(p.A)
		conns = append(conns, conn)
		rpc := payload.Pick(r, []string{"/fast", "/slow", "/slow"})
		calls = append(calls, rig.Go("call", func() (interface{}, error) {
			in := payload.Make(1, 0, 0, 0, 20)
			var out []byte
			return nil, conn.Invoke(context.Background(), rpc, payload.Enc{}, &in, &out)
		}))
	}
	// a connection handed to the listener at the last moment
	late := r.Intn(2) == 0
	settle := r.Intn(3) == 0
	census.Quiesce(rig.Watchdog)
	if late {
		p := simnet.New(simnet.Opts{Cap: -1})
		p.B.Role = "server-late"
		ends = append(ends, p.B)
		lis.ch <- p.B
		conns = append(conns, drpcconn.New(p.A))
		if settle {
			census.Quiesce(rig.Watchdog)
		} else {
			for i := 0; i < r.Intn(4); i++ {
				runtime.Gosched()
			}
		}
	}
	// the shutdown: the server context is cancelled, or the application closes the listener under a
	// context that stays live (Accept fails for good: Serve must wind down just the same)
	byListener := lis.cancelOnCall == 0 && r.Intn(3) == 0
	if byListener {
		lis.Close()
	} else {
		cancel()
	}
	census.Quiesce(rig.Watchdog)
	if park != nil {
		park.Release()
	}
	st, snap := census.QuiesceOr(nil, rig.Watchdog)
	desc := fmt.Sprintf("Serve with %d connections (late=%v) park=%s stopped-by-listener-failure=%v", nconn, late, parkPt, byListener)
	if st == "watchdog" {
		return runner.Inconcl(id, "watchdog: "+desc)
	}
	var fails []string
	if !serve.Returned() {
		fails = append(fails, "Serve has not returned at quiescence after its context was cancelled or its listener failed\n"+census.Dump(census.InDRPC(snap)))
	} else {
		lis.mu.Lock()
		acc := append([]*simnet.End(nil), lis.acc...)
		lis.mu.Unlock()
		if len(openAtReturn) > 0 {
			fails = append(fails, fmt.Sprintf("Serve returned while the transports of accepted connections %v had not been closed yet", openAtReturn))
		}
		for _, g := range atReturn {
			if g.Has("drpcserver.(*Server).ServeOne") {
				fails = append(fails, "Serve returned while a ServeOne goroutine of an accepted connection was still running:\n"+census.Dump([]census.G{g}))
				break
			}
		}
		for _, e := range acc {
			if e.CloseCount() != 1 {
				fails = append(fails, fmt.Sprintf("accepted connection %s: transport closed %d times when everything came to rest (must be exactly once)", e.Role, e.CloseCount()))
			}
		}
	}
	for _, c := range calls {
		if !c.Returned() {
			fails = append(fails, "a client call is still blocked after the server shut down")
		}
	}
	close(block)
	for _, c := range conns {
		c.Close()
	}
	for _, e := range ends {
		e.Close()
	}
	_, snap = census.Quiesce(rig.Watchdog)
	if left := census.NewSince(census.InDRPC(snap), base); len(left) > 0 && len(fails) == 0 {
		fails = append(fails, "library goroutines left behind:\n"+census.Dump(left))
	}
	if len(fails) > 0 {
		return runner.Violation(id, "serve:"+keyOf(fails[0]), desc+"\n"+strings.Join(fails, "\n"))
	}
	res := runner.Hold(id, desc+fmt.Sprint(seed%97), true)
	res.Events = int64(nconn)
	return res
}

// hostilePeer: a raw peer feeds a mutated session to a server (or client) and
// then goes away; the endpoint under test must shut down completely.
func hostilePeer(id string, seed uint64, role string) runner.Result {
	base := census.IDs(census.Snapshot())
	r := &payload.SplitMix{S: seed}
	in := wiregen.Mutate(r, wiregen.ValidSession(r, role == "server"))
	opts := drpcmanager.Options{SoftCancel: r.Intn(2) == 0}
	echo := rig.HandlerFunc(func(stream drpc.Stream, rpc string) error {
		for {
			var m []byte
			if err := stream.MsgRecv(&m, payload.Enc{}); err != nil {
				return nil
			}
			if err := stream.MsgSend(&m, payload.Enc{}); err != nil {
				return err
			}
		}
	})
	var rg *rig.Rig
	var raw, under *simnet.End
	var ops []*rig.Op
	if role == "server" {
		rg = rig.New(rig.Config{Net: simnet.Opts{Cap: -1}, Server: opts, NoConn: true}, echo)
		raw, under = rg.Pair.A, rg.Pair.B
		ops = append(ops, rg.ServeOp)
	} else {
		rg = rig.New(rig.Config{Net: simnet.Opts{Cap: -1}, Client: opts, NoSrv: true}, nil)
		raw, under = rg.Pair.B, rg.Pair.A
		ops = append(ops, rig.Go("client", func() (interface{}, error) {
			for i := 0; i < 3; i++ {
				st, err := rg.Conn.NewStream(context.Background(), "/svc/Method", payload.Enc{})
				if err != nil {
					return nil, err
				}
				m := payload.Make(uint64(i), 0, 0, 0, 10)
				_ = st.MsgSend(&m, payload.Enc{})
				for k := 0; k < 4; k++ {
					var out []byte
					if err := st.MsgRecv(&out, payload.Enc{}); err != nil {
						break
					}
				}
				_ = st.Close()
			}
			return nil, nil
		}))
	}
	rig.Go("drain", func() (interface{}, error) {
		buf := make([]byte, 4096)
		for {
			if _, err := raw.Read(buf); err != nil {
				return nil, nil
			}
		}
	})
	raw.Write(in)
	census.Quiesce(rig.Watchdog)
	raw.Close()
	census.Quiesce(rig.Watchdog)
	var closer *rig.Op
	if role == "client" {
		closer = rig.Go("conn.Close", func() (interface{}, error) { return nil, rg.Conn.Close() })
	} else {
		rg.StopServe()
	}
	st, snap := census.QuiesceOr(nil, rig.Watchdog)
	desc := fmt.Sprintf("hostile peer vs %s (soft=%v): %d bytes %x", role, opts.SoftCancel, len(in), clipB(in))
	if st == "watchdog" {
		rg.Teardown()
		return runner.Inconcl(id, "watchdog: "+desc)
	}
	var fails []string
	for _, op := range ops {
		if !op.Returned() {
			fails = append(fails, op.Name+" has not returned after the peer went away and the endpoint was closed")
		}
	}
	if closer != nil && !closer.Returned() {
		fails = append(fails, "Conn.Close has not returned")
	}
	if n := under.CloseCount(); n != 1 {
		fails = append(fails, fmt.Sprintf("the %s transport was closed %d times", under.Role, n))
	}
	if left := census.NewSince(census.InDRPC(snap), base); len(left) > 0 {
		fails = append(fails, "library goroutines left behind:\n"+census.Dump(left))
	}
	rg.Teardown()
	if len(fails) > 0 {
		return runner.Violation(id, "hostile-peer:"+keyOf(fails[0]), desc+"\n"+strings.Join(fails, "\n"))
	}
	res := runner.Hold(id, desc, true)
	res.Events = 1
	return res
}

// stalledPeerServeCancel: the server's context is cancelled while its handler is blocked (in a
// receive, or in a send inside the transport) and the client does not read any more, so whatever
// the server writes on the way out (a soft-cancel packet, an error, a half-close) stays in the
// transport until the transport is closed. ServeOne must still return and leave nothing behind.
func stalledPeerServeCancel(id string, seed uint64) runner.Result {
	base := census.IDs(census.Snapshot())
	r := &payload.SplitMix{S: seed}
	soft := r.Intn(2) == 0
	hstate := payload.Pick(r, []string{"recv", "send", "idle"})
	opts := drpcmanager.Options{SoftCancel: soft}
	handler := rig.HandlerFunc(func(stream drpc.Stream, rpc string) error {
		var m []byte
		if err := stream.MsgRecv(&m, payload.Enc{}); err != nil {
			return err
		}
		switch hstate {
		case "send":
			out := payload.Make(1, 1, 0, 0, 50000)
			return stream.MsgSend(&out, payload.Enc{})
		case "idle":
			out := payload.Make(1, 1, 0, 0, 10)
			return stream.MsgSend(&out, payload.Enc{})
		}
		return stream.MsgRecv(&m, payload.Enc{}) // blocks: the client sends nothing more
	})
	rg := rig.New(rig.Config{Net: simnet.Opts{Cap: 0}, Client: opts, Server: opts}, handler)
	var calls []*rig.Op
	calls = append(calls, rig.Go("client", func() (interface{}, error) {
		st, err := rg.Conn.NewStream(context.Background(), "/x", payload.Enc{})
		if err != nil {
			return nil, err
		}
		in := payload.Make(1, 0, 0, 0, 20)
		if err := st.MsgSend(&in, payload.Enc{}); err != nil {
			return nil, err
		}
		if hstate == "idle" {
			var out []byte
			st.MsgRecv(&out, payload.Enc{})
			st.Close()
			return nil, nil
		}
		// the client application goes quiet without reading the reply
		select {}
	}))
	census.Quiesce(rig.Watchdog)
	rg.Pair.A.StallReads(true) // from now on the client side does not drain the transport
	census.Quiesce(rig.Watchdog)
	rg.StopServe()
	st, snap := census.QuiesceOr(nil, rig.Watchdog)
	desc := fmt.Sprintf("server context cancelled with the handler %s and a peer that reads nothing more (soft=%v)", map[string]string{"recv": "blocked in a receive", "send": "blocked in a send inside the transport", "idle": "returned (connection idle)"}[hstate], soft)
	if st == "watchdog" {
		rg.Teardown()
		return runner.Inconcl(id, "watchdog: "+desc)
	}
	var fails []string
	if !rg.ServeOp.Returned() {
		fails = append(fails, "ServeOne has not returned after its context was cancelled\n"+census.Dump(census.InDRPC(snap)))
	}
	if n := rg.Pair.B.CloseCount(); n != 1 && len(fails) == 0 {
		fails = append(fails, fmt.Sprintf("the server transport was closed %d times", n))
	}
	rg.Pair.A.StallReads(false)
	cl := rig.Go("conn.Close", func() (interface{}, error) { return nil, rg.Conn.Close() })
	if !cl.Wait() && len(fails) == 0 {
		fails = append(fails, "Conn.Close on the client has not returned")
	}
	rg.Pair.A.Close()
	rg.Pair.B.Close()
	_, snap = census.Quiesce(rig.Watchdog)
	var left []census.G
	for _, g := range census.NewSince(census.InDRPC(snap), base) {
		if !g.Has("main.stalledPeerServeCancel") {
			left = append(left, g)
		}
	}
	if len(left) > 0 && len(fails) == 0 {
		fails = append(fails, "library goroutines left behind:\n"+census.Dump(left))
	}
	rg.Teardown()
	if len(fails) > 0 {
		return runner.Violation(id, "close:stalled-peer:"+keyOf(fails[0]), desc+"\n"+strings.Join(fails, "\n"))
	}
	res := runner.Hold(id, desc, true)
	res.Events = 1
	return res
}

// closeWithQueuedOps: one operation of the stream sits inside the transport (its write is stalled: a
// peer that has stopped reading) and a second operation of the same stream is queued behind it inside
// the library; then the connection is closed (client) or Serve's context is cancelled (server, where the
// two operations are the handler's). Close / ServeOne must return, the transport is closed exactly
// once, both operations end with an error, the stream's context ends and nothing stays behind.
func closeWithQueuedOps(id string, seed uint64) runner.Result {
	base := census.IDs(census.Snapshot())
	r := &payload.SplitMix{S: seed}
	soft := r.Intn(2) == 0
	opts := drpcmanager.Options{SoftCancel: soft}
	side := payload.Pick(r, []string{"client", "server"})
	second := payload.Pick(r, []string{"CloseSend", "Close", "MsgSend", "RawFlush", "CloseSend+MsgRecv"})
	var mu sync.Mutex
	var ops []*rig.Op
	var sctx context.Context
	// drive runs the two operations on st; the first one is known to be inside the transport before the
	// second is issued
	drive := func(st drpc.Stream, stall func()) {
		mu.Lock()
		sctx = st.Context()
		mu.Unlock()
		stall()
		a := rig.Go("first-send", func() (interface{}, error) {
			m := payload.Make(1, 0, 0, 1, 70000)
			return nil, st.MsgSend(&m, payload.Enc{})
		})
		census.Quiesce(rig.Watchdog)
		var more []*rig.Op
		for _, what := range strings.Split(second, "+") {
			what := what
			more = append(more, rig.Go(what, func() (interface{}, error) {
				switch what {
				case "CloseSend":
					return nil, st.CloseSend()
				case "Close":
					return nil, st.Close()
				case "MsgSend":
					m := payload.Make(1, 0, 0, 2, 10)
					return nil, st.MsgSend(&m, payload.Enc{})
				case "RawFlush":
					return nil, st.(interface{ RawFlush() error }).RawFlush()
				}
				var m []byte
				return nil, st.MsgRecv(&m, payload.Enc{})
			}))
			census.Quiesce(rig.Watchdog)
		}
		mu.Lock()
		ops = append(append(ops, a), more...)
		mu.Unlock()
	}
	started := make(chan struct{})
	var rg *rig.Rig
	handler := rig.HandlerFunc(func(stream drpc.Stream, rpc string) error {
		var m []byte
		if err := stream.MsgRecv(&m, payload.Enc{}); err != nil {
			return err
		}
		if side == "server" {
			drive(stream, func() { rg.Pair.B.StallWrites(true) })
			close(started)
			<-stream.Context().Done()
			return nil
		}
		for stream.MsgRecv(&m, payload.Enc{}) == nil {
		}
		return nil
	})
	rg = rig.New(rig.Config{Net: simnet.Opts{Cap: -1}, Client: opts, Server: opts}, handler)
	st, err := rg.Conn.NewStream(context.Background(), "/x", payload.Enc{})
	if err != nil {
		rg.Teardown()
		return runner.Inconcl(id, "NewStream failed")
	}
	first := payload.Make(1, 0, 0, 0, 10)
	st.MsgSend(&first, payload.Enc{})
	if side == "client" {
		census.Quiesce(rig.Watchdog)
		drive(st, func() { rg.Pair.A.StallWrites(true) })
	} else if s, _ := census.QuiesceOr(started, rig.Watchdog); s != "ready" {
		rg.Teardown()
		return runner.Inconcl(id, "the handler did not get its operations going")
	}
	census.Quiesce(rig.Watchdog)
	desc := fmt.Sprintf("%s side: a send inside the transport (write stalled), %s queued behind it in the library, soft=%v, then ", side, second, soft)
	var closer *rig.Op
	end := rg.Pair.A
	if side == "client" {
		desc += "Conn.Close"
		closer = rig.Go("conn.Close", func() (interface{}, error) { return nil, rg.Conn.Close() })
	} else {
		desc += "Serve's context is cancelled"
		end = rg.Pair.B
		rg.StopServe()
		closer = rg.ServeOp
	}
	stq, snap := census.QuiesceOr(nil, rig.Watchdog)
	if stq == "watchdog" {
		rg.Teardown()
		return runner.Inconcl(id, "watchdog: "+desc)
	}
	var fails []string
	if !closer.Returned() {
		fails = append(fails, "the closing call has not returned at quiescence\n"+census.Dump(census.InDRPC(snap)))
	}
	mu.Lock()
	for _, op := range ops {
		if !op.Returned() && len(fails) == 0 {
			fails = append(fails, "operation "+op.Name+" is still blocked after the close\n"+census.Dump(census.InDRPC(snap)))
		}
	}
	if len(fails) == 0 && ops[0].Err == nil {
		fails = append(fails, "the send that was inside the transport when the connection was closed returned nil")
	}
	if len(fails) == 0 && !rig.IsClosed(sctx.Done()) {
		fails = append(fails, "the stream's context has not ended")
	}
	mu.Unlock()
	if n := end.CloseCount(); n != 1 && len(fails) == 0 {
		fails = append(fails, fmt.Sprintf("the %s transport was closed %d times", side, n))
	}
	end.StallWrites(false)
	rg.StopServe()
	cl := rig.Go("conn.Close#2", func() (interface{}, error) { return nil, rg.Conn.Close() })
	if !cl.Wait() && len(fails) == 0 {
		fails = append(fails, "Conn.Close on the client has not returned")
	}
	rg.Pair.A.Close()
	rg.Pair.B.Close()
	_, snap = census.Quiesce(rig.Watchdog)
	if left := census.NewSince(census.InDRPC(snap), base); len(left) > 0 && len(fails) == 0 {
		fails = append(fails, "library goroutines left behind:\n"+census.Dump(left))
	}
	rg.Teardown()
	if len(fails) > 0 {
		return runner.Violation(id, fmt.Sprintf("close:queued-ops side=%s second=%s soft=%v:%s", side, second, soft, keyOf(fails[0])), desc+"\n"+strings.Join(fails, "\n"))
	}
	res := runner.Hold(id, desc, true)
	res.Events = int64(2 + strings.Count(second, "+"))
	return res
}

// closeAfterReset: the peer goes away with a connection reset (what a TCP connection reports after a
// RST) while the endpoint is idle, blocked in a receive or between two RPCs; only then the application
// closes its side (Conn.Close) or Serve's context is cancelled. Close and ServeOne return, the
// transport is closed exactly once, nothing stays behind.
func closeAfterReset(id string, seed uint64) runner.Result {
	base := census.IDs(census.Snapshot())
	r := &payload.SplitMix{S: seed}
	opts := drpcmanager.Options{SoftCancel: r.Intn(2) == 0}
	state := payload.Pick(r, []string{"idle", "after-an-rpc", "receive-pending"})
	victim := payload.Pick(r, []string{"client", "server"})
	handler := rig.HandlerFunc(func(stream drpc.Stream, rpc string) error {
		var m []byte
		if err := stream.MsgRecv(&m, payload.Enc{}); err != nil {
			return err
		}
		if rpc == "/wait" {
			return stream.MsgRecv(&m, payload.Enc{})
		}
		return stream.MsgSend(&m, payload.Enc{})
	})
	rg := rig.New(rig.Config{Net: simnet.Opts{Cap: -1}, Client: opts, Server: opts}, handler)
	in := payload.Make(1, 0, 0, 0, 10)
	var out []byte
	if state != "idle" {
		rg.Conn.Invoke(context.Background(), "/echo", payload.Enc{}, &in, &out)
	}
	var pending *rig.Op
	if state == "receive-pending" {
		pending = rig.Go("pending", func() (interface{}, error) {
			st, err := rg.Conn.NewStream(context.Background(), "/wait", payload.Enc{})
			if err != nil {
				return nil, err
			}
			defer st.Close()
			st.MsgSend(&in, payload.Enc{})
			return nil, st.MsgRecv(&out, payload.Enc{})
		})
	}
	census.Quiesce(rig.Watchdog)
	// the other side's endpoint resets: this side's reads fail with ECONNRESET
	if victim == "client" {
		rg.Pair.B.Reset()
	} else {
		rg.Pair.A.Reset()
	}
	census.Quiesce(rig.Watchdog)
	desc := fmt.Sprintf("%s sees a connection reset while %s (soft=%v); then Conn.Close and Serve's context cancelled", victim, state, opts.SoftCancel)
	cl := rig.Go("conn.Close", func() (interface{}, error) { return nil, rg.Conn.Close() })
	rg.StopServe()
	stq, snap := census.QuiesceOr(nil, rig.Watchdog)
	if stq == "watchdog" {
		rg.Teardown()
		return runner.Inconcl(id, "watchdog: "+desc)
	}
	var fails []string
	if !cl.Returned() {
		fails = append(fails, "Conn.Close has not returned\n"+census.Dump(census.InDRPC(snap)))
	}
	if !rg.ServeOp.Returned() && len(fails) == 0 {
		fails = append(fails, "ServeOne has not returned\n"+census.Dump(census.InDRPC(snap)))
	}
	if pending != nil && !pending.Returned() && len(fails) == 0 {
		fails = append(fails, "the pending receive has not returned")
	}
	for name, e := range map[string]*simnet.End{"client": rg.Pair.A, "server": rg.Pair.B} {
		want := 1
		if name != victim {
			want = 2 // the harness' own Reset of that endpoint is counted with the library's Close
		}
		if n := e.CloseCount(); n != want && len(fails) == 0 {
			fails = append(fails, fmt.Sprintf("the %s transport was closed %d times, want %d (the library's one Close, plus the harness' Reset on the side that reset)", name, n, want))
		}
	}
	rg.Pair.A.Close()
	rg.Pair.B.Close()
	_, snap = census.Quiesce(rig.Watchdog)
	if left := census.NewSince(census.InDRPC(snap), base); len(left) > 0 && len(fails) == 0 {
		fails = append(fails, "library goroutines left behind:\n"+census.Dump(left))
	}
	rg.Teardown()
	if len(fails) > 0 {
		return runner.Violation(id, "close:after-reset:"+keyOf(fails[0]), desc+"\n"+strings.Join(fails, "\n"))
	}
	res := runner.Hold(id, desc, true)
	res.Events = 2
	return res
}

// pooledClose: real connections behind a drpcpool handle. A stream is opened through the handle (which
// dials), the handle is closed while the stream is still active or right after it ended, the stream
// ends, and finally the pool is closed. Everything the handle dialed must be released: each transport
// closed exactly once, every ServeOne returned, no goroutine of the library left.
func pooledClose(id string, seed uint64) runner.Result {
	base := census.IDs(census.Snapshot())
	r := &payload.SplitMix{S: seed}
	opts := drpcmanager.Options{SoftCancel: r.Intn(2) == 0}
	popts := drpcpool.Options{Capacity: payload.Pick(r, []int{0, 1, 2}), KeyCapacity: payload.Pick(r, []int{0, 1})}
	pool := drpcpool.New[string, drpcpool.Conn](popts)
	handler := rig.HandlerFunc(func(stream drpc.Stream, rpc string) error {
		var m []byte
		for stream.MsgRecv(&m, payload.Enc{}) == nil {
		}
		return nil
	})
	srv := drpcserver.NewWithOptions(handler, drpcserver.Options{Manager: opts})
	type dialed struct {
		pair  *simnet.Pair
		conn  *drpcconn.Conn
		serve *rig.Op
	}
	var mu sync.Mutex
	var all []*dialed
	ctx, cancelServe := context.WithCancel(context.Background())
	defer cancelServe()
	dial := func(context.Context, string) (drpcpool.Conn, error) {
		pair := simnet.New(simnet.Opts{Cap: -1})
		d := &dialed{pair: pair, conn: drpcconn.NewWithOptions(pair.A, drpcconn.Options{Manager: opts})}
		d.serve = rig.Go("serve", func() (interface{}, error) { return nil, srv.ServeOne(ctx, pair.B) })
		mu.Lock()
		all = append(all, d)
		mu.Unlock()
		return d.conn, nil
	}
	nh := 1 + r.Intn(2)
	var hist []string
	var streams []drpc.Stream
	var handles []drpcpool.Conn
	if r.Intn(3) == 0 {
		// a handle that is closed while its first call is still dialing
		entered, release := make(chan struct{}), make(chan struct{})
		slowDial := func(ctx context.Context, k string) (drpcpool.Conn, error) {
			close(entered)
			<-release
			return dial(ctx, k)
		}
		h := pool.Get(context.Background(), "k", slowDial)
		what := payload.Pick(r, []string{"Invoke", "NewStream"})
		call := rig.Go("dialing-call", func() (interface{}, error) {
			in := payload.Make(1, 0, 0, 0, 5)
			if what == "Invoke" {
				var out []byte
				return nil, h.Invoke(context.Background(), "/x", payload.Enc{}, &in, &out)
			}
			st, err := h.NewStream(context.Background(), "/x", payload.Enc{})
			if err == nil {
				st.Close()
			}
			return nil, err
		})
		if s, _ := census.QuiesceOr(entered, rig.Watchdog); s == "ready" {
			h.Close()
			census.Quiesce(rig.Watchdog)
		}
		close(release)
		call.Wait()
		census.Quiesce(rig.Watchdog)
		hist = append(hist, "hX."+what+"(dialing) hX.Close(during-the-dial)")
	}
	for i := 0; i < nh; i++ {
		h := pool.Get(context.Background(), "k", dial)
		handles = append(handles, h)
		for k := 0; k < 1+r.Intn(2); k++ {
			if r.Intn(3) == 0 {
				in := payload.Make(1, 0, 0, 0, 5)
				var out []byte
				_ = h.Invoke(context.Background(), "/x", payload.Enc{}, &in, &out)
				hist = append(hist, fmt.Sprintf("h%d.Invoke", i))
				continue
			}
			st, err := h.NewStream(context.Background(), "/x", payload.Enc{})
			if err != nil {
				return runner.Inconcl(id, "NewStream through the pool failed: "+err.Error())
			}
			in := payload.Make(1, 0, 0, 0, 5)
			st.MsgSend(&in, payload.Enc{})
			streams = append(streams, st)
			hist = append(hist, fmt.Sprintf("h%d.NewStream", i))
		}
	}
	census.Quiesce(rig.Watchdog)
	// the remaining steps in a seeded order: close every handle, end every stream
	type step struct {
		what string
		run  func()
	}
	var steps []step
	for i, h := range handles {
		i, h := i, h
		steps = append(steps, step{fmt.Sprintf("h%d.Close", i), func() { h.Close() }})
	}
	for i, st := range streams {
		i, st := i, st
		steps = append(steps, step{fmt.Sprintf("stream%d.Close", i), func() { st.Close() }})
	}
	for i := len(steps) - 1; i > 0; i-- {
		j := r.Intn(i + 1)
		steps[i], steps[j] = steps[j], steps[i]
	}
	for _, s := range steps {
		s.run()
		hist = append(hist, s.what)
		if r.Intn(2) == 0 {
			census.Quiesce(rig.Watchdog)
		}
	}
	census.Quiesce(rig.Watchdog)
	pool.Close()
	hist = append(hist, "pool.Close")
	_, snap := census.Quiesce(rig.Watchdog)
	desc := fmt.Sprintf("pooled connections cap=%d keycap=%d soft=%v: %s", popts.Capacity, popts.KeyCapacity, opts.SoftCancel, strings.Join(hist, " "))
	var fails []string
	mu.Lock()
	for i, d := range all {
		if n := d.pair.A.CloseCount(); n != 1 {
			fails = append(fails, fmt.Sprintf("the transport of dialed connection #%d was closed %d times after every handle, every stream and the pool were closed (connection reports closed: %v)", i+1, n, rig.IsClosed(d.conn.Closed())))
		} else if !d.serve.Returned() {
			fails = append(fails, fmt.Sprintf("the server is still serving dialed connection #%d", i+1))
		}
	}
	ndial := len(all)
	mu.Unlock()
	if len(fails) == 0 {
		if left := census.NewSince(census.InDRPC(snap), base); len(left) > 0 {
			fails = append(fails, "library goroutines left behind:\n"+census.Dump(left))
		}
	}
	cancelServe()
	mu.Lock()
	for _, d := range all {
		d.pair.A.Close()
		d.pair.B.Close()
	}
	mu.Unlock()
	census.Quiesce(rig.Watchdog)
	if len(fails) > 0 {
		return runner.Violation(id, "close:pooled:"+keyOf(fails[0]), desc+"\n"+strings.Join(fails, "\n"))
	}
	res := runner.Hold(id, desc, ndial > 0)
	res.Events = int64(len(hist))
	return res
}

// earlyData: the peer has already sent packets for the stream id the client is about to use when
// the client creates the stream; the connection is closed while the new stream has been published to
// the reader but not yet handed to the stream manager.
func earlyData(id string, seed uint64) runner.Result {
	base := census.IDs(census.Snapshot())
	r := &payload.SplitMix{S: seed}
	opts := drpcmanager.Options{SoftCancel: r.Intn(2) == 0}
	rg := rig.New(rig.Config{Net: simnet.Opts{Cap: -1}, Client: opts, NoSrv: true}, nil)
	raw, under := rg.Pair.B, rg.Pair.A
	rig.Go("drain", func() (interface{}, error) {
		buf := make([]byte, 4096)
		for {
			if _, err := raw.Read(buf); err != nil {
				return nil, nil
			}
		}
	})
	var in []byte
	nmsg := 1 + r.Intn(3)
	for m := 0; m < nmsg; m++ {
		in = refwire.Encode(in, refwire.Frame{Stream: 1, Message: uint64(m + 1), Kind: 2, Done: true, Data: payload.Make(1, 1, 0, uint32(m), r.Intn(100))})
	}
	park := rg.Dir.ParkAt("manager.newstream.published", under, 1)
	how := payload.Pick(r, []string{"conn.Close", "peer closes", "local transport closed"})
	first := r.Intn(2) == 0 // the data arrives before / after the stream was published
	if first {
		raw.Write(in)
		census.Quiesce(rig.Watchdog)
	}
	call := rig.Go("NewStream", func() (interface{}, error) {
		st, err := rg.Conn.NewStream(context.Background(), "/svc/Method", payload.Enc{})
		if err == nil {
			var m []byte
			for st.MsgRecv(&m, payload.Enc{}) == nil {
			}
			st.Close()
		}
		return nil, err
	})
	st0, _ := census.QuiesceOr(park.Reached(), rig.Watchdog)
	if !first {
		raw.Write(in)
	}
	census.Quiesce(rig.Watchdog)
	var closer *rig.Op
	switch how {
	case "conn.Close":
		closer = rig.Go("conn.Close", func() (interface{}, error) { return nil, rg.Conn.Close() })
	case "peer closes":
		raw.Close()
	case "local transport closed":
		under.Close()
	}
	census.Quiesce(rig.Watchdog)
	park.Release()
	st, _ := census.QuiesceOr(nil, rig.Watchdog)
	desc := fmt.Sprintf("early data: %d message(s) for stream 1 sent by the peer (before the stream existed=%v), NewStream parked after publishing the stream (reached=%v), then %s (soft=%v)", nmsg, first, st0 == "ready", how, opts.SoftCancel)
	if st == "watchdog" {
		rg.Teardown()
		return runner.Inconcl(id, "watchdog: "+desc)
	}
	var fails []string
	if !call.Returned() {
		fails = append(fails, "NewStream (and the receives after it) has not returned after the connection was closed")
	}
	if closer != nil && !closer.Returned() {
		fails = append(fails, "Conn.Close has not returned although the transport let go of all I/O")
	}
	if closer == nil {
		closer = rig.Go("conn.Close", func() (interface{}, error) { return nil, rg.Conn.Close() })
		if !closer.Wait() {
			fails = append(fails, "Conn.Close (after the transport had ended) has not returned")
		}
	}
	raw.Close()
	_, snap := census.Quiesce(rig.Watchdog)
	if n := under.CloseCount(); n != 1 && how != "local transport closed" {
		fails = append(fails, fmt.Sprintf("the client transport was closed %d times", n))
	}
	if left := census.NewSince(census.InDRPC(snap), base); len(left) > 0 {
		fails = append(fails, "library goroutines left behind:\n"+census.Dump(left))
	}
	rg.Teardown()
	if len(fails) > 0 {
		return runner.Violation(id, "early-data:"+keyOf(fails[0]), desc+"\n"+strings.Join(fails, "\n"))
	}
	res := runner.Hold(id, desc, st0 == "ready")
	res.Events = 1
	return res
}

func clipB(b []byte) []byte {
	if len(b) > 64 {
		return b[:64]
	}
	return b
}

func gen(tier string, seed uint64) []runner.Scenario {
	var out []runner.Scenario
	r := &payload.SplitMix{S: payload.Hash(seed, 0xC12)}
	nh := 400
	if tier == "thorough" {
		nh = 20000
	}
	for i := 0; i < nh; i++ {
		i := i
		role := []string{"server", "client"}[i%2]
		id := fmt.Sprintf("hostile-peer/%s/%d", role, i)
		out = append(out, runner.Scenario{ID: id, Run: func() runner.Result { return hostilePeer(id, payload.Hash(seed, 0xC122, uint64(i)), role) }})
	}
	ne := 60
	if tier == "thorough" {
		ne = 2000
	}
	for i := 0; i < ne/2; i++ {
		i := i
		id := fmt.Sprintf("stalled-peer-serve-cancel/%d", i)
		out = append(out, runner.Scenario{ID: id, Run: func() runner.Result { return stalledPeerServeCancel(id, payload.Hash(seed, 0xC124, uint64(i))) }})
	}
	for i := 0; i < ne; i++ {
		i := i
		id := fmt.Sprintf("close-after-reset/%d", i)
		out = append(out, runner.Scenario{ID: id, Run: func() runner.Result { return closeAfterReset(id, payload.Hash(seed, 0xC127, uint64(i))) }})
	}
	for i := 0; i < ne; i++ {
		i := i
		id := fmt.Sprintf("pooled-close/%d", i)
		out = append(out, runner.Scenario{ID: id, Run: func() runner.Result { return pooledClose(id, payload.Hash(seed, 0xC126, uint64(i))) }})
	}
	for i := 0; i < ne; i++ {
		i := i
		id := fmt.Sprintf("close-with-queued-ops/%d", i)
		out = append(out, runner.Scenario{ID: id, Run: func() runner.Result { return closeWithQueuedOps(id, payload.Hash(seed, 0xC125, uint64(i))) }})
	}
	for i := 0; i < ne; i++ {
		i := i
		id := fmt.Sprintf("early-data/%d", i)
		out = append(out, runner.Scenario{ID: id, Run: func() runner.Result { return earlyData(id, payload.Hash(seed, 0xC123, uint64(i))) }})
	}
	for wi, w := range wl.Workloads {
		for _, soft := range []bool{false, true} {
			trace, wa, wb, ok := dry(w, soft)
			if !ok {
				continue
			}
			// distinct (role:point, occurrence) pairs of the dry run
			occ := map[string]int{}
			var pts []closePoint
			for _, t := range trace {
				occ[t]++
				parts := strings.SplitN(t, ":", 2)
				if parts[0] == "" {
					continue
				}
				pts = append(pts, closePoint{w: wi, role: parts[0], point: parts[1], nth: occ[t], soft: soft})
			}
			for k := 0; k < wa; k++ {
				pts = append(pts, closePoint{w: wi, role: "client", point: fmt.Sprintf("write#%d:before", k), soft: soft}, closePoint{w: wi, role: "client", point: fmt.Sprintf("write#%d:after", k), soft: soft}, closePoint{w: wi, role: "client", point: fmt.Sprintf("write#%d:after-ok", k), soft: soft})
			}
			for k := 0; k < wb; k++ {
				pts = append(pts, closePoint{w: wi, role: "server", point: fmt.Sprintf("write#%d:before", k), soft: soft}, closePoint{w: wi, role: "server", point: fmt.Sprintf("write#%d:after", k), soft: soft}, closePoint{w: wi, role: "server", point: fmt.Sprintf("write#%d:after-ok", k), soft: soft})
			}
			for _, p := range pts {
				actions := []string{"conn.Close", "conn.Close x2", "serve-cancel"}
				if tier != "thorough" {
					// quick: every point, with Conn.Close always and one of the other two actions by seed
					actions = []string{"conn.Close", actions[1+r.Intn(2)]}
				}
				for _, a := range actions {
					c := p
					c.action = a
					id := c.String()
					out = append(out, runner.Scenario{ID: id, Run: func() runner.Result { return runClose(id, c) }})
				}
			}
		}
	}
	n := 150
	if tier == "thorough" {
		n = 4000
	}
	for i := 0; i < n; i++ {
		i := i
		id := fmt.Sprintf("serve/%d", i)
		out = append(out, runner.Scenario{ID: id, Run: func() runner.Result { return serveScenario(id, payload.Hash(seed, 0xC121, uint64(i))) }})
	}
	return out
}

func main() {
	runner.Main(runner.Check{
		Property: "C12",
		Level:    "fault_enumeration",
		Rule:     "close points: a dry run of each of the 16 deterministic workloads (both cancel modes) lists every internal Point it passes per role with its occurrence number and every transport write of both endpoints; one case = (workload, cancel mode, parked goroutine at that point or at that write before/after delivery, action in {Conn.Close, two concurrent Conn.Close, cancellation of the server context}). quick runs every point with Conn.Close and one seeded second action, thorough runs all three actions. Plus a Serve family: 1-4 connections with fast and blocked handlers, optionally a connection handed over at the last moment and a server goroutine parked at one of 6 points, then the Serve context is cancelled (with or without letting the last accept settle). Plus a hostile-peer family: a raw peer feeds a mutated valid session (or random bytes) to a live server / client and goes away, then the endpoint is closed. Non-trivial: the park point was reached before the close. Distinct: by case tuple.",
		Assumptions: []string{
			"the transport lets go of pending I/O when closed (simnet does)",
			"closing one side tears the other down through the transport, so at quiescence both transports must have been closed exactly once and no library goroutine may remain",
			"drpcpool connections are out of scope of this monitor (a second Close of a pool connection closes a channel twice by design of drpcsignal.Chan)",
		},
		Gen:           gen,
		Shards:        14,
		UnstableList:  true,
		MinNontrivial: 100,
		Exhaustive:    func(tier string) bool { return tier == "thorough" },
	})
}
