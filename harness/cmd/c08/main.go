// C08: frame codec round-trips; parsing is total and agrees with the wire spec.
// Differential monitor: drpcwire.{AppendFrame,ParseFrame,ReadVarint,AppendVarint,
// SplitN,SplitData} against the independent reference codec refwire.
package main

import (
	"bytes"
	"fmt"

	"storj.io/drpc/drpcmigrate"
	"storj.io/drpc/drpcwire"

	"verifharness/payload"
	"verifharness/refwire"
	"verifharness/runner"
)

var idBounds = []uint64{0, 1, 127, 128, 1<<14 - 1, 1 << 14, 1<<14 + 1, 1 << 21, 1 << 28, 1 << 32, 1 << 56, 1 << 63, 1<<64 - 1}
var payLens = []int{0, 1, 127, 128, 300, 16384}

type acc struct {
	id       string
	n        int64
	ok, more int64
	bad      int64
	viol     []runner.Result
	sample   interface{}
}

func (a *acc) fail(key, format string, args ...interface{}) {
	if len(a.viol) < 5 {
		a.viol = append(a.viol, runner.Violation(a.id, key, fmt.Sprintf(format, args...)))
	}
}

func (a *acc) result() runner.Result {
	r := runner.Result{ID: a.id, Verdict: runner.Held, Nontrivial: true, Sig: a.id, Events: a.n,
		Stats:  map[string]int64{"inputs": a.n, "parsed_ok": a.ok, "need_more": a.more, "malformed": a.bad},
		Sample: a.sample}
	r.Distinct = a.n
	if len(a.viol) > 0 {
		r = a.viol[0]
		r.Events = a.n
		r.More = a.viol[1:]
	}
	return r
}

// diffParse compares ParseFrame with the reference on arbitrary bytes.
func (a *acc) diffParse(b []byte) {
	a.n++
	var rem []byte
	var fr drpcwire.Frame
	var ok bool
	var err error
	func() {
		defer func() {
			if r := recover(); r != nil {
				a.fail("parse-panic", "ParseFrame panicked on %x: %v", b, r)
				err = fmt.Errorf("panic")
			}
		}()
		rem, fr, ok, err = drpcwire.ParseFrame(b)
	}()
	rf, n, st := refwire.Decode(b)
	switch st {
	case refwire.OK:
		a.ok++
		if !ok || err != nil {
			a.fail("parse-rejects-valid", "input %x is a valid frame (+%d trailing) but ParseFrame returned ok=%v err=%v", trunc(b), len(b)-n, ok, err)
			return
		}
		if fr.ID.Stream != rf.Stream || fr.ID.Message != rf.Message || uint8(fr.Kind) != rf.Kind || fr.Done != rf.Done || fr.Control != rf.Control || !bytes.Equal(fr.Data, rf.Data) {
			a.fail("parse-differs", "input %x: ParseFrame=%+v reference=%+v", trunc(b), frs(fr), rf)
			return
		}
		if len(rem) != len(b)-n || !bytes.Equal(rem, b[n:]) {
			a.fail("parse-remainder", "input %x: remainder has %d bytes, reference consumed %d of %d", trunc(b), len(rem), n, len(b))
		}
	case refwire.NeedMore:
		a.more++
		if ok || err != nil {
			a.fail("parse-needmore", "input %x is a proper prefix of a frame but ParseFrame returned ok=%v err=%v", trunc(b), ok, err)
		} else if len(rem) != len(b) || (len(b) > 0 && &rem[0] != &b[0]) {
			// the caller reads more bytes behind what it has and parses again from the same place
			a.fail("parse-needmore-consumed-input", "input %x is a proper prefix of a frame; ParseFrame asks for more data but hands back %d of the %d bytes (%x)", trunc(b), len(rem), len(b), trunc(rem))
		}
	case refwire.Bad:
		a.bad++
		if ok || err == nil {
			a.fail("parse-accepts-malformed", "input %x cannot be extended to a frame (over-long varint) but ParseFrame returned ok=%v err=%v", trunc(b), ok, err)
		}
	}
}

func trunc(b []byte) []byte {
	if len(b) > 48 {
		return b[:48]
	}
	return b
}

func frs(fr drpcwire.Frame) string {
	return fmt.Sprintf("{s:%d m:%d kind:%d done:%v control:%v data:%d bytes}", fr.ID.Stream, fr.ID.Message, fr.Kind, fr.Done, fr.Control, len(fr.Data))
}

// roundTrip checks encode/parse of one frame, with suffix, prefixes and header mutations.
func (a *acc) roundTrip(fr drpcwire.Frame, deep bool) {
	a.n++
	enc := drpcwire.AppendFrame(nil, fr)
	ref := refwire.Encode(nil, refwire.Frame{Stream: fr.ID.Stream, Message: fr.ID.Message, Kind: uint8(fr.Kind), Done: fr.Done, Control: fr.Control, Data: fr.Data})
	if !bytes.Equal(enc, ref) {
		a.fail("encode-differs", "AppendFrame(%s)=%x reference=%x", frs(fr), trunc(enc), trunc(ref))
		return
	}
	// appending to a non-empty buffer must not disturb the prefix
	pre := []byte{0xAA, 0xBB}
	enc2 := drpcwire.AppendFrame(append([]byte(nil), pre...), fr)
	if !bytes.Equal(enc2[:2], pre) || !bytes.Equal(enc2[2:], enc) {
		a.fail("encode-append", "AppendFrame onto a prefix altered the result for %s", frs(fr))
	}
	// and onto destinations whose spare capacity ends anywhere inside the header
	if len(fr.Data) <= 300 {
		for spare := 0; spare <= 34; spare += 1 + spare/12 {
			func() {
				defer func() {
					if p := recover(); p != nil {
						a.fail("encode-panic", "AppendFrame(%s) onto a buffer with %d spare bytes: panic: %v", frs(fr), spare, p)
					}
				}()
				dst := make([]byte, 2, 2+spare)
				dst[0], dst[1] = 0xAA, 0xBB
				out := drpcwire.AppendFrame(dst, fr)
				if !bytes.Equal(out[:2], pre) || !bytes.Equal(out[2:], enc) {
					a.fail("encode-append", "AppendFrame(%s) onto a buffer with %d spare bytes altered the result", frs(fr), spare)
				}
			}()
		}
	}
	rem, got, ok, err := drpcwire.ParseFrame(enc)
	if !ok || err != nil || len(rem) != 0 || got.ID != fr.ID || got.Kind != fr.Kind || got.Done != fr.Done || got.Control != fr.Control || !bytes.Equal(got.Data, fr.Data) {
		a.fail("roundtrip", "ParseFrame(AppendFrame(%s)) = %s ok=%v err=%v rem=%d", frs(fr), frs(got), ok, err, len(rem))
		return
	}
	a.ok++
	// re-encoding in place, the way a filter that does not allocate works on a read buffer: the frame
	// parsed out of the buffer (its Data points into the buffer) is appended to the buffer's own start;
	// and a second frame, parsed from further back, is moved up behind it
	if len(fr.Data) <= 300 {
		for spare := 0; spare <= 9; spare += 3 {
			buf := make([]byte, 0, 2*len(enc)+spare)
			buf = append(append(buf, enc...), enc...)
			rest, f1, ok1, _ := drpcwire.ParseFrame(buf)
			_, f2, ok2, _ := drpcwire.ParseFrame(rest)
			if !ok1 || !ok2 {
				break
			}
			out := drpcwire.AppendFrame(buf[:0], f1)
			if !bytes.Equal(out, enc) {
				a.fail("encode-in-place", "AppendFrame(buf[:0], frame parsed from buf) for %s gives %x, want %x", frs(fr), trunc(out), trunc(enc))
				break
			}
			out = drpcwire.AppendFrame(out[:0], f2) // the second copy moves to the front
			if !bytes.Equal(out, enc) {
				a.fail("encode-in-place", "moving the second frame of a buffer to its front with AppendFrame for %s gives %x, want %x", frs(fr), trunc(out), trunc(enc))
				break
			}
		}
	}
	suffix := []byte{0xff, 0x00, 0x80, 0x01}
	rem, got, ok, err = drpcwire.ParseFrame(append(append([]byte(nil), enc...), suffix...))
	if !ok || err != nil || !bytes.Equal(rem, suffix) || got.ID != fr.ID || !bytes.Equal(got.Data, fr.Data) {
		a.fail("roundtrip-suffix", "with a suffix appended, ParseFrame(%s) returned ok=%v err=%v rem=%x", frs(fr), ok, err, trunc(rem))
	}
	if !deep {
		return
	}
	hdr := len(enc) - len(fr.Data)
	// every proper prefix up to a little past the header, plus a few inside the payload
	for l := 0; l < len(enc) && l <= hdr+2; l++ {
		a.diffParse(enc[:l])
	}
	if len(fr.Data) > 4 {
		a.diffParse(enc[:len(enc)-1])
		a.diffParse(enc[:hdr+len(fr.Data)/2])
	}
	// every single-byte mutation of the header (three variants per byte)
	if len(fr.Data) <= 300 {
		for i := 0; i < hdr; i++ {
			for _, x := range []byte{0x80, 0x01, 0xff} {
				m := append([]byte(nil), enc...)
				m[i] ^= x
				a.diffParse(m)
			}
		}
	}
}

func (a *acc) varint(x uint64) {
	a.n++
	enc := drpcwire.AppendVarint(nil, x)
	if ref := refwire.PutUvarint(nil, x); !bytes.Equal(enc, ref) {
		a.fail("varint-encode", "AppendVarint(%d)=%x reference=%x", x, enc, ref)
		return
	}
	rem, got, ok, err := drpcwire.ReadVarint(append(append([]byte(nil), enc...), 0x55))
	if !ok || err != nil || got != x || len(rem) != 1 || rem[0] != 0x55 {
		a.fail("varint-roundtrip", "ReadVarint(AppendVarint(%d)) = %d ok=%v err=%v rem=%x", x, got, ok, err, rem)
		return
	}
	a.ok++
	// appending to a destination with every amount of spare capacity: the result must not depend on it
	for spare := 0; spare <= 12; spare++ {
		func() {
			defer func() {
				if p := recover(); p != nil {
					a.fail("varint-encode-panic", "AppendVarint(%d) onto a buffer with %d spare bytes: panic: %v", x, spare, p)
				}
			}()
			dst := make([]byte, 3, 3+spare)
			copy(dst, "abc")
			out := drpcwire.AppendVarint(dst, x)
			if len(out) != 3+len(enc) || string(out[:3]) != "abc" || !bytes.Equal(out[3:], enc) {
				a.fail("varint-encode-append", "AppendVarint(%d) onto a 3-byte buffer with %d spare bytes = %x, want abc + %x", x, spare, out, enc)
			}
		}()
	}
	for l := 0; l < len(enc); l++ {
		rem, _, ok, err := drpcwire.ReadVarint(enc[:l])
		if ok || err != nil {
			a.fail("varint-prefix", "ReadVarint on proper prefix %x of varint(%d): ok=%v err=%v", enc[:l], x, ok, err)
		} else if len(rem) != l {
			a.fail("varint-prefix-rem", "ReadVarint on incomplete input must return the input unchanged; got %d of %d bytes", len(rem), l)
		}
	}
}

func (a *acc) diffVarint(b []byte) {
	a.n++
	var rem []byte
	var got uint64
	var ok bool
	var err error
	func() {
		defer func() {
			if r := recover(); r != nil {
				a.fail("varint-panic", "ReadVarint panicked on %x: %v", b, r)
			}
		}()
		rem, got, ok, err = drpcwire.ReadVarint(b)
	}()
	v, n, rok, rbad := refwire.Uvarint(b)
	switch {
	case rok:
		a.ok++
		if !ok || err != nil || got != v || len(rem) != len(b)-n {
			a.fail("varint-differs", "ReadVarint(%x) = %d ok=%v err=%v consumed=%d; reference %d consumed %d", b, got, ok, err, len(b)-len(rem), v, n)
		}
	case rbad:
		a.bad++
		if ok || err == nil {
			a.fail("varint-accepts-overlong", "ReadVarint(%x): ten continuation bytes must be an error; got ok=%v err=%v", b, ok, err)
		}
	default:
		a.more++
		if ok || err != nil {
			a.fail("varint-needmore", "ReadVarint(%x) is incomplete; got ok=%v err=%v", b, ok, err)
		}
	}
}

func (a *acc) split(data []byte, n int) {
	a.n++
	pkt := drpcwire.Packet{Data: data, ID: drpcwire.ID{Stream: 3, Message: 9}, Kind: drpcwire.KindMessage, Control: n%2 == 1}
	var pieces [][]byte
	var dones []bool
	err := drpcwire.SplitN(pkt, n, func(fr drpcwire.Frame) error {
		if fr.ID != pkt.ID || fr.Kind != pkt.Kind || fr.Control != pkt.Control {
			a.fail("split-header", "SplitN frame header differs from packet: %s", frs(fr))
		}
		pieces = append(pieces, fr.Data)
		dones = append(dones, fr.Done)
		return nil
	})
	if err != nil {
		a.fail("split-err", "SplitN returned %v", err)
		return
	}
	eff := n
	if n == 0 {
		eff = 64 * 1024
	}
	var cat []byte
	for i, p := range pieces {
		cat = append(cat, p...)
		if eff > 0 && len(p) > eff {
			a.fail("split-size", "SplitN(len=%d, n=%d) piece %d has %d bytes", len(data), n, i, len(p))
		}
		if dones[i] != (i == len(pieces)-1) {
			a.fail("split-done", "SplitN(len=%d, n=%d): piece %d of %d has done=%v", len(data), n, i, len(pieces), dones[i])
		}
		if len(p) == 0 && len(pieces) > 1 {
			a.fail("split-empty", "SplitN(len=%d, n=%d) produced an empty piece among several", len(data), n)
		}
	}
	if len(pieces) == 0 {
		a.fail("split-none", "SplitN(len=%d, n=%d) produced no frame", len(data), n)
	}
	if !bytes.Equal(cat, data) {
		a.fail("split-concat", "SplitN(len=%d, n=%d): pieces do not concatenate to the input", len(data), n)
	}
	if n < 0 && len(pieces) != 1 {
		a.fail("split-nosplit", "SplitN(len=%d, n=%d) must not split; got %d pieces", len(data), n, len(pieces))
	}
	a.ok++
}

func gen(tier string, seed uint64) []runner.Scenario {
	var out []runner.Scenario
	add := func(id string, f func(a *acc)) {
		out = append(out, runner.Scenario{ID: id, Run: func() runner.Result {
			a := &acc{id: id}
			f(a)
			return a.result()
		}})
	}
	// 1. exhaustive structure classes, one batch per kind
	bodies := map[int][]byte{}
	for _, l := range payLens {
		b := make([]byte, l)
		r := payload.SplitMix{S: uint64(l) + 77}
		for i := range b {
			b[i] = byte(r.Next())
		}
		bodies[l] = b
	}
	for kind := 0; kind < 64; kind++ {
		kind := kind
		add(fmt.Sprintf("struct/kind=%d", kind), func(a *acc) {
			for _, done := range []bool{false, true} {
				for _, ctl := range []bool{false, true} {
					for _, s := range idBounds {
						for _, m := range idBounds {
							for _, l := range payLens {
								fr := drpcwire.Frame{Data: bodies[l], ID: drpcwire.ID{Stream: s, Message: m}, Kind: drpcwire.Kind(kind), Done: done, Control: ctl}
								a.roundTrip(fr, l <= 300)
							}
						}
					}
				}
			}
			a.sample = map[string]interface{}{"batch": a.id, "frames": "kind x done x control x ids in " + fmt.Sprint(idBounds) + " squared x payload lengths " + fmt.Sprint(payLens), "checked": "encode==reference, parse(encode)==frame, suffix remainder, every header prefix, 3 mutations of every header byte"}
		})
	}
	// 1b. payloads whose length needs a 4-byte varint (2 MiB and more), with ids of every width: the longest headers there are
	add("struct/large-payload", func(a *acc) {
		big := make([]byte, 4<<20)
		r := payload.SplitMix{S: 99}
		for i := 0; i < len(big); i += 8 {
			x := r.Next()
			for k := 0; k < 8; k++ {
				big[i+k] = byte(x >> (8 * uint(k)))
			}
		}
		for _, l := range []int{1<<21 - 1, 1 << 21, 1<<21 + 1, 4 << 20} {
			for _, sid := range []uint64{0, 1 << 56, 1 << 63, 1<<64 - 1} {
				for _, mid := range []uint64{1, 1 << 63, 1<<64 - 1} {
					fr := drpcwire.Frame{Data: big[:l], ID: drpcwire.ID{Stream: sid, Message: mid}, Kind: drpcwire.Kind(1 + (l+int(sid>>60))%7), Done: l%2 == 0, Control: sid == 0}
					func() {
						defer func() {
							if p := recover(); p != nil {
								a.fail("encode-or-parse-panic", "frame %s: panic: %v", frs(fr), p)
							}
						}()
						a.roundTrip(fr, false)
					}()
				}
			}
		}
		a.sample = map[string]interface{}{"batch": a.id, "frames": "payload lengths 2^21-1, 2^21, 2^21+1, 4 MiB x stream ids {0, 2^56, 2^63, 2^64-1} x message ids {1, 2^63, 2^64-1}"}
	})
	// 2. all short byte strings
	maxLen := 2
	if tier == "thorough" {
		maxLen = 3
	}
	for first := 0; first < 256; first += 16 {
		first := first
		add(fmt.Sprintf("short/len<=%d/first=%d..%d", maxLen, first, first+15), func(a *acc) {
			if first == 0 {
				a.diffParse(nil)
			}
			for f := first; f < first+16; f++ {
				a.diffParse([]byte{byte(f)})
				for x := 0; x < 256; x++ {
					a.diffParse([]byte{byte(f), byte(x)})
					if maxLen >= 3 {
						for y := 0; y < 256; y++ {
							a.diffParse([]byte{byte(f), byte(x), byte(y)})
						}
					}
				}
			}
			a.sample = map[string]interface{}{"batch": a.id, "inputs": "every byte string of that length range with that first byte"}
		})
	}
	// 2b. all 4-byte and 5-byte strings over a small alphabet of interesting bytes
	alpha := []byte{0x00, 0x01, 0x02, 0x7f, 0x80, 0x81, 0xff}
	add("short/len4-5/alphabet7", func(a *acc) {
		var rec func(b []byte, l int)
		rec = func(b []byte, l int) {
			if len(b) == l {
				a.diffParse(b)
				return
			}
			for _, c := range alpha {
				rec(append(b, c), l)
			}
		}
		rec(nil, 4)
		rec(nil, 5)
		rec(nil, 6)
	})
	// 3. varints
	add("varint/boundaries", func(a *acc) {
		for sh := uint(0); sh < 64; sh++ {
			for _, d := range []uint64{0, 1, ^uint64(0)} {
				a.varint((uint64(1) << sh) + d)
				a.varint((uint64(1) << sh) - 1 + d)
			}
		}
		a.varint(0)
		a.varint(^uint64(0))
		// all over-long and near-over-long forms: 1..12 bytes of continuation then a terminator (or not)
		for n := 0; n <= 12; n++ {
			for _, c := range []byte{0x80, 0xff, 0x81} {
				for _, t := range [][]byte{nil, {0x00}, {0x01}, {0x7f}, {0x80}} {
					b := bytes.Repeat([]byte{c}, n)
					b = append(b, t...)
					a.diffVarint(b)
				}
			}
		}
		// frames whose varints are over-long in each of the three positions, ending exactly at / past the tenth byte
		for pos := 0; pos < 3; pos++ {
			for n := 8; n <= 11; n++ {
				for _, t := range [][]byte{nil, {0x00}, {0x01, 0x00}} {
					b := []byte{0x05}
					for i := 0; i < pos; i++ {
						b = append(b, 0x01)
					}
					b = append(b, bytes.Repeat([]byte{0x80}, n)...)
					b = append(b, t...)
					a.diffParse(b)
					a.diffParse(append(b, 0, 0, 0, 0))
				}
			}
		}
	})
	nv := 200_000
	if tier == "thorough" {
		nv = 2_000_000
	}
	for part := 0; part < 8; part++ {
		part := part
		add(fmt.Sprintf("varint/seeded/%d", part), func(a *acc) {
			r := payload.SplitMix{S: payload.Hash(seed, 8, uint64(part))}
			for i := 0; i < nv/8; i++ {
				v := r.Next() >> (r.Next() % 64)
				a.varint(v)
				// random bytes
				l := 1 + r.Intn(12)
				b := make([]byte, l)
				for j := range b {
					b[j] = byte(r.Next())
					if r.Intn(3) == 0 {
						b[j] |= 0x80
					}
				}
				a.diffVarint(b)
			}
			a.sample = map[string]interface{}{"batch": a.id, "inputs": "seeded 64-bit values of every magnitude and random 1..12 byte strings biased to continuation bytes"}
		})
	}
	// 4. splitting
	add("split/sizes", func(a *acc) {
		buf := make([]byte, 200_000)
		r := payload.SplitMix{S: 5}
		for i := range buf {
			buf[i] = byte(r.Next())
		}
		for _, n := range []int{-5, -1, 0, 1, 2, 3, 7, 64, 1000, 1024, 65535, 65536, 65537, 1 << 20} {
			for _, l := range []int{0, 1, 2, 3, 6, 7, 8, 63, 64, 65, 999, 1000, 1001, 2047, 2048, 65535, 65536, 65537, 131072, 131073, 200000} {
				if n > 0 && n < 4 && l > 3000 {
					continue
				}
				a.split(buf[:l], n)
			}
		}
		for i := 0; i < 3000; i++ {
			a.split(buf[:r.Intn(5000)], 1+r.Intn(300))
		}
	})
	// 5. seeded frame-like strings
	nf := 300_000
	if tier == "thorough" {
		nf = 6_000_000
	}
	for part := 0; part < 16; part++ {
		part := part
		add(fmt.Sprintf("framelike/seeded/%d", part), func(a *acc) {
			r := payload.SplitMix{S: payload.Hash(seed, 9, uint64(part))}
			for i := 0; i < nf/16; i++ {
				var b []byte
				b = append(b, byte(r.Next()))
				for k := 0; k < 3; k++ {
					switch r.Intn(6) {
					case 0:
						b = refwire.PutUvarint(b, r.Next())
					case 1:
						b = refwire.PutUvarint(b, uint64(r.Intn(300)))
					case 2:
						b = append(b, bytes.Repeat([]byte{0x80 | byte(r.Next())}, r.Intn(12))...)
						b = append(b, byte(r.Intn(128)))
					case 3:
						b = refwire.PutUvarint(b, uint64(r.Intn(20)))
					case 4:
						// non-canonical (padded) varint
						v := uint64(r.Intn(1000))
						pad := r.Intn(9)
						tmp := refwire.PutUvarint(nil, v)
						if pad > 0 {
							tmp[len(tmp)-1] |= 0x80
							for p := 0; p < pad-1; p++ {
								tmp = append(tmp, 0x80)
							}
							tmp = append(tmp, 0x00)
						}
						b = append(b, tmp...)
					default:
						b = refwire.PutUvarint(b, r.Next()>>(r.Next()%64))
					}
				}
				tailn := r.Intn(40)
				for j := 0; j < tailn; j++ {
					b = append(b, byte(r.Next()))
				}
				if r.Intn(4) == 0 && len(b) > 0 {
					b = b[:r.Intn(len(b)+1)]
				}
				a.diffParse(b)
				if i == 0 {
					a.sample = map[string]interface{}{"batch": a.id, "first_input_hex": fmt.Sprintf("%x", b)}
				}
			}
		})
	}
	// 6. inputs that open like something else: the byte strings other protocols (and the repository's
	// own drpcmigrate header) start a connection with are frame headers too, and a parser of frames
	// has no business recognising them. Each opener, cut at every length, continued by seeded bytes.
	add("openers", func(a *acc) {
		r := payload.SplitMix{S: payload.Hash(seed, 10)}
		openers := []string{drpcmigrate.DRPCHeader, "GET / HTTP/1.1\r\n", "POST /", "PUT /", "HEAD /", "OPTIONS * ", "CONNECT ", "PRI * HTTP/2.0\r\n\r\nSM\r\n\r\n",
			"\x16\x03\x01\x02\x00\x01\x00\x01\xfc\x03\x03", "\x16\x03\x03", "SSH-2.0-OpenSSH", "HTTP/1.1 400 Bad Request\r\n", "\x00\x00\x00\x00\x00", "AAAAAAAAAAAA==", "{\"jsonrpc\":", "<?xml ve", "EHLO ", "*1\r\n$4\r\nPING"}
		reps := 3
		if tier == "thorough" {
			reps = 40
		}
		for _, op := range openers {
			for rep := 0; rep < reps; rep++ {
				b := []byte(op)
				for j := 0; j < 400; j++ {
					switch rep % 3 {
					case 0:
						b = append(b, byte(r.Next()))
					case 1:
						b = append(b, 0)
					default:
						b = append(b, byte('a'+r.Intn(26)))
					}
				}
				for n := 0; n <= len(b); n++ {
					a.diffParse(b[:n])
				}
			}
		}
		a.sample = map[string]interface{}{"batch": a.id, "openers": len(openers)}
	})
	return out
}

func main() {
	runner.Main(runner.Check{
		Property: "C08",
		Level:    "exploration",
		Rule:     "differential monitor of drpcwire codec functions against the independent reference codec (refwire). Cases: (1) every frame in kind(64) x done x control x 13 boundary ids squared x 6 payload lengths, with every header prefix and 3 mutations of every header byte, re-encoded in place over the buffer it was parsed from; (2) every byte string up to length 2 (quick) / 3 (thorough) and all strings of length 4-6 over a 7-byte alphabet; (3) varints: all 2^k, 2^k±1, over-long forms, seeded values; (4) SplitN over boundary sizes; (5) seeded frame-like strings with canonical, padded and over-long varints; (6) the opening bytes of other protocols and of the drpcmigrate header (18 openers), cut at every length and continued by seeded bytes. A case is one (function, input) pair; batches partition the input space, so distinct_nontrivial is the number of inputs compared (inputs inside a seeded batch are drawn from a 64-bit PRNG stream, collisions negligible).",
		Assumptions: []string{
			"the reference codec refwire encodes the wire description correctly (it is 60 lines and cross-checked against released v0.0.17 in C18)",
			"the silent truncation of the 10th varint group to 64 bits is specified behaviour (identical in v0.0.17)",
		},
		Gen:           gen,
		InProc:        true,
		Parallel:      16,
		MinNontrivial: 1000,
		Exhaustive:    func(string) bool { return false },
		Extra: func(tier string) map[string]interface{} {
			return map[string]interface{}{"exhaustive_parts": "structure classes; all strings of length <=2 (quick) / <=3 (thorough); strings of length 4-6 over alphabet {00,01,02,7f,80,81,ff}"}
		},
	})
}
