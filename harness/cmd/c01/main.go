// C01: per-stream delivery is in-order, exactly-once, uncorrupted and complete.
// Monitors: tagged-payload prefix/equality oracle on every received message
// (tag, direction, sender, sequence, length, checksum), a FIFO-queue
// linearizability condition for concurrent senders (a send that returned before
// another began must be received first), flush-at-return (the done frame of a
// message is among the bytes handed to Transport.Write when MsgSend returns
// nil, parsed by the reference codec), no-further-call delivery at quiescence,
// and completeness after a graceful half-close.
package main

import (
	"bytes"
	"context"
	"fmt"
	"hash/fnv"
	"net"
	"os"
	"strings"
	"sync"
	"sync/atomic"
	"time"

	"storj.io/drpc"
	"storj.io/drpc/drpcmanager"
	"storj.io/drpc/drpcstream"
	"storj.io/drpc/drpcwire"

	"verifharness/census"
	"verifharness/payload"
	"verifharness/prog"
	"verifharness/refwire"
	"verifharness/rig"
	"verifharness/runner"
	"verifharness/simnet"
)

// tapParser incrementally reassembles the message packets an endpoint handed to its transport.
type tapParser struct {
	mu     sync.Mutex
	end    *simnet.End
	done   int // writes fully processed
	rest   []byte
	asm    map[[2]uint64][]byte
	seen   map[uint64]int // hash of complete message payload -> count
	broken string
}

func newTapParser(e *simnet.End) *tapParser {
	return &tapParser{end: e, asm: map[[2]uint64][]byte{}, seen: map[uint64]int{}}
}

func hashOf(b []byte) uint64 {
	h := fnv.New64a()
	h.Write(b)
	return h.Sum64()
}

// handed reports whether a complete message packet equal to msg has been handed
// to Transport.Write (in calls begun so far).
func (t *tapParser) handed(msg []byte) bool {
	t.mu.Lock()
	defer t.mu.Unlock()
	ws := t.end.Writes()
	for ; t.done < len(ws); t.done++ {
		t.rest = append(t.rest, ws[t.done].Data...)
		for len(t.rest) > 0 {
			f, n, st := refwire.Decode(t.rest)
			if st != refwire.OK {
				break
			}
			t.rest = t.rest[n:]
			if f.Kind != 2 {
				continue
			}
			k := [2]uint64{f.Stream, f.Message}
			t.asm[k] = append(t.asm[k], f.Data...)
			if f.Done {
				t.seen[hashOf(t.asm[k])]++
				delete(t.asm, k)
			}
		}
	}
	return t.seen[hashOf(msg)] > 0
}

func actsString(a []prog.Act) string {
	var b strings.Builder
	for _, x := range a {
		b.WriteByte(x.Op)
		if x.Op == 's' || x.Op == 'P' || x.Op == 'S' {
			fmt.Fprintf(&b, "%d", x.Size)
		}
	}
	return b.String()
}

type shape struct {
	name string
	gen  func(r *payload.SplitMix, cfg prog.Config, manual bool) *prog.Script
}

func sizes(r *payload.SplitMix, cfg prog.Config) int {
	n := prog.SizeClasses(cfg, r)
	sp := cfg.Client.Stream.SplitSize
	if sp > 0 && sp < 8 && n > 2000 {
		n = r.Intn(2000)
	}
	return n
}

func withFlush(acts []prog.Act, manual bool, leaveTail bool) []prog.Act {
	if !manual {
		return acts
	}
	// with leaveTail the last burst is not flushed by the application when nothing but the graceful end
	// of its direction follows (the half-close, or the handler's return): the half-close carries it out
	onlyEndFollows := func(i int) bool {
		for _, a := range acts[i+1:] {
			if a.Op != 'h' && a.Op != 'R' && a.Op != 'Q' { // a 'q' (the idle check) needs the flush
				return false
			}
		}
		return true
	}
	// under ManualFlush the application flushes; flush after the last send of each burst
	var out []prog.Act
	for i, a := range acts {
		out = append(out, a)
		isSend := a.Op == 's' || a.Op == 'P' || a.Op == 'S'
		nextSend := i+1 < len(acts) && (acts[i+1].Op == 's' || acts[i+1].Op == 'P' || acts[i+1].Op == 'S')
		if isSend && !nextSend && !(leaveTail && onlyEndFollows(i)) {
			out = append(out, prog.Act{Op: 'f'})
		}
	}
	return out
}

var shapes = []shape{
	{"unary", func(r *payload.SplitMix, cfg prog.Config, manual bool) *prog.Script {
		return &prog.Script{Unary: true, ReqSize: sizes(r, cfg), Handler: []prog.Act{{Op: 'r'}, {Op: 's', Size: sizes(r, cfg)}}}
	}},
	{"client-stream", func(r *payload.SplitMix, cfg prog.Config, manual bool) *prog.Script {
		s := &prog.Script{}
		for i := 0; i < 1+r.Intn(6); i++ {
			s.Client = append(s.Client, prog.Act{Op: 's', Size: sizes(r, cfg)})
		}
		s.Client = append(s.Client, prog.Act{Op: 'q'}, prog.Act{Op: 'h'}, prog.Act{Op: 'R'})
		s.Handler = []prog.Act{{Op: 'R'}, {Op: 's', Size: sizes(r, cfg)}}
		return s
	}},
	{"server-stream", func(r *payload.SplitMix, cfg prog.Config, manual bool) *prog.Script {
		s := &prog.Script{Client: []prog.Act{{Op: 's', Size: sizes(r, cfg)}, {Op: 'h'}, {Op: 'R'}}, Handler: []prog.Act{{Op: 'r'}}}
		for i := 0; i < 1+r.Intn(6); i++ {
			s.Handler = append(s.Handler, prog.Act{Op: 's', Size: sizes(r, cfg)})
		}
		s.Handler = append(s.Handler, prog.Act{Op: 'q'})
		return s
	}},
	{"bidi-echo", func(r *payload.SplitMix, cfg prog.Config, manual bool) *prog.Script {
		s := &prog.Script{}
		for i := 0; i < 1+r.Intn(4); i++ {
			s.Client = append(s.Client, prog.Act{Op: 's', Size: sizes(r, cfg)}, prog.Act{Op: 'r'})
			s.Handler = append(s.Handler, prog.Act{Op: 'r'}, prog.Act{Op: 's', Size: sizes(r, cfg)})
		}
		s.Client = append(s.Client, prog.Act{Op: 'h'}, prog.Act{Op: 'R'})
		s.Handler = append(s.Handler, prog.Act{Op: 'R'})
		return s
	}},
	{"failed-send-between", func(r *payload.SplitMix, cfg prog.Config, manual bool) *prog.Script {
		// sends that the sender's own encoder rejects, between sends that succeed: nothing of a failed
		// send may reach the peer, alone or inside a later message
		s := &prog.Script{}
		for i := 0; i < 2+r.Intn(4); i++ {
			if r.Intn(2) == 0 {
				s.Client = append(s.Client, prog.Act{Op: 'm'})
			}
			s.Client = append(s.Client, prog.Act{Op: 's', Size: sizes(r, cfg) % 5000})
		}
		s.Client = append(s.Client, prog.Act{Op: 'm'}, prog.Act{Op: 's', Size: 3}, prog.Act{Op: 'h'}, prog.Act{Op: 'R'})
		s.Handler = []prog.Act{{Op: 'R'}, {Op: 'm'}, {Op: 's', Size: sizes(r, cfg) % 5000}}
		return s
	}},
	{"multi-sender-client", func(r *payload.SplitMix, cfg prog.Config, manual bool) *prog.Script {
		return &prog.Script{Client: []prog.Act{{Op: 'P', Size: 2 + r.Intn(2)}, {Op: 'h'}, {Op: 'R'}}, Handler: []prog.Act{{Op: 'R'}, {Op: 's', Size: 5}}}
	}},
	{"multi-sender-server", func(r *payload.SplitMix, cfg prog.Config, manual bool) *prog.Script {
		return &prog.Script{Client: []prog.Act{{Op: 's', Size: 5}, {Op: 'h'}, {Op: 'R'}}, Handler: []prog.Act{{Op: 'r'}, {Op: 'P', Size: 2 + r.Intn(2)}}}
	}},
	{"multi-receiver-client", func(r *payload.SplitMix, cfg prog.Config, manual bool) *prog.Script {
		s := &prog.Script{Client: []prog.Act{{Op: 's', Size: 5}, {Op: 'h'}, {Op: 'Q', Size: 2 + r.Intn(2)}}, Handler: []prog.Act{{Op: 'r'}}}
		for i := 0; i < 3+r.Intn(8); i++ {
			s.Handler = append(s.Handler, prog.Act{Op: 's', Size: sizes(r, cfg)})
		}
		return s
	}},
	{"multi-receiver-server", func(r *payload.SplitMix, cfg prog.Config, manual bool) *prog.Script {
		s := &prog.Script{Handler: []prog.Act{{Op: 'Q', Size: 2 + r.Intn(2)}, {Op: 's', Size: 7}}}
		for i := 0; i < 3+r.Intn(8); i++ {
			s.Client = append(s.Client, prog.Act{Op: 's', Size: sizes(r, cfg)})
		}
		s.Client = append(s.Client, prog.Act{Op: 'h'}, prog.Act{Op: 'R'})
		return s
	}},
	{"slow-rpc-inactivity-timeout", func(r *payload.SplitMix, cfg prog.Config, manual bool) *prog.Script {
		// the server limits how long it waits for the next invoke (InactivityTimeout, set by the
		// scenario); the RPC itself takes several times that long and must not be affected
		s := &prog.Script{Client: []prog.Act{{Op: 's', Size: 5}}} // a small first message: the invoke goes out at once
		for i := 0; i < 3+r.Intn(3); i++ {
			s.Client = append(s.Client, prog.Act{Op: 'w', Size: 25 + r.Intn(30)}, prog.Act{Op: 's', Size: sizes(r, cfg) % 3000})
		}
		s.Client = append(s.Client, prog.Act{Op: 'h'}, prog.Act{Op: 'R'})
		s.Handler = []prog.Act{{Op: 'R'}, {Op: 'w', Size: 30}, {Op: 's', Size: 9}}
		return s
	}},
	{"size-walk", func(r *payload.SplitMix, cfg prog.Config, manual bool) *prog.Script {
		// one direction carries a walk over size classes that makes the connection reader grow,
		// keep, drop (after a run of more than ten small packets) and re-grow its buffers
		var walk []prog.Act
		large := func() int { return 60000 + r.Intn(70000) }
		mid := func() int { return 4000 + r.Intn(28000) }
		for seg := 0; seg < 2+r.Intn(2); seg++ {
			if seg > 0 || r.Intn(2) == 0 {
				walk = append(walk, prog.Act{Op: 's', Size: large()})
			}
			for i := 0; i < 9+r.Intn(5); i++ {
				walk = append(walk, prog.Act{Op: 's', Size: r.Intn(40)})
			}
			if r.Intn(4) != 0 {
				walk = append(walk, prog.Act{Op: 's', Size: mid()})
			}
			walk = append(walk, prog.Act{Op: 's', Size: large()})
			if r.Intn(2) == 0 {
				walk = append(walk, prog.Act{Op: 's', Size: r.Intn(40)}, prog.Act{Op: 's', Size: mid()}, prog.Act{Op: 's', Size: large()})
			}
			if sp := cfg.Client.Stream.SplitSize; (sp < 0 || sp >= 1<<18) && r.Intn(2) == 0 {
				// one very large frame (the reader's buffer grows to hundreds of KiB) with small messages right behind it
				walk = append(walk, prog.Act{Op: 's', Size: 250000 + r.Intn(400000)}, prog.Act{Op: 's', Size: r.Intn(40)}, prog.Act{Op: 's', Size: r.Intn(2000)})
			}
		}
		if r.Intn(2) == 0 {
			s := &prog.Script{Client: append(walk, prog.Act{Op: 'h'}, prog.Act{Op: 'R'}), Handler: []prog.Act{{Op: 'R'}, {Op: 's', Size: 9}}}
			return s
		}
		return &prog.Script{Client: []prog.Act{{Op: 's', Size: 9}, {Op: 'h'}, {Op: 'R'}}, Handler: append([]prog.Act{{Op: 'r'}}, walk...)}
	}},
	{"closer-race", func(r *payload.SplitMix, cfg prog.Config, manual bool) *prog.Script {
		// a concurrent half-close races the last sends: only the prefix and
		// "returned nil => delivered" clauses apply
		s := &prog.Script{Client: []prog.Act{{Op: 's', Size: sizes(r, cfg)}, {Op: 'Z'}, {Op: 's', Size: sizes(r, cfg)}, {Op: 's', Size: 10}, {Op: 'R'}}, Handler: []prog.Act{{Op: 'R'}, {Op: 's', Size: 7}}}
		return s
	}},
}

// realTransports returns constructors of real transports: net.Pipe, loopback TCP, unix socketpair.
func realTransport(kind string) func() (drpc.Transport, drpc.Transport, func()) {
	return func() (drpc.Transport, drpc.Transport, func()) {
		switch kind {
		case "net.Pipe":
			a, b := net.Pipe()
			return a, b, func() { a.Close(); b.Close() }
		default:
			network, addr := "tcp", "127.0.0.1:0"
			if kind == "unix" {
				network, addr = "unix", fmt.Sprintf("%s/.build/c01-%d-%d.sock", os.Getenv("VERIF_DIR"), os.Getpid(), sockN.Add(1))
			}
			lis, err := net.Listen(network, addr)
			if err != nil {
				a, b := net.Pipe()
				return a, b, func() { a.Close(); b.Close() }
			}
			ch := make(chan net.Conn, 1)
			go func() { c, _ := lis.Accept(); ch <- c }()
			a, err := net.Dial(network, lis.Addr().String())
			if err != nil {
				lis.Close()
				p1, p2 := net.Pipe()
				return p1, p2, func() { p1.Close(); p2.Close() }
			}
			b := <-ch
			lis.Close()
			return a, b, func() { a.Close(); b.Close() }
		}
	}
}

var sockN atomic.Int64

func scenario(id string, seed uint64, sh shape, held bool, real string) runner.Result {
	r := &payload.SplitMix{S: seed}
	manual := r.Intn(4) == 0 && sh.name != "closer-race" && sh.name != "unary"
	cfg := prog.GenConfig(r, manual)
	if real != "" {
		cfg.Real = realTransport(real)
		cfg.Desc += " transport=" + real
		held = false
	}
	if real == "" && payload.Hash(seed, 0xC1A6)%6 == 0 {
		// transports whose Read reports (0, nil) once before every piece of data it hands out
		cfg.Net.EmptyReadsA, cfg.Net.EmptyReadsB = true, true
		k := 1 + int(payload.Hash(seed, 0xC1A7)%8)
		cfg.Net.ChunkA, cfg.Net.ChunkB = simnet.ChunkK{K: k}, simnet.ChunkK{K: k}
		cfg.Desc += fmt.Sprintf(" empty-read-before-each-piece-of-at-most-%d-bytes", k)
	}
	if sh.name == "slow-rpc-inactivity-timeout" {
		cfg.Server.InactivityTimeout = 40 * time.Millisecond
		cfg.Desc += " server-inactivity-timeout=40ms"
		held = false
	}
	if sh.name == "size-walk" {
		// frames large enough for single-frame and multi-frame messages to alternate
		sp := payload.Pick(r, []int{0, -1, -1, 8192, 65536, 1 << 20})
		cfg.Client.Stream.SplitSize, cfg.Server.Stream.SplitSize = sp, sp
		cfg.Desc += fmt.Sprintf(" split:=%d", sp)
	}
	s := sh.gen(r, cfg, manual)
	closer := held && payload.Hash(seed, 0xC105E)%2 == 0
	if real != "" {
		// the census cannot see through real sockets: no wait-for-quiescence actions
		strip := func(a []prog.Act) []prog.Act {
			var o []prog.Act
			for _, x := range a {
				if x.Op != 'q' {
					o = append(o, x)
				}
			}
			return o
		}
		s.Client, s.Handler = strip(s.Client), strip(s.Handler)
	}
	s.Tag = 1 + uint64(r.Intn(1000))
	s.Clean = sh.name != "closer-race" && !closer
	// one case in five receives single messages through the raw entry point and keeps the slices it was
	// given until the end: nothing handed to the application may be altered afterwards
	rawRecv := payload.Hash(seed, 0xC1A4)%5 == 0 && sh.name != "unary" && !held
	if rawRecv {
		for i, a := range s.Client {
			if a.Op == 'r' {
				s.Client[i].Op = 'v'
			}
		}
		for i, a := range s.Handler {
			if a.Op == 'r' {
				s.Handler[i].Op = 'v'
			}
		}
		cfg.Desc += " raw-recv"
	}
	leaveTail := manual && s.Clean && payload.Hash(seed, 0xC1A5)%2 == 0
	if leaveTail {
		cfg.Desc += " tail-left-to-the-half-close"
	}
	s.Client = withFlush(s.Client, manual, leaveTail)
	s.Handler = withFlush(s.Handler, manual, leaveTail)
	if !prog.Validate(s) {
		return runner.Inconcl(id, "generated program deadlocks by construction")
	}
	x := prog.New(cfg, []*prog.Script{s})
	defer x.Rig.Teardown()
	tapA, tapB := newTapParser(x.Rig.Pair.A), newTapParser(x.Rig.Pair.B)
	var fmu sync.Mutex
	var fails []string
	failf := func(format string, args ...interface{}) {
		fmu.Lock()
		if len(fails) < 8 {
			fails = append(fails, fmt.Sprintf(format, args...))
		}
		fmu.Unlock()
	}
	flushChecks := 0
	if !manual && real == "" {
		x.AfterSend = func(l *prog.RPCLog, side byte, msg []byte, err error) {
			if err != nil {
				return
			}
			tp := tapA
			if side == 's' {
				tp = tapB
			}
			fmu.Lock()
			flushChecks++
			fmu.Unlock()
			if !tp.handed(msg) {
				failf("MsgSend of a %d-byte message returned nil (automatic flushing) but its final frame has not been handed to the transport (%c side)", len(msg), side)
			}
		}
	}
	// under ManualFlush the same is required once RawFlush / CloseSend / Close returned nil
	var sentMu sync.Mutex
	sentBy := map[byte][][]byte{}
	if manual && real == "" {
		x.AfterSend = func(l *prog.RPCLog, side byte, msg []byte, err error) {
			if err == nil {
				sentMu.Lock()
				sentBy[side] = append(sentBy[side], msg)
				sentMu.Unlock()
			}
		}
		x.AfterFlush = func(l *prog.RPCLog, side byte, op string) {
			if closer {
				// the peer closes the stream from another goroutine in this variant: a half-close on the
				// already terminated stream is a no-op that returns nil, and buffered messages are dropped
				return
			}
			tp := tapA
			if side == 's' {
				tp = tapB
			}
			sentMu.Lock()
			msgs := append([][]byte(nil), sentBy[side]...)
			sentMu.Unlock()
			for _, m := range msgs {
				fmu.Lock()
				flushChecks++
				fmu.Unlock()
				if !tp.handed(m) {
					failf("ManualFlush: %s returned nil on the %c side but a %d-byte message sent before it has not been handed to the transport", op, side, len(m))
					break
				}
			}
		}
	}
	idleChecks := 0
	x.OnQ = func(l *prog.RPCLog, side byte) {
		// everything this side sent so far must already have been received by
		// the peer, without any further call by the sender, and the peer is
		// now waiting (not at end-of-stream)
		if held {
			return // a receiver is deliberately parked: delivery cannot progress
		}
		evs := l.Snapshot()
		peer := byte('s')
		if side == 's' {
			peer = 'c'
		}
		sent, got := 0, 0
		for _, e := range evs {
			if e.Side == side && e.Op == "send" && e.Returned && e.Err == nil {
				sent++
			}
			if e.Side == peer && e.Op == "recv" && e.Returned {
				if e.Err != nil {
					failf("the %c side saw %s while the sender was idle and had not closed", peer, rig.ErrStr(e.Err))
				} else {
					got++
				}
			}
		}
		fmu.Lock()
		idleChecks++
		fmu.Unlock()
		if got != sent {
			failf("%d sends returned nil and the sender went idle, but only %d messages reached the peer at quiescence (no further call may be needed)", sent, got)
		}
	}
	var park interface {
		Release()
		Reached() <-chan struct{}
	}
	var end *simnet.End
	var closerOp *rig.Op
	if held {
		// park a receiver between taking the delivered message and releasing it while more messages arrive
		end = x.Rig.Pair.B
		if sh.name == "server-stream" || sh.name == "multi-sender-server" || sh.name == "multi-receiver-client" {
			end = x.Rig.Pair.A
		}
		park = x.Rig.Dir.ParkAt("stream.msgrecv.held", end, 1+r.Intn(2))
	} else if r.Intn(2) == 0 {
		x.Rig.Dir.Perturb(seed, 3)
	}
	x.Start([][]*prog.Script{{s}})
	heldReached := false
	if park != nil {
		st, _ := census.QuiesceOr(park.Reached(), rig.Watchdog)
		if st == "ready" {
			heldReached = true
			census.Quiesce(rig.Watchdog) // the reader goroutine gets every chance to overwrite the lent buffer
			if closer {
				// another application goroutine closes the receiving stream while the message is
				// lent out; the peer keeps sending: the lent bytes must stay what they were
				side := byte('s')
				if end == x.Rig.Pair.A {
					side = 'c'
				}
				closerOp = rig.Go("closer", func() (interface{}, error) { x.Log(s.Tag).CloseSide(side); return nil, nil })
				census.Quiesce(rig.Watchdog)
			}
		}
		park.Release()
	}
	st := x.WaitClients()
	if closerOp != nil {
		rig.WaitAny(closerOp.Done())
	}
	hist := fmt.Sprintf("%s | %s client=[%s] handler=[%s] held=%v closed-while-held=%v", cfg.Desc, sh.name, actsString(s.Client), actsString(s.Handler), held, closer)
	if st == "watchdog" {
		return runner.Inconcl(id, "watchdog: "+hist)
	}
	if real == "" {
		census.Quiesce(rig.Watchdog)
	} else {
		// the handler may still be returning; give it a bounded moment
		for i := 0; i < 2000; i++ {
			if ran, done := x.Log(s.Tag).HandlerState(); !ran || done {
				break
			}
			time.Sleep(time.Millisecond)
		}
	}
	l := x.Log(s.Tag)
	if ran, _ := l.HandlerState(); !ran && sh.name == "slow-rpc-inactivity-timeout" {
		// the invoke did not reach the server within its inactivity timeout (a loaded machine): the
		// server gave up waiting, as it should; the clause under test needs the RPC to have started
		return runner.Inconcl(id, "the server's inactivity timeout expired before the invoke arrived: "+hist)
	}
	evs := l.Snapshot()
	for _, e := range evs {
		if !e.Returned {
			return runner.Inconcl(id, fmt.Sprintf("%c:%s never returned (flow-control deadlock of the program, or a hang that C04/C05 decide): %s", e.Side, e.Op, hist))
		}
	}
	// per direction: intact, right tag/direction, per-sender order, real-time order, completeness
	for _, side := range []byte{'c', 's'} {
		peer := byte('s')
		wantDir := uint8(1)
		if side == 's' {
			peer = 'c'
			wantDir = 0
		}
		type sk struct {
			sender uint16
			seq    uint32
		}
		sends := map[sk]prog.Event{}
		okSends := 0
		for _, e := range evs {
			if e.Side == peer && e.Op == "send" {
				sends[sk{e.Sender, e.Seq}] = e
				if e.Err == nil {
					okSends++
				}
			}
			if e.Side == peer && e.Op == "invoke" {
				// the request of a unary call is submitted by Invoke itself
				req := e
				req.Size = s.ReqSize
				sends[sk{0, 0}] = req
				okSends++
			}
		}
		next := map[uint16]uint32{}
		var order []prog.Event
		sawEOF := false
		var eofRet int64
		multiRecv := (sh.name == "multi-receiver-client" && side == 'c') || (sh.name == "multi-receiver-server" && side == 's')
		seenBy := map[sk]uint16{}
		lastOf := map[uint16]uint32{}
		for _, e := range evs {
			if e.Side != side || (e.Op != "recv" && e.Op != "invoke") {
				continue
			}
			if e.Err != nil {
				if rig.Cat(e.Err) == "eof" {
					if !sawEOF || e.Ret < eofRet {
						eofRet = e.Ret
					}
					sawEOF = true
				}
				continue
			}
			if sawEOF && (!multiRecv || e.Call > eofRet) {
				// (several receivers: only a receive that began after one had already returned end-of-stream counts)
				failf("%c side received a message after end-of-stream", side)
			}
			if e.MsgErr != nil {
				failf("%c side received a damaged message (%d bytes): %v", side, e.Size, e.MsgErr)
				continue
			}
			if e.Msg.Tag != s.Tag || e.Msg.Dir != wantDir {
				failf("%c side received a message with tag %d dir %d (want tag %d dir %d)", side, e.Msg.Tag, e.Msg.Dir, s.Tag, wantDir)
				continue
			}
			se, ok := sends[sk{e.Msg.Sender, e.Msg.Seq}]
			if !ok {
				failf("%c side received (sender %d, seq %d) which was never submitted", side, e.Msg.Sender, e.Msg.Seq)
				continue
			}
			if int(e.Msg.Len) != se.Size {
				failf("%c side received (sender %d, seq %d) with %d body bytes, submitted %d (truncated or merged)", side, e.Msg.Sender, e.Msg.Seq, e.Msg.Len, se.Size)
			}
			if multiRecv {
				// several receivers: each message goes to exactly one of them, and every receiver
				// sees increasing sequence numbers
				k := sk{e.Msg.Sender, e.Msg.Seq}
				if seenBy[k] != 0 {
					failf("%c side: message (sender %d, seq %d) was handed to two receivers (%d and %d): exactly-once delivery broken", side, e.Msg.Sender, e.Msg.Seq, seenBy[k], e.Rcv)
				}
				seenBy[k] = e.Rcv
				if last, ok := lastOf[e.Rcv]; ok && e.Msg.Seq <= last {
					failf("%c side: receiver %d obtained seq %d after seq %d", side, e.Rcv, e.Msg.Seq, last)
				}
				lastOf[e.Rcv] = e.Msg.Seq
				order = append(order, se)
				continue
			}
			if e.Msg.Seq != next[e.Msg.Sender] {
				failf("%c side received sender %d's message %d when %d was next (reordered, duplicated or lost)", side, e.Msg.Sender, e.Msg.Seq, next[e.Msg.Sender])
			}
			next[e.Msg.Sender] = e.Msg.Seq + 1
			order = append(order, se)
		}
		if multiRecv {
			order = nil // the real-time order condition below is for one consumer
			if s.Clean && len(seenBy) != okSends {
				failf("graceful RPC: the %c side's receivers obtained %d of the %d messages whose send succeeded", side, len(seenBy), okSends)
			}
		}
		// FIFO linearizability for one consumer: a send that returned before another was called is received first
		for i := 0; i < len(order); i++ {
			for j := i + 1; j < len(order); j++ {
				if order[j].Ret < order[i].Call {
					failf("%c side received (sender %d, seq %d) before (sender %d, seq %d) although the latter's send had returned before the former's began", side, order[i].Sender, order[i].Seq, order[j].Sender, order[j].Seq)
				}
			}
		}
		if s.Clean && !multiRecv && len(order) != okSends {
			failf("graceful RPC: %c side received %d of the %d messages whose send succeeded", side, len(order), okSends)
		}
		if sh.name == "closer-race" && side == 's' && !closer {
			// graceful half-close racing sends: every send that returned nil must have been received
			for k, se := range sends {
				if se.Err == nil && next[k.sender] <= k.seq {
					failf("send (seq %d) returned nil but was not delivered although the stream was only half-closed gracefully", k.seq)
				}
			}
		}
		if s.Clean && !s.Unary && side == 'c' && !sawEOF {
			failf("client never saw end-of-stream after the graceful close")
		}
	}
	if s.Unary && len(evs) > 0 {
		for _, e := range evs {
			if e.Op == "invoke" && e.Err != nil {
				failf("clean unary call failed: %s", rig.ErrStr(e.Err))
			}
		}
	}
	if real == "" {
		for _, w := range append(prog.WireFindings(x.Rig.Pair.A), prog.WireFindings(x.Rig.Pair.B)...) {
			failf("%s", w)
		}
	}
	_ = bytes.Equal
	for _, l := range x.Logs() {
		for _, h := range l.HeldChanged() {
			failf("%s", h)
		}
	}
	if len(fails) > 0 {
		k := strings.Map(func(r rune) rune {
			if r >= '0' && r <= '9' {
				return -1
			}
			return r
		}, fails[0])
		f := strings.Fields(k)
		if len(f) > 8 {
			f = f[:8]
		}
		return runner.Violation(id, "delivery:"+strings.Join(f, "-"), hist+"\n"+strings.Join(fails, "\n"))
	}
	res := runner.Hold(id, hist, true)
	res.Events = int64(len(evs))
	res.Stats = map[string]int64{"events": int64(len(evs)), "flush_at_return_checks": int64(flushChecks), "idle_checks": int64(idleChecks)}
	if heldReached {
		res.Stats["held_windows"] = 1
	}
	res.Sets = map[string][]string{"cells": {fmt.Sprintf("split=%d wbuf=%d manual=%v cap=%d", cfg.Client.Stream.SplitSize, cfg.Client.WriterBufferSize, manual, cfg.Net.Cap)}, "interleavings": {fmt.Sprintf("%x", x.Rig.Dir.Signature())}}
	res.Sample = map[string]interface{}{"case": hist}
	return res
}

// transientWriteFault: one transport write of the sender fails in passing (an expired write
// deadline; none or some of its bytes accepted) and the transport works again afterwards, while the
// sender carries on with its sends. Whatever the connection does about it, what the receiver obtains
// must stay a prefix of what was submitted: a hole (a later message delivered after a lost one) is a violation.
func transientWriteFault(id string, seed uint64) runner.Result {
	r := &payload.SplitMix{S: seed}
	manual := r.Intn(2) == 0
	cfg := prog.GenConfig(r, manual)
	if cfg.Net.Cap == 0 {
		cfg.Net.Cap = -1
	}
	serverSends := r.Intn(3) == 0
	s := &prog.Script{Tag: 1 + uint64(r.Intn(1000))}
	var sender []prog.Act
	nmsg := 4 + r.Intn(8)
	for i := 0; i < nmsg; i++ {
		sender = append(sender, prog.Act{Op: 's', Size: r.Intn(400)})
		if manual && r.Intn(2) == 0 {
			sender = append(sender, prog.Act{Op: 'f'})
		}
	}
	if manual {
		sender = append(sender, prog.Act{Op: 'f'})
	}
	if serverSends {
		s.Client = []prog.Act{{Op: 's', Size: 5}, {Op: 'h'}, {Op: 'R'}}
		s.Handler = append([]prog.Act{{Op: 'r'}}, sender...)
	} else {
		s.Client = append(sender, prog.Act{Op: 'h'}, prog.Act{Op: 'R'})
		s.Handler = []prog.Act{{Op: 'R'}}
	}
	x := prog.New(cfg, []*prog.Script{s})
	defer x.Rig.Teardown()
	end := x.Rig.Pair.A
	if serverSends {
		end = x.Rig.Pair.B
	}
	kind := simnet.FaultWriteErrOnly
	if r.Intn(2) == 0 {
		kind = simnet.FaultWritePartialOnly
	}
	off := int64(30 + r.Intn(2500))
	end.SetFault(simnet.Fault{Kind: kind, Offset: off, Temporary: r.Intn(4) != 0})
	x.Start([][]*prog.Script{{s}})
	st := x.WaitClients()
	census.Quiesce(rig.Watchdog)
	hist := fmt.Sprintf("%s | one write of the %s fails in passing (kind=%d at byte %d), sender goes on: %s", cfg.Desc, map[bool]string{false: "client", true: "server"}[serverSends], kind, off, describeScript(s))
	if st == "watchdog" {
		return runner.Inconcl(id, "watchdog: "+hist)
	}
	recvSide := byte('s')
	if serverSends {
		recvSide = 'c'
	}
	var got []uint32
	var fails []string
	for _, e := range x.Log(s.Tag).Snapshot() {
		if e.Side != recvSide || e.Op != "recv" || !e.Returned || e.Err != nil {
			continue
		}
		if e.MsgErr != nil {
			fails = append(fails, fmt.Sprintf("a delivered message is damaged: %v", e.MsgErr))
			continue
		}
		if serverSends && e.Msg.Dir != 1 || !serverSends && e.Msg.Dir != 0 {
			continue
		}
		got = append(got, e.Msg.Seq)
	}
	first := uint32(0)
	if !serverSends {
		first = 0
	}
	for i, q := range got {
		if q != first+uint32(i) {
			fails = append(fails, fmt.Sprintf("the receiver obtained messages %v: not a prefix of the submitted sequence (message %d is missing before %d)", got, first+uint32(i), q))
			break
		}
	}
	if len(fails) > 0 {
		return runner.Violation(id, "delivery:not-a-prefix-after-a-transient-write-failure", hist+"\n"+strings.Join(fails, "\n"))
	}
	res := runner.Hold(id, hist, end.FaultFired())
	res.Events = int64(len(got))
	return res
}

// abandonedThenNext: a sender is cut off between two frames of a message that had nearly filled the
// receiver's maximum packet size (its RPC is soft-cancelled while a late frame is in the transport), and
// the next RPC on the connection then sends an ordinary message. The receiver must drop the unfinished
// packet and deliver the next message whole, however the transport cuts the bytes into reads.
func abandonedThenNext(id string, seed uint64) runner.Result {
	r := &payload.SplitMix{S: seed}
	// the message is k full frames and a small last one; the reader's maximum leaves room for little more
	split := 256
	k := 12 + r.Intn(5)
	big := k*split + 10 + r.Intn(30)
	max := big + r.Intn(30)
	mopts := drpcmanager.Options{SoftCancel: true, WriterBufferSize: 1, Reader: drpcwire.ReaderOptions{MaximumBufferSize: max}, Stream: drpcstream.Options{SplitSize: split}}
	nextLen := 300 + r.Intn(max/2)
	handler := rig.HandlerFunc(func(stream drpc.Stream, rpc string) error {
		var m []byte
		if err := stream.MsgRecv(&m, payload.Enc{}); err != nil {
			return nil
		}
		n := nextLen
		if rpc == "/big" {
			n = big
		}
		out := payload.Make(7, 1, 0, 0, n-payload.HeaderLen)
		stream.MsgSend(&out, payload.Enc{})
		<-stream.Context().Done()
		return nil
	})
	chunk := simnet.Chunker(simnet.ChunkK{K: 1 + r.Intn(40)})
	if r.Intn(4) == 0 {
		chunk = &simnet.ChunkRand{K: 64, State: seed}
	}
	rg := rig.New(rig.Config{Net: simnet.Opts{Cap: -1, ChunkA: chunk}, Client: mopts, Server: mopts}, handler)
	defer rg.Teardown()
	ctx1, cancel1 := context.WithCancel(context.Background())
	defer cancel1()
	st1, err := rg.Conn.NewStream(ctx1, "/big", payload.Enc{})
	if err != nil {
		return runner.Inconcl(id, "NewStream: "+err.Error())
	}
	// the server's writes: frames of the big message, one write each; park the last but one (or the one before)
	nframes := k + 1
	gate := rg.Pair.B.GateWriteIdx(nframes-2, simnet.After) // the last full frame: the small one never goes out
	gate.SucceedOnClose = true
	req := payload.Make(1, 0, 0, 0, 5)
	st1.MsgSend(&req, payload.Enc{})
	desc := fmt.Sprintf("abandoned-then-next: reader maximum %d, a %d-byte message cut off after about %d of %d frames by a soft cancel, then a %d-byte message of the next RPC; client reads in chunks of %T", max, big, nframes-1, nframes, nextLen, chunk)
	if s, _ := census.QuiesceOr(gate.Reached(), rig.Watchdog); s != "ready" {
		gate.Release()
		return runner.Inconcl(id, desc+": the server's late frame was not reached")
	}
	cancel1()
	census.Quiesce(rig.Watchdog)
	gate.Release()
	census.Quiesce(rig.Watchdog)
	st1.Close()
	if rig.IsClosed(rg.Conn.Closed()) {
		return runner.Hold(id, desc+" (the cancel closed the connection)", false)
	}
	op := rig.Go("next", func() (interface{}, error) {
		st2, err := rg.Conn.NewStream(context.Background(), "/next", payload.Enc{})
		if err != nil {
			return nil, err
		}
		defer st2.Close()
		if err := st2.MsgSend(&req, payload.Enc{}); err != nil {
			return nil, err
		}
		var out []byte
		if err := st2.MsgRecv(&out, payload.Enc{}); err != nil {
			return nil, err
		}
		return out, nil
	})
	if !op.Wait() {
		_, snap := census.Quiesce(rig.Watchdog)
		return runner.Violation(id, "delivery:next-rpc-blocked-after-an-abandoned-message", desc+"\n"+census.Dump(census.InDRPC(snap)))
	}
	if op.Err != nil {
		return runner.Violation(id, "delivery:next-rpc-fails-after-an-abandoned-message", desc+"\nthe next RPC, whose handler's send succeeded, did not deliver its message: "+rig.ErrStr(op.Err))
	}
	got := op.Val.([]byte)
	if m, perr := payload.Parse(got); perr != nil || len(got) != nextLen || m.Tag != 7 {
		return runner.Violation(id, "delivery:next-message-damaged-after-an-abandoned-message", fmt.Sprintf("%s\nreceived %d bytes (parse error %v), want the %d-byte message intact", desc, len(got), perr, nextLen))
	}
	res := runner.Hold(id, desc, true)
	res.Events = 2
	return res
}

// fullDuplex: one goroutine of the client sends, another receives (what a full-duplex application does),
// and the handler answers before it reads. On a transport without buffering the sender is held up by a
// handler that is not reading yet; the receiver must still obtain the answers, whose sends succeeded,
// which is also what lets the handler go on to read. Client with manual or automatic flushing.
func fullDuplex(id string, manual bool, seed uint64) runner.Result {
	r := &payload.SplitMix{S: seed}
	nAns := 2 + r.Intn(3)
	nReq := 2 + r.Intn(3)
	copts := drpcmanager.Options{WriterBufferSize: 64, Stream: drpcstream.Options{ManualFlush: manual}}
	handler := rig.HandlerFunc(func(stream drpc.Stream, rpc string) error {
		for i := 0; i < nAns; i++ {
			out := payload.Make(5, 1, 0, uint32(i), 30)
			if err := stream.MsgSend(&out, payload.Enc{}); err != nil {
				return nil
			}
		}
		for {
			var m []byte
			if err := stream.MsgRecv(&m, payload.Enc{}); err != nil {
				return nil
			}
		}
	})
	rg := rig.New(rig.Config{Net: simnet.Opts{Cap: 0}, Client: copts}, handler)
	defer rg.Teardown()
	st, err := rg.Conn.NewStream(context.Background(), "/duplex", payload.Enc{})
	if err != nil {
		return runner.Inconcl(id, "NewStream: "+err.Error())
	}
	sender := rig.Go("sender", func() (interface{}, error) {
		for i := 0; i < nReq; i++ {
			m := payload.Make(5, 0, 0, uint32(i), 200+r.Intn(300)) // larger than the writer's buffer: written out as it is sent
			if err := st.MsgSend(&m, payload.Enc{}); err != nil {
				return nil, err
			}
		}
		return nil, st.CloseSend()
	})
	// the receiver starts when the sender has come to rest (held up inside the transport by the handler
	// that is not reading yet), so that the order of the two goroutines' first steps is the same in every run
	census.Quiesce(rig.Watchdog)
	var got []uint32
	receiver := rig.Go("receiver", func() (interface{}, error) {
		for {
			var m []byte
			if err := st.MsgRecv(&m, payload.Enc{}); err != nil {
				return nil, err
			}
			if h, perr := payload.Parse(m); perr == nil {
				got = append(got, h.Seq)
			}
		}
	})
	_, snap := census.Quiesce(rig.Watchdog)
	desc := fmt.Sprintf("full-duplex client manual-flush=%v on a transport without buffering: handler sends %d answers, then reads; client sender sends %d messages and half-closes while the client receiver receives", manual, nAns, nReq)
	if !sender.Returned() || !receiver.Returned() {
		key := "delivery:full-duplex-receiver-does-not-obtain-delivered-answers"
		if manual {
			key += " manual-flush=true"
		}
		return runner.Violation(id, key, desc+fmt.Sprintf("\nat quiescence the sender returned=%v, the receiver returned=%v and has obtained %d of %d answers although the handler's sends of the missing ones had succeeded or only wait for the receiver\n", sender.Returned(), receiver.Returned(), len(got), nAns)+census.Dump(census.InDRPC(snap)))
	}
	if len(got) != nAns {
		return runner.Violation(id, "delivery:full-duplex-answers-missing", fmt.Sprintf("%s\nthe receiver obtained %v", desc, got))
	}
	res := runner.Hold(id, desc, true)
	res.Events = int64(nAns + nReq)
	return res
}

// concurrentInvokes: several goroutines call Invoke on one connection at the same time. The
// connection serves one RPC at a time, so the others wait their turn inside the library with their
// request already in hand. Every handler invocation must see exactly the request of one caller,
// every caller must get the answer to its own request, and no request is seen twice.
func concurrentInvokes(id string, seed uint64) runner.Result {
	r := &payload.SplitMix{S: seed}
	cfg := prog.GenConfig(r, false)
	if cfg.Net.Cap == 0 {
		cfg.Net.Cap = -1
	}
	var mu sync.Mutex
	seen := map[[2]uint64]int{}
	var fails []string
	handler := rig.HandlerFunc(func(stream drpc.Stream, rpc string) error {
		var m []byte
		if err := stream.MsgRecv(&m, payload.Enc{}); err != nil {
			return err
		}
		h, perr := payload.Parse(m)
		mu.Lock()
		if perr != nil {
			fails = append(fails, fmt.Sprintf("the handler of %s received a damaged request (%d bytes): %v", rpc, len(m), perr))
		} else {
			seen[[2]uint64{h.Tag, uint64(h.Seq)}]++
			if want := fmt.Sprintf("/call/%d/%d", h.Tag, h.Seq); rpc != want {
				fails = append(fails, fmt.Sprintf("the handler of %s received the request of %s", rpc, want))
			}
		}
		mu.Unlock()
		out := payload.Make(h.Tag, 1, 0, h.Seq, int(h.Len)%97)
		return stream.MsgSend(&out, payload.Enc{})
	})
	rg := rig.New(rig.Config{Net: cfg.Net, Client: cfg.Client, Server: cfg.Server}, handler)
	defer rg.Teardown()
	callers := 2 + r.Intn(4)
	per := 1 + r.Intn(4)
	var ops []*rig.Op
	total := 0
	for c := 0; c < callers; c++ {
		c := c
		var sizes []int
		for i := 0; i < per; i++ {
			sizes = append(sizes, payload.Pick(r, []int{0, 1, 10, 50, 200, 1500, 5000}))
		}
		total += per
		ops = append(ops, rig.Go("caller", func() (interface{}, error) {
			for i, sz := range sizes {
				in := payload.Make(uint64(c+1), 0, 0, uint32(i), sz)
				var out []byte
				if err := rg.Conn.Invoke(context.Background(), fmt.Sprintf("/call/%d/%d", c+1, i), payload.Enc{}, &in, &out); err != nil {
					return nil, fmt.Errorf("caller %d call %d: %w", c+1, i, err)
				}
				h, perr := payload.Parse(out)
				if perr != nil || h.Tag != uint64(c+1) || h.Seq != uint32(i) || h.Dir != 1 {
					return nil, fmt.Errorf("caller %d call %d got the answer of caller %d call %d (dir %d, parse error %v)", c+1, i, h.Tag, h.Seq, h.Dir, perr)
				}
			}
			return nil, nil
		}))
	}
	desc := fmt.Sprintf("%s | concurrent-invokes: %d goroutines x %d unary calls on one connection", cfg.Desc, callers, per)
	for _, op := range ops {
		if !op.Wait() {
			_, snap := census.Quiesce(rig.Watchdog)
			return runner.Violation(id, "delivery:concurrent-invokes-blocked", desc+"\na caller never returns\n"+census.Dump(census.InDRPC(snap)))
		}
		if op.Err != nil {
			mu.Lock()
			fails = append(fails, op.Err.Error())
			mu.Unlock()
		}
	}
	mu.Lock()
	defer mu.Unlock()
	for c := 0; c < callers; c++ {
		for i := 0; i < per; i++ {
			if n := seen[[2]uint64{uint64(c + 1), uint64(i)}]; n != 1 && len(fails) < 6 {
				fails = append(fails, fmt.Sprintf("the request of caller %d call %d reached a handler %d times", c+1, i, n))
			}
		}
	}
	if len(fails) > 0 {
		return runner.Violation(id, "delivery:concurrent-invokes-request-or-answer-of-another-call", desc+"\n"+strings.Join(fails, "\n"))
	}
	res := runner.Hold(id, desc, true)
	res.Events = int64(2 * total)
	return res
}

// flushModeSwitched: the flush mode in force is the one set last. A stream created with the
// ManualFlush option and switched to automatic flushing with SetManualFlush(false) is a stream with
// automatic flushing: every send that succeeded reaches the peer without any further call. And the
// other way round a stream switched to manual and back.
func flushModeSwitched(id string, seed uint64) runner.Result {
	r := &payload.SplitMix{S: seed}
	optManual := r.Intn(2) == 0
	toggles := [][]bool{{false}, {true, false}, {false, true, false}, {true, true, false}}[r.Intn(4)]
	side := payload.Pick(r, []string{"client", "server"})
	nmsg := 1 + r.Intn(3)
	var mu sync.Mutex
	var srvGot, cliGot []uint32
	hold := make(chan struct{})
	sopts := drpcmanager.Options{Stream: drpcstream.Options{ManualFlush: optManual && side == "server"}}
	copts := drpcmanager.Options{Stream: drpcstream.Options{ManualFlush: optManual && side == "client"}}
	handler := rig.HandlerFunc(func(stream drpc.Stream, rpc string) error {
		if side == "server" {
			var m []byte
			if err := stream.MsgRecv(&m, payload.Enc{}); err != nil {
				return nil
			}
			for _, t := range toggles {
				stream.(*drpcstream.Stream).SetManualFlush(t)
			}
			for i := 0; i < nmsg; i++ {
				out := payload.Make(3, 1, 0, uint32(i), 10)
				if err := stream.MsgSend(&out, payload.Enc{}); err != nil {
					return nil
				}
			}
			<-hold // no further call of the sender
			return nil
		}
		for {
			var m []byte
			if err := stream.MsgRecv(&m, payload.Enc{}); err != nil {
				return nil
			}
			if h, err := payload.Parse(m); err == nil {
				mu.Lock()
				srvGot = append(srvGot, h.Seq)
				mu.Unlock()
			}
		}
	})
	rg := rig.New(rig.Config{Net: simnet.Opts{Cap: -1}, Client: copts, Server: sopts}, handler)
	defer rg.Teardown()
	defer close(hold)
	st, err := rg.Conn.NewStream(context.Background(), "/x", payload.Enc{})
	if err != nil {
		return runner.Inconcl(id, "NewStream: "+err.Error())
	}
	desc := fmt.Sprintf("flush-mode-switched %s side: option ManualFlush=%v, SetManualFlush%v, %d small sends and no further call of the sender", side, optManual, toggles, nmsg)
	var got []uint32
	if side == "client" {
		for _, t := range toggles {
			st.(*drpcstream.Stream).SetManualFlush(t)
		}
		for i := 0; i < nmsg; i++ {
			m := payload.Make(3, 0, 0, uint32(i), 10)
			if err := st.MsgSend(&m, payload.Enc{}); err != nil {
				return runner.Violation(id, "delivery:flush-mode-switched:send-failed", desc+": "+err.Error())
			}
		}
		census.Quiesce(rig.Watchdog)
		mu.Lock()
		got = append(got, srvGot...)
		mu.Unlock()
	} else {
		first := payload.Make(3, 0, 0, 0, 5)
		st.MsgSend(&first, payload.Enc{})
		recv := rig.Go("recv", func() (interface{}, error) {
			for {
				var m []byte
				if err := st.MsgRecv(&m, payload.Enc{}); err != nil {
					return nil, err
				}
				if h, err := payload.Parse(m); err == nil {
					mu.Lock()
					cliGot = append(cliGot, h.Seq)
					mu.Unlock()
				}
			}
		})
		_ = recv
		census.Quiesce(rig.Watchdog)
		mu.Lock()
		got = append(got, cliGot...)
		mu.Unlock()
	}
	if len(got) != nmsg {
		return runner.Violation(id, "delivery:flush-mode-switched:sends-succeeded-but-did-not-reach-the-peer", fmt.Sprintf("%s\nat quiescence the peer has obtained %v of %d messages whose sends returned nil with automatic flushing in force", desc, got, nmsg))
	}
	res := runner.Hold(id, desc, true)
	res.Events = int64(nmsg + len(toggles))
	return res
}

func describeScript(s *prog.Script) string {
	return "client=[" + actsString(s.Client) + "] handler=[" + actsString(s.Handler) + "]"
}

func gen(tier string, seed uint64) []runner.Scenario {
	n := 60
	if tier == "thorough" {
		n = 3000
	}
	var out []runner.Scenario
	for i := 0; i < n/6; i++ {
		for _, manual := range []bool{false, true} {
			i, manual := i, manual
			id := fmt.Sprintf("full-duplex/manual=%v/%d", manual, i)
			out = append(out, runner.Scenario{ID: id, Run: func() runner.Result { return fullDuplex(id, manual, payload.Hash(seed, 0xC01D, uint64(i))) }})
		}
	}
	for i := 0; i < n/3; i++ {
		i := i
		id := fmt.Sprintf("flush-mode-switched/%d", i)
		out = append(out, runner.Scenario{ID: id, Run: func() runner.Result { return flushModeSwitched(id, payload.Hash(seed, 0xC01B, uint64(i))) }})
	}
	for i := 0; i < n/2; i++ {
		i := i
		id := fmt.Sprintf("concurrent-invokes/%d", i)
		out = append(out, runner.Scenario{ID: id, Run: func() runner.Result { return concurrentInvokes(id, payload.Hash(seed, 0xC01C, uint64(i))) }})
	}
	for i := 0; i < n/2; i++ {
		i := i
		id := fmt.Sprintf("abandoned-then-next/%d", i)
		out = append(out, runner.Scenario{ID: id, Run: func() runner.Result { return abandonedThenNext(id, payload.Hash(seed, 0xC01A, uint64(i))) }})
	}
	for i := 0; i < 2*n; i++ {
		i := i
		id := fmt.Sprintf("transient-write-fault/%d", i)
		out = append(out, runner.Scenario{ID: id, Run: func() runner.Result { return transientWriteFault(id, payload.Hash(seed, 0xC01F, uint64(i))) }})
	}
	for i := 0; i < n; i++ {
		for _, sh := range shapes {
			i, sh := i, sh
			held := i%4 == 3 && sh.name != "unary"
			id := fmt.Sprintf("%s/%d", sh.name, i)
			out = append(out, runner.Scenario{ID: id, Run: func() runner.Result {
				return scenario(id, payload.Hash(seed, 0xC01, uint64(i), uint64(len(sh.name))), sh, held, "")
			}})
			// the same program over real transports (delivery oracles only): simulated close/EOF/buffering must not be kinder than real ones
			if i%10 == 0 {
				for _, real := range []string{"net.Pipe", "tcp", "unix"} {
					real := real
					idr := fmt.Sprintf("%s/%d/%s", sh.name, i, real)
					out = append(out, runner.Scenario{ID: idr, Run: func() runner.Result {
						return scenario(idr, payload.Hash(seed, 0xC01, uint64(i), uint64(len(sh.name))), sh, false, real)
					}})
				}
			}
		}
	}
	return out
}

func main() {
	runner.Main(runner.Check{
		Property: "C01",
		Level:    "exploration",
		Rule:     "one case = one RPC of one of 7 shapes (unary, client-stream, server-stream, bidirectional echo, 2-3 concurrent senders on the client / on the server, half-close racing the last sends) in one seeded cell of split size {-1,1,2,7,64,1024,64K} x writer buffer {1,16,100,4096,1M} x manual/auto flush x cancel mode x transport capacity {rendezvous,64,4096,unbounded} x read chunkers, with message sizes at the split/buffer boundaries (0,1,split-1,split,split+1,wbuf..,3*split+5,200KiB); one case in four parks a receiver between taking and releasing the lent buffer while further messages arrive; others run under perturbed scheduling; every tenth program is repeated over net.Pipe, loopback TCP and a unix socket with the delivery oracles only. Non-trivial: all. Distinct: by cell and program; evidence counts configuration cells and point-hit sequences seen. Plus concurrent-invokes cases: 2-5 goroutines x 1-4 unary Invoke calls (sizes 0-5000) on one connection at once; every handler sees exactly one caller's request under that caller's rpc name, every caller gets the answer to its own request, no request arrives twice.",
		Assumptions: []string{
			"flush-at-return is asserted under automatic flushing only; under ManualFlush the scripts flush explicitly after each burst",
			"for one consumer, FIFO-queue linearizability reduces to: per-sender order plus 'a send that returned before another began is received first'; this is checked directly on the recorded history",
			"a call that never returns makes the case inconclusive (flow-control deadlocks of the program are possible with bounded transports)",
		},
		Gen:           gen,
		Shards:        14,
		MinNontrivial: 100,
	})
}
