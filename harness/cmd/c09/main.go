// C09: packet reassembly depends only on the byte stream and is memory-bounded.
// Monitor: the real drpcwire.Reader is run over one byte stream under many
// partitions into reads (and error attachment modes); the packet sequences and
// first-error classes must be identical across partitions and equal to the
// reference reassembler; the reader's buffer capacity and the bytes it pulls
// are checked against a fixed multiple of the configured maximum.
package main

import (
	"errors"
	"fmt"
	"hash/fnv"
	"io"
	"math"
	"strings"

	"storj.io/drpc"
	"storj.io/drpc/drpcwire"

	"verifharness/payload"
	"verifharness/refwire"
	"verifharness/runner"
	"verifharness/wiregen"
)

type outcome struct {
	pkts           []string // rendered packets
	class          string   // error class
	errStr         string
	capMax         int
	pulledSincePkt int
	panicked       string
}

func classify(err error) string {
	switch {
	case err == nil:
		return "nil"
	case errors.Is(err, wiregen.ErrTransport):
		return "transport"
	case errors.Is(err, io.EOF) || errors.Is(err, io.ErrUnexpectedEOF):
		return "eof"
	case errors.Is(err, io.ErrNoProgress):
		return "noprogress"
	case drpc.ProtocolError.Has(err):
		s := err.Error()
		switch {
		case strings.Contains(s, "monotonicity"):
			return "monotonicity"
		case strings.Contains(s, "kind change"):
			return "kind-change"
		case strings.Contains(s, "overflow"):
			return "overflow"
		case strings.Contains(s, "varint"):
			return "malformed"
		}
		return "protocol-other"
	}
	return "other:" + err.Error()
}

func render(stream, msg uint64, kind uint8, control bool, data []byte) string {
	h := fnv.New64a()
	h.Write(data)
	return fmt.Sprintf("s%d m%d k%d c%v len%d h%x", stream, msg, kind, control, len(data), h.Sum64())
}

func runReader(data []byte, max int, sr *wiregen.Scripted, limitCap int) (o outcome) {
	defer func() {
		if r := recover(); r != nil {
			o.panicked = fmt.Sprint(r)
		}
	}()
	rd := drpcwire.NewReaderWithOptions(sr, drpcwire.ReaderOptions{MaximumBufferSize: max})
	var buf []byte
	lastPulled := 0
	for i := 0; i < 1_000_000; i++ {
		pkt, err := rd.ReadPacketUsing(buf[:0])
		c, _, _ := rd.VerifBufCap()
		if c > o.capMax {
			o.capMax = c
		}
		if d := sr.Pulled - lastPulled; d > o.pulledSincePkt {
			o.pulledSincePkt = d
		}
		if err != nil {
			o.class = classify(err)
			o.errStr = err.Error()
			return o
		}
		lastPulled = sr.Pulled - 0 // bytes buffered beyond the packet still count towards the next one; conservative bound below accounts for it
		o.pkts = append(o.pkts, render(pkt.ID.Stream, pkt.ID.Message, uint8(pkt.Kind), pkt.Control, pkt.Data))
		buf = pkt.Data
	}
	o.class = "runaway"
	return o
}

type partition struct {
	name     string
	cuts     []int
	withData bool
	once     bool // the transport reports its error one time only
	empties  bool
	final    error
}

func partitions(st wiregen.Stream, r *payload.SplitMix, n int) []partition {
	var out []partition
	L := len(st.Data)
	out = append(out, partition{name: "all", final: io.EOF})
	out = append(out, partition{name: "all+errWithData", withData: true, final: wiregen.ErrTransport})
	out = append(out, partition{name: "all+errWithData-reported-once", withData: true, once: true, final: wiregen.ErrTransport})
	if L <= 300_000 {
		one := make([]int, 0, L)
		for i := 1; i < L; i++ {
			one = append(one, i)
		}
		out = append(out, partition{name: "1byte", cuts: one, final: io.EOF})
	}
	// frame edges, edges+1, edges-1
	for d := -1; d <= 1; d++ {
		var cuts []int
		for _, e := range st.Edges {
			if e+d > 0 && e+d < L {
				cuts = append(cuts, e+d)
			}
		}
		out = append(out, partition{name: fmt.Sprintf("edges%+d", d), cuts: cuts, final: wiregen.ErrTransport, withData: d == 0})
	}
	for len(out) < n {
		k := []int{2, 3, 7, 29, 100, 1000, 4096, 5000, 70000}[r.Intn(9)]
		var cuts []int
		for p := 0; p < L; {
			p += 1 + r.Intn(k)
			cuts = append(cuts, p)
		}
		out = append(out, partition{name: fmt.Sprintf("rand%d", k), cuts: cuts, withData: r.Intn(2) == 0, once: r.Intn(2) == 0, empties: r.Intn(2) == 0, final: []error{io.EOF, wiregen.ErrTransport}[r.Intn(2)]})
	}
	return out
}

func finalClass(e error) string {
	if e == io.EOF {
		return "eof"
	}
	return "transport"
}

func checkStream(id string, seed uint64, max int, nparts int) runner.Result {
	r := &payload.SplitMix{S: seed}
	genMax := max
	if max > 1<<30 {
		genMax = []int{100, 4096, 65536}[r.Intn(3)] // "no limit" settings: the streams are sized as for an ordinary maximum
	}
	st := wiregen.GenStream(r, genMax)
	effMax := max
	if effMax == 0 {
		effMax = 4 << 20
	}
	limit := 4*effMax + 64*1024
	if max > 1<<30 {
		limit = 4*len(st.Data) + 64*1024 // the maximum bounds nothing here; what arrived does
	}

	refPkts, refClass, trailing := refwire.ReassembleBytes(st.Data, effMax)
	var refR []string
	for _, p := range refPkts {
		refR = append(refR, render(p.Stream, p.Message, p.Kind, p.Control, p.Data))
	}
	// If the stream ends inside a frame whose completion would exceed the maximum,
	// both "overflow" (detected early) and the transport's own error are acceptable
	// answers, but the answer must still be the same under every partition.
	ambiguousTail := refClass == refwire.ErrNone && trailing > 0

	parts := partitions(st, r, nparts)
	var res runner.Result
	res = runner.Result{ID: id, Verdict: runner.Held, Nontrivial: len(refPkts) > 0 || refClass != refwire.ErrNone, Events: int64(len(parts))}
	res.Sig = fmt.Sprintf("max=%d %s", max, st.Desc)
	var first *outcome
	var firstName string
	var more []runner.Result
	fail := func(key, format string, args ...interface{}) {
		if len(more) < 4 {
			more = append(more, runner.Violation(id, key, fmt.Sprintf("max=%d stream=[%s] (%d bytes): ", max, st.Desc, len(st.Data))+fmt.Sprintf(format, args...)))
		}
	}
	classes := map[string]bool{}
	for pi, p := range parts {
		sr := &wiregen.Scripted{Data: st.Data, Cuts: p.cuts, Final: p.final, WithData: p.withData, Once: p.once}
		if p.empties {
			sr.Empties = &payload.SplitMix{S: seed + uint64(pi)}
		}
		o := runReader(st.Data, max, sr, limit)
		if o.panicked != "" {
			fail("reader-panic", "partition %s: panic %s", p.name, o.panicked)
			continue
		}
		// normalise the transport-level final error so that partitions using
		// different final errors remain comparable
		cls := o.class
		if cls == finalClass(p.final) || cls == "eof" || cls == "transport" {
			cls = "transport-error-passed-through"
			if o.class != finalClass(p.final) {
				fail("wrong-transport-error", "partition %s: reader surfaced %q but the transport failed with %v", p.name, o.errStr, p.final)
			}
		}
		classes[cls] = true
		if o.capMax > limit {
			fail("buffer-bound", "partition %s: internal buffer capacity %d exceeds 4*max+64KiB=%d", p.name, o.capMax, limit)
		}
		if first == nil {
			oo := o
			oo.class = cls
			first, firstName = &oo, p.name
			// reference comparison
			np := len(o.pkts)
			if np > len(refR) || !equalStrs(o.pkts, refR[:np]) {
				fail("differs-from-reference", "partition %s: packets %v, reference %v", p.name, clip(o.pkts), clip(refR))
			} else {
				switch {
				case refClass != refwire.ErrNone:
					if np != len(refR) || cls != string(refClass) {
						fail("differs-from-reference", "partition %s: got %d packets then %q (%s); reference %d packets then %q", p.name, np, cls, o.errStr, len(refR), refClass)
					}
				case ambiguousTail:
					if np != len(refR) || (cls != "transport-error-passed-through" && cls != "overflow") {
						fail("differs-from-reference", "partition %s: got %d packets then %q (%s); reference %d packets then end of stream inside a frame", p.name, np, cls, o.errStr, len(refR))
					}
				default:
					if np != len(refR) || cls != "transport-error-passed-through" {
						fail("differs-from-reference", "partition %s: got %d packets then %q (%s); reference: all %d packets then the transport error", p.name, np, cls, o.errStr, len(refR))
					}
				}
			}
			continue
		}
		if !equalStrs(o.pkts, first.pkts) || cls != first.class {
			fail("partition-dependent", "partition %s: %d packets then %q (%s); partition %s: %d packets then %q (%s)", p.name, len(o.pkts), cls, o.errStr, firstName, len(first.pkts), first.class, first.errStr)
		}
	}
	res.Stats = map[string]int64{"partitions": int64(len(parts)), "ref_packets": int64(len(refR)), "stream_bytes": int64(len(st.Data))}
	for c := range classes {
		res.Stats["class_"+c]++
	}
	res.Sample = map[string]interface{}{"max": max, "stream": st.Desc, "bytes": len(st.Data), "partitions": len(parts), "reference_packets": len(refR), "reference_error": string(refClass)}
	if len(more) > 0 {
		v := more[0]
		v.Events = res.Events
		v.Sig = res.Sig
		v.More = more[1:]
		return v
	}
	return res
}

func clip(s []string) []string {
	if len(s) > 6 {
		return append(append([]string{}, s[:6]...), fmt.Sprintf("...(%d)", len(s)))
	}
	return s
}

func equalStrs(a, b []string) bool {
	if len(a) != len(b) {
		return false
	}
	for i := range a {
		if a[i] != b[i] {
			return false
		}
	}
	return true
}

// noProgress: a transport that returns (0, nil) forever must produce an error, not a hang.
func noProgress(id string) runner.Result {
	calls := 0
	rd := drpcwire.NewReader(readerFunc(func(p []byte) (int, error) {
		calls++
		if calls > 100000 {
			panic("runaway")
		}
		return 0, nil
	}))
	var err error
	func() {
		defer func() {
			if r := recover(); r != nil {
				err = nil
			}
		}()
		_, err = rd.ReadPacket()
	}()
	if err == nil || calls > 100000 {
		return runner.Violation(id, "no-progress-hang", "a transport returning (0,nil) forever did not make ReadPacket fail within 100000 reads")
	}
	return runner.Result{ID: id, Verdict: runner.Held, Nontrivial: true, Sig: id, Events: int64(calls)}
}

// longValidStream: thousands of valid packets, far more bytes than any buffer: the reader's buffer stays
// within a small multiple of its limit however much has gone through it, and the packets are the
// reference's under every partition of the reads (a transport that fills every slice it is offered, small
// chunks, single bytes).
func longValidStream(id string, seed uint64, npkt int) runner.Result {
	r := &payload.SplitMix{S: seed}
	max := payload.Pick(r, []int{200, 1024, 4096})
	var data []byte
	sid, mid := uint64(1), uint64(1)
	for i := 0; i < npkt; i++ {
		n := r.Intn(max/2 + 1)
		body := make([]byte, n)
		for j := range body {
			body[j] = byte(i + j)
		}
		nfr := 1 + r.Intn(2)
		for f := 0; f < nfr; f++ {
			lo, hi := f*n/nfr, (f+1)*n/nfr
			data = refwire.Encode(data, refwire.Frame{Stream: sid, Message: mid, Kind: 2, Done: f == nfr-1, Data: body[lo:hi]})
		}
		mid++
		if r.Intn(200) == 0 {
			sid++
			mid = 1
		}
	}
	want, ec, _ := refwire.ReassembleBytes(data, max)
	if ec != refwire.ErrNone || len(want) != npkt {
		return runner.Inconcl(id, "the generated stream is not valid for the reference")
	}
	desc := fmt.Sprintf("max=%d: %d valid packets, %d bytes", max, npkt, len(data))
	var fails []string
	for _, chunk := range []int{0, 1 << 16, 4096, 333, 1} {
		if chunk == 1 && len(data) > 400000 {
			continue
		}
		var cuts []int
		for p := chunk; chunk > 0 && p < len(data); p += chunk {
			cuts = append(cuts, p)
		}
		o := runReader(data, max, &wiregen.Scripted{Data: data, Cuts: cuts, Final: io.EOF}, 0)
		switch {
		case o.panicked != "":
			fails = append(fails, fmt.Sprintf("reads of %d bytes: panic %s", chunk, o.panicked))
		case len(o.pkts) != npkt:
			fails = append(fails, fmt.Sprintf("reads of %d bytes: %d packets then %q, want %d packets", chunk, len(o.pkts), o.errStr, npkt))
		case o.capMax > 4*max+64*1024:
			fails = append(fails, fmt.Sprintf("reads of %d bytes (0 = as much as the reader asks for): the reader's buffer grew to %d bytes with a limit of %d", chunk, o.capMax, max))
		}
	}
	if len(fails) > 0 {
		return runner.Violation(id, "long-valid-stream", desc+"\n"+strings.Join(fails, "\n"))
	}
	res := runner.Hold(id, desc, true)
	res.Events = int64(npkt)
	return res
}

type readerFunc func([]byte) (int, error)

func (f readerFunc) Read(p []byte) (int, error) { return f(p) }

func gen(tier string, seed uint64) []runner.Scenario {
	var out []runner.Scenario
	nstreams, nparts := 3000, 8
	if tier == "thorough" {
		nstreams, nparts = 60000, 16
	}
	maxes := []int{1, 100, 4096 - 29, 4096, 65536, 0}
	for i := 0; i < nstreams; i++ {
		max := maxes[i%len(maxes)]
		if max == 0 && i%(len(maxes)*8) != len(maxes)-1 {
			max = []int{7, 29, 1000, 300}[(i/len(maxes))%4] // the 4 MiB default is expensive: one stream in eight rounds
		}
		if i%16 == 15 {
			// settings that mean "no limit": the largest ints and their neighbourhood
			max = []int{math.MaxInt, math.MaxInt - 1, math.MaxInt - 29, math.MaxInt - 31, math.MaxInt - 64, 1 << 62, 1 << 40, math.MaxInt32}[(i/16)%8]
		}
		s := payload.Hash(seed, 0xC09, uint64(i))
		id := fmt.Sprintf("stream/%d/max=%d", i, max)
		mx := max
		out = append(out, runner.Scenario{ID: id, Run: func() runner.Result { return checkStream(id, s, mx, nparts) }})
	}
	nlong := 6
	if tier == "thorough" {
		nlong = 60
	}
	for i := 0; i < nlong; i++ {
		i := i
		id := fmt.Sprintf("long-valid-stream/%d", i)
		out = append(out, runner.Scenario{ID: id, Run: func() runner.Result {
			return longValidStream(id, payload.Hash(seed, 0xC091, uint64(i)), 2000+3000*(i%3))
		}})
	}
	out = append(out, runner.Scenario{ID: "noprogress", Run: func() runner.Result { return noProgress("noprogress") }})
	return out
}

func main() {
	runner.Main(runner.Check{
		Property: "C09",
		Level:    "exploration",
		Rule:     "one case = one seeded byte stream (valid multi-frame packets, id jumps and regressions, the largest message id and the very last (stream, message) id followed by ids that only a wrapped counter would accept, kind changes, control bits on middle frames, payloads at max-1/max/max+1, huge declared lengths, never-done packets, bursts of small frames after a large one, malformed varints, truncated tails) for one MaximumBufferSize in {1,7,29,100,300,1000,4067,4096,65536,default} or a no-limit setting {MaxInt, MaxInt-1, MaxInt-29, MaxInt-31, MaxInt-64, 2^62, 2^40, MaxInt32}; it is run through the real Reader under 8 (quick) / 16 (thorough) partitions (all-at-once, 1-byte, frame edges -1/0/+1, seeded random chunk sizes, error with or after data, interleaved empty reads). Non-trivial: the reference yields at least one packet or an error. Distinct: by (max, stream description).",
		Assumptions: []string{
			"reference reassembler refwire.Reassembler encodes the documented rules",
			"when the stream ends inside a frame that could only complete beyond the maximum, both 'overflow' and the transport's own error are accepted (the statement does not choose), but the answer must be partition-independent",
			"memory bound asserted: internal buffer capacity <= 4*max + 64 KiB",
		},
		Gen:           gen,
		InProc:        true,
		Parallel:      16,
		MinNontrivial: 500,
	})
}
