// C04: cancelling an RPC's context unblocks every operation of that RPC.
// Monitor: a blocked-goroutine census at quiescence after the cancel plus an
// error-identity oracle. Scenarios are enumerated: side x cancel mode x
// transport state (flowing, writes stalled, fully stalled) x RPC point x set of
// operations in flight (send inside the transport, send behind the write lock,
// receive on an empty buffer, Close, CloseSend, RawFlush, unary Invoke, a second
// NewStream waiting for the semaphore; SendError on the server). Each operation
// is placed, its placement confirmed by census, then the context is cancelled.
package main

import (
	"context"
	"errors"
	"fmt"
	"sort"
	"strings"
	"sync"
	"time"

	"storj.io/drpc"
	"storj.io/drpc/drpcmanager"
	"storj.io/drpc/drpcmetadata"
	"storj.io/drpc/drpcstream"
	"storj.io/drpc/drpcwire"

	"verifharness/census"
	"verifharness/director"
	"verifharness/payload"
	"verifharness/prog"
	"verifharness/rig"
	"verifharness/runner"
	"verifharness/simnet"
)

type scen struct {
	side  string // client | server
	soft  bool
	net   string // flowing | wstall | stall
	point string // corked | flushed | mid | half
	ops   []string
	unary bool
	split int
	wbuf  int
	// deadline: the client's context ends with DeadlineExceeded instead of Canceled
	deadline bool
}

// manualDeadlineCtx is a context with a deadline whose expiry the scenario triggers itself.
type manualDeadlineCtx struct {
	context.Context
	done chan struct{}
	once sync.Once
}

func (m *manualDeadlineCtx) Done() <-chan struct{} { return m.done }
func (m *manualDeadlineCtx) Err() error {
	select {
	case <-m.done:
		return context.DeadlineExceeded
	default:
		return nil
	}
}
func (m *manualDeadlineCtx) Deadline() (time.Time, bool) { return time.Now().Add(time.Hour), true }
func (m *manualDeadlineCtx) expire()                     { m.once.Do(func() { close(m.done) }) }

func (s scen) hasOp(x string) bool {
	for _, o := range s.ops {
		if o == x {
			return true
		}
	}
	return false
}

func (s scen) String() string {
	return fmt.Sprintf("side=%s soft=%v net=%s point=%s ops=[%s] unary=%v split=%d wbuf=%d deadline=%v", s.side, s.soft, s.net, s.point, strings.Join(s.ops, ","), s.unary, s.split, s.wbuf, s.deadline)
}

type opRec struct {
	name     string
	op       *rig.Op
	blocked  bool // confirmed blocked before the cancel
	inTransp bool // was inside the transport write
}

func run(id string, sc scen) runner.Result {
	mopts := drpcmanager.Options{SoftCancel: sc.soft, WriterBufferSize: sc.wbuf, Stream: drpcstream.Options{SplitSize: sc.split}}
	var hmu sync.Mutex
	var hctx context.Context
	var hstream drpc.Stream
	hready := make(chan struct{})
	hrelease := make(chan struct{})
	handler := rig.HandlerFunc(func(stream drpc.Stream, rpc string) error {
		if rpc == "/probe" {
			var m []byte
			if err := stream.MsgRecv(&m, payload.Enc{}); err != nil {
				return err
			}
			out := payload.Make(77, 1, 0, 0, 5)
			return stream.MsgSend(&out, payload.Enc{})
		}
		hmu.Lock()
		first := hctx == nil
		if first {
			hctx, hstream = stream.Context(), stream
		}
		hmu.Unlock()
		if first {
			close(hready)
		}
		if sc.side == "server" {
			<-hrelease // the scenario drives the handler's stream itself
			return nil
		}
		// client-side scenarios: echo the first two messages (for the mid-stream point), then only sink
		for i := 0; ; i++ {
			var m []byte
			if err := stream.MsgRecv(&m, payload.Enc{}); err != nil {
				// keep the RPC alive on this side until the cancel (or the teardown) reaches it
				select {
				case <-hrelease:
				case <-stream.Context().Done():
				}
				return nil
			}
			if i == 0 && sc.point == "decode-error" {
				// a message the client's decoder rejects; the RPC goes on afterwards
				u := payload.Undecodable(12)
				if err := stream.MsgSend(&u, payload.Enc{}); err != nil {
					return nil
				}
				continue
			}
			if (i < 2 && sc.point == "mid") || (sc.hasOp("recv-held") && m != nil && len(m) == payload.HeaderLen+51) {
				if err := stream.MsgSend(&m, payload.Enc{}); err != nil {
					return nil
				}
			}
		}
	})
	rg := rig.New(rig.Config{Net: simnet.Opts{Cap: -1}, Client: mopts, Server: mopts}, handler)
	defer func() {
		select {
		case <-hrelease:
		default:
			close(hrelease)
		}
		rg.Teardown()
	}()
	ctx, cancel := context.WithCancel(context.Background())
	defer cancel()
	var ctxErr = context.Canceled
	if sc.deadline && sc.side == "client" {
		// the RPC's context ends by its deadline rather than by a cancel function: the calls must
		// report that error. (The expiry is triggered by hand so that it lands where the scenario wants it.)
		mc := &manualDeadlineCtx{Context: context.Background(), done: make(chan struct{})}
		ctx, cancel, ctxErr = mc, mc.expire, context.DeadlineExceeded
		defer cancel()
	}
	var fails []string
	failf := func(f string, a ...interface{}) { fails = append(fails, fmt.Sprintf(f, a...)) }

	// the endpoint whose operations are in flight, and the stream they use
	end := rg.Pair.A
	var st drpc.Stream
	var ops []*opRec
	var cancelRPC func()
	var heldPark *director.Park
	cancel2 := func() {}

	if sc.unary {
		// a unary call whose handler never answers (or whose write is stalled)
		if sc.net != "flowing" {
			end.StallWrites(true)
			if sc.net == "stall" {
				end.StallReads(true)
			}
		}
		in := payload.Make(1, 0, 0, 0, 3000)
		var out []byte
		o := &opRec{name: "invoke"}
		o.op = rig.Go("invoke", func() (interface{}, error) { return nil, rg.Conn.Invoke(ctx, "/main", payload.Enc{}, &in, &out) })
		ops = append(ops, o)
		census.Quiesce(rig.Watchdog)
		o.blocked = !o.op.Returned()
		w, _ := end.InFlight()
		o.inTransp = w > 0
		cancelRPC = cancel
	} else {
		cst, err := rg.Conn.NewStream(ctx, "/main", payload.Enc{})
		if err != nil {
			return runner.Inconcl(id, "NewStream failed: "+err.Error())
		}
		send := func(s drpc.Stream, n int) error {
			m := payload.Make(1, 0, 0, 0, n)
			return s.MsgSend(&m, payload.Enc{})
		}
		switch sc.point {
		case "corked":
		case "flushed":
			send(cst, 10)
		case "mid":
			if sc.side == "client" {
				for i := 0; i < 2; i++ {
					send(cst, 100)
					var m []byte
					cst.MsgRecv(&m, payload.Enc{})
				}
			}
		case "decode-error":
			// an earlier receive of this RPC failed in the decoder; the application carries on
			send(cst, 10)
			var m []byte
			if err := cst.MsgRecv(&m, payload.Enc{}); !errors.Is(err, payload.ErrUndecodable) {
				return runner.Inconcl(id, "setup: the undecodable message did not arrive as a decode error: "+rig.ErrStr(err))
			}
		case "half":
			send(cst, 10)
			cst.CloseSend()
		}
		if sc.side == "server" {
			// make sure the handler exists, then drive its stream
			if sc.point == "corked" || sc.point == "mid" {
				send(cst, 100)
			}
			if s, _ := census.QuiesceOr(hready, rig.Watchdog); s != "ready" {
				return runner.Inconcl(id, "handler did not start")
			}
			hmu.Lock()
			st = hstream
			hmu.Unlock()
			if sc.point == "mid" {
				// two echo rounds driven from here
				for i := 0; i < 2; i++ {
					if i > 0 {
						send(cst, 100)
					}
					var m []byte
					if err := st.MsgRecv(&m, payload.Enc{}); err != nil {
						return runner.Inconcl(id, "setup exchange failed: "+err.Error())
					}
					st.MsgSend(&m, payload.Enc{})
					cst.MsgRecv(&m, payload.Enc{})
				}
			}
			end = rg.Pair.B
			cancelRPC = rg.StopServe // the server's context
		} else {
			st = cst
			cancelRPC = cancel
		}
		census.Quiesce(rig.Watchdog)
		if sc.net != "flowing" {
			end.StallWrites(true)
			if sc.net == "stall" {
				end.StallReads(true)
			}
		}
		launch := func(name string, f func() error) {
			o := &opRec{name: name}
			before, _ := end.InFlight()
			o.op = rig.Go(name, func() (interface{}, error) { return nil, f() })
			ops = append(ops, o)
			census.Quiesce(rig.Watchdog)
			o.blocked = !o.op.Returned()
			after, _ := end.InFlight()
			o.inTransp = o.blocked && after > before
		}
		for _, name := range sc.ops {
			switch name {
			case "send-transport":
				launch(name, func() error { return send(st, 5000) })
			case "send-lock", "send-after":
				launch(name, func() error { return send(st, 20) })
			case "rawwrite-lock":
				launch(name, func() error {
					m := payload.Make(1, 0, 0, 7, 20)
					return st.(interface {
						RawWrite(drpcwire.Kind, []byte) error
					}).RawWrite(drpcwire.KindMessage, m)
				})
			case "recv":
				launch(name, func() error { var m []byte; return st.MsgRecv(&m, payload.Enc{}) })
			case "close":
				launch(name, func() error { return st.Close() })
			case "closesend":
				launch(name, func() error { return st.CloseSend() })
			case "flush":
				launch(name, func() error { return st.(interface{ RawFlush() error }).RawFlush() })
			case "senderror":
				launch(name, func() error { return st.(interface{ SendError(error) error }).SendError(errors.New("handler failed")) })
			case "recv-held":
				// a message is delivered and the receiver is parked between taking it and releasing the buffer
				heldPark = rg.Dir.ParkAt("stream.msgrecv.held", end, 1)
				send(cst, 51)
				launch(name, func() error { var m []byte; return st.MsgRecv(&m, payload.Enc{}) })
				if !heldPark.IsReached() {
					heldPark.Release()
					return runner.Inconcl(id, "receiver did not reach the held point")
				}
			case "newstream2x":
				ctx2, c2 := context.WithCancel(context.Background())
				cancel2 = c2
				launch(name, func() error {
					s2, err := rg.Conn.NewStream(ctx2, "/probe", payload.Enc{})
					if err == nil {
						go s2.Close()
					}
					return err
				})
			case "newstream2":
				launch(name, func() error {
					s2, err := rg.Conn.NewStream(context.Background(), "/probe", payload.Enc{})
					if err == nil {
						go s2.Close()
					}
					return err
				})
			}
		}
	}
	nblocked := 0
	var placed []string
	for _, o := range ops {
		o.blocked = !o.op.Returned() // a later operation (Close) may already have ended an earlier one
		if o.blocked {
			nblocked++
			placed = append(placed, o.name)
		}
	}
	// cancel
	cancelRPC()
	if heldPark != nil {
		census.Quiesce(rig.Watchdog)
		heldPark.Release()
	}
	census.Quiesce(rig.Watchdog)
	cancel2()
	st2, snap := census.QuiesceOr(nil, rig.Watchdog)
	if st2 == "watchdog" {
		return runner.Inconcl(id, "watchdog after cancel: "+sc.String())
	}
	recovered := true
	terminalInFlight := false
	for _, o := range ops {
		if o.blocked && (o.name == "close" || o.name == "senderror") {
			terminalInFlight = true
		}
	}
	// the application's own Close/CloseSend/SendError in flight may end the send side before the cancel does
	ownEndInFlight := terminalInFlight
	for _, o := range ops {
		if o.blocked && o.name == "closesend" {
			ownEndInFlight = true
		}
	}
	// 1. every operation of the RPC returned
	for _, o := range ops {
		if !o.op.Returned() {
			failf("%s is still blocked after the context was cancelled and the process came to rest", o.name)
			continue
		}
		if !o.blocked {
			continue
		}
		err := o.op.Err
		switch {
		case o.name == "recv-held":
			// it had the message in hand: the message or the context's error are both fine
		case o.name == "newstream2x":
			if err == nil && false {
				failf("unreachable")
			}
		case (o.name == "recv" || o.name == "invoke") && o.inTransp && sc.soft:
			// blocked in its own implicit flush inside the transport: that is a send; soft mode promises nothing about its error
			if err == nil {
				failf("blocked %s returned nil after the cancel", o.name)
			}
		case o.name == "recv" || o.name == "invoke":
			if terminalInFlight {
				// the application's own Close/SendError was in flight too: whichever
				// terminates the stream first decides what the receive reports
				if err == nil {
					failf("blocked %s returned nil after the cancel", o.name)
				}
			} else if !errors.Is(err, ctxErr) {
				failf("blocked %s returned %q, want the context's error", o.name, rig.ErrStr(err))
			}
		case o.inTransp && !sc.soft:
			if !errors.Is(err, ctxErr) {
				failf("%s was blocked inside the transport write (default cancel mode) and returned %q, want the context's error", o.name, rig.ErrStr(err))
			}
		case (o.name == "send-lock" || o.name == "rawwrite-lock" || o.name == "send-after") && !sc.soft && !ownEndInFlight:
			// a send blocked behind another goroutine's send is a blocked send as well
			if !errors.Is(err, ctxErr) {
				failf("%s was blocked behind another call's write (default cancel mode) and returned %q, want the context's error", o.name, rig.ErrStr(err))
			}
		}
	}
	if len(fails) > 0 {
		fails = append(fails, "goroutines in drpc at quiescence:\n"+census.Dump(census.InDRPC(snap)))
	}
	// 1b. with every call returned and nothing of the RPC in flight, the RPC is over: its stream's
	// own context is done. (Checked before any further call is made on the stream: a later call would
	// complete a stream that failed to notice it had finished.)
	if st != nil && len(fails) == 0 {
		census.Quiesce(rig.Watchdog)
		if !rig.IsClosed(st.Context().Done()) {
			failf("every call of the cancelled RPC has returned but its stream's context is not done at quiescence (the stream never finished)")
		}
	}
	// 2. later send and receive fail
	if st != nil && len(fails) == 0 {
		for _, name := range []string{"send", "recv"} {
			name := name
			op := rig.Go("later-"+name, func() (interface{}, error) {
				if name == "send" {
					m := payload.Make(1, 0, 0, 9, 10)
					return nil, st.MsgSend(&m, payload.Enc{})
				}
				var m []byte
				return nil, st.MsgRecv(&m, payload.Enc{})
			})
			if !op.Wait() {
				failf("a %s issued after the cancel blocks", name)
			} else if op.Err == nil {
				failf("a %s issued after the cancel succeeded", name)
			}
		}
	}
	// 3. connection afterwards: closed, or usable
	if len(fails) == 0 && sc.side == "client" {
		closed := rig.IsClosed(rg.Conn.Closed())
		if !closed {
			if sc.net == "flowing" {
				in := payload.Make(77, 0, 0, 0, 5)
				var out []byte
				op := rig.Go("probe", func() (interface{}, error) {
					return nil, rg.Conn.Invoke(context.Background(), "/probe", payload.Enc{}, &in, &out)
				})
				if !op.Wait() {
					failf("after the cancel the connection is neither closed nor usable: a probe RPC blocks")
				} else if op.Err != nil && !rig.IsClosed(rg.Conn.Closed()) {
					failf("after the cancel the connection is not closed but a probe RPC failed: %s", rig.ErrStr(op.Err))
				}
			}
		}
		// 4. the peer handler's context is cancelled once the cancel or disconnect can reach it
		if sc.net == "flowing" && len(fails) == 0 {
			census.Quiesce(rig.Watchdog)
			hmu.Lock()
			hc := hctx
			hmu.Unlock()
			if hc != nil && !rig.IsClosed(hc.Done()) {
				failf("the peer handler's stream context is not cancelled at quiescence although the transport is flowing")
			}
		}
	}
	// 5. once the transport moves again the connection must be usable or closed
	if sc.side == "client" && sc.net != "flowing" {
		end.StallWrites(false)
		end.StallReads(false)
		_, snap2 := census.Quiesce(rig.Watchdog)
		if !rig.IsClosed(rg.Conn.Closed()) {
			in := payload.Make(77, 0, 0, 0, 5)
			var out []byte
			op := rig.Go("probe2", func() (interface{}, error) {
				return nil, rg.Conn.Invoke(context.Background(), "/probe", payload.Enc{}, &in, &out)
			})
			if !op.Wait() {
				_, snap2 = census.Quiesce(rig.Watchdog)
				fails = append(fails, "after the transport recovered the connection is neither closed nor usable: a probe RPC blocks\n"+census.Dump(census.InDRPC(snap2)))
				recovered = false
			} else if op.Err != nil && !rig.IsClosed(rg.Conn.Closed()) {
				failf("after the transport recovered the connection is not closed but a probe RPC failed: %s", rig.ErrStr(op.Err))
				recovered = false
			}
		}
		_ = snap2
	}
	// 5. with every call returned, the cancelled RPC is over: its stream's own context is done, and
	// closing the connection returns (a stream that never finishes would keep the manager waiting)
	if len(fails) == 0 && st != nil {
		census.Quiesce(rig.Watchdog)
		if !rig.IsClosed(st.Context().Done()) {
			failf("every call of the cancelled RPC has returned but its stream's context is not done at quiescence (the stream never finished)")
		}
		closer := rig.Go("conn-close", func() (interface{}, error) { return nil, rg.Conn.Close() })
		if !closer.Wait() {
			failf("Conn.Close after the cancelled RPC does not return")
		}
	}
	if len(fails) > 0 {
		key := "cancel:" + keyOf(sc, fails[0])
		if !recovered {
			key = "cancel:unusable-after-recovery " + keyOf(sc, fails[0])
		}
		// identify the two known blocking call sites by what the census shows
		for _, g := range snap {
			if !recovered {
				break
			}
			if g.Has("drpcstream.(*Stream).Cancel") && g.Has("drpcmanager.(*Manager).manageStream") && strings.HasPrefix(g.State, "sync.Mutex.Lock") && !sc.soft && terminalWaitsForWriteLock(snap) {
				key = "cancel:manager-cancel-blocked-behind-terminal-call-waiting-for-stuck-write soft=false"
			}
			if g.Has("drpcstream.(*Stream).SendCancel") && g.Has("drpcmanager.(*Manager).manageStream") && g.Has("simnet.(*End).Write") && sc.soft {
				key = "cancel:soft-cancel-packet-write-blocked-in-transport soft=true"
			}
		}
		return runner.Violation(id, key, sc.String()+" placed-blocked="+fmt.Sprint(placed)+"\n"+strings.Join(fails, "\n"))
	}
	res := runner.Hold(id, sc.String(), nblocked > 0)
	res.Events = int64(len(ops))
	res.Stats = map[string]int64{"ops_placed_blocked": int64(nblocked)}
	res.Sample = map[string]interface{}{"scenario": sc.String(), "blocked_before_cancel": placed}
	return res
}

// finishRace: the context of RPC 1 is cancelled in the window where its stream
// is already finished but the manager has not yet been told (the usual
// "defer cancel()" race); RPC 2 on the same connection then blocks in a receive
// and is cancelled: it must be unblocked like any other.
// lazyHandler: the handler reads the first message and then only waits for its context to end; the
// client sends more messages (the next one stays undelivered inside the server's reader), then cancels.
// "Once the cancellation or disconnect reaches the peer, the peer handler's stream context is cancelled."
func lazyHandler(id string, soft bool, extra int) runner.Result {
	mopts := drpcmanager.Options{SoftCancel: soft}
	var hmu sync.Mutex
	var hctx context.Context
	handler := rig.HandlerFunc(func(stream drpc.Stream, rpc string) error {
		var m []byte
		if err := stream.MsgRecv(&m, payload.Enc{}); err != nil {
			return err
		}
		hmu.Lock()
		hctx = stream.Context()
		hmu.Unlock()
		<-stream.Context().Done()
		return nil
	})
	rg := rig.New(rig.Config{Net: simnet.Opts{Cap: -1}, Client: mopts, Server: mopts}, handler)
	defer rg.Teardown()
	ctx, cancel := context.WithCancel(context.Background())
	defer cancel()
	st, err := rg.Conn.NewStream(ctx, "/lazy", payload.Enc{})
	if err != nil {
		return runner.Inconcl(id, "NewStream failed")
	}
	for i := 0; i < 1+extra; i++ {
		m := payload.Make(1, 0, 0, uint32(i), 20)
		if err := st.MsgSend(&m, payload.Enc{}); err != nil {
			return runner.Inconcl(id, "setup send failed: "+err.Error())
		}
	}
	census.Quiesce(rig.Watchdog)
	cancel()
	_, snap := census.Quiesce(rig.Watchdog)
	desc := fmt.Sprintf("lazy handler soft=%v: the handler read 1 message and waits for its context; %d more message(s) sent and unread; the client cancels", soft, extra)
	hmu.Lock()
	hc := hctx
	hmu.Unlock()
	if hc == nil {
		return runner.Inconcl(id, "the handler never started: "+desc)
	}
	if !rig.IsClosed(hc.Done()) {
		key := fmt.Sprintf("cancel:peer-handler-context-not-cancelled-behind-unread-message soft=%v", soft)
		return runner.Violation(id, key, desc+"\nthe peer handler's stream context is not cancelled at quiescence although the transport is flowing (the cancel or disconnect is queued behind the message the handler never reads)\n"+census.Dump(census.InDRPC(snap)))
	}
	res := runner.Hold(id, desc, true)
	res.Events = int64(2 + extra)
	return res
}

func finishRace(id string, soft bool, where string) runner.Result {
	mopts := drpcmanager.Options{SoftCancel: soft}
	handler := rig.HandlerFunc(func(stream drpc.Stream, rpc string) error {
		for {
			var m []byte
			if err := stream.MsgRecv(&m, payload.Enc{}); err != nil {
				if rpc == "/second" {
					<-stream.Context().Done()
				}
				return nil
			}
		}
	})
	rg := rig.New(rig.Config{Net: simnet.Opts{Cap: -1}, Client: mopts, Server: mopts}, handler)
	defer rg.Teardown()
	park := rg.Dir.ParkAt(where, rg.Pair.A, 1)
	ctx1, cancel1 := context.WithCancel(context.Background())
	defer cancel1()
	first := rig.Go("rpc1", func() (interface{}, error) {
		st, err := rg.Conn.NewStream(ctx1, "/first", payload.Enc{})
		if err != nil {
			return nil, err
		}
		m := payload.Make(1, 0, 0, 0, 10)
		st.MsgSend(&m, payload.Enc{})
		st.CloseSend()
		var out []byte
		st.MsgRecv(&out, payload.Enc{})
		return nil, st.Close()
	})
	census.QuiesceOr(park.Reached(), rig.Watchdog)
	reached := park.IsReached()
	cancel1()
	census.Quiesce(rig.Watchdog)
	park.Release()
	if !first.Wait() {
		return runner.Violation(id, "cancel:finish-race rpc1-blocked", fmt.Sprintf("soft=%v park=%s: the first RPC did not return", soft, where))
	}
	census.Quiesce(rig.Watchdog)
	desc := fmt.Sprintf("finish-race soft=%v: rpc1 cancelled while parked at %s (reached=%v), then rpc2 blocks in a receive and is cancelled", soft, where, reached)
	if rig.IsClosed(rg.Conn.Closed()) {
		return runner.Hold(id, desc+" (connection closed by the first cancel)", false)
	}
	ctx2, cancel2 := context.WithCancel(context.Background())
	defer cancel2()
	var st2 drpc.Stream
	second := rig.Go("rpc2-recv", func() (interface{}, error) {
		st, err := rg.Conn.NewStream(ctx2, "/second", payload.Enc{})
		if err != nil {
			return nil, err
		}
		st2 = st
		m := payload.Make(2, 0, 0, 0, 10)
		st.MsgSend(&m, payload.Enc{})
		var out []byte
		return nil, st.MsgRecv(&out, payload.Enc{})
	})
	census.Quiesce(rig.Watchdog)
	if second.Returned() {
		return runner.Inconcl(id, desc+": rpc2 returned before it was cancelled: "+rig.ErrStr(second.Err))
	}
	cancel2()
	_, snap := census.Quiesce(rig.Watchdog)
	if !second.Returned() {
		return runner.Violation(id, fmt.Sprintf("cancel:finish-race rpc2-recv-still-blocked soft=%v", soft), desc+"\nrpc2's blocked receive did not return after its context was cancelled\n"+census.Dump(census.InDRPC(snap)))
	}
	if !errors.Is(second.Err, context.Canceled) {
		return runner.Violation(id, fmt.Sprintf("cancel:finish-race rpc2-wrong-error soft=%v", soft), desc+"\nrpc2's blocked receive returned "+rig.ErrStr(second.Err))
	}
	_ = st2
	res := runner.Hold(id, desc, reached)
	res.Events = 2
	return res
}

// finishRaceQueued: as finishRace, but a second goroutine is already waiting for its turn on the
// connection (NewStream queued behind RPC 1) when RPC 1 finishes and is cancelled together. Whatever
// the connection decides (carry on, or close itself), every call must return: RPC 1's, the queued
// NewStream and what is done with its stream, and Conn.Close at the end.
func finishRaceQueued(id string, soft bool, where string, serverEnds string, idle bool) runner.Result {
	mopts := drpcmanager.Options{SoftCancel: soft}
	handler := rig.HandlerFunc(func(stream drpc.Stream, rpc string) error {
		var m []byte
		if err := stream.MsgRecv(&m, payload.Enc{}); err != nil {
			return nil
		}
		switch serverEnds {
		case "error":
			return errors.New("handler error")
		case "close":
			return stream.Close()
		}
		return nil
	})
	rg := rig.New(rig.Config{Net: simnet.Opts{Cap: -1}, Client: mopts, Server: mopts}, handler)
	defer rg.Teardown()
	park := rg.Dir.ParkAt(where, rg.Pair.A, 1)
	ctx1, cancel1 := context.WithCancel(context.Background())
	defer cancel1()
	proceed := make(chan struct{})
	first := rig.Go("rpc1", func() (interface{}, error) {
		st, err := rg.Conn.NewStream(ctx1, "/first", payload.Enc{})
		if err != nil {
			return nil, err
		}
		m := payload.Make(1, 0, 0, 0, 10)
		st.MsgSend(&m, payload.Enc{})
		if idle {
			// no call in flight when the server's last packet arrives: the connection's reader
			// itself completes the stream
			<-proceed
		}
		var out []byte
		st.MsgRecv(&out, payload.Enc{})
		return nil, st.Close()
	})
	ctx2, cancel2 := context.WithCancel(context.Background())
	defer cancel2()
	started := make(chan struct{})
	second := rig.Go("rpc2", func() (interface{}, error) {
		<-started
		st, err := rg.Conn.NewStream(ctx2, "/second", payload.Enc{})
		if err != nil {
			return nil, err
		}
		m := payload.Make(2, 0, 0, 0, 10)
		st.MsgSend(&m, payload.Enc{})
		var out []byte
		st.MsgRecv(&out, payload.Enc{})
		return nil, st.Close()
	})
	// rpc2 queues behind rpc1 as soon as rpc1 holds the connection
	close(started)
	census.QuiesceOr(park.Reached(), rig.Watchdog)
	reached := park.IsReached()
	census.Quiesce(rig.Watchdog)
	queued := !second.Returned()
	cancel1()
	census.Quiesce(rig.Watchdog)
	park.Release()
	census.Quiesce(rig.Watchdog)
	close(proceed)
	census.Quiesce(rig.Watchdog)
	cancel2()
	_, snap := census.Quiesce(rig.Watchdog)
	desc := fmt.Sprintf("finish-race-queued soft=%v server-ends=%s client-idle=%v: rpc1 cancelled while parked at %s (reached=%v) with rpc2 waiting for its turn (queued=%v), then rpc2 cancelled", soft, serverEnds, idle, where, reached, queued)
	key := fmt.Sprintf("cancel:finish-race-queued soft=%v", soft)
	if !first.Returned() {
		return runner.Violation(id, key+" rpc1-never-returns", desc+"\nrpc1 (cancelled) never returned\n"+census.Dump(census.InDRPC(snap)))
	}
	if !second.Returned() {
		return runner.Violation(id, key+" rpc2-never-returns", desc+"\nrpc2 (cancelled) never returned\n"+census.Dump(census.InDRPC(snap)))
	}
	closer := rig.Go("conn-close", func() (interface{}, error) { return nil, rg.Conn.Close() })
	_, snap = census.Quiesce(rig.Watchdog)
	if !closer.Returned() {
		return runner.Violation(id, key+" conn-close-never-returns", desc+"\nConn.Close after both cancelled RPCs never returned\n"+census.Dump(census.InDRPC(snap)))
	}
	res := runner.Hold(id, desc, reached && queued)
	res.Events = 3
	return res
}

// cancelAfterMeta: the RPC carries metadata and its context is cancelled while its goroutine sits
// between the metadata write and the invoke write (so the peer sees metadata and, in soft mode, a
// cancel, but never the invoke). The call must return, and the connection must afterwards be closed or
// carry the next RPC.
func cancelAfterMeta(id string, soft, unary bool) runner.Result {
	mopts := drpcmanager.Options{SoftCancel: soft}
	handler := rig.HandlerFunc(func(stream drpc.Stream, rpc string) error {
		var m []byte
		if err := stream.MsgRecv(&m, payload.Enc{}); err != nil {
			return nil
		}
		out := payload.Make(9, 1, 0, 0, 5)
		return stream.MsgSend(&out, payload.Enc{})
	})
	rg := rig.New(rig.Config{Net: simnet.Opts{Cap: -1}, Client: mopts, Server: mopts}, handler)
	defer rg.Teardown()
	point := "conn.newstream.afterMeta"
	if unary {
		point = "conn.invoke.afterMeta"
	}
	park := rg.Dir.ParkAt(point, rg.Pair.A, 1)
	ctx, cancel := context.WithCancel(drpcmetadata.Add(context.Background(), "k", "v"))
	defer cancel()
	op := rig.Go("rpc", func() (interface{}, error) {
		in := payload.Make(1, 0, 0, 0, 10)
		if unary {
			var out []byte
			return nil, rg.Conn.Invoke(ctx, "/meta", payload.Enc{}, &in, &out)
		}
		st, err := rg.Conn.NewStream(ctx, "/meta", payload.Enc{})
		if err != nil {
			return nil, err
		}
		defer st.Close()
		if err := st.MsgSend(&in, payload.Enc{}); err != nil {
			return nil, err
		}
		var out []byte
		return nil, st.MsgRecv(&out, payload.Enc{})
	})
	stq, _ := census.QuiesceOr(park.Reached(), rig.Watchdog)
	desc := fmt.Sprintf("cancel-after-metadata soft=%v unary=%v: context cancelled between the metadata write and the invoke write", soft, unary)
	if stq != "ready" {
		park.Release()
		return runner.Inconcl(id, desc+": the point was not reached")
	}
	cancel()
	census.Quiesce(rig.Watchdog)
	park.Release()
	_, snap := census.Quiesce(rig.Watchdog)
	key := fmt.Sprintf("cancel:after-metadata soft=%v unary=%v", soft, unary)
	if !op.Returned() {
		return runner.Violation(id, key+" call-still-blocked", desc+"\n"+census.Dump(census.InDRPC(snap)))
	}
	if op.Err == nil {
		return runner.Violation(id, key+" call-succeeded", desc+"\nthe cancelled call returned nil")
	}
	if !rig.IsClosed(rg.Conn.Closed()) {
		in := payload.Make(2, 0, 0, 0, 5)
		var out []byte
		probe := rig.Go("probe", func() (interface{}, error) {
			return nil, rg.Conn.Invoke(context.Background(), "/probe", payload.Enc{}, &in, &out)
		})
		if !probe.Wait() {
			_, snap = census.Quiesce(rig.Watchdog)
			return runner.Violation(id, key+" later-call-blocks", desc+"\nafter the cancel the connection is neither closed nor usable: a probe RPC blocks\n"+census.Dump(census.InDRPC(snap)))
		}
		if probe.Err != nil && !rig.IsClosed(rg.Conn.Closed()) {
			return runner.Violation(id, key+" later-call-fails", desc+"\nafter the cancel the connection is not closed but a probe RPC failed: "+rig.ErrStr(probe.Err))
		}
	}
	res := runner.Hold(id, desc, true)
	res.Events = 2
	return res
}

// waitingCalls: a unary call is in flight (its handler does not answer yet) and further calls of other
// goroutines wait for their turn on the connection, with per-rpc statistics on or off; the waiting
// calls' contexts are cancelled. Waiting for one's turn is an invoke that is blocked: it must return
// with its context's error; the call in flight is not disturbed and the connection stays usable.
func waitingCalls(id string, soft, stats bool) runner.Result {
	mopts := drpcmanager.Options{SoftCancel: soft}
	release := make(chan struct{})
	handler := rig.HandlerFunc(func(stream drpc.Stream, rpc string) error {
		var m []byte
		if err := stream.MsgRecv(&m, payload.Enc{}); err != nil {
			return nil
		}
		if rpc == "/slow" {
			select {
			case <-release:
			case <-stream.Context().Done():
			}
		}
		out := payload.Make(9, 1, 0, 0, 5)
		return stream.MsgSend(&out, payload.Enc{})
	})
	rg := rig.New(rig.Config{Net: simnet.Opts{Cap: -1}, Client: mopts, Server: mopts, CollectStats: stats}, handler)
	defer rg.Teardown()
	in := payload.Make(1, 0, 0, 0, 10)
	first := rig.Go("unary-in-flight", func() (interface{}, error) {
		var out []byte
		return nil, rg.Conn.Invoke(context.Background(), "/slow", payload.Enc{}, &in, &out)
	})
	census.Quiesce(rig.Watchdog)
	ctx2, cancel2 := context.WithCancel(context.Background())
	defer cancel2()
	w1 := rig.Go("waiting-invoke", func() (interface{}, error) {
		var out []byte
		return nil, rg.Conn.Invoke(ctx2, "/fast", payload.Enc{}, &in, &out)
	})
	w2 := rig.Go("waiting-newstream", func() (interface{}, error) {
		st, err := rg.Conn.NewStream(ctx2, "/fast", payload.Enc{})
		if err == nil {
			st.Close()
		}
		return nil, err
	})
	census.Quiesce(rig.Watchdog)
	waiting := !w1.Returned() && !w2.Returned()
	cancel2()
	_, snap := census.Quiesce(rig.Watchdog)
	desc := fmt.Sprintf("waiting-calls soft=%v stats=%v: a unary call in flight, an Invoke and a NewStream of other goroutines waiting for their turn (waiting=%v), their context cancelled", soft, stats, waiting)
	key := fmt.Sprintf("cancel:waiting-calls soft=%v stats=%v", soft, stats)
	var fails []string
	for name, w := range map[string]*rig.Op{"Invoke": w1, "NewStream": w2} {
		if !w.Returned() {
			fails = append(fails, "the "+name+" that was waiting for its turn is still blocked after its context was cancelled")
		} else if !errors.Is(w.Err, context.Canceled) {
			fails = append(fails, fmt.Sprintf("the waiting %s returned %s, want its context's error", name, rig.ErrStr(w.Err)))
		}
	}
	if len(fails) > 0 {
		return runner.Violation(id, key+" waiting-call", desc+"\n"+strings.Join(fails, "\n")+"\n"+census.Dump(census.InDRPC(snap)))
	}
	close(release)
	if !first.Wait() || first.Err != nil {
		return runner.Violation(id, key+" call-in-flight-disturbed", fmt.Sprintf("%s\nthe call in flight, whose context nobody cancelled: returned=%v err=%v", desc, first.Returned(), first.Err))
	}
	res := runner.Hold(id, desc, waiting)
	res.Events = 3
	return res
}

// waitingBehindSoftCancelled: soft cancel mode. RPC 1 is blocked in a receive when its context is
// cancelled; its cancel packet cannot leave (the transport has stopped taking writes), so its stream is
// terminated but not finished, and the connection lets the next call in to wait for it. An Invoke and a
// NewStream of other goroutines do, and then their own context is cancelled: they must return with it,
// stalled transport or not.
func waitingBehindSoftCancelled(id string, stats bool) runner.Result {
	mopts := drpcmanager.Options{SoftCancel: true}
	handler := rig.HandlerFunc(func(stream drpc.Stream, rpc string) error {
		<-stream.Context().Done()
		return nil
	})
	rg := rig.New(rig.Config{Net: simnet.Opts{Cap: -1}, Client: mopts, Server: mopts, CollectStats: stats}, handler)
	defer rg.Teardown()
	in := payload.Make(1, 0, 0, 0, 10)
	ctx1, cancel1 := context.WithCancel(context.Background())
	defer cancel1()
	first := rig.Go("first", func() (interface{}, error) {
		var out []byte
		return nil, rg.Conn.Invoke(ctx1, "/wait", payload.Enc{}, &in, &out)
	})
	census.Quiesce(rig.Watchdog)
	rg.Pair.A.StallWrites(true)
	cancel1()
	census.Quiesce(rig.Watchdog)
	ctx2, cancel2 := context.WithCancel(context.Background())
	defer cancel2()
	w1 := rig.Go("waiting-invoke", func() (interface{}, error) {
		var out []byte
		return nil, rg.Conn.Invoke(ctx2, "/next", payload.Enc{}, &in, &out)
	})
	census.Quiesce(rig.Watchdog)
	w2 := rig.Go("waiting-newstream", func() (interface{}, error) {
		st, err := rg.Conn.NewStream(ctx2, "/next", payload.Enc{})
		if err == nil {
			st.Close()
		}
		return nil, err
	})
	census.Quiesce(rig.Watchdog)
	waiting := !w1.Returned() && !w2.Returned()
	cancel2()
	_, snap := census.Quiesce(rig.Watchdog)
	desc := fmt.Sprintf("waiting-behind-soft-cancelled stats=%v: RPC 1 cancelled in a receive with the transport not taking writes (first call returned=%v), an Invoke and a NewStream of other goroutines waiting behind it (waiting=%v), their context cancelled", stats, first.Returned(), waiting)
	var fails []string
	for name, w := range map[string]*rig.Op{"Invoke": w1, "NewStream": w2} {
		if !w.Returned() {
			fails = append(fails, "the "+name+" that was waiting behind the soft-cancelled stream is still blocked after its own context was cancelled")
		} else if !errors.Is(w.Err, context.Canceled) {
			fails = append(fails, fmt.Sprintf("the waiting %s returned %s, want its context's error", name, rig.ErrStr(w.Err)))
		}
	}
	rg.Pair.A.StallWrites(false)
	if len(fails) > 0 {
		sort.Strings(fails)
		return runner.Violation(id, fmt.Sprintf("cancel:waiting-behind-soft-cancelled stats=%v waiting-call", stats), desc+"\n"+strings.Join(fails, "\n")+"\n"+census.Dump(census.InDRPC(snap)))
	}
	res := runner.Hold(id, desc, waiting)
	res.Events = 3
	return res
}

// deadContextCalls: calls made with a context that is over already (and calls whose context ends while
// they wait for their turn behind a call in flight) return the context's error, and they leave nothing
// behind: afterwards the connection serves the next RPC.
func deadContextCalls(id string, soft bool, behind bool) runner.Result {
	mopts := drpcmanager.Options{SoftCancel: soft}
	release := make(chan struct{})
	handler := rig.HandlerFunc(func(stream drpc.Stream, rpc string) error {
		var m []byte
		if err := stream.MsgRecv(&m, payload.Enc{}); err != nil {
			return nil
		}
		if rpc == "/slow" {
			select {
			case <-release:
			case <-stream.Context().Done():
			}
		}
		out := payload.Make(9, 1, 0, 0, 5)
		return stream.MsgSend(&out, payload.Enc{})
	})
	rg := rig.New(rig.Config{Net: simnet.Opts{Cap: -1}, Client: mopts, Server: mopts}, handler)
	defer rg.Teardown()
	in := payload.Make(1, 0, 0, 0, 10)
	var first *rig.Op
	if behind {
		first = rig.Go("in-flight", func() (interface{}, error) {
			var out []byte
			return nil, rg.Conn.Invoke(context.Background(), "/slow", payload.Enc{}, &in, &out)
		})
		census.Quiesce(rig.Watchdog)
	}
	dead, cancel := context.WithCancel(context.Background())
	cancel()
	desc := fmt.Sprintf("dead-context-calls soft=%v behind-a-call-in-flight=%v: a call whose context ends exactly when it has been given its turn, 24 Invoke / NewStream calls with a context that is over already, then a probe", soft, behind)
	var fails []string
	if !behind {
		// the call is parked right after it was given the stream slot; its context ends there
		park := rg.Dir.ParkAt("manager.sem.acquired", rg.Pair.A, 1)
		tctx, tcancel := context.WithCancel(context.Background())
		turn := rig.Go("cancelled-at-its-turn", func() (interface{}, error) {
			var out []byte
			return nil, rg.Conn.Invoke(tctx, "/fast", payload.Enc{}, &in, &out)
		})
		if st, _ := census.QuiesceOr(park.Reached(), rig.Watchdog); st == "ready" {
			tcancel()
			census.Quiesce(rig.Watchdog)
		}
		park.Release()
		census.Quiesce(rig.Watchdog)
		tcancel()
		if !turn.Returned() {
			fails = append(fails, "the call whose context ended when it was given its turn has not returned")
		}
	}
	for i := 0; i < 24 && len(fails) == 0; i++ {
		i := i
		op := rig.Go("dead", func() (interface{}, error) {
			if i%2 == 0 {
				var out []byte
				return nil, rg.Conn.Invoke(dead, "/fast", payload.Enc{}, &in, &out)
			}
			st, err := rg.Conn.NewStream(dead, "/fast", payload.Enc{})
			if err == nil {
				st.Close()
			}
			return nil, err
		})
		census.Quiesce(rig.Watchdog)
		if !op.Returned() {
			_, snap := census.Quiesce(rig.Watchdog)
			fails = append(fails, fmt.Sprintf("call %d made with a context that is over already is blocked\n%s", i+1, census.Dump(census.InDRPC(snap))))
		} else if op.Err == nil {
			fails = append(fails, fmt.Sprintf("call %d made with a context that is over already succeeded", i+1))
		}
	}
	close(release)
	if first != nil && len(fails) == 0 && (!first.Wait() || first.Err != nil) && !rig.IsClosed(rg.Conn.Closed()) {
		fails = append(fails, fmt.Sprintf("the call in flight, whose context nobody cancelled: returned=%v err=%v", first.Returned(), first.Err))
	}
	if len(fails) == 0 && !rig.IsClosed(rg.Conn.Closed()) {
		probe := rig.Go("probe", func() (interface{}, error) {
			var out []byte
			return nil, rg.Conn.Invoke(context.Background(), "/fast", payload.Enc{}, &in, &out)
		})
		census.Quiesce(rig.Watchdog)
		if !probe.Returned() {
			_, snap := census.Quiesce(rig.Watchdog)
			fails = append(fails, "after the calls with dead contexts the connection is not closed and the next RPC is blocked\n"+census.Dump(census.InDRPC(snap)))
		} else if probe.Err != nil && !rig.IsClosed(rg.Conn.Closed()) {
			fails = append(fails, "after the calls with dead contexts the connection is not closed and the next RPC failed: "+rig.ErrStr(probe.Err))
		}
	}
	if len(fails) > 0 {
		return runner.Violation(id, fmt.Sprintf("cancel:dead-context-calls soft=%v behind=%v", soft, behind), desc+"\n"+strings.Join(fails, "\n"))
	}
	res := runner.Hold(id, desc, true)
	res.Events = 25
	return res
}

// recvFlushStalled: manual flushing. A send is left in the writer, the transport stops taking writes,
// and a receive is issued: in manual mode it flushes what the application left buffered, and that
// flush is now stuck inside the transport. The call's context is cancelled. The receive is a blocked
// call of that RPC like any other: it returns with the context's error, in both cancel modes.
func recvFlushStalled(id string, soft bool, corked bool) runner.Result {
	mopts := drpcmanager.Options{SoftCancel: soft, Stream: drpcstream.Options{ManualFlush: true}}
	handler := rig.HandlerFunc(func(stream drpc.Stream, rpc string) error {
		<-stream.Context().Done()
		return nil
	})
	rg := rig.New(rig.Config{Net: simnet.Opts{Cap: -1}, Client: mopts, Server: drpcmanager.Options{SoftCancel: soft}}, handler)
	defer rg.Teardown()
	ctx, cancel := context.WithCancel(context.Background())
	defer cancel()
	st, err := rg.Conn.NewStream(ctx, "/x", payload.Enc{})
	if err != nil {
		return runner.Inconcl(id, "NewStream: "+err.Error())
	}
	if !corked {
		// the invoke is out already; only the message below stays in the writer
		if err := st.(interface{ RawFlush() error }).RawFlush(); err != nil {
			return runner.Inconcl(id, "flush: "+err.Error())
		}
		census.Quiesce(rig.Watchdog)
	}
	in := payload.Make(1, 0, 0, 0, 20)
	if err := st.MsgSend(&in, payload.Enc{}); err != nil {
		return runner.Inconcl(id, "send: "+err.Error())
	}
	rg.Pair.A.StallWrites(true)
	recv := rig.Go("recv", func() (interface{}, error) {
		var m []byte
		return nil, st.MsgRecv(&m, payload.Enc{})
	})
	_, snap := census.Quiesce(rig.Watchdog)
	inTransport := false
	for _, g := range snap {
		if g.Has("simnet.(*End).Write") && g.Has("drpcstream.(*Stream).MsgRecv") {
			inTransport = true
		}
	}
	cancel()
	_, snap = census.Quiesce(rig.Watchdog)
	desc := fmt.Sprintf("recv-flush-stalled soft=%v invoke-still-corked=%v: manual flushing, a send left in the writer, the transport stops taking writes, a receive whose flush is inside the transport (observed there: %v), context cancelled", soft, corked, inTransport)
	key := fmt.Sprintf("cancel:recv-flush-stalled soft=%v", soft)
	if !recv.Returned() {
		return runner.Violation(id, key+" receive-still-blocked", desc+"\nthe receive is still blocked at quiescence\n"+census.Dump(census.InDRPC(snap)))
	}
	// as in the main matrix: a receive that sits in its own flush inside the transport is, for the error it
	// reports, a send; the soft mode promises the context's error to neither (there the manager closes the
	// transport first and cancels the stream next, and the flush wakes up in between or after)
	if recv.Err == nil || (!soft && !errors.Is(recv.Err, context.Canceled)) {
		return runner.Violation(id, key+" wrong-error", desc+"\nthe receive returned "+rig.ErrStr(recv.Err)+", want the context's error")
	}
	res := runner.Hold(id, desc, inTransport)
	res.Events = 3
	return res
}

// midMessage: the context is cancelled while a middle frame of a message that spans several frames
// is inside the transport, and that write then completes successfully (its bytes were out already).
// The send was blocked in the transport when the cancel happened: default mode promises the
// context's error, not the end-of-stream a send issued afterwards gets.
func midMessage(id string, side string, frame int, raw bool) runner.Result {
	sopts := drpcstream.Options{SplitSize: 64}
	mopts := drpcmanager.Options{WriterBufferSize: 1, Stream: sopts}
	type hs struct {
		st  drpc.Stream
		ctx context.Context
	}
	hch := make(chan hs, 1)
	release := make(chan struct{})
	handler := rig.HandlerFunc(func(stream drpc.Stream, rpc string) error {
		if side == "server" {
			hch <- hs{stream, stream.Context()}
			<-release
			return nil
		}
		for {
			var m []byte
			if err := stream.MsgRecv(&m, payload.Enc{}); err != nil {
				return nil
			}
		}
	})
	rg := rig.New(rig.Config{Net: simnet.Opts{Cap: -1}, Client: mopts, Server: mopts}, handler)
	defer rg.Teardown()
	defer close(release)
	ctx, cancel := context.WithCancel(context.Background())
	defer cancel()
	cst, err := rg.Conn.NewStream(ctx, "/mid", payload.Enc{})
	if err != nil {
		return runner.Inconcl(id, "NewStream: "+err.Error())
	}
	first := payload.Make(1, 0, 0, 0, 10)
	if err := cst.MsgSend(&first, payload.Enc{}); err != nil {
		return runner.Inconcl(id, "first send: "+err.Error())
	}
	st, end := cst, rg.Pair.A
	if side == "server" {
		census.Quiesce(rig.Watchdog)
		select {
		case h := <-hch:
			st, end = h.st, rg.Pair.B
		default:
			return runner.Inconcl(id, "handler did not start")
		}
	}
	census.Quiesce(rig.Watchdog)
	gate := end.GateWriteIdx(end.WriteCount()+frame, simnet.After)
	gate.SucceedOnClose = true
	op := rig.Go("send", func() (interface{}, error) {
		m := payload.Make(1, 0, 0, 1, 1000) // about 16 frames of 64 bytes, one transport write each
		if raw {
			return nil, st.(interface {
				RawWrite(drpcwire.Kind, []byte) error
			}).RawWrite(drpcwire.KindMessage, m)
		}
		return nil, st.MsgSend(&m, payload.Enc{})
	})
	stq, _ := census.QuiesceOr(gate.Reached(), rig.Watchdog)
	desc := fmt.Sprintf("mid-message side=%s raw=%v: context cancelled while frame %d of a 16-frame message is inside the transport; that write then completes successfully", side, raw, frame)
	if stq != "ready" {
		gate.Release()
		return runner.Inconcl(id, desc+": the gated write was not reached")
	}
	cancel() // server side: the client's cancel closes the transport, which cancels the handler's stream
	census.Quiesce(rig.Watchdog)
	gate.Release()
	_, snap := census.Quiesce(rig.Watchdog)
	if !op.Returned() {
		return runner.Violation(id, "cancel:mid-message send-still-blocked side="+side, desc+"\n"+census.Dump(census.InDRPC(snap)))
	}
	want := context.Canceled
	if !errors.Is(op.Err, want) {
		return runner.Violation(id, fmt.Sprintf("cancel:wrong-error mid-message side=%s raw=%v", side, raw), desc+"\nthe send returned "+rig.ErrStr(op.Err)+", want the context's error")
	}
	res := runner.Hold(id, desc, true)
	res.Events = 2
	return res
}

// terminalWaitsForWriteLock: some Close/CloseSend/SendError is queued on a lock (the write lock,
// which it waits for while holding the state lock) and some other call is inside the transport's Write.
func terminalWaitsForWriteLock(snap []census.G) bool {
	queued, writing := false, false
	for _, g := range snap {
		terminal := g.Has("drpcstream.(*Stream).Close") || g.Has("drpcstream.(*Stream).CloseSend") || g.Has("drpcstream.(*Stream).SendError")
		if terminal && strings.HasPrefix(g.State, "sync.Mutex.Lock") {
			queued = true
		}
		if g.Has("simnet.(*End).Write") && !(terminal && strings.HasPrefix(g.State, "sync.Mutex.Lock")) {
			writing = true
		}
	}
	return queued && writing
}

func keyOf(sc scen, first string) string {
	ops := append([]string(nil), sc.ops...)
	sort.Strings(ops)
	what := "still-blocked"
	switch {
	case strings.Contains(first, "want the context's error"):
		what = "wrong-error"
	case strings.Contains(first, "issued after the cancel blocks"):
		what = "later-call-blocks"
	case strings.Contains(first, "issued after the cancel succeeded"):
		what = "later-call-succeeds"
	case strings.Contains(first, "after the cancel"):
		what = "afterwards"
	case strings.Contains(first, "handler's stream context"):
		what = "peer-context"
	}
	net := "flowing"
	if sc.net != "flowing" {
		net = "stalled"
	}
	return fmt.Sprintf("%s soft=%v net=%s side=%s ops=%s", what, sc.soft, net, sc.side, strings.Join(ops, "+"))
}

func gen(tier string, seed uint64) []runner.Scenario {
	var all []scen
	clientOps := []string{"recv-held", "send-transport", "send-lock", "rawwrite-lock", "recv", "send-after", "close", "closesend", "flush", "newstream2", "newstream2x"}
	serverOps := []string{"send-transport", "send-lock", "rawwrite-lock", "recv", "closesend", "senderror", "flush"}
	for _, side := range []string{"client", "server"} {
		base := clientOps
		if side == "server" {
			base = serverOps
		}
		for _, soft := range []bool{false, true} {
			for _, net := range []string{"flowing", "wstall", "stall"} {
				for _, point := range []string{"corked", "flushed", "mid", "half", "decode-error"} {
					if side == "server" && (point == "corked" || point == "decode-error") {
						continue
					}
					// admissible sets: subsets of size 1..3 in a fixed order
					n := len(base)
					for mask := 1; mask < 1<<n; mask++ {
						var ops []string
						for i := 0; i < n; i++ {
							if mask&(1<<i) != 0 {
								ops = append(ops, base[i])
							}
						}
						if len(ops) > 3 {
							continue
						}
						has := func(x string) bool {
							for _, o := range ops {
								if o == x {
									return true
								}
							}
							return false
						}
						if net == "flowing" && (has("send-transport") || has("send-lock") || has("rawwrite-lock") || has("flush")) && !has("recv") {
							continue // nothing would be blocked
						}
						if (has("send-lock") || has("rawwrite-lock")) && !has("send-transport") {
							continue
						}
						if has("send-lock") && has("rawwrite-lock") {
							continue
						}
						// send-after: a send issued while the stream's first receive is inside the transport
						// flushing the corked invoke, so the send is blocked behind the receive
						if has("send-after") && !(has("recv") && point == "corked" && net != "flowing" && !has("send-transport") && !has("send-lock") && !has("rawwrite-lock")) {
							continue
						}
						if has("close") && has("closesend") && has("senderror") {
							continue
						}
						if has("recv-held") && (has("recv") || net != "flowing" || point == "half" || side != "client") {
							continue
						}
						if has("newstream2") && has("newstream2x") {
							continue
						}
						if point == "half" && side == "client" && (has("send-transport") || has("send-lock") || has("rawwrite-lock") || has("closesend")) {
							continue // sends after one's own half-close fail immediately (on the server side "half" means the peer has half-closed: sends are as valid as before)
						}
						all = append(all, scen{side: side, soft: soft, net: net, point: point, ops: ops})
					}
				}
				if side == "client" {
					all = append(all, scen{side: side, soft: soft, net: net, unary: true, point: "unary"})
				}
			}
		}
	}
	r := &payload.SplitMix{S: payload.Hash(seed, 0xC04)}
	var out []runner.Scenario
	for _, soft := range []bool{false, true} {
		for _, stats := range []bool{false, true} {
			soft, stats := soft, stats
			id := fmt.Sprintf("waiting-calls/soft=%v/stats=%v", soft, stats)
			out = append(out, runner.Scenario{ID: id, Run: func() runner.Result { return waitingCalls(id, soft, stats) }})
		}
	}
	for _, soft := range []bool{false, true} {
		for _, behind := range []bool{false, true} {
			for rep := 0; rep < 3; rep++ {
				soft, behind := soft, behind
				id := fmt.Sprintf("dead-context-calls/soft=%v/behind=%v/%d", soft, behind, rep)
				out = append(out, runner.Scenario{ID: id, Run: func() runner.Result { return deadContextCalls(id, soft, behind) }})
			}
		}
	}
	for _, soft := range []bool{false, true} {
		for _, corked := range []bool{false, true} {
			soft, corked := soft, corked
			id := fmt.Sprintf("recv-flush-stalled/soft=%v/corked=%v", soft, corked)
			out = append(out, runner.Scenario{ID: id, Run: func() runner.Result { return recvFlushStalled(id, soft, corked) }})
		}
	}
	for _, stats := range []bool{false, true} {
		stats := stats
		id := fmt.Sprintf("waiting-behind-soft-cancelled/stats=%v", stats)
		out = append(out, runner.Scenario{ID: id, Run: func() runner.Result { return waitingBehindSoftCancelled(id, stats) }})
	}
	for _, soft := range []bool{false, true} {
		for _, unary := range []bool{false, true} {
			for rep := 0; rep < 2; rep++ {
				soft, unary := soft, unary
				id := fmt.Sprintf("cancel-after-metadata/soft=%v/unary=%v/%d", soft, unary, rep)
				out = append(out, runner.Scenario{ID: id, Run: func() runner.Result { return cancelAfterMeta(id, soft, unary) }})
			}
		}
	}
	// client side only: on the server side the handler's context is cancelled by the disconnect itself,
	// so a write that fails because the peer is gone precedes the cancellation and may report the transport's error
	for _, side := range []string{"client"} {
		for _, frame := range []int{1, 2, 7, 14, 15, 16} {
			for _, raw := range []bool{false, true} {
				side, frame, raw := side, frame, raw
				id := fmt.Sprintf("mid-message/%s/frame=%d/raw=%v", side, frame, raw)
				out = append(out, runner.Scenario{ID: id, Run: func() runner.Result { return midMessage(id, side, frame, raw) }})
			}
		}
	}
	for _, soft := range []bool{false, true} {
		for _, where := range []string{"stream.fin", "manager.stream.fin", "stream.close.mu", "manager.stream.ctx", "manager.stream.beforeSendCancel", "manager.newstream.published"} {
			for _, ends := range []string{"return", "error", "close"} {
				for _, idle := range []bool{false, true} {
					soft, where, ends, idle := soft, where, ends, idle
					id := fmt.Sprintf("finish-race-queued/soft=%v/%s/%s/idle=%v", soft, where, ends, idle)
					out = append(out, runner.Scenario{ID: id, Run: func() runner.Result { return finishRaceQueued(id, soft, where, ends, idle) }})
				}
			}
		}
	}
	for _, soft := range []bool{false, true} {
		for _, where := range []string{"stream.fin", "manager.stream.fin", "stream.close.mu", "stream.closesend.emit"} {
			for rep := 0; rep < 3; rep++ {
				soft, where := soft, where
				id := fmt.Sprintf("finish-race/soft=%v/%s/%d", soft, where, rep)
				out = append(out, runner.Scenario{ID: id, Run: func() runner.Result { return finishRace(id, soft, where) }})
			}
		}
	}
	for _, soft := range []bool{false, true} {
		for extra := 0; extra <= 2; extra++ {
			soft, extra := soft, extra
			id := fmt.Sprintf("lazy-handler/soft=%v/unread=%d", soft, extra)
			out = append(out, runner.Scenario{ID: id, Run: func() runner.Result { return lazyHandler(id, soft, extra) }})
		}
	}
	for i, sc := range all {
		sc := sc
		sc.split = payload.Pick(r, []int{0, 64, 1024, -1})
		sc.wbuf = payload.Pick(r, []int{0, 100, 1})
		sc.deadline = r.Intn(3) == 0
		if tier != "thorough" && i%3 != int(seed%3) {
			continue
		}
		id := fmt.Sprintf("%d/%s", i, sc.String())
		out = append(out, runner.Scenario{ID: id, Run: func() runner.Result { return run(id, sc) }})
	}
	return out
}

var _ = prog.Act{}

func main() {
	runner.Main(runner.Check{
		Property: "C04",
		Level:    "exploration",
		Rule:     "enumerated cases: side (client context / server context) x cancel mode x transport state (flowing, local writes stalled, local reads and writes stalled) x RPC point (invoke corked, invoke flushed, mid-stream after two echo rounds, after half-close) x every admissible set of 1-3 operations in flight out of {send inside the transport write, send queued behind the write lock, receive on an empty buffer, Close, CloseSend, RawFlush, SendError (server), a second NewStream waiting for the semaphore}, plus blocked unary Invoke; each operation is started in its own goroutine and its placement confirmed by census before the context is cancelled. quick runs the third of the list selected by the seed, thorough all of it. Non-trivial: at least one operation confirmed blocked before the cancel. Distinct: by scenario tuple.",
		Assumptions: []string{
			"sends that were queued behind the write lock (not inside the transport) may return io.EOF by design; the context's error is required only of blocked receives, blocked Invoke and, in the default cancel mode, of sends that were inside the transport write",
			"the transport lets go of pending I/O when it is closed (simnet does; a stalled simnet write blocks until Close like a full socket buffer to a dead peer)",
			"'connection usable afterwards' is probed only with a flowing transport",
		},
		Gen:           gen,
		Shards:        14,
		MinNontrivial: 50,
		Exhaustive:    func(tier string) bool { return tier == "thorough" },
	})
}
