// C18: the wire format stays compatible with released peers.
// Differential monitors against a vendored, path-renamed copy of the released
// v0.0.17: (a) byte streams captured from real runs of the current code are
// decoded by the v0.0.17 reader and by the current reader: old packets ==
// current packets minus the control-bit ones; (b) byte streams produced by the
// v0.0.17 stream/writer layer (and synthetic sequences it can produce, incl.
// packets abandoned mid-write) decode identically under both readers; (c) live
// interop old client <-> new server and new client <-> old server for the four
// shapes with the tagged-payload oracle; (d) unknown kinds with the control bit
// injected for current, older and never-invoked streams leave every RPC's
// outcome unchanged.
package main

import (
	"bytes"
	"context"
	"errors"
	"fmt"
	"io"
	"strings"
	"sync"

	olddrpc "drpcv0017"
	oldconn "drpcv0017/drpcconn"
	oldmeta "drpcv0017/drpcmetadata"
	oldserver "drpcv0017/drpcserver"
	oldstream "drpcv0017/drpcstream"
	oldwire "drpcv0017/drpcwire"

	"storj.io/drpc"
	"storj.io/drpc/drpcconn"
	"storj.io/drpc/drpcerr"
	"storj.io/drpc/drpcmanager"
	"storj.io/drpc/drpcmetadata"
	"storj.io/drpc/drpcserver"
	"storj.io/drpc/drpcstream"
	"storj.io/drpc/drpcwire"

	"verifharness/census"
	"verifharness/payload"
	"verifharness/prog"
	"verifharness/refwire"
	"verifharness/rig"
	"verifharness/runner"
	"verifharness/simnet"
)

type pk struct {
	s, m uint64
	kind uint8
	ctl  bool
	data string
}

func (p pk) String() string {
	return fmt.Sprintf("(s%d m%d k%d ctl=%v len%d)", p.s, p.m, p.kind, p.ctl, len(p.data))
}

// chunkReader hands out at most chunk bytes per Read; with errWithData the final bytes come together
// with io.EOF (as some transports and io.Reader adaptors do).
type chunkReader struct {
	b           []byte
	chunk       int
	errWithData bool
}

func (c *chunkReader) Read(p []byte) (int, error) {
	if len(c.b) == 0 {
		return 0, io.EOF
	}
	n := len(p)
	if c.chunk > 0 && n > c.chunk {
		n = c.chunk
	}
	if n > len(c.b) {
		n = len(c.b)
	}
	copy(p, c.b[:n])
	c.b = c.b[n:]
	if len(c.b) == 0 && c.errWithData {
		return n, io.EOF
	}
	return n, nil
}

// decodeNew decodes with the current reader and checks on the way that the result does not depend on
// how the bytes are cut into reads or on whether the end of the stream is reported with the last bytes.
func decodeNew(b []byte) (out []pk, err error) {
	out, err = decodeNewFrom(bytes.NewReader(b))
	for _, v := range []*chunkReader{{b: b, errWithData: true}, {b: b, chunk: 1000}, {b: b, chunk: 65536, errWithData: true}, {b: b, chunk: 7}} {
		if v.chunk == 7 && len(b) > 1<<16 {
			continue
		}
		o2, e2 := decodeNewFrom(v)
		if (e2 == nil) != (err == nil) || diff(out, o2) != "" {
			return o2, fmt.Errorf("the current reader's answer depends on the read pattern (chunk=%d, end of stream with data=%v): %d packets, err=%v, against %d packets, err=%v when read in one piece; %s", v.chunk, v.errWithData, len(o2), e2, len(out), err, diff(out, o2))
		}
	}
	return out, err
}

func decodeNewFrom(src io.Reader) (out []pk, err error) {
	rd := drpcwire.NewReaderWithOptions(src, drpcwire.ReaderOptions{MaximumBufferSize: 4 << 20})
	for {
		p, e := rd.ReadPacket()
		if e != nil {
			if errors.Is(e, io.EOF) {
				return out, nil
			}
			return out, e
		}
		out = append(out, pk{p.ID.Stream, p.ID.Message, uint8(p.Kind), p.Control, string(p.Data)})
	}
}

func decodeOld(b []byte) (out []pk, err error) {
	rd := oldwire.NewReader(bytes.NewReader(b))
	for {
		p, e := rd.ReadPacket()
		if e != nil {
			if errors.Is(e, io.EOF) {
				return out, nil
			}
			return out, e
		}
		out = append(out, pk{p.ID.Stream, p.ID.Message, uint8(p.Kind), false, string(p.Data)})
	}
}

func diff(a, b []pk) string {
	for i := 0; i < len(a) || i < len(b); i++ {
		switch {
		case i >= len(a):
			return fmt.Sprintf("second has extra packet #%d %s", i, b[i])
		case i >= len(b):
			return fmt.Sprintf("first has extra packet #%d %s", i, a[i])
		case a[i] != b[i]:
			return fmt.Sprintf("packet #%d differs: %s vs %s", i, a[i], b[i])
		}
	}
	return ""
}

func noControl(ps []pk) []pk {
	var out []pk
	for _, p := range ps {
		if !p.ctl {
			out = append(out, p)
		}
	}
	return out
}

// (a) streams captured from the current implementation
func newToOld(id string, seed uint64) runner.Result {
	r := &payload.SplitMix{S: seed}
	cfg := prog.GenConfig(r, r.Intn(4) == 0)
	cfg.Client.SoftCancel, cfg.Server.SoftCancel = true, true // so that control packets occur
	cfg.Net.Cap = -1
	var scripts []*prog.Script
	for i := 0; i < 2+r.Intn(5); i++ {
		if r.Intn(2) == 0 {
			scripts = append(scripts, prog.GenClean(r, uint64(i+1), cfg))
		} else {
			scripts = append(scripts, prog.GenAbort(r, uint64(i+1), cfg, payload.Pick(r, prog.AbortKinds)))
		}
		if r.Intn(3) == 0 {
			scripts[i].Meta = map[string]string{"k": fmt.Sprint(i)}
		}
	}
	x := prog.New(cfg, scripts)
	x.Start([][]*prog.Script{scripts})
	x.WaitClients()
	census.Quiesce(rig.Watchdog)
	a, b := x.Rig.Pair.A.Accepted(), x.Rig.Pair.B.Accepted()
	x.Rig.Teardown()
	var fails []string
	nctl := 0
	for name, stream := range map[string][]byte{"client->server": a, "server->client": b} {
		pn, en := decodeNew(stream)
		po, eo := decodeOld(stream)
		if en != nil {
			fails = append(fails, fmt.Sprintf("%s: the current reader rejects what the current writer emitted: %v", name, en))
			continue
		}
		if eo != nil {
			fails = append(fails, fmt.Sprintf("%s: the v0.0.17 reader rejects the stream: %v", name, eo))
			continue
		}
		nctl += len(pn) - len(noControl(pn))
		for _, p := range po {
			// everything the released reader hands to the released stream layer must be a kind it knows
			if !oldKinds[p.kind] {
				fails = append(fails, fmt.Sprintf("%s: the v0.0.17 reader delivers %s whose kind the v0.0.17 stream layer does not know (it would fail the connection); packets older peers cannot understand must carry the control bit", name, p))
				break
			}
		}
		if d := diff(po, noControl(pn)); d != "" {
			fails = append(fails, fmt.Sprintf("%s: v0.0.17 decodes differently from the current reader minus control packets: %s", name, d))
		}
	}
	if len(fails) > 0 {
		return runner.Violation(id, "new-to-old", cfg.Desc+"\n"+strings.Join(fails, "\n"))
	}
	res := runner.Hold(id, fmt.Sprintf("%s %d scripts %d/%d bytes", cfg.Desc, len(scripts), len(a), len(b)), len(a) > 0)
	res.Events = int64(len(a) + len(b))
	res.Stats = map[string]int64{"control_packets_seen": int64(nctl), "bytes": int64(len(a) + len(b))}
	return res
}

// oldKinds are the packet kinds v0.0.17 understands (invoke, message, error, close, close-send, invoke-metadata).
var oldKinds = map[uint8]bool{1: true, 2: true, 3: true, 5: true, 6: true, 7: true}

// oldMsg is a gogo-protobuf compatible message carrying raw bytes.
type oldMsg struct{ B []byte }

func (m *oldMsg) Reset()                   { m.B = nil }
func (m *oldMsg) String() string           { return "" }
func (*oldMsg) ProtoMessage()              {}
func (m *oldMsg) Marshal() ([]byte, error) { return m.B, nil }
func (m *oldMsg) Unmarshal(b []byte) error { m.B = append([]byte(nil), b...); return nil }

// (b) streams produced by the released stream/writer layer
func oldToNew(id string, seed uint64) runner.Result {
	r := &payload.SplitMix{S: seed}
	var buf bytes.Buffer
	var desc []string
	wsize := payload.Pick(r, []int{0, 1, 100, 1 << 20})
	wr := oldwire.NewWriter(&buf, wsize)
	ctx := context.Background()
	sid := uint64(0)
	for rpc := 0; rpc < 1+r.Intn(5); rpc++ {
		sid += uint64(1 + r.Intn(2))
		st := oldstream.NewWithOptions(ctx, sid, wr, oldstream.Options{SplitSize: payload.Pick(r, []int{0, 1, 7, 1024, 70000})})
		nops := 1 + r.Intn(6)
		for k := 0; k < nops; k++ {
			switch op := r.Intn(10); {
			case op == 0:
				st.RawWrite(ctx, oldwire.KindInvoke, []byte(fmt.Sprintf("/rpc/%d", rpc)))
				desc = append(desc, "invoke")
			case op == 1:
				st.RawWrite(ctx, oldwire.KindInvokeMetadata, []byte{10, 4, 10, 0, 18, 0})
				desc = append(desc, "metadata")
			case op < 6:
				n := payload.Pick(r, []int{0, 1, 6, 7, 8, 1023, 1024, 1025, 5000, 150000})
				if st.MsgSend(&oldMsg{B: payload.Make(sid, 0, 0, uint32(k), n)}) == nil {
					desc = append(desc, fmt.Sprintf("send%d", n))
				}
			case op == 6:
				st.CloseSend()
				desc = append(desc, "closesend")
			case op == 7:
				st.SendError(errors.New("old error"))
				desc = append(desc, "error")
			case op == 8:
				st.Close()
				desc = append(desc, "close")
			default:
				st.RawFlush(ctx)
			}
		}
		st.Cancel(errors.New("done"))
		wr.Flush(ctx)
		// a packet the old writer abandoned mid-write (stream terminated between frames),
		// followed by the next stream's packets: frames produced with the old encoder
		if r.Intn(3) == 0 {
			nf := 1 + r.Intn(3)
			var tmp []byte
			for f := 0; f < nf; f++ {
				tmp = oldwire.AppendFrame(tmp, oldwire.Frame{Data: payload.Make(sid, 0, 0, 99, 500)[:300], ID: oldwire.ID{Stream: sid, Message: 100}, Kind: oldwire.KindMessage, Done: false})
			}
			buf.Write(tmp)
			desc = append(desc, fmt.Sprintf("abandoned(%d frames)", nf))
		}
	}
	stream := buf.Bytes()
	pn, en := decodeNew(stream)
	po, eo := decodeOld(stream)
	hist := fmt.Sprintf("wbuf=%d ops=[%s] %d bytes", wsize, strings.Join(desc, " "), len(stream))
	switch {
	case eo != nil:
		return runner.Inconcl(id, "the released reader rejects the released writer's own output: "+eo.Error()+" "+hist)
	case en != nil:
		return runner.Violation(id, "old-to-new:rejected", hist+"\nthe current reader rejects a stream produced by v0.0.17: "+en.Error())
	}
	if d := diff(po, pn); d != "" {
		return runner.Violation(id, "old-to-new:differs", hist+"\nv0.0.17 output decodes differently under the current reader: "+d)
	}
	res := runner.Hold(id, hist, len(pn) > 0)
	res.Events = int64(len(pn))
	res.Stats = map[string]int64{"old_packets": int64(len(pn))}
	return res
}

// (c) live interop
type codedErr struct {
	code uint64
	text string
}

func (e *codedErr) Error() string { return e.text }
func (e *codedErr) Code() uint64  { return e.code }

var hostileTexts = []string{"plain", "", "100% done", "%s", "%d%%", "%!s(MISSING)", "a\x00b", "%v %v %v", "tab\tnew\nline", "\xff\xfe", "%"}

func interop(id string, seed uint64, oldClient bool) runner.Result {
	r := &payload.SplitMix{S: seed}
	pair := simnet.New(simnet.Opts{Cap: payload.Pick(r, []int{-1, 0, 4096}), ChunkA: &simnet.ChunkRand{K: 1 + r.Intn(300), State: seed}, ChunkB: &simnet.ChunkRand{K: 1 + r.Intn(300), State: seed + 1}})
	shape := r.Intn(4)
	nmsg := 1 + r.Intn(4)
	sizes := make([]int, 8)
	for i := range sizes {
		sizes[i] = payload.Pick(r, []int{0, 1, 100, 1023, 1024, 1025, 5000, 70000})
	}
	// the options of the new endpoint are not part of the wire format: none of them may change what
	// the old peer can say to it (the stream's MaximumBufferSize only bounds the buffers it keeps)
	newOpts := drpcmanager.Options{
		SoftCancel:       r.Intn(2) == 0,
		WriterBufferSize: payload.Pick(r, []int{0, 100, 4096}),
		Stream: drpcstream.Options{
			SplitSize:         payload.Pick(r, []int{0, 1000, 64000}),
			MaximumBufferSize: payload.Pick(r, []int{0, 1024, 8192}),
		},
	}
	ctx, cancel := context.WithCancel(context.Background())
	defer cancel()
	var mu sync.Mutex
	var srvGot, cliGot [][]byte
	var fails []string
	// handler logic shared by both generations through two tiny adapters
	type stream interface {
		send([]byte) error
		recv() ([]byte, error)
	}
	// a third of the unary calls end with an error of the handler: code and text travel in an error
	// packet whose payload both generations must read back as the very same code and text
	var fail *codedErr
	if shape == 0 && r.Intn(3) == 0 {
		fail = &codedErr{code: payload.Pick(r, []uint64{0, 1, 7, 1 << 40, 1<<64 - 1}), text: payload.Pick(r, hostileTexts)}
	}
	handle := func(st stream) error {
		switch shape {
		case 0: // unary
			m, err := st.recv()
			if err != nil {
				return err
			}
			mu.Lock()
			srvGot = append(srvGot, m)
			mu.Unlock()
			if fail != nil {
				return fail
			}
			return st.send(payload.Make(7, 1, 0, 0, sizes[0]))
		case 1: // client stream
			for {
				m, err := st.recv()
				if err != nil {
					break
				}
				mu.Lock()
				srvGot = append(srvGot, m)
				mu.Unlock()
			}
			return st.send(payload.Make(7, 1, 0, 0, sizes[0]))
		case 2: // server stream
			m, err := st.recv()
			if err != nil {
				return err
			}
			mu.Lock()
			srvGot = append(srvGot, m)
			mu.Unlock()
			for i := 0; i < nmsg; i++ {
				if err := st.send(payload.Make(7, 1, 0, uint32(i), sizes[i])); err != nil {
					return err
				}
			}
			return nil
		default: // bidi echo
			for i := 0; ; i++ {
				m, err := st.recv()
				if err != nil {
					return nil
				}
				mu.Lock()
				srvGot = append(srvGot, m)
				mu.Unlock()
				if err := st.send(payload.Make(7, 1, 0, uint32(i), sizes[i%8])); err != nil {
					return err
				}
			}
		}
	}
	var serveOp *rig.Op
	if oldClient {
		srv := drpcserver.NewWithOptions(rig.HandlerFunc(func(s drpc.Stream, rpc string) error { return handle(newAdapter{s}) }), drpcserver.Options{Manager: newOpts})
		serveOp = rig.Go("serve", func() (interface{}, error) { return nil, srv.ServeOne(ctx, pair.B) })
	} else {
		srv := oldserver.New(oldHandler(func(s olddrpc.Stream, rpc string) error { return handle(oldAdapter{s}) }))
		serveOp = rig.Go("serve", func() (interface{}, error) { return nil, srv.ServeOne(ctx, pair.B) })
	}
	client := rig.Go("client", func() (interface{}, error) {
		var st stream
		var closeSend, closeFn func() error
		if oldClient {
			c := oldconn.New(pair.A)
			if shape == 0 {
				out := &oldMsg{}
				err := c.Invoke(ctx, "/rpc", &oldMsg{B: payload.Make(7, 0, 0, 0, sizes[1])}, out)
				if err == nil {
					mu.Lock()
					cliGot = append(cliGot, out.B)
					mu.Unlock()
				}
				return nil, err
			}
			s, err := c.NewStream(ctx, "/rpc")
			if err != nil {
				return nil, err
			}
			st, closeSend, closeFn = oldAdapter{s}, s.CloseSend, s.Close
		} else {
			c := drpcconn.NewWithOptions(pair.A, drpcconn.Options{Manager: newOpts})
			if shape == 0 {
				in := payload.Make(7, 0, 0, 0, sizes[1])
				var out []byte
				err := c.Invoke(ctx, "/rpc", payload.Enc{}, &in, &out)
				if err == nil {
					mu.Lock()
					cliGot = append(cliGot, out)
					mu.Unlock()
				}
				return nil, err
			}
			s, err := c.NewStream(ctx, "/rpc", payload.Enc{})
			if err != nil {
				return nil, err
			}
			st, closeSend, closeFn = newAdapter{s}, s.CloseSend, s.Close
		}
		defer closeFn()
		nsend := 1
		if shape == 1 || shape == 3 {
			nsend = nmsg
		}
		for i := 0; i < nsend; i++ {
			if err := st.send(payload.Make(7, 0, 0, uint32(i), sizes[(i+1)%8])); err != nil {
				return nil, err
			}
			if shape == 3 {
				m, err := st.recv()
				if err != nil {
					return nil, err
				}
				mu.Lock()
				cliGot = append(cliGot, m)
				mu.Unlock()
			}
		}
		if err := closeSend(); err != nil {
			return nil, err
		}
		for {
			m, err := st.recv()
			if err != nil {
				if errors.Is(err, io.EOF) {
					return nil, nil
				}
				return nil, err
			}
			mu.Lock()
			cliGot = append(cliGot, m)
			mu.Unlock()
		}
	})
	desc := fmt.Sprintf("old-client=%v shape=%d msgs=%d sizes=%v new-endpoint: soft=%v wbuf=%d split=%d stream-maxbuf=%d", oldClient, shape, nmsg, sizes[:4], newOpts.SoftCancel, newOpts.WriterBufferSize, newOpts.Stream.SplitSize, newOpts.Stream.MaximumBufferSize)
	if fail != nil {
		desc += fmt.Sprintf(" handler-fails code=%d text=%q", fail.code, fail.text)
	}
	st := rig.WaitAny(client.Done())
	if st == "watchdog" {
		return runner.Inconcl(id, "watchdog: "+desc)
	}
	if st != "ready" {
		fails = append(fails, "the call between the two generations never completed")
	} else if fail != nil {
		// the old library's Code works through the same interface method, so one reader serves both
		if client.Err == nil {
			fails = append(fails, "the handler's error did not reach the client")
		} else if client.Err.Error() != fail.text || drpcerr.Code(client.Err) != fail.code {
			fails = append(fails, fmt.Sprintf("the client got code %d text %q, the handler returned code %d text %q", drpcerr.Code(client.Err), client.Err.Error(), fail.code, fail.text))
		}
	} else if client.Err != nil {
		fails = append(fails, "client error: "+rig.ErrStr(client.Err))
	}
	cancel()
	pair.A.Close()
	pair.B.Close()
	census.QuiesceOr(serveOp.Done(), rig.Watchdog)
	mu.Lock()
	defer mu.Unlock()
	check := func(name string, got [][]byte, dir uint8, want int) {
		if len(got) != want && len(fails) == 0 {
			fails = append(fails, fmt.Sprintf("%s received %d messages, want %d", name, len(got), want))
		}
		for i, m := range got {
			h, err := payload.Parse(m)
			if err != nil || h.Dir != dir || h.Seq != uint32(i) {
				fails = append(fails, fmt.Sprintf("%s message %d: err=%v dir=%d seq=%d", name, i, err, h.Dir, h.Seq))
			}
		}
	}
	wantSrv, wantCli := 1, 1
	if fail != nil {
		wantCli = 0
	}
	switch shape {
	case 1:
		wantSrv = nmsg
	case 2:
		wantCli = nmsg
	case 3:
		wantSrv, wantCli = nmsg, nmsg
	}
	check("server", srvGot, 0, wantSrv)
	check("client", cliGot, 1, wantCli)
	if len(fails) > 0 {
		return runner.Violation(id, fmt.Sprintf("interop:old-client=%v", oldClient), desc+"\n"+strings.Join(fails, "\n"))
	}
	res := runner.Hold(id, desc, true)
	res.Events = int64(len(srvGot) + len(cliGot))
	return res
}

type oldHandler func(s olddrpc.Stream, rpc string) error

func (h oldHandler) HandleRPC(s olddrpc.Stream, rpc string) error { return h(s, rpc) }

type newAdapter struct{ s drpc.Stream }

func (a newAdapter) send(b []byte) error { return a.s.MsgSend(&b, payload.Enc{}) }
func (a newAdapter) recv() ([]byte, error) {
	var b []byte
	err := a.s.MsgRecv(&b, payload.Enc{})
	return b, err
}

type oldAdapter struct{ s olddrpc.Stream }

func (a oldAdapter) send(b []byte) error { return a.s.MsgSend(&oldMsg{B: b}) }
func (a oldAdapter) recv() ([]byte, error) {
	m := &oldMsg{}
	err := a.s.MsgRecv(m)
	return m.B, err
}

// (d) unknown control packets do not disturb the stream
func controlInjection(id string, seed uint64) runner.Result {
	r := &payload.SplitMix{S: seed}
	var mu sync.Mutex
	got := map[string][]int{}
	gotMD := map[string]string{}
	wantMD := map[string]string{}
	handler := rig.HandlerFunc(func(stream drpc.Stream, rpc string) error {
		md, _ := drpcmetadata.Get(stream.Context())
		mu.Lock()
		gotMD[rpc] = fmt.Sprint(md)
		mu.Unlock()
		for {
			var m []byte
			if err := stream.MsgRecv(&m, payload.Enc{}); err != nil {
				break
			}
			mu.Lock()
			got[rpc] = append(got[rpc], len(m))
			mu.Unlock()
		}
		out := payload.Make(1, 1, 0, 0, 9)
		return stream.MsgSend(&out, payload.Enc{})
	})
	soft := r.Intn(2) == 0
	// the server's stream option MaximumBufferSize says which marshal buffers a stream keeps; it is no
	// limit on what the peer may send, in messages or in packets the server does not understand
	keep := payload.Pick(r, []int{0, 4, 64, 1024})
	ctlBody := []byte("future-data")
	if r.Intn(3) == 0 {
		ctlBody = bytes.Repeat([]byte("future-data-"), 200)
	}
	rg := rig.New(rig.Config{Net: simnet.Opts{Cap: -1, ChunkB: &simnet.ChunkRand{K: 1 + r.Intn(50), State: seed}}, Server: drpcmanager.Options{SoftCancel: soft, Stream: drpcstream.Options{MaximumBufferSize: keep}}, NoConn: true}, handler)
	defer rg.Teardown()
	raw := rg.Pair.A
	var back bytes.Buffer
	var bmu sync.Mutex
	rig.Go("drain", func() (interface{}, error) {
		buf := make([]byte, 4096)
		for {
			n, err := raw.Read(buf)
			bmu.Lock()
			back.Write(buf[:n])
			bmu.Unlock()
			if err != nil {
				return nil, nil
			}
		}
	})
	want := map[string][]int{}
	var desc []string
	var b []byte
	// inject appends an unknown control packet. Inside an RPC it targets the current or an
	// older stream; between RPCs (after the previous reply arrived, as a conforming peer that
	// has moved on) it targets the stream that has just ended (an old stream for the receiver)
	// or a stream id that has not been invoked yet. Ids never go backwards on the wire.
	inject := func(sid uint64, mid *uint64, between bool, next *uint64) {
		if r.Intn(2) != 0 {
			return
		}
		kind := uint8(8 + r.Intn(56))
		target := sid
		mm := *mid
		choice := r.Intn(3)
		switch {
		case choice == 2 && between:
			*next = *next + uint64(r.Intn(3))
			target, mm = *next, 1 // the stream the next RPC will use, or one that is skipped
			*next = *next + 1
		}
		nf := 1 + r.Intn(3)
		for f := 0; f < nf; f++ {
			b = refwire.Encode(b, refwire.Frame{Stream: target, Message: mm, Kind: kind, Control: true, Done: f == nf-1, Data: ctlBody})
		}
		if target == sid {
			*mid = mm + 1
		}
		desc = append(desc, fmt.Sprintf("ctl(k%d,s%d,%df)", kind, target, nf))
	}
	nrpc := 1 + r.Intn(4)
	next := uint64(1)
	for i := 0; i < nrpc; i++ {
		sid := next
		next++
		mid := uint64(1)
		rpc := fmt.Sprintf("/rpc/%d", i)
		if r.Intn(2) == 0 {
			// the invoke sequence starts with a metadata packet; an unknown control packet may sit inside it
			b = refwire.Encode(b, refwire.Frame{Stream: sid, Message: mid, Kind: 7, Done: true, Data: []byte{10, 6, 10, 1, 'k', 18, 1, 'v'}})
			mid++
			desc = append(desc, "metadata")
			wantMD[rpc] = fmt.Sprint(map[string]string{"k": "v"})
			inject(sid, &mid, false, &next)
		}
		b = refwire.Encode(b, refwire.Frame{Stream: sid, Message: mid, Kind: 1, Done: true, Data: []byte(rpc)})
		mid++
		desc = append(desc, "invoke"+rpc)
		want[rpc] = nil
		for k := 0; k < r.Intn(4); k++ {
			inject(sid, &mid, false, &next)
			n := r.Intn(200)
			b = refwire.Encode(b, refwire.Frame{Stream: sid, Message: mid, Kind: 2, Done: true, Data: payload.Make(sid, 0, 0, uint32(k), n)})
			mid++
			want[rpc] = append(want[rpc], n+payload.HeaderLen)
		}
		inject(sid, &mid, false, &next)
		b = refwire.Encode(b, refwire.Frame{Stream: sid, Message: mid, Kind: 6, Done: true})
		mid++
		// a newer peer may go on talking in control packets after its half-close (a keep-alive while it
		// waits for the answer): the stream is still open then
		inject(sid, &mid, false, &next)
		raw.Write(b)
		b = nil
		census.Quiesce(rig.Watchdog) // the reply has arrived: the peer may move on
		inject(sid, &mid, true, &next)
		raw.Write(b)
		b = nil
	}
	census.Quiesce(rig.Watchdog)
	mu.Lock()
	defer mu.Unlock()
	var fails []string
	for rpc, w := range want {
		if fmt.Sprint(got[rpc]) != fmt.Sprint(w) {
			fails = append(fails, fmt.Sprintf("%s: handler received message sizes %v, want %v", rpc, got[rpc], w))
		}
	}
	for rpc, g := range gotMD {
		w := wantMD[rpc]
		if w == "" {
			w = fmt.Sprint(map[string]string(nil))
		}
		if g != w {
			fails = append(fails, fmt.Sprintf("%s: the handler saw metadata %s, the session attached %s (an ignored control packet must not disturb the call it sits in)", rpc, g, w))
		}
	}
	for i := 0; i < nrpc; i++ {
		if _, ok := got[fmt.Sprintf("/rpc/%d", i)]; !ok && len(want[fmt.Sprintf("/rpc/%d", i)]) > 0 {
			fails = append(fails, fmt.Sprintf("/rpc/%d never reached its handler", i))
		}
	}
	bmu.Lock()
	replies, _ := decodeNew(back.Bytes())
	bmu.Unlock()
	nreply := 0
	for _, p := range replies {
		if p.kind == 2 {
			nreply++
		}
		if p.kind == 3 {
			fails = append(fails, "the server answered with an error packet: "+p.data)
		}
	}
	if nreply != nrpc {
		fails = append(fails, fmt.Sprintf("%d of %d RPCs were answered", nreply, nrpc))
	}
	if rig.IsClosed(rg.ServeOp.Done()) {
		fails = append(fails, fmt.Sprintf("the server dropped the connection: %v", rg.ServeOp.Err))
	}
	hist := fmt.Sprintf("soft=%v stream-keepbuf=%d control-body=%d session=[%s]", soft, keep, len(ctlBody), strings.Join(desc, " "))
	if len(fails) > 0 {
		return runner.Violation(id, "control-injection", hist+"\n"+strings.Join(fails, "\n"))
	}
	res := runner.Hold(id, hist, strings.Contains(hist, "ctl("))
	res.Events = int64(nrpc)
	return res
}

// writerAPIToOld: packets written through the public writer layer of the current code
// (Writer.WritePacket for single frames, SplitN + Writer.WriteFrame for split packets), with kinds
// v0.0.17 knows and, carrying the control bit, kinds it does not; the released reader must yield
// the same packets minus the control ones.
func writerAPIToOld(id string, seed uint64) runner.Result {
	r := &payload.SplitMix{S: seed}
	var buf bytes.Buffer
	wr := drpcwire.NewWriter(&buf, payload.Pick(r, []int{1, 64, 4096, 1 << 20}))
	sid, mid := uint64(1), uint64(1)
	var want []pk
	var desc []string
	for i := 0; i < 3+r.Intn(10); i++ {
		if r.Intn(5) == 0 {
			sid++
			mid = 1
		}
		ctl := r.Intn(3) == 0
		kind := drpcwire.Kind(payload.Pick(r, []int{1, 2, 3, 5, 6, 7}))
		if ctl {
			kind = drpcwire.Kind(payload.Pick(r, []int{4, 8, 9, 33, 63}))
		}
		n := payload.Pick(r, []int{0, 1, 10, 100, 1000, 5000})
		data := payload.Make(sid, 0, 0, uint32(i), n)
		pkt := drpcwire.Packet{ID: drpcwire.ID{Stream: sid, Message: mid}, Kind: kind, Control: ctl, Data: data}
		split := payload.Pick(r, []int{-1, 1, 7, 64, 1024})
		var err error
		if split < 0 {
			err = wr.WritePacket(pkt)
		} else {
			err = drpcwire.SplitN(pkt, split, wr.WriteFrame)
		}
		if err != nil {
			return runner.Inconcl(id, "write failed: "+err.Error())
		}
		want = append(want, pk{sid, mid, uint8(kind), ctl, string(data)})
		desc = append(desc, fmt.Sprintf("k%d ctl=%v len%d split=%d", kind, ctl, len(data), split))
		mid++
	}
	if err := wr.Flush(); err != nil {
		return runner.Inconcl(id, "flush failed: "+err.Error())
	}
	stream := buf.Bytes()
	var fails []string
	pn, en := decodeNew(stream)
	po, eo := decodeOld(stream)
	switch {
	case en != nil:
		fails = append(fails, fmt.Sprintf("the current reader rejects what the current writer layer emitted: %v", en))
	case diff(pn, want) != "":
		fails = append(fails, "the current reader does not read back what was written: "+diff(pn, want))
	}
	switch {
	case eo != nil:
		fails = append(fails, fmt.Sprintf("the v0.0.17 reader rejects the stream: %v", eo))
	default:
		for _, p := range po {
			if !oldKinds[p.kind] {
				fails = append(fails, fmt.Sprintf("the v0.0.17 reader delivers %s, a kind its stream layer does not know (control packets must be skipped as a whole)", p))
				break
			}
		}
		wnc := noControl(want)
		for i := range wnc {
			wnc[i].ctl = false
		}
		if d := diff(po, wnc); d != "" {
			fails = append(fails, "v0.0.17 decodes differently from what was written minus control packets: "+d)
		}
	}
	if len(fails) > 0 {
		return runner.Violation(id, "writer-api-to-old", strings.Join(desc, " ; ")+"\n"+strings.Join(fails, "\n"))
	}
	res := runner.Hold(id, strings.Join(desc, ";"), true)
	res.Events = int64(len(want))
	return res
}

// largeIDs: packets written with the released encoder whose ids sit at the top of the 64-bit range
// and then move on to the next stream: the released reader accepts them, so must the current one.
func largeIDs(id string, seed uint64) runner.Result {
	r := &payload.SplitMix{S: seed}
	max := ^uint64(0)
	sid := uint64(1 + r.Intn(1000))
	if r.Intn(3) == 0 {
		sid = max - uint64(2+r.Intn(5))
	}
	var b []byte
	var desc []string
	emit := func(s, m uint64, done bool) {
		b = oldwire.AppendFrame(b, oldwire.Frame{Data: payload.Make(s, 0, 0, uint32(m), r.Intn(20)), ID: oldwire.ID{Stream: s, Message: m}, Kind: oldwire.KindMessage, Done: done})
		desc = append(desc, fmt.Sprintf("(s%d,m%d,done=%v)", s, m, done))
	}
	for k := 0; k < 1+r.Intn(3); k++ {
		for _, m := range []uint64{max - 2, max - 1, max}[r.Intn(3):] {
			if r.Intn(3) == 0 {
				emit(sid, m, false)
			}
			emit(sid, m, true)
		}
		sid++
		for m := uint64(0); m < uint64(1+r.Intn(3)); m++ {
			emit(sid, m+uint64(r.Intn(2)), true)
			if r.Intn(2) == 0 {
				break
			}
		}
	}
	pn, en := decodeNew(b)
	po, eo := decodeOld(b)
	hist := strings.Join(desc, " ")
	switch {
	case eo != nil:
		res := runner.Hold(id, "the released reader rejects it itself: "+hist, false)
		return res
	case en != nil:
		return runner.Violation(id, "old-to-new:large-ids-rejected", hist+"\nthe current reader rejects a stream that v0.0.17 accepts: "+en.Error())
	}
	if d := diff(po, pn); d != "" {
		return runner.Violation(id, "old-to-new:large-ids-differ", hist+"\n"+d)
	}
	res := runner.Hold(id, hist, len(pn) > 0)
	res.Events = int64(len(pn))
	return res
}

// largeMessages: messages around and above 1 MiB sent through the current stream layer with its
// default options: every frame must stay within what the released reader can buffer.
func largeMessages(id string, seed uint64) runner.Result {
	r := &payload.SplitMix{S: seed}
	var buf bytes.Buffer
	wr := drpcwire.NewWriter(&buf, payload.Pick(r, []int{0, 1024, 1 << 20}))
	st := drpcstream.NewWithOptions(context.Background(), 1, wr, drpcstream.Options{})
	sizes := []int{100 << 10, 1<<20 - 64, 1<<20 - 5, 1 << 20, 1<<20 + 1, 3<<20 + 17, 4<<20 - 100}
	n := sizes[r.Intn(len(sizes))]
	var want []pk
	if err := st.RawWrite(drpcwire.KindInvoke, []byte("/large")); err != nil {
		return runner.Inconcl(id, err.Error())
	}
	m := payload.Make(1, 0, 0, 0, n-payload.HeaderLen)
	if len(m) != n {
		m = append(m, make([]byte, n-len(m))...)
	}
	if err := st.MsgSend(&m, payload.Enc{}); err != nil {
		return runner.Inconcl(id, err.Error())
	}
	st.CloseSend()
	stream := buf.Bytes()
	_ = want
	pn, en := decodeNew(stream)
	po, eo := decodeOld(stream)
	hist := fmt.Sprintf("default stream options, one message of %d bytes, %d bytes on the wire", n, len(stream))
	switch {
	case en != nil:
		return runner.Violation(id, "new-to-old:large-message-unreadable-by-current", hist+"\n"+en.Error())
	case eo != nil:
		return runner.Violation(id, "new-to-old:large-message-unreadable-by-v0.0.17", hist+"\nthe v0.0.17 reader rejects what the current stream layer emitted with default options: "+eo.Error())
	}
	if d := diff(po, noControl(pn)); d != "" {
		return runner.Violation(id, "new-to-old:large-message-differs", hist+"\n"+d)
	}
	res := runner.Hold(id, hist, true)
	res.Events = int64(len(pn))
	return res
}

// abandonedLarge: the released writer abandons a packet that had nearly filled the reader's maximum
// (its stream ended between frames) and goes on with the next message; both readers must discard the
// unfinished packet and deliver what follows.
func abandonedLarge(id string, seed uint64) runner.Result {
	r := &payload.SplitMix{S: seed}
	var b []byte
	nf := 56 + r.Intn(8)
	chunk := make([]byte, 64<<10)
	for f := 0; f < nf; f++ {
		b = oldwire.AppendFrame(b, oldwire.Frame{Data: chunk, ID: oldwire.ID{Stream: 1, Message: 1}, Kind: oldwire.KindMessage, Done: false})
	}
	next := payload.Make(1, 0, 0, 2, (256<<10)+r.Intn(512<<10))
	sid, mid := uint64(1), uint64(2)
	if r.Intn(2) == 0 {
		sid, mid = 2, 1
	}
	b = oldwire.AppendFrame(b, oldwire.Frame{Data: next, ID: oldwire.ID{Stream: sid, Message: mid}, Kind: oldwire.KindMessage, Done: true})
	b = oldwire.AppendFrame(b, oldwire.Frame{ID: oldwire.ID{Stream: sid, Message: mid + 1}, Kind: oldwire.KindCloseSend, Done: true})
	hist := fmt.Sprintf("%d unfinished 64 KiB frames of (1,1), then a %d-byte message (%d,%d) and a half-close", nf, len(next), sid, mid)
	pn, en := decodeNew(b)
	po, eo := decodeOld(b)
	switch {
	case eo != nil:
		return runner.Hold(id, "the released reader rejects it itself: "+hist, false)
	case en != nil:
		return runner.Violation(id, "old-to-new:abandoned-large-rejected", hist+"\nthe current reader rejects a stream that v0.0.17 accepts: "+en.Error())
	}
	if d := diff(po, pn); d != "" {
		return runner.Violation(id, "old-to-new:abandoned-large-differs", hist+"\n"+d)
	}
	res := runner.Hold(id, hist, len(pn) > 0)
	res.Events = int64(len(pn))
	return res
}

// metadataCompat: a batch of seeded metadata maps with key/value lengths at the length-prefix
// boundaries; what the current encoder writes is read back identically by v0.0.17, and what v0.0.17
// writes is read back identically by the current decoder.
func metadataCompat(id string, seed uint64) runner.Result {
	r := &payload.SplitMix{S: seed}
	lens := []int{0, 1, 2, 125, 126, 127, 128, 129, 130, 255, 256, 16381, 16382, 16383, 16384, 16385, 16386, 16511, 16512}
	str := func(c byte) string {
		n := r.Intn(40)
		if r.Intn(2) == 0 {
			n = payload.Pick(r, lens)
		}
		b := make([]byte, n)
		for i := range b {
			b[i] = c + byte(r.Intn(20)) // printable ASCII: valid UTF-8, which v0.0.17's string fields require
		}
		return string(b)
	}
	var fails []string
	var n int64
	for k := 0; k < 40 && len(fails) == 0; k++ {
		m := map[string]string{}
		for i := 0; i < 1+r.Intn(4); i++ {
			m[str('a')] = str('A')
		}
		same := func(x map[string]string) bool {
			if len(x) != len(m) {
				return false
			}
			for k, v := range m {
				if xv, ok := x[k]; !ok || xv != v {
					return false
				}
			}
			return true
		}
		var shape []string
		for k, v := range m {
			shape = append(shape, fmt.Sprintf("%d:%d", len(k), len(v)))
		}
		desc := fmt.Sprintf("map with key:value lengths %v", shape)
		enc, err := drpcmetadata.Encode(nil, m)
		if err != nil {
			fails = append(fails, fmt.Sprintf("%s: current Encode failed: %v", desc, err))
			continue
		}
		if om, err := oldmeta.Decode(enc); err != nil || !same(om) {
			fails = append(fails, fmt.Sprintf("%s: v0.0.17 does not read back what the current encoder wrote (err=%v, %d entries)", desc, err, len(om)))
		}
		oenc, err := oldmeta.Encode(nil, m)
		if err != nil {
			fails = append(fails, fmt.Sprintf("%s: v0.0.17 Encode failed: %v", desc, err))
			continue
		}
		if nm, err := drpcmetadata.Decode(oenc); err != nil || !same(nm) {
			fails = append(fails, fmt.Sprintf("%s: the current decoder does not read back what v0.0.17 wrote (err=%v, %d entries)", desc, err, len(nm)))
		}
		n++
	}
	if len(fails) > 0 {
		return runner.Violation(id, "metadata-compat", strings.Join(fails, "\n"))
	}
	res := runner.Hold(id, fmt.Sprint(seed), true)
	res.Events = n
	res.Stats = map[string]int64{"metadata_maps": n}
	return res
}

func gen(tier string, seed uint64) []runner.Scenario {
	n := 150
	if tier == "thorough" {
		n = 5000
	}
	var out []runner.Scenario
	for i := 0; i < n; i++ {
		i := i
		add := func(name string, f func(id string) runner.Result) {
			id := fmt.Sprintf("%s/%d", name, i)
			out = append(out, runner.Scenario{ID: id, Run: func() runner.Result { return f(id) }})
		}
		add("new-to-old", func(id string) runner.Result { return newToOld(id, payload.Hash(seed, 0x181, uint64(i))) })
		add("old-to-new", func(id string) runner.Result { return oldToNew(id, payload.Hash(seed, 0x182, uint64(i))) })
		add("interop-old-client", func(id string) runner.Result { return interop(id, payload.Hash(seed, 0x183, uint64(i)), true) })
		add("interop-new-client", func(id string) runner.Result { return interop(id, payload.Hash(seed, 0x184, uint64(i)), false) })
		add("control-injection", func(id string) runner.Result { return controlInjection(id, payload.Hash(seed, 0x185, uint64(i))) })
		add("writer-api-to-old", func(id string) runner.Result { return writerAPIToOld(id, payload.Hash(seed, 0x187, uint64(i))) })
		add("large-ids-old-to-new", func(id string) runner.Result { return largeIDs(id, payload.Hash(seed, 0x188, uint64(i))) })
		if i%25 == 0 {
			add("abandoned-large-old-to-new", func(id string) runner.Result { return abandonedLarge(id, payload.Hash(seed, 0x18A, uint64(i))) })
		}
		if i%10 == 0 {
			add("large-message-new-to-old", func(id string) runner.Result { return largeMessages(id, payload.Hash(seed, 0x189, uint64(i))) })
		}
		if i%5 == 0 {
			add("metadata-compat", func(id string) runner.Result { return metadataCompat(id, payload.Hash(seed, 0x186, uint64(i))) })
		}
	}
	return out
}

func main() {
	// the vendored v0.0.17 links monkit, whose metrics ticker sleeps in a loop forever
	census.Exempt("monkit/v3.(*ticker).run")
	runner.Main(runner.Check{
		Property: "C18",
		Level:    "exploration",
		Rule:     "seven families against the vendored released v0.0.17: (new-to-old) both directions' byte streams of seeded multi-RPC programs of the current code (soft cancel on, clean and early-ending RPCs, metadata) decoded by both readers, and every packet the old reader delivers must be of a kind v0.0.17 knows; (old-to-new) seeded operation sequences on the v0.0.17 stream/writer layer (split sizes, writer buffers, invoke/metadata/messages up to 150 KB/close/closesend/error) plus packets abandoned mid-write, decoded by both readers; (interop) one RPC of each of the four shapes between an old client and a new server and between a new client and an old server over chunked transports; (control-injection) raw sessions with unknown kinds 8-63 carrying the control bit, single and multi-frame, aimed at the current stream (inside an RPC, also between its metadata and its invoke), at the stream that just ended and at a not-yet-invoked stream id (between RPCs, after the reply arrived). (writer-api-to-old) seeded packets (known kinds, and unknown kinds with the control bit) written through Writer.WritePacket or SplitN+Writer.WriteFrame at several split sizes, decoded by both readers; (metadata-compat) seeded metadata maps with key/value lengths at the length-prefix boundaries (0..2, 125..130, 255/256, 16381..16386, 16511/16512) encoded by each generation and decoded by the other; deeper metadata coverage is in C11. Non-trivial: streams with bytes / sessions with at least one injection. Distinct: by seed-determined program text.",
		Assumptions: []string{
			"the vendored copy under /verif/third_party/drpc_v0017 is the released v0.0.17 with only import paths renamed",
			"frames stay within the old reader's 1 MiB scanner limit",
			"injected control packets keep the session id-monotonic, as any conforming peer does",
		},
		Gen:           gen,
		Shards:        14,
		MinNontrivial: 100,
	})
}
