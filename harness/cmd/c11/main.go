// C11: call metadata arrives intact at exactly the RPC it was attached to.
// Monitors: (a) end-to-end over a real connection: the handler-side metadata of
// every call is compared with what the caller attached, over seeded call
// sequences including calls abandoned between their metadata and invoke packets;
// (b) codec: round trip, an independent protowire decoder/encoder, and the
// released v0.0.17 (gogo protobuf) encoder/decoder as differential references.
package main

import (
	"bytes"
	"context"
	"errors"
	"fmt"
	"reflect"
	"sort"
	"strings"
	"sync"
	"time"
	"unicode/utf8"

	"google.golang.org/protobuf/encoding/protowire"

	oldmeta "drpcv0017/drpcmetadata"

	"storj.io/drpc"
	"storj.io/drpc/drpcmanager"
	"storj.io/drpc/drpcmetadata"
	"storj.io/drpc/drpcwire"

	"verifharness/census"
	"verifharness/payload"
	"verifharness/refwire"
	"verifharness/rig"
	"verifharness/runner"
	"verifharness/simnet"
)

// refDecode is an independent decoder of message{ map<string,string> = 1 }.
// It accepts what any protobuf decoder accepts: unknown fields are skipped,
// entry fields may come in any order, missing key/value default to "".
func refDecode(b []byte) (map[string]string, bool) {
	out := map[string]string{}
	for len(b) > 0 {
		num, typ, n := protowire.ConsumeTag(b)
		if n < 0 {
			return nil, false
		}
		b = b[n:]
		if num == 1 && typ == protowire.BytesType {
			ent, n := protowire.ConsumeBytes(b)
			if n < 0 {
				return nil, false
			}
			b = b[n:]
			var k, v string
			for len(ent) > 0 {
				en, et, m := protowire.ConsumeTag(ent)
				if m < 0 {
					return nil, false
				}
				ent = ent[m:]
				if (en == 1 || en == 2) && et == protowire.BytesType {
					s, m := protowire.ConsumeBytes(ent)
					if m < 0 {
						return nil, false
					}
					ent = ent[m:]
					if en == 1 {
						k = string(s)
					} else {
						v = string(s)
					}
					continue
				}
				m = protowire.ConsumeFieldValue(en, et, ent)
				if m < 0 {
					return nil, false
				}
				ent = ent[m:]
			}
			out[k] = v
			continue
		}
		n = protowire.ConsumeFieldValue(num, typ, b)
		if n < 0 {
			return nil, false
		}
		b = b[n:]
	}
	return out, true
}

// refEncode is the canonical protobuf encoding of the map (keys sorted).
func refEncode(m map[string]string) []byte {
	keys := make([]string, 0, len(m))
	for k := range m {
		keys = append(keys, k)
	}
	sort.Strings(keys)
	var out []byte
	for _, k := range keys {
		var ent []byte
		ent = protowire.AppendTag(ent, 1, protowire.BytesType)
		ent = protowire.AppendString(ent, k)
		ent = protowire.AppendTag(ent, 2, protowire.BytesType)
		ent = protowire.AppendString(ent, m[k])
		out = protowire.AppendTag(out, 1, protowire.BytesType)
		out = protowire.AppendBytes(out, ent)
	}
	return out
}

func eqMap(a, b map[string]string) bool {
	if len(a) == 0 && len(b) == 0 {
		return true
	}
	return reflect.DeepEqual(a, b)
}

func genMap(r *payload.SplitMix) map[string]string {
	n := r.Intn(5)
	if r.Intn(10) == 0 {
		n = 20 + r.Intn(30)
	}
	m := map[string]string{}
	str := func() string {
		switch r.Intn(8) {
		case 0:
			return ""
		case 1:
			return strings.Repeat("x", 127+r.Intn(3))
		case 2:
			return strings.Repeat("y", 16383+r.Intn(3))
		case 3:
			b := make([]byte, r.Intn(20))
			for i := range b {
				b[i] = byte(r.Next())
			}
			return string(b)
		case 4:
			return string([]byte{0, 10, 18, 0xff, 0x80})
		default:
			return fmt.Sprintf("k%d", r.Intn(1000))
		}
	}
	for i := 0; i < n; i++ {
		m[str()] = str()
	}
	return m
}

type acc struct {
	id    string
	n     int64
	viol  []runner.Result
	smp   interface{}
	stats map[string]int64
}

func (a *acc) fail(key, format string, args ...interface{}) {
	if len(a.viol) < 6 {
		a.viol = append(a.viol, runner.Violation(a.id, key, fmt.Sprintf(format, args...)))
	}
}

func (a *acc) result() runner.Result {
	r := runner.Result{ID: a.id, Verdict: runner.Held, Nontrivial: true, Sig: a.id, Events: a.n, Distinct: a.n, Sample: a.smp, Stats: a.stats}
	if len(a.viol) > 0 {
		r = a.viol[0]
		r.Events = a.n
		r.More = a.viol[1:]
	}
	return r
}

func summarize(m map[string]string) string {
	var parts []string
	for k, v := range m {
		if len(k) > 12 {
			k = fmt.Sprintf("%q..(%d)", k[:12], len(k))
		} else {
			k = fmt.Sprintf("%q", k)
		}
		if len(v) > 12 {
			v = fmt.Sprintf("%q..(%d)", v[:12], len(v))
		} else {
			v = fmt.Sprintf("%q", v)
		}
		parts = append(parts, k+":"+v)
	}
	sort.Strings(parts)
	if len(parts) > 8 {
		parts = append(parts[:8], fmt.Sprintf("...(%d entries)", len(m)))
	}
	return "{" + strings.Join(parts, ", ") + "}"
}

func (a *acc) codecMap(m map[string]string) {
	a.n++
	enc, err := drpcmetadata.Encode(nil, m)
	if err != nil {
		a.fail("encode-error", "Encode(%s): %v", summarize(m), err)
		return
	}
	dec, err := drpcmetadata.Decode(enc)
	if err != nil || !eqMap(dec, m) {
		a.fail("roundtrip", "Decode(Encode(%s)) = %s, %v", summarize(m), summarize(dec), err)
	}
	if rm, ok := refDecode(enc); !ok || !eqMap(rm, m) {
		a.fail("not-protobuf", "Encode(%s) = %x is not the protobuf encoding of the map (reference decoder: ok=%v %s)", summarize(m), clip(enc), ok, summarize(rm))
	}
	utf8ok := true
	for k, v := range m {
		utf8ok = utf8ok && utf8.ValidString(k) && utf8.ValidString(v)
	}
	// the released decoder (proto3 string fields) rejects invalid UTF-8 by itself
	if om, err := oldmeta.Decode(enc); utf8ok && (err != nil || !eqMap(om, m)) {
		a.fail("old-cannot-decode", "released v0.0.17 decodes Encode(%s) as %s, %v", summarize(m), summarize(om), err)
	}
	// what released versions emit must decode identically
	oenc, err := oldmeta.Encode(nil, m)
	if err == nil {
		if nm, err := drpcmetadata.Decode(oenc); err != nil || !eqMap(nm, m) {
			a.fail("cannot-decode-old", "Decode(v0.0.17 Encode(%s)) = %s, %v", summarize(m), summarize(nm), err)
		}
	}
	if nm, err := drpcmetadata.Decode(refEncode(m)); err != nil || !eqMap(nm, m) {
		a.fail("cannot-decode-canonical", "Decode(canonical protobuf of %s) = %s, %v", summarize(m), summarize(nm), err)
	}
	// appending to a prefix must not disturb it
	pre := []byte("PRE")
	e2, _ := drpcmetadata.Encode(append([]byte(nil), pre...), m)
	if !bytes.HasPrefix(e2, pre) {
		a.fail("encode-append", "Encode onto a non-empty buffer lost the prefix")
	} else if d2, err := drpcmetadata.Decode(e2[3:]); err != nil || !eqMap(d2, m) {
		a.fail("encode-append", "Encode onto a non-empty buffer: tail does not decode to the map")
	}
}

func clip(b []byte) []byte {
	if len(b) > 48 {
		return b[:48]
	}
	return b
}

func (a *acc) codecBytes(b []byte) {
	a.n++
	var m map[string]string
	var err error
	func() {
		defer func() {
			if r := recover(); r != nil {
				a.fail("decode-panic", "Decode(%x) panicked: %v", clip(b), r)
				err = fmt.Errorf("panic")
			}
		}()
		m, err = drpcmetadata.Decode(b)
	}()
	if err != nil {
		a.stats["rejected"]++
		return
	}
	a.stats["accepted"]++
	rm, ok := refDecode(b)
	if !ok || !eqMap(rm, m) {
		a.fail("decode-differs", "Decode(%x) returned %s but the reference protobuf decoder says ok=%v %s", clip(b), summarize(m), ok, summarize(rm))
	}
}

// ---- end to end ----

type seen struct {
	md  map[string]string
	has bool
	// what the same handler read again, from the context it had kept and from the stream, once
	// the call was over on the client side (the handler is still running then)
	late      map[string]string
	lateFresh map[string]string
	lateRead  bool
}

func e2e(id string, seed uint64) runner.Result {
	r := &payload.SplitMix{S: seed}
	soft := r.Intn(2) == 0
	var mu sync.Mutex
	got := map[uint64]seen{}
	h := rig.HandlerFunc(func(stream drpc.Stream, rpc string) error {
		var m []byte
		if err := stream.MsgRecv(&m, payload.Enc{}); err != nil {
			return err
		}
		hd, err := payload.Parse(m)
		if err != nil {
			return err
		}
		md, ok := drpcmetadata.Get(stream.Context())
		cp := map[string]string{}
		for k, v := range md {
			cp[k] = v
		}
		ctx := stream.Context()
		out := payload.Make(hd.Tag, 1, 0, 0, 5)
		serr := stream.MsgSend(&out, payload.Enc{})
		sn := seen{md: cp, has: ok}
		if serr == nil {
			// the client takes the answer and closes the call; the handler outlives that
			t := time.NewTimer(rig.Watchdog)
			select {
			case <-ctx.Done():
				l1, _ := drpcmetadata.Get(ctx)
				l2, _ := drpcmetadata.Get(stream.Context())
				sn.late, sn.lateFresh, sn.lateRead = map[string]string{}, map[string]string{}, true
				for k, v := range l1 {
					sn.late[k] = v
				}
				for k, v := range l2 {
					sn.lateFresh[k] = v
				}
			case <-t.C:
			}
			t.Stop()
		}
		mu.Lock()
		got[hd.Tag] = sn
		mu.Unlock()
		return serr
	})
	opts := drpcmanager.Options{SoftCancel: soft}
	sopts := opts
	// a server that gives up on idle connections (the limit is far away): not a different server otherwise
	idle := r.Intn(2) == 0
	if idle {
		sopts.InactivityTimeout = time.Hour
	}
	chunk := simnet.Chunker(simnet.ChunkAll{})
	if r.Intn(2) == 0 {
		chunk = &simnet.ChunkRand{K: 1 + r.Intn(30), State: seed}
	}
	rg := rig.New(rig.Config{Net: simnet.Opts{Cap: []int{-1, 0, 64}[r.Intn(3)], ChunkB: chunk}, Client: opts, Server: sopts}, h)
	defer rg.Teardown()

	ncalls := 3 + r.Intn(6)
	want := map[uint64]map[string]string{}
	var fails []string
	var desc []string
	// one map object that the application keeps and attaches to several calls
	shared := genMap(r)
	for len(shared) == 0 {
		shared = genMap(r)
	}
	sharedCopy := map[string]string{}
	for k, v := range shared {
		sharedCopy[k] = v
	}
	// a long-lived base context that already carries metadata; calls are derived from it
	baseMD := genMap(r)
	for len(baseMD) == 0 {
		baseMD = genMap(r)
	}
	baseCtx := context.Background()
	for k, v := range baseMD {
		baseCtx = drpcmetadata.Add(baseCtx, k, v)
	}
	useBase := r.Intn(2) == 0
	for i := 0; i < ncalls; i++ {
		tag := uint64(i + 1)
		ctx := context.Background()
		var md map[string]string
		style := "none"
		if useBase && r.Intn(2) == 0 {
			// derived from the shared base: the base's pairs plus, sometimes, pairs of its own
			style = "base"
			ctx = baseCtx
			md = map[string]string{}
			for k, v := range baseMD {
				md[k] = v
			}
			if r.Intn(3) == 0 {
				// more pairs than the base has, every base key among them with a new value
				style = "base+AddPairs-overriding"
				over := genMap(r)
				for k := range baseMD {
					over[k] = "call-value"
				}
				over[fmt.Sprintf("call-%d", tag)] = "own"
				over["second-own-key"] = "x"
				ctx = drpcmetadata.AddPairs(ctx, over)
				for k, v := range over {
					md[k] = v
				}
			} else if r.Intn(2) == 0 {
				style = "base+Add"
				for k, v := range genMap(r) {
					ctx = drpcmetadata.Add(ctx, k, v)
					md[k] = v
				}
				k := fmt.Sprintf("call-%d", tag)
				ctx = drpcmetadata.Add(ctx, k, "own")
				md[k] = "own"
			}
		} else if r.Intn(3) != 0 {
			md = genMap(r)
			switch r.Intn(4) {
			case 0:
				style = "Add"
				for k, v := range md {
					ctx = drpcmetadata.Add(ctx, k, v)
				}
			case 1:
				style = "AddPairs"
				ctx = drpcmetadata.AddPairs(ctx, md)
			case 2:
				// the application's own long-lived map plus per-call pairs
				style = "AddPairs(shared)+Add"
				ctx = drpcmetadata.AddPairs(ctx, shared)
				all := map[string]string{}
				for k, v := range sharedCopy {
					all[k] = v
				}
				for k, v := range md {
					ctx = drpcmetadata.Add(ctx, k, v)
					all[k] = v
				}
				md = all
			default:
				// the application changes its map after it attached it: the call carries what was attached
				style = "AddPairs-then-modify"
				mine := map[string]string{}
				for k, v := range md {
					mine[k] = v
				}
				ctx = drpcmetadata.AddPairs(ctx, mine)
				mine["changed-after-attach"] = "x"
				for k := range md {
					mine[k] = "overwritten"
					break
				}
			}
		}
		want[tag] = md
		in := payload.Make(tag, 0, 0, 0, r.Intn(100))
		stream := r.Intn(2) == 0
		desc = append(desc, fmt.Sprintf("call%d(md=%d via %s,stream=%v)", tag, len(md), style, stream))
		var op *rig.Op
		if stream {
			op = rig.Go("stream", func() (interface{}, error) {
				st, err := rg.Conn.NewStream(ctx, "/m", payload.Enc{})
				if err != nil {
					return nil, err
				}
				defer st.Close()
				if err := st.MsgSend(&in, payload.Enc{}); err != nil {
					return nil, err
				}
				var out []byte
				return nil, st.MsgRecv(&out, payload.Enc{})
			})
		} else {
			op = rig.Go("invoke", func() (interface{}, error) {
				var out []byte
				return nil, rg.Conn.Invoke(ctx, "/m", payload.Enc{}, &in, &out)
			})
		}
		if !op.Wait() {
			return runner.Inconcl(id, fmt.Sprintf("call %d did not return (liveness belongs to C06)", tag))
		}
		if op.Err != nil {
			return runner.Inconcl(id, fmt.Sprintf("call %d failed: %v", tag, op.Err))
		}
	}
	census.Quiesce(rig.Watchdog)
	mu.Lock()
	defer mu.Unlock()
	for tag, md := range want {
		s, ok := got[tag]
		if !ok {
			fails = append(fails, fmt.Sprintf("call %d never reached its handler", tag))
			continue
		}
		if md == nil && s.has && len(s.md) > 0 {
			fails = append(fails, fmt.Sprintf("call %d had no metadata but its handler saw %s (leaked from another call)", tag, summarize(s.md)))
		} else if md != nil && !eqMap(md, s.md) {
			fails = append(fails, fmt.Sprintf("call %d attached %s, handler saw %s", tag, summarize(md), summarize(s.md)))
		} else if s.lateRead && (!eqMap(s.md, s.late) || !eqMap(s.md, s.lateFresh)) {
			fails = append(fails, fmt.Sprintf("call %d: its handler saw %s when it started, and after the client had closed the call it read %s from the same context and %s from stream.Context()", tag, summarize(s.md), summarize(s.late), summarize(s.lateFresh)))
		}
	}
	if !eqMap(shared, sharedCopy) {
		fails = append(fails, fmt.Sprintf("the application's own map, attached with AddPairs to several calls, was modified by the library: now %s, was %s", summarize(shared), summarize(sharedCopy)))
	}
	if len(fails) > 0 {
		return runner.Violation(id, "metadata-e2e", strings.Join(desc, " ")+"\n"+strings.Join(fails, "\n"))
	}
	res := runner.Hold(id, strings.Join(desc, " "), true)
	res.Events = int64(ncalls)
	res.Sample = map[string]interface{}{"calls": desc, "soft_cancel": soft, "server_inactivity_timeout": idle}
	return res
}

// twoHop: the handler of a call on a front server makes a call of its own to a back server, with a
// context derived from the one it is serving (so the metadata it was called with is on it) and,
// mostly, pairs of its own attached on top. What is attached to that second call's context is what
// the back server's handler must see, nothing more and nothing less.
func twoHop(id string, seed uint64) runner.Result {
	r := &payload.SplitMix{S: seed}
	var mu sync.Mutex
	var backSaw, attached []map[string]string
	cp := func(m map[string]string) map[string]string {
		out := map[string]string{}
		for k, v := range m {
			out[k] = v
		}
		return out
	}
	// (the back connection cancels softly: the front handler's context ends the moment it returns, which can
	// meet the last step of its finished back call, and a hard cancel there closes the connection for the next)
	softOpts := drpcmanager.Options{SoftCancel: true}
	back := rig.New(rig.Config{Net: simnet.Opts{Cap: -1}, Client: softOpts, Server: softOpts}, rig.HandlerFunc(func(stream drpc.Stream, rpc string) error {
		var m []byte
		if err := stream.MsgRecv(&m, payload.Enc{}); err != nil {
			return err
		}
		md, _ := drpcmetadata.Get(stream.Context())
		mu.Lock()
		backSaw = append(backSaw, cp(md))
		mu.Unlock()
		out := payload.Make(2, 1, 0, 0, 3)
		return stream.MsgSend(&out, payload.Enc{})
	}))
	defer back.Teardown()
	type plan struct {
		style  string
		extra  map[string]string
		stream bool
	}
	var plans []plan
	ncalls := 2 + r.Intn(5)
	for i := 0; i < ncalls; i++ {
		plans = append(plans, plan{style: payload.Pick(r, []string{"as-is", "Add", "AddPairs", "Add-overwriting-an-incoming-key", "AddPairs-overwriting-every-incoming-key-and-more", "fresh-context+Add"}), extra: genMap(r), stream: r.Intn(2) == 0})
	}
	idx := 0
	front := rig.New(rig.Config{Net: simnet.Opts{Cap: -1}}, rig.HandlerFunc(func(stream drpc.Stream, rpc string) error {
		var m []byte
		if err := stream.MsgRecv(&m, payload.Enc{}); err != nil {
			return err
		}
		p := plans[idx]
		idx++
		ctx := stream.Context()
		// what is attached is worked out here, pair by pair (a later pair for a key replaces an earlier
		// one), not read back from the library
		incoming, _ := drpcmetadata.Get(ctx)
		want := cp(incoming)
		switch p.style {
		case "Add":
			for k, v := range p.extra {
				ctx = drpcmetadata.Add(ctx, k, v)
				want[k] = v
			}
		case "AddPairs":
			ctx = drpcmetadata.AddPairs(ctx, p.extra)
			for k, v := range p.extra {
				want[k] = v
			}
		case "Add-overwriting-an-incoming-key":
			for k := range incoming {
				ctx = drpcmetadata.Add(ctx, k, "replaced-by-the-front")
				want[k] = "replaced-by-the-front"
				break
			}
			ctx = drpcmetadata.Add(ctx, "hop", "2")
			want["hop"] = "2"
		case "AddPairs-overwriting-every-incoming-key-and-more":
			over := cp(p.extra)
			for k := range incoming {
				over[k] = "replaced-by-the-front"
			}
			over["hop"], over["via"] = "2", "front"
			ctx = drpcmetadata.AddPairs(ctx, over)
			for k, v := range over {
				want[k] = v
			}
		case "fresh-context+Add":
			ctx = context.Background()
			want = map[string]string{}
			for k, v := range p.extra {
				ctx = drpcmetadata.Add(ctx, k, v)
				want[k] = v
			}
		}
		mu.Lock()
		attached = append(attached, cp(want))
		mu.Unlock()
		in := payload.Make(2, 0, 0, 0, 4)
		var out []byte
		if p.stream {
			st, err := back.Conn.NewStream(ctx, "/back", payload.Enc{})
			if err != nil {
				return err
			}
			// the back call is over before the front client gets its answer (and, by closing its call, ends
			// the context this call runs on)
			if err := st.MsgSend(&in, payload.Enc{}); err != nil {
				st.Close()
				return err
			}
			err = st.MsgRecv(&out, payload.Enc{})
			st.Close()
			if err != nil {
				return err
			}
		} else if err := back.Conn.Invoke(ctx, "/back", payload.Enc{}, &in, &out); err != nil {
			return err
		}
		return stream.MsgSend(&out, payload.Enc{})
	}))
	defer front.Teardown()
	var desc []string
	for i, p := range plans {
		ctx := context.Background()
		incoming := genMap(r)
		if r.Intn(4) != 0 {
			for len(incoming) == 0 {
				incoming = genMap(r)
			}
		}
		ctx = drpcmetadata.AddPairs(ctx, incoming)
		desc = append(desc, fmt.Sprintf("call%d(incoming=%d, front: %s +%d, stream=%v)", i+1, len(incoming), p.style, len(p.extra), p.stream))
		in := payload.Make(1, 0, 0, 0, 4)
		var out []byte
		op := rig.Go("call", func() (interface{}, error) { return nil, front.Conn.Invoke(ctx, "/front", payload.Enc{}, &in, &out) })
		if !op.Wait() {
			return runner.Inconcl(id, "a two-hop call did not return")
		}
		if op.Err != nil {
			return runner.Inconcl(id, fmt.Sprintf("two-hop call %d (%s) failed: %s; back connection closed=%v front connection closed=%v", i+1, desc[len(desc)-1], op.Err.Error(), rig.IsClosed(back.Conn.Closed()), rig.IsClosed(front.Conn.Closed())))
		}
	}
	census.Quiesce(rig.Watchdog)
	mu.Lock()
	defer mu.Unlock()
	var fails []string
	if len(backSaw) != ncalls || len(attached) != ncalls {
		fails = append(fails, fmt.Sprintf("%d calls, the front handler made %d, the back handler served %d", ncalls, len(attached), len(backSaw)))
	} else {
		for i := range attached {
			if !eqMap(attached[i], backSaw[i]) {
				fails = append(fails, fmt.Sprintf("call %d: the front handler's call to the back server had %s attached to its context, the back handler saw %s", i+1, summarize(attached[i]), summarize(backSaw[i])))
			}
		}
	}
	if len(fails) > 0 {
		return runner.Violation(id, "metadata-two-hop", strings.Join(desc, " ")+"\n"+strings.Join(fails, "\n"))
	}
	res := runner.Hold(id, strings.Join(desc, " "), true)
	res.Events = int64(2 * ncalls)
	return res
}

// atTheLimit: the metadata of a call is as large as the peer's reader accepts a packet to be (a limit
// configured on the server, or the default), one byte less, and one byte more. Up to and including the
// limit it arrives intact, and the calls after it work; beyond it the call may fail, and nothing else.
func atTheLimit(id string, seed uint64) runner.Result {
	r := &payload.SplitMix{S: seed}
	limit := payload.Pick(r, []int{200, 1000, 4096, 70000})
	delta := payload.Pick(r, []int{-1, 0, 0, 1})
	var mu sync.Mutex
	var saw []map[string]string
	h := rig.HandlerFunc(func(stream drpc.Stream, rpc string) error {
		var m []byte
		if err := stream.MsgRecv(&m, payload.Enc{}); err != nil {
			return err
		}
		md, _ := drpcmetadata.Get(stream.Context())
		cp := map[string]string{}
		for k, v := range md {
			cp[k] = v
		}
		mu.Lock()
		saw = append(saw, cp)
		mu.Unlock()
		return stream.MsgSend(&m, payload.Enc{})
	})
	sopts := drpcmanager.Options{Reader: drpcwire.ReaderOptions{MaximumBufferSize: limit}}
	rg := rig.New(rig.Config{Net: simnet.Opts{Cap: -1}, Server: sopts}, h)
	defer rg.Teardown()
	// one pair whose encoding is exactly limit+delta bytes: find the value length by encoding
	val := limit
	var md map[string]string
	for {
		md = map[string]string{"k": strings.Repeat("v", val)}
		enc, _ := drpcmetadata.Encode(nil, md)
		if len(enc) == limit+delta {
			break
		}
		val -= len(enc) - (limit + delta)
		if val < 0 {
			return runner.Inconcl(id, "no value length gives the wanted encoding size")
		}
	}
	desc := fmt.Sprintf("server reader limit %d; a call whose metadata encodes to %d bytes between two ordinary calls", limit, limit+delta)
	in := payload.Make(1, 0, 0, 0, 5)
	call := func(ctx context.Context) error {
		var out []byte
		op := rig.Go("call", func() (interface{}, error) { return nil, rg.Conn.Invoke(ctx, "/m", payload.Enc{}, &in, &out) })
		if !op.Wait() {
			return errors.New("blocked")
		}
		return op.Err
	}
	var fails []string
	if err := call(drpcmetadata.Add(context.Background(), "first", "1")); err != nil {
		return runner.Inconcl(id, "the first call failed: "+err.Error())
	}
	err := call(drpcmetadata.AddPairs(context.Background(), md))
	mu.Lock()
	n := len(saw)
	var last map[string]string
	if n > 0 {
		last = saw[n-1]
	}
	mu.Unlock()
	if delta <= 0 {
		if err != nil {
			fails = append(fails, fmt.Sprintf("the call with metadata of %d bytes (limit %d) failed: %s", limit+delta, limit, rig.ErrStr(err)))
		} else if n != 2 || !eqMap(last, md) {
			fails = append(fails, fmt.Sprintf("the handler of the call with metadata of %d bytes saw %s", limit+delta, summarize(last)))
		}
		if err2 := call(context.Background()); err2 != nil && len(fails) == 0 {
			fails = append(fails, "the call after it failed: "+rig.ErrStr(err2))
		}
	} else if err == nil && (n != 2 || !eqMap(last, md)) {
		fails = append(fails, fmt.Sprintf("the call with metadata beyond the limit succeeded and its handler saw %s", summarize(last)))
	}
	if len(fails) > 0 {
		return runner.Violation(id, "metadata-at-the-limit", desc+"\n"+strings.Join(fails, "\n"))
	}
	res := runner.Hold(id, desc, true)
	res.Events = 3
	return res
}

// abandoned: at wire level, a metadata packet for stream N that is never
// followed by its invoke (the caller gave up in between), then call N+1.
func abandoned(id string, seed uint64) runner.Result {
	r := &payload.SplitMix{S: seed}
	var mu sync.Mutex
	got := map[uint64]seen{}
	h := rig.HandlerFunc(func(stream drpc.Stream, rpc string) error {
		var m []byte
		if err := stream.MsgRecv(&m, payload.Enc{}); err != nil {
			return err
		}
		hd, _ := payload.Parse(m)
		md, ok := drpcmetadata.Get(stream.Context())
		cp := map[string]string{}
		for k, v := range md {
			cp[k] = v
		}
		mu.Lock()
		got[hd.Tag] = seen{md: cp, has: ok}
		mu.Unlock()
		return nil
	})
	rg := rig.New(rig.Config{Net: simnet.Opts{Cap: -1}, NoConn: true}, h)
	defer rg.Teardown()
	raw := rg.Pair.A
	rig.Go("drain", func() (interface{}, error) {
		buf := make([]byte, 4096)
		for {
			if _, err := raw.Read(buf); err != nil {
				return nil, nil
			}
		}
	})
	var b []byte
	var chunks [][]byte // one per call: a conforming client starts a call only when the previous one has ended
	sid := uint64(1)
	want := map[uint64]map[string]string{}
	var desc []string
	ncalls := 2 + r.Intn(5)
	var lastAbandoned []byte
	var lastAbandonedMD map[string]string
	for i := 0; i < ncalls; i++ {
		md := genMap(r)
		for len(md) == 0 {
			md = genMap(r)
		}
		enc, _ := drpcmetadata.Encode(nil, md)
		kindOfCall := r.Intn(3)
		if lastAbandoned != nil && r.Intn(2) == 0 {
			// the retry of a call that was given up: the very same metadata, byte for byte, this time with its invoke
			md, enc, kindOfCall = lastAbandonedMD, lastAbandoned, 1
		}
		switch kindOfCall {
		case 0: // abandoned: metadata only, then the next call uses a higher stream id
			lastAbandoned, lastAbandonedMD = enc, md
			b = refwire.Encode(b, refwire.Frame{Stream: sid, Message: 1, Kind: 7, Done: true, Data: enc})
			if r.Intn(2) == 0 {
				// what a client in soft-cancel mode emits when the call is cancelled right there: its cancel packet (control bit set)
				b = refwire.Encode(b, refwire.Frame{Stream: sid, Message: 2, Kind: uint8(drpcwire.KindCancel), Done: true, Control: true})
				desc = append(desc, fmt.Sprintf("s%d:metadata-only+soft-cancel", sid))
			} else {
				desc = append(desc, fmt.Sprintf("s%d:metadata-only", sid))
			}
		case 1: // normal call with metadata
			b = refwire.Encode(b, refwire.Frame{Stream: sid, Message: 1, Kind: 7, Done: true, Data: enc})
			m := uint64(2)
			what := "call+md"
			if r.Intn(3) == 0 {
				// a client of a later version announces something this server does not know, in a packet
				// with the control bit (which says: ignore me if you do not understand), before its invoke
				b = refwire.Encode(b, refwire.Frame{Stream: sid, Message: m, Kind: uint8(20 + r.Intn(40)), Done: true, Control: true, Data: []byte("hint")})
				m++
				what = "call+md+unknown-control-packet-before-the-invoke"
			}
			b = refwire.Encode(b, refwire.Frame{Stream: sid, Message: m, Kind: 1, Done: true, Data: []byte("/m")})
			b = refwire.Encode(b, refwire.Frame{Stream: sid, Message: m + 1, Kind: 2, Done: true, Data: payload.Make(sid, 0, 0, 0, 4)})
			b = refwire.Encode(b, refwire.Frame{Stream: sid, Message: m + 2, Kind: 6, Done: true})
			want[sid] = md
			desc = append(desc, fmt.Sprintf("s%d:%s", sid, what))
		default: // call without metadata
			b = refwire.Encode(b, refwire.Frame{Stream: sid, Message: 1, Kind: 1, Done: true, Data: []byte("/m")})
			b = refwire.Encode(b, refwire.Frame{Stream: sid, Message: 2, Kind: 2, Done: true, Data: payload.Make(sid, 0, 0, 0, 4)})
			b = refwire.Encode(b, refwire.Frame{Stream: sid, Message: 3, Kind: 6, Done: true})
			want[sid] = nil
			desc = append(desc, fmt.Sprintf("s%d:call", sid))
		}
		sid++
		chunks = append(chunks, b)
		b = nil
	}
	for _, c := range chunks {
		raw.Write(c)
		census.Quiesce(rig.Watchdog)
	}
	mu.Lock()
	defer mu.Unlock()
	var fails []string
	reached := 0
	for s, md := range want {
		g, ok := got[s]
		if !ok {
			continue // liveness is C06's concern
		}
		reached++
		if md == nil && g.has && len(g.md) > 0 {
			fails = append(fails, fmt.Sprintf("stream %d had no metadata of its own but its handler saw %s", s, summarize(g.md)))
		} else if md != nil && !eqMap(md, g.md) {
			fails = append(fails, fmt.Sprintf("stream %d attached %s, handler saw %s", s, summarize(md), summarize(g.md)))
		}
	}
	if len(fails) > 0 {
		return runner.Violation(id, "metadata-abandoned", strings.Join(desc, " ")+"\n"+strings.Join(fails, "\n"))
	}
	if reached < len(want) {
		// every session here is one a conforming client emits and the transport has delivered all of it:
		// a call that has not reached a handler at quiescence has not had its metadata delivered to it
		return runner.Violation(id, "metadata-abandoned:later-call-never-served", fmt.Sprintf("%d of %d calls reached their handler at quiescence (%s): the metadata of the others arrived nowhere", reached, len(want), strings.Join(desc, " ")))
	}
	res := runner.Hold(id, strings.Join(desc, " "), true)
	res.Events = int64(ncalls)
	return res
}

func gen(tier string, seed uint64) []runner.Scenario {
	var out []runner.Scenario
	thorough := tier == "thorough"
	add := func(id string, f func(a *acc)) {
		out = append(out, runner.Scenario{ID: id, Run: func() runner.Result {
			a := &acc{id: id, stats: map[string]int64{}}
			f(a)
			return a.result()
		}})
	}
	nm := 4000
	if thorough {
		nm = 100000
	}
	for part := 0; part < 8; part++ {
		part := part
		add(fmt.Sprintf("codec/maps/%d", part), func(a *acc) {
			r := &payload.SplitMix{S: payload.Hash(seed, 0x11, uint64(part))}
			if part == 0 {
				a.codecMap(nil)
				a.codecMap(map[string]string{})
				a.codecMap(map[string]string{"": ""})
				a.codecMap(map[string]string{"k": ""})
				a.codecMap(map[string]string{"": "v"})
				for _, n := range []int{1, 127, 128, 129, 16383, 16384, 16385, 1 << 21} {
					a.codecMap(map[string]string{"k": strings.Repeat("v", n)})
					a.codecMap(map[string]string{strings.Repeat("k", n): "v"})
				}
			}
			for i := 0; i < nm/8; i++ {
				m := genMap(r)
				a.codecMap(m)
				if a.smp == nil && len(m) > 1 {
					a.smp = map[string]interface{}{"map": summarize(m)}
				}
			}
		})
	}
	for part := 0; part < 8; part++ {
		part := part
		add(fmt.Sprintf("codec/bytes/%d", part), func(a *acc) {
			r := &payload.SplitMix{S: payload.Hash(seed, 0x112, uint64(part))}
			if part == 0 {
				a.codecBytes(nil)
				for x := 0; x < 256; x++ {
					a.codecBytes([]byte{byte(x)})
					for y := 0; y < 256; y++ {
						a.codecBytes([]byte{byte(x), byte(y)})
					}
				}
			}
			if part == 1 {
				alpha := []byte{0, 1, 2, 3, 4, 10, 18, 0x7f, 0x80, 0xff}
				var rec func(b []byte, l int)
				rec = func(b []byte, l int) {
					if len(b) == l {
						a.codecBytes(b)
						return
					}
					for _, c := range alpha {
						rec(append(b, c), l)
					}
				}
				for l := 3; l <= 6; l++ {
					rec([]byte{10}, l)
				}
			}
			n := 20000
			if thorough {
				n = 400000
			}
			for i := 0; i < n/8; i++ {
				m := genMap(r)
				b := refEncode(m)
				if r.Intn(2) == 0 {
					b, _ = drpcmetadata.Encode(nil, m)
				}
				for k := 0; k < 1+r.Intn(3) && len(b) > 0; k++ {
					switch r.Intn(6) {
					case 0:
						b[r.Intn(len(b))] ^= byte(1 << uint(r.Intn(8)))
					case 1:
						b = b[:r.Intn(len(b)+1)]
					case 2:
						p := r.Intn(len(b))
						b = append(b[:p:p], append([]byte{byte(r.Next())}, b[p:]...)...)
					case 3:
						// swap key/value order inside the first entry (valid protobuf)
						if mm, ok := refDecode(b); ok && len(mm) == 1 {
							for k, v := range mm {
								var ent []byte
								ent = protowire.AppendTag(ent, 2, protowire.BytesType)
								ent = protowire.AppendString(ent, v)
								ent = protowire.AppendTag(ent, 1, protowire.BytesType)
								ent = protowire.AppendString(ent, k)
								b = protowire.AppendBytes(protowire.AppendTag(nil, 1, protowire.BytesType), ent)
							}
						}
					case 4:
						// append an unknown field (valid protobuf)
						b = protowire.AppendVarint(protowire.AppendTag(b, 9, protowire.VarintType), r.Next())
					case 5:
						p := r.Intn(len(b))
						b = append(b[:p:p], append(bytes.Repeat([]byte{0x80}, r.Intn(11)), b[p:]...)...)
					}
				}
				a.codecBytes(b)
			}
		})
	}
	ne := 150
	if thorough {
		ne = 4000
	}
	for i := 0; i < ne; i++ {
		i := i
		id := fmt.Sprintf("e2e/%d", i)
		out = append(out, runner.Scenario{ID: id, Run: func() runner.Result { return e2e(id, payload.Hash(seed, 0x113, uint64(i))) }})
		id2 := fmt.Sprintf("abandoned/%d", i)
		out = append(out, runner.Scenario{ID: id2, Run: func() runner.Result { return abandoned(id2, payload.Hash(seed, 0x114, uint64(i))) }})
		if i%5 == 0 {
			id4 := fmt.Sprintf("at-the-limit/%d", i)
			out = append(out, runner.Scenario{ID: id4, Run: func() runner.Result { return atTheLimit(id4, payload.Hash(seed, 0x116, uint64(i))) }})
		}
		id3 := fmt.Sprintf("two-hop/%d", i)
		out = append(out, runner.Scenario{ID: id3, Run: func() runner.Result { return twoHop(id3, payload.Hash(seed, 0x115, uint64(i))) }})
	}
	return out
}

func main() {
	runner.Main(runner.Check{
		Property: "C11",
		Level:    "exploration",
		Rule:     "codec cases: one seeded map (empty strings, lengths at varint boundaries 127/128/16383/16384/2^21, binary strings, 0..50 entries) checked for Decode(Encode(m))==m, decodability by an independent protowire decoder and by released v0.0.17, decodability of v0.0.17's and the canonical encoding; one byte string (all <=2 bytes, all 3..6-byte strings starting with 0x0a over a 10-byte alphabet, mutated valid encodings incl. reordered entry fields and unknown fields) checked for no panic and agreement with the reference decoder whenever Decode returns a map. End-to-end cases: one seeded sequence of 3-8 unary/streaming calls with and without metadata on one real connection (both cancel modes, several transports); wire-level sequences with metadata packets never followed by their invoke. Batches count inputs; e2e cases are distinct by call sequence. In the end-to-end cases every other server has an InactivityTimeout (far away), and every handler reads its metadata a second time, from the context it kept and from stream.Context(), after the client has closed the call: it must read the same pairs as when it started.",
		Assumptions: []string{
			"Decode may reject encodings a general protobuf decoder accepts (the statement only requires a map or an error); when it returns a map it must be the map the reference decoder returns",
			"a call that never reaches its handler is inconclusive here (progress is C06's property)",
		},
		Gen:           gen,
		Shards:        14,
		MinNontrivial: 2000,
	})
}
