// Package payload builds self-describing application messages so that every
// delivered message identifies the RPC, direction, sender and position it was
// submitted at, and carries a checksum of its body.
package payload

import (
	"encoding/binary"
	"errors"
	"fmt"
	"hash/crc32"

	"storj.io/drpc"
)

const magic = 0xD19C

// HeaderLen is the length of the fixed header.
const HeaderLen = 2 + 8 + 1 + 2 + 4 + 4 + 4

// Msg is the decoded header of a message.
type Msg struct {
	Tag    uint64 // identifies the RPC (stream) the message belongs to
	Dir    uint8  // 0 client->server, 1 server->client
	Sender uint16 // sending goroutine within the RPC
	Seq    uint32 // position in that sender's submission order
	Len    uint32 // body length
}

// SplitMix is a small deterministic PRNG.
type SplitMix struct{ S uint64 }

// Next returns the next value.
func (s *SplitMix) Next() uint64 {
	s.S += 0x9e3779b97f4a7c15
	z := s.S
	z = (z ^ (z >> 30)) * 0xbf58476d1ce4e5b9
	z = (z ^ (z >> 27)) * 0x94d049bb133111eb
	return z ^ (z >> 31)
}

// Intn returns a value in [0,n).
func (s *SplitMix) Intn(n int) int {
	if n <= 0 {
		return 0
	}
	return int(s.Next() % uint64(n))
}

// Pick returns one of xs.
func Pick[T any](s *SplitMix, xs []T) T { return xs[s.Intn(len(xs))] }

// Hash mixes values into one 64-bit value.
func Hash(vs ...uint64) uint64 {
	h := SplitMix{S: 0x1234567}
	for _, v := range vs {
		h.S ^= v
		h.S = h.Next()
	}
	return h.Next()
}

// Make builds the message for (tag, dir, sender, seq) with a body of n bytes.
// The total length is HeaderLen+n.
func Make(tag uint64, dir uint8, sender uint16, seq uint32, n int) []byte {
	out := make([]byte, HeaderLen+n)
	binary.BigEndian.PutUint16(out[0:], magic)
	binary.BigEndian.PutUint64(out[2:], tag)
	out[10] = dir
	binary.BigEndian.PutUint16(out[11:], sender)
	binary.BigEndian.PutUint32(out[13:], seq)
	binary.BigEndian.PutUint32(out[17:], uint32(n))
	body := out[HeaderLen:]
	r := SplitMix{S: Hash(tag, uint64(dir), uint64(sender), uint64(seq))}
	for i := 0; i+8 <= n; i += 8 {
		binary.LittleEndian.PutUint64(body[i:], r.Next())
	}
	for i := n &^ 7; i < n; i++ {
		body[i] = byte(r.Next())
	}
	binary.BigEndian.PutUint32(out[21:], crc32.ChecksumIEEE(body))
	return out
}

// Parse validates a received message and returns its header.
func Parse(b []byte) (Msg, error) {
	var m Msg
	if len(b) < HeaderLen {
		return m, fmt.Errorf("short message: %d bytes", len(b))
	}
	if binary.BigEndian.Uint16(b[0:]) != magic {
		return m, errors.New("bad magic")
	}
	m.Tag = binary.BigEndian.Uint64(b[2:])
	m.Dir = b[10]
	m.Sender = binary.BigEndian.Uint16(b[11:])
	m.Seq = binary.BigEndian.Uint32(b[13:])
	m.Len = binary.BigEndian.Uint32(b[17:])
	if int(m.Len) != len(b)-HeaderLen {
		return m, fmt.Errorf("length mismatch: header says %d, body has %d (truncated or merged)", m.Len, len(b)-HeaderLen)
	}
	if crc32.ChecksumIEEE(b[HeaderLen:]) != binary.BigEndian.Uint32(b[21:]) {
		return m, errors.New("crc mismatch (altered)")
	}
	return m, nil
}

// ErrUndecodable is what Enc.Unmarshal returns for messages produced by Undecodable.
var ErrUndecodable = errors.New("payload: message cannot be decoded")

// Undecodable returns a message of n+2 bytes that Enc.Unmarshal rejects.
func Undecodable(n int) []byte {
	out := make([]byte, n+2)
	out[0], out[1] = 0xFE, 0xFE
	return out
}

// Enc is a drpc.Encoding over *[]byte: the message is the byte slice itself.
type Enc struct{}

// Marshal implements drpc.Encoding.
func (Enc) Marshal(msg drpc.Message) ([]byte, error) {
	switch m := msg.(type) {
	case *[]byte:
		return *m, nil
	case []byte:
		return m, nil
	}
	return nil, fmt.Errorf("payload.Enc: unsupported message %T", msg)
}

// MarshalAppend is the optional fast path the generated protobuf encodings have too. Like those, a
// failed encode hands back the bytes it had appended so far together with its error.
func (e Enc) MarshalAppend(buf []byte, msg drpc.Message) ([]byte, error) {
	b, err := e.Marshal(msg)
	if err != nil {
		return append(buf, "bytes-of-a-message-that-failed-to-encode"...), err
	}
	return append(buf, b...), nil
}

// Unmarshal implements drpc.Encoding. It copies, as every real decoder does:
// the buffer belongs to the stream and is reused after Unmarshal returns.
func (Enc) Unmarshal(buf []byte, msg drpc.Message) error {
	m, ok := msg.(*[]byte)
	if !ok {
		return fmt.Errorf("payload.Enc: unsupported message %T", msg)
	}
	if len(buf) >= 2 && buf[0] == 0xFE && buf[1] == 0xFE {
		return ErrUndecodable // a message the receiving side's decoder rejects
	}
	*m = append((*m)[:0], buf...)
	return nil
}
