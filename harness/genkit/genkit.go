// Package genkit runs the protoc plugins (protoc-gen-go from the module cache,
// protoc-gen-go-drpc built from the repository under test) on a fixed service
// descriptor and compiles a driver program against the generated code, so that
// checks can exercise the *generated* client and server, not hand-written ones.
package genkit

import (
	"bytes"
	"fmt"
	"os"
	"os/exec"
	"path/filepath"

	"google.golang.org/protobuf/proto"
	"google.golang.org/protobuf/types/descriptorpb"
	"google.golang.org/protobuf/types/pluginpb"
)

// RepoDir is the checkout under test.
func RepoDir() string {
	if d := os.Getenv("VERIF_REPO"); d != "" {
		return d
	}
	return "/repo"
}

// VerifDir is the root of the verification tree.
func VerifDir() string {
	if d := os.Getenv("VERIF_DIR"); d != "" {
		return d
	}
	return "/verif"
}

// Run runs a command in dir and returns its combined output.
func Run(dir string, name string, args ...string) (string, error) {
	cmd := exec.Command(name, args...)
	cmd.Dir = dir
	cmd.Env = append(os.Environ(), "GOFLAGS=-mod=mod", "GOPROXY=off", "GOSUMDB=off", "GOTOOLCHAIN=local")
	var out bytes.Buffer
	cmd.Stdout, cmd.Stderr = &out, &out
	err := cmd.Run()
	return out.String(), err
}

// Kit is a scratch module with the generated package and both plugins.
type Kit struct {
	Root string // scratch root (removed by Close)
	Mod  string // module directory (module name genscratch)
	Pkg  string // directory of the generated package genscratch/svc
}

// Close removes the scratch tree.
func (k *Kit) Close() { os.RemoveAll(k.Root) }

// New builds the plugins, generates the code for the fixed service
//
//	package errsvc; message Req { string tag = 1; }
//	service Svc { U unary; C client-streaming; S server-streaming; B bidirectional } (all Req -> Req)
//
// into <root>/mod/svc, in a module that resolves storj.io/drpc to the repository under test and
// verifharness to the harness (so that a driver can use the census).
func New(root string) (*Kit, error) {
	os.RemoveAll(root)
	k := &Kit{Root: root, Mod: filepath.Join(root, "mod"), Pkg: filepath.Join(root, "mod", "svc")}
	if err := os.MkdirAll(k.Pkg, 0o755); err != nil {
		return nil, err
	}
	pluginGo, pluginDrpc := filepath.Join(root, "protoc-gen-go"), filepath.Join(root, "protoc-gen-go-drpc")
	if out, err := Run(filepath.Join(VerifDir(), "harness"), "go", "build", "-o", pluginGo, "google.golang.org/protobuf/cmd/protoc-gen-go"); err != nil {
		return nil, fmt.Errorf("building protoc-gen-go: %v\n%s", err, out)
	}
	if out, err := Run(RepoDir(), "go", "build", "-o", pluginDrpc, "./cmd/protoc-gen-go-drpc"); err != nil {
		return nil, fmt.Errorf("building protoc-gen-go-drpc from %s: %v\n%s", RepoDir(), err, out)
	}
	gomod := "module genscratch\n\ngo 1.19\n\nrequire (\n\tgoogle.golang.org/protobuf v1.27.1\n\tstorj.io/drpc v0.0.0\n\tverifharness v0.0.0\n\tdrpcv0017 v0.0.0\n)\n\n" +
		"replace storj.io/drpc => " + RepoDir() + "\n\nreplace verifharness => " + filepath.Join(VerifDir(), "harness") + "\n\nreplace drpcv0017 => " + filepath.Join(VerifDir(), "third_party", "drpc_v0017") + "\n"
	os.WriteFile(filepath.Join(k.Mod, "go.mod"), []byte(gomod), 0o644)
	sum, _ := os.ReadFile(filepath.Join(VerifDir(), "harness", "go.sum"))
	os.WriteFile(filepath.Join(k.Mod, "go.sum"), sum, 0o644)

	str := descriptorpb.FieldDescriptorProto_TYPE_STRING
	opt := descriptorpb.FieldDescriptorProto_LABEL_OPTIONAL
	fd := &descriptorpb.FileDescriptorProto{
		Name: proto.String("svc.proto"), Package: proto.String("errsvc"), Syntax: proto.String("proto3"),
		Options: &descriptorpb.FileOptions{GoPackage: proto.String("genscratch/svc;svc")},
		MessageType: []*descriptorpb.DescriptorProto{{Name: proto.String("Req"), Field: []*descriptorpb.FieldDescriptorProto{
			{Name: proto.String("tag"), Number: proto.Int32(1), Type: &str, Label: &opt, JsonName: proto.String("tag")}}}},
	}
	sd := &descriptorpb.ServiceDescriptorProto{Name: proto.String("Svc")}
	for _, m := range []struct {
		n      string
		cs, ss bool
	}{{"U", false, false}, {"C", true, false}, {"S", false, true}, {"B", true, true}} {
		sd.Method = append(sd.Method, &descriptorpb.MethodDescriptorProto{Name: proto.String(m.n), InputType: proto.String(".errsvc.Req"), OutputType: proto.String(".errsvc.Req"),
			ClientStreaming: proto.Bool(m.cs), ServerStreaming: proto.Bool(m.ss)})
	}
	fd.Service = []*descriptorpb.ServiceDescriptorProto{sd}
	req := &pluginpb.CodeGeneratorRequest{FileToGenerate: []string{"svc.proto"}, ProtoFile: []*descriptorpb.FileDescriptorProto{fd}, Parameter: proto.String("")}
	in, err := proto.Marshal(req)
	if err != nil {
		return nil, err
	}
	for _, bin := range []string{pluginGo, pluginDrpc} {
		cmd := exec.Command(bin)
		cmd.Stdin = bytes.NewReader(in)
		var out, errb bytes.Buffer
		cmd.Stdout, cmd.Stderr = &out, &errb
		if err := cmd.Run(); err != nil {
			return nil, fmt.Errorf("%s: %v: %s", filepath.Base(bin), err, errb.String())
		}
		resp := &pluginpb.CodeGeneratorResponse{}
		if err := proto.Unmarshal(out.Bytes(), resp); err != nil {
			return nil, err
		}
		if resp.Error != nil {
			return nil, fmt.Errorf("%s rejected the fixed descriptor: %s", filepath.Base(bin), resp.GetError())
		}
		for _, f := range resp.File {
			os.WriteFile(filepath.Join(k.Pkg, filepath.Base(f.GetName())), []byte(f.GetContent()), 0o644)
		}
	}
	return k, nil
}

// BuildDriver writes src as <mod>/drv/main.go and builds it with the given extra go build flags.
func (k *Kit) BuildDriver(src string, flags ...string) (bin string, err error) {
	dir := filepath.Join(k.Mod, "drv")
	os.MkdirAll(dir, 0o755)
	os.WriteFile(filepath.Join(dir, "main.go"), []byte(src), 0o644)
	bin = filepath.Join(k.Root, "driver")
	args := append(append([]string{"build"}, flags...), "-o", bin, "./drv")
	if out, err := Run(k.Mod, "go", args...); err != nil {
		return "", fmt.Errorf("building the driver: %v\n%s", err, out)
	}
	return bin, nil
}
