// Package wiregen generates hostile and valid drpc frame streams and scripted
// io.Readers that deliver them under a chosen partition into reads.
package wiregen

import (
	"bytes"
	"errors"
	"fmt"
	"io"
	"strings"

	"verifharness/payload"
	"verifharness/refwire"
)

// ErrTransport is the scripted transport failure.
var ErrTransport = errors.New("scripted transport error")

// scripted is an io.Reader that delivers data cut at the given points.
type Scripted struct {
	Data     []byte
	Cuts     []int // ascending positions where a read must stop
	pos      int
	ci       int
	Final    error
	WithData bool // deliver the final error together with the last bytes
	Once     bool // the final error is reported that one time only; reads after it see io.EOF (a transport need not repeat an error)
	reported bool
	Empties  *payload.SplitMix
	emptyRun int
	Pulled   int
	Calls    int
}

func (s *Scripted) Read(p []byte) (int, error) {
	s.Calls++
	if len(p) == 0 {
		return 0, nil
	}
	if s.Empties != nil && s.emptyRun < 40 && s.Empties.Intn(3) == 0 {
		s.emptyRun++
		return 0, nil
	}
	s.emptyRun = 0
	if s.pos >= len(s.Data) {
		if s.Once && s.reported {
			return 0, io.EOF
		}
		s.reported = true
		return 0, s.Final
	}
	for s.ci < len(s.Cuts) && s.Cuts[s.ci] <= s.pos {
		s.ci++
	}
	end := len(s.Data)
	if s.ci < len(s.Cuts) && s.Cuts[s.ci] < end {
		end = s.Cuts[s.ci]
	}
	n := end - s.pos
	if n > len(p) {
		n = len(p)
	}
	copy(p, s.Data[s.pos:s.pos+n])
	s.pos += n
	s.Pulled += n
	if s.pos >= len(s.Data) && s.WithData {
		s.reported = true
		return n, s.Final
	}
	return n, nil
}

type Stream struct {
	Desc  string
	Data  []byte
	Edges []int
	Max   int
}

// genStream builds one byte stream from the seed.
func GenStream(r *payload.SplitMix, max int) Stream {
	effMax := max
	if effMax == 0 {
		effMax = 4 << 20
	}
	var st Stream
	st.Max = max
	var b []byte
	var desc []string
	sid, mid := uint64(1), uint64(1)
	if r.Intn(4) == 0 {
		sid = uint64(1 + r.Intn(1000))
	}
	body := func(n int) []byte {
		out := make([]byte, n)
		x := r.Next()
		for i := range out {
			out[i] = byte(x >> (8 * uint(i%8)))
			if i%8 == 7 {
				x = x*6364136223846793005 + 1442695040888963407
			}
		}
		return out
	}
	emit := func(f refwire.Frame) {
		b = refwire.Encode(b, f)
		st.Edges = append(st.Edges, len(b))
	}
	sizeClass := func() int {
		switch r.Intn(10) {
		case 0:
			return 0
		case 1:
			return effMax
		case 2:
			return effMax - 1
		case 3:
			return effMax + 1
		case 4:
			return effMax / 2
		case 5:
			return r.Intn(effMax + 1)
		default:
			return r.Intn(min(effMax, 300) + 1)
		}
	}
	nact := 2 + r.Intn(10)
	big := 0
	for a := 0; a < nact; a++ {
		kind := uint8(1 + r.Intn(7))
		act := r.Intn(25)
		if effMax >= 1<<20 && big >= 2 && (act == 1 || act == 2) {
			act = 0 // keep default-max streams affordable
		}
		switch {
		case act <= 7: // valid packet, possibly multi-frame
			total := sizeClass()
			if effMax >= 1<<20 && total > 1<<20 {
				big++
				if big > 2 {
					total = r.Intn(5000)
				}
			}
			data := body(total)
			nfr := 1 + r.Intn(4)
			if total == 0 {
				nfr = 1 + r.Intn(2)
			}
			ctlAt := -1
			if r.Intn(5) == 0 {
				ctlAt = r.Intn(nfr)
			}
			off := 0
			for i := 0; i < nfr; i++ {
				n := (total - off) / (nfr - i)
				if i == nfr-1 {
					n = total - off
				} else if n > 0 && r.Intn(2) == 0 {
					n = r.Intn(n + 1)
				}
				emit(refwire.Frame{Stream: sid, Message: mid, Kind: kind, Done: i == nfr-1, Control: i == ctlAt, Data: data[off : off+n]})
				off += n
			}
			desc = append(desc, fmt.Sprintf("pkt(s%d,m%d,k%d,len%d,frames%d,ctl@%d)", sid, mid, kind, total, nfr, ctlAt))
			mid++
		case act == 8: // new stream
			sid += uint64(1 + r.Intn(3))
			mid = uint64(r.Intn(3)) // message id 0 is an ordinary id on every stream after the first
			desc = append(desc, fmt.Sprintf("newstream(s%d)", sid))
		case act == 9: // unfinished packet then a higher id (discard)
			c1, c2 := r.Intn(2) == 0, r.Intn(3) == 0
			nun := 1 + r.Intn(3)
			for i := 0; i < nun; i++ {
				emit(refwire.Frame{Stream: sid, Message: mid, Kind: kind, Done: false, Control: c1 && i == nun/2, Data: body(r.Intn(50))})
			}
			if r.Intn(3) == 0 {
				sid++
				mid = 0
			}
			mid++
			nk := uint8(1 + r.Intn(7))
			nnext := 1 + r.Intn(3)
			for i := 0; i < nnext; i++ {
				emit(refwire.Frame{Stream: sid, Message: mid, Kind: nk, Done: i == nnext-1, Control: c2 && i == 0, Data: body(r.Intn(min(effMax/3, 50) + 1))})
			}
			mid++
			desc = append(desc, fmt.Sprintf("unfinished(x%d,ctl=%v)-then-next(ctl=%v)", nun, c1, c2))
		case act == 10: // id regression
			bs, bm := sid, mid
			switch r.Intn(3) {
			case 0:
				if bm > 0 {
					bm--
				}
			case 1:
				if bs > 0 {
					bs--
				}
			default:
				bs, bm = 0, 0
			}
			emit(refwire.Frame{Stream: bs, Message: bm, Kind: kind, Done: r.Intn(2) == 0, Data: body(r.Intn(10))})
			desc = append(desc, fmt.Sprintf("regress(s%d,m%d)", bs, bm))
		case act == 11: // kind change inside a packet
			emit(refwire.Frame{Stream: sid, Message: mid, Kind: kind, Done: false, Data: body(r.Intn(10))})
			emit(refwire.Frame{Stream: sid, Message: mid, Kind: kind%7 + 1, Done: true, Data: body(r.Intn(10))})
			mid++
			desc = append(desc, "kind-change")
		case act == 19: // a valid frame whose header uses the longest varint forms (ids >= 2^63, or zero-padded to 10 bytes), data at the limit
			n := effMax - r.Intn(4)
			if n < 0 || effMax >= 1<<20 {
				n = r.Intn(min(effMax, 2000) + 1)
			}
			pad := func(dst []byte, v uint64) []byte { // non-canonical: continuation bytes up to the 10-byte maximum
				k := 0
				for v > 0x7f {
					dst = append(dst, byte(v)|0x80)
					v >>= 7
					k++
				}
				for ; k < 9; k++ {
					dst = append(dst, byte(v)|0x80)
					v = 0
				}
				return append(dst, byte(v))
			}
			if r.Intn(2) == 0 {
				sid = uint64(1)<<63 + sid%1000
				mid = uint64(1)<<63 + mid%1000
			}
			hdr := []byte{kind<<1 | 1}
			enc := refwire.PutUvarint
			if r.Intn(3) != 0 {
				enc = pad
			}
			hdr = enc(hdr, sid)
			hdr = enc(hdr, mid)
			hdr = pad(hdr, uint64(n))
			b = append(b, hdr...)
			b = append(b, body(n)...)
			st.Edges = append(st.Edges, len(b))
			desc = append(desc, fmt.Sprintf("long-header(s%d,m%d,len%d,hdr%d)", sid, mid, n, len(hdr)))
			mid++
		case act == 24: // the kind changes inside a packet that carries the control bit on some frame
			nf := 2 + r.Intn(3)
			ctlAt := r.Intn(nf)
			chgAt := 1 + r.Intn(nf-1)
			k2 := uint8(1 + (int(kind)+r.Intn(6))%7)
			if k2 == kind {
				k2 = kind%7 + 1
			}
			for f := 0; f < nf; f++ {
				kk := kind
				if f >= chgAt {
					kk = k2
				}
				emit(refwire.Frame{Stream: sid, Message: mid, Kind: kk, Done: f == nf-1, Control: f == ctlAt, Data: body(r.Intn(12))})
			}
			mid++
			desc = append(desc, fmt.Sprintf("kind-change@%d-in-control-packet(ctl@%d,frames%d)", chgAt, ctlAt, nf))
			a = nact // the stream ends with an error there
		case act == 23: // an unfinished packet that nearly fills the maximum, discarded by a higher id whose packet nearly fills it too
			d1 := effMax*(5+r.Intn(5))/10 + r.Intn(3)
			d2 := effMax*(5+r.Intn(5))/10 + r.Intn(3)
			if effMax >= 1<<20 {
				d1, d2 = 600+r.Intn(400), 600+r.Intn(400) // keep default-max streams affordable
			}
			if d1 > effMax {
				d1 = effMax
			}
			if d2 > effMax {
				d2 = effMax
			}
			emit(refwire.Frame{Stream: sid, Message: mid, Kind: kind, Done: false, Data: body(d1)})
			mid++
			if r.Intn(3) == 0 {
				sid++
				mid = 1
			}
			emit(refwire.Frame{Stream: sid, Message: mid, Kind: kind, Done: true, Data: body(d2)})
			mid++
			desc = append(desc, fmt.Sprintf("unfinished(len%d)-discarded-by-higher-id(len%d)", d1, d2))
		case act == 22: // the largest message id of one stream, then ordinary ids of the next stream (and the one after)
			emit(refwire.Frame{Stream: sid, Message: ^uint64(0) - 1, Kind: kind, Done: true, Data: body(r.Intn(10))})
			emit(refwire.Frame{Stream: sid, Message: ^uint64(0), Kind: kind, Done: true, Data: body(r.Intn(10))})
			sid++
			mid = uint64(1 + r.Intn(3))
			for k := 0; k < 1+r.Intn(3); k++ {
				emit(refwire.Frame{Stream: sid, Message: mid, Kind: kind, Done: true, Data: body(r.Intn(10))})
				mid++
			}
			desc = append(desc, fmt.Sprintf("max-message-id-then-next-stream(s%d)", sid))
		case act == 20: // a packet with the largest message id, then ids that would be "next" only if the counter wrapped
			lastStream := r.Intn(3) == 0 // the very last id there is: the stream id is the largest one too
			if lastStream {
				sid = ^uint64(0)
			}
			emit(refwire.Frame{Stream: sid, Message: ^uint64(0), Kind: kind, Done: true, Data: body(r.Intn(10))})
			next := []uint64{0, 1, mid, ^uint64(0)}[r.Intn(4)]
			nsid := sid
			if lastStream {
				nsid = []uint64{0, 1, 2, ^uint64(0)}[r.Intn(4)] // nothing may follow the last id, whatever wraps around
			}
			emit(refwire.Frame{Stream: nsid, Message: next, Kind: kind, Done: r.Intn(2) == 0, Data: body(r.Intn(10))})
			if r.Intn(2) == 0 {
				sid++
				mid = 0
				emit(refwire.Frame{Stream: sid, Message: mid, Kind: kind, Done: true, Data: body(r.Intn(10))})
				mid++
			}
			if lastStream {
				desc = append(desc, fmt.Sprintf("last-id-then(s%d,m%d)", nsid, next))
			} else {
				desc = append(desc, fmt.Sprintf("max-message-id-then(m%d)", next))
			}
		case act == 12: // frame declaring a huge length, few bytes follow
			hdr := []byte{kind<<1 | 1}
			hdr = refwire.PutUvarint(hdr, sid)
			hdr = refwire.PutUvarint(hdr, mid)
			huge := uint64(1) << uint(20+r.Intn(44)) // up to 2^63: lengths that do not fit a signed int
			switch r.Intn(6) {
			case 0:
				huge = ^uint64(0)
			case 1:
				huge = uint64(1)<<63 + uint64(r.Intn(1000))
			}
			hdr = refwire.PutUvarint(hdr, huge)
			b = append(b, hdr...)
			b = append(b, body(r.Intn(3*min(effMax, 5000)+100))...)
			desc = append(desc, "huge-declared-length")
			a = nact // nothing parseable can follow
		case act == 13: // never-done packet growing past max
			n := 2 + r.Intn(6)
			per := effMax/n + 1 + r.Intn(10)
			if effMax >= 1<<20 {
				per = effMax/n + 1
				big++
			}
			cnt := n + 1
			if effMax <= 1<<16 && r.Intn(2) == 0 {
				cnt = 32 * n // far beyond the limit: what is held must stay bounded all the way
			}
			for i := 0; i < cnt; i++ {
				emit(refwire.Frame{Stream: sid, Message: mid, Kind: kind, Done: false, Data: body(per)})
			}
			desc = append(desc, fmt.Sprintf("never-done(%dx%d)", cnt, per))
		case act == 14: // burst of small frames after a large one
			if effMax < 1<<20 {
				emit(refwire.Frame{Stream: sid, Message: mid, Kind: kind, Done: true, Data: body(effMax)})
				mid++
			}
			n := 20 + r.Intn(400)
			for i := 0; i < n; i++ {
				emit(refwire.Frame{Stream: sid, Message: mid, Kind: kind, Done: true, Data: body(r.Intn(min(effMax, 8) + 1))})
				mid++
			}
			desc = append(desc, fmt.Sprintf("burst(%d)", n))
		case act == 15: // malformed varint
			hdr := []byte{kind << 1}
			for i := 0; i < r.Intn(3); i++ {
				hdr = append(hdr, 1)
			}
			hdr = append(hdr, bytes.Repeat([]byte{0x80}, 10+r.Intn(3))...)
			hdr = append(hdr, 1, 1, 1, 1)
			b = append(b, hdr...)
			desc = append(desc, "malformed-varint")
			a = nact
		case act == 16: // repeated done frame with the same id
			d := body(r.Intn(5))
			emit(refwire.Frame{Stream: sid, Message: mid, Kind: kind, Done: true, Data: d})
			emit(refwire.Frame{Stream: sid, Message: mid, Kind: kind, Done: true, Data: d})
			desc = append(desc, "dup-done")
		case act == 17: // message id jump forward
			mid += uint64(1 + r.Intn(1000))
			desc = append(desc, "mid-jump")
		case act == 18: // exactly-max single frame followed by more small packets
			if effMax < 1<<20 || big < 2 {
				big++
				emit(refwire.Frame{Stream: sid, Message: mid, Kind: kind, Done: true, Data: body(effMax)})
				mid++
				for i := 0; i < 5+r.Intn(300); i++ {
					emit(refwire.Frame{Stream: sid, Message: mid, Kind: kind, Done: true, Data: body(r.Intn(20))})
					mid++
				}
				desc = append(desc, "max-then-small")
			}
		default: // truncated tail: a partial frame at the end of the stream
			f := refwire.Encode(nil, refwire.Frame{Stream: sid, Message: mid, Kind: kind, Done: true, Data: body(5 + r.Intn(100))})
			b = append(b, f[:1+r.Intn(len(f)-1)]...)
			desc = append(desc, "truncated-tail")
			a = nact
		}
	}
	if last := len(desc) - 1; r.Intn(12) == 0 && (last < 0 || desc[last] != "truncated-tail") {
		// the stream ends exactly behind a varint that is already too long (ten continuation bytes): no
		// further byte could make it valid, so this is malformed data, not a frame cut short
		b = append(b, byte(1+r.Intn(7))<<1)
		for k := r.Intn(3); k > 0; k-- {
			b = append(b, byte(1+r.Intn(100))) // 0-2 short fields before the overlong one
		}
		for k := 0; k < 10; k++ {
			b = append(b, 0x80|byte(r.Intn(128)))
		}
		desc = append(desc, "ends-behind-an-overlong-varint")
	}
	st.Data = b
	st.Desc = strings.Join(desc, " ")
	return st
}

func min(a, b int) int {
	if a < b {
		return a
	}
	return b
}

// ConformingClientSession is ValidSession(r, true) restricted to what a client that follows the
// protocol can emit: every RPC is ended by the client (half-close, close, error or cancel) before
// the next one starts.
func ConformingClientSession(r *payload.SplitMix) []refwire.Frame { return session(r, true, true) }

// ValidSession builds the frames of a plausible session in one direction.
func ValidSession(r *payload.SplitMix, client bool) []refwire.Frame { return session(r, client, false) }

func session(r *payload.SplitMix, client, conforming bool) []refwire.Frame {
	var fs []refwire.Frame
	sid := uint64(1)
	for rpc := 0; rpc < 1+r.Intn(3); rpc++ {
		mid := uint64(1)
		put := func(kind uint8, data []byte, ctl bool) {
			nfr := 1 + r.Intn(3)
			off := 0
			for i := 0; i < nfr; i++ {
				n := (len(data) - off) / (nfr - i)
				if i == nfr-1 {
					n = len(data) - off
				}
				fs = append(fs, refwire.Frame{Stream: sid, Message: mid, Kind: kind, Done: i == nfr-1, Control: ctl, Data: data[off : off+n]})
				off += n
			}
			mid++
		}
		if client {
			if r.Intn(5) == 0 {
				// an RPC abandoned before its invoke was written (soft cancel between stream creation,
				// metadata write and invoke write): optional metadata, then the cancel, never an invoke
				if r.Intn(2) == 0 {
					put(7, encodeMeta(map[string]string{"k": "v", "abandoned": "yes"}), false)
				}
				put(4, nil, true)
				sid++
				continue
			}
			if r.Intn(2) == 0 {
				md, _ := encodeMeta(map[string]string{"k": "v", "a": "b"}), error(nil)
				put(7, md, false)
			}
			put(1, []byte("/svc/Method"), false)
		}
		for m := 0; m < r.Intn(4); m++ {
			put(2, payload.Make(uint64(rpc), 0, 0, uint32(m), r.Intn(300)), false)
		}
		end := r.Intn(6)
		if conforming && end >= 4 {
			if end == 4 {
				put(uint8(8+r.Intn(56)), []byte("future"), true)
			}
			end = r.Intn(4)
		}
		switch end {
		case 0:
			put(6, nil, false)
		case 1:
			put(5, nil, false)
		case 2:
			put(3, append(make([]byte, 8), "boom"...), false)
		case 3:
			put(4, nil, true)
		case 4:
			put(uint8(8+r.Intn(56)), []byte("future"), true)
		}
		sid++
	}
	return fs
}

func Mutate(r *payload.SplitMix, fs []refwire.Frame) []byte {
	for k := 0; k < r.Intn(4); k++ {
		if len(fs) == 0 {
			break
		}
		i := r.Intn(len(fs))
		switch r.Intn(10) {
		case 0:
			fs[i].Kind = uint8(r.Intn(64))
		case 1:
			fs[i].Control = !fs[i].Control
		case 2:
			fs[i].Stream += uint64(r.Intn(3)) - 1
		case 3:
			fs[i].Message += uint64(r.Intn(3)) - 1
		case 4:
			fs[i].Done = !fs[i].Done
		case 5:
			fs = append(fs[:i+1], fs[i:]...) // duplicate
		case 6:
			fs = append(fs[:i], fs[i+1:]...) // drop
		case 7:
			if len(fs[i].Data) > 0 {
				d := append([]byte(nil), fs[i].Data...)
				d[r.Intn(len(d))] ^= 0xff
				fs[i].Data = d[:r.Intn(len(d)+1)]
			}
		case 8:
			j := r.Intn(len(fs))
			fs[i], fs[j] = fs[j], fs[i]
		case 9:
			fs[i].Stream = []uint64{0, 1 << 63, ^uint64(0), 1000}[r.Intn(4)]
		}
	}
	var b []byte
	for _, f := range fs {
		b = refwire.Encode(b, f)
	}
	for k := 0; k < r.Intn(3); k++ {
		if len(b) == 0 {
			break
		}
		switch r.Intn(4) {
		case 0:
			b[r.Intn(len(b))] ^= byte(1 << uint(r.Intn(8)))
		case 1:
			b = b[:r.Intn(len(b)+1)]
		case 2:
			p := r.Intn(len(b))
			ins := make([]byte, 1+r.Intn(12))
			for j := range ins {
				ins[j] = byte(r.Next()) | 0x80
			}
			b = append(b[:p:p], append(ins, b[p:]...)...)
		}
	}
	if r.Intn(6) == 0 {
		b = make([]byte, r.Intn(200))
		for j := range b {
			b[j] = byte(r.Next())
		}
	}
	return b
}

// encodeMeta is the protobuf encoding of the metadata map (field 1 entries with key=1, value=2).
func encodeMeta(m map[string]string) []byte {
	var out []byte
	for k, v := range m {
		var ent []byte
		ent = append(ent, 10)
		ent = refwire.PutUvarint(ent, uint64(len(k)))
		ent = append(ent, k...)
		ent = append(ent, 18)
		ent = refwire.PutUvarint(ent, uint64(len(v)))
		ent = append(ent, v...)
		out = append(out, 10)
		out = refwire.PutUvarint(out, uint64(len(ent)))
		out = append(out, ent...)
	}
	return out
}
