// Package deps pins the module requirements of the harness.
package deps

import (
	_ "github.com/anishathalye/porcupine"
	_ "google.golang.org/protobuf/encoding/protowire"

	_ "drpcv0017/drpcmetadata"
)
