// Package refwire is an independent reference implementation of the drpc wire
// format, written from the wire description only (drpcwire/README.md and the
// doc comments): one control byte (bit 7 control, bits 6..1 kind, bit 0 done),
// three little-endian base-128 varints (stream id, message id, payload length)
// of at most 10 bytes each, then the payload. It shares no code with drpcwire.
package refwire

import "errors"

// Frame is a decoded frame.
type Frame struct {
	Stream, Message uint64
	Kind            uint8
	Done, Control   bool
	Data            []byte
}

// Status of a decode attempt.
type Status int

// Decode outcomes.
const (
	OK       Status = iota // a frame was decoded
	NeedMore               // the input is a proper prefix of some frame
	Bad                    // no extension of the input is a frame
)

// ErrVarint is the error class for over-long varints.
var ErrVarint = errors.New("refwire: varint too long")

// Uvarint decodes one varint. ok=false,bad=false means more bytes are needed.
// Ten continuation bytes in a row are malformed. As in the implementation
// (and in the released v0.0.17), the tenth group contributes only the bits
// that fit in 64 bits; higher bits are silently dropped.
func Uvarint(b []byte) (v uint64, n int, ok, bad bool) {
	for i := 0; i < 10; i++ {
		if i >= len(b) {
			return 0, 0, false, false
		}
		c := b[i]
		v |= uint64(c&0x7f) << (7 * uint(i))
		if c&0x80 == 0 {
			return v, i + 1, true, false
		}
	}
	return 0, 0, false, true
}

// PutUvarint appends the canonical varint encoding.
func PutUvarint(dst []byte, v uint64) []byte {
	for v > 0x7f {
		dst = append(dst, byte(v)|0x80)
		v >>= 7
	}
	return append(dst, byte(v))
}

// Encode appends the encoding of f.
func Encode(dst []byte, f Frame) []byte {
	c := (f.Kind & 0x3f) << 1
	if f.Done {
		c |= 1
	}
	if f.Control {
		c |= 0x80
	}
	dst = append(dst, c)
	dst = PutUvarint(dst, f.Stream)
	dst = PutUvarint(dst, f.Message)
	dst = PutUvarint(dst, uint64(len(f.Data)))
	return append(dst, f.Data...)
}

// Decode decodes one frame from the front of b. n is the number of bytes
// consumed when st==OK.
//
// The implementation documents "not enough data" for any input shorter than 4
// bytes (the shortest frame) before looking at it; the reference follows the
// description: an input is NeedMore exactly when it is a proper prefix of at
// least one valid frame, otherwise Bad. Inputs shorter than 4 bytes that
// already contain a malformed varint cannot occur (a varint needs 10 bytes to
// be malformed), so both views coincide.
func Decode(b []byte) (f Frame, n int, st Status) {
	if len(b) == 0 {
		return f, 0, NeedMore
	}
	c := b[0]
	f.Done = c&1 != 0
	f.Control = c&0x80 != 0
	f.Kind = (c >> 1) & 0x3f
	pos := 1
	var vals [3]uint64
	for i := 0; i < 3; i++ {
		v, k, ok, bad := Uvarint(b[pos:])
		if bad {
			return Frame{}, 0, Bad
		}
		if !ok {
			return Frame{}, 0, NeedMore
		}
		vals[i] = v
		pos += k
	}
	f.Stream, f.Message = vals[0], vals[1]
	if vals[2] > uint64(len(b)-pos) {
		return Frame{}, 0, NeedMore
	}
	f.Data = b[pos : pos+int(vals[2])]
	return f, pos + int(vals[2]), OK
}

// DecodeAll decodes b into whole frames; rest is the undecodable remainder
// (empty when b is a sequence of whole frames).
func DecodeAll(b []byte) (frames []Frame, rest []byte, st Status) {
	for len(b) > 0 {
		f, n, s := Decode(b)
		if s != OK {
			return frames, b, s
		}
		frames = append(frames, f)
		b = b[n:]
	}
	return frames, nil, OK
}

// Packet is a reassembled packet.
type Packet struct {
	Stream, Message uint64
	Kind            uint8
	Control         bool
	Data            []byte
}

// ErrClass classifies reassembly errors.
type ErrClass string

// Reassembly error classes.
const (
	ErrNone     ErrClass = ""
	ErrMono     ErrClass = "monotonicity"
	ErrKind     ErrClass = "kind-change"
	ErrOverflow ErrClass = "overflow"
	ErrMalform  ErrClass = "malformed"
)

// Reassembler is the reference packet reassembly automaton.
type Reassembler struct {
	Max       int
	wmS, wmM  uint64 // watermark: lowest acceptable id
	open      bool
	cur       Packet
	Discarded int
}

// NewReassembler returns a reassembler with the initial watermark (1,1).
func NewReassembler(max int) *Reassembler {
	if max == 0 {
		max = 4 << 20
	}
	return &Reassembler{Max: max, wmS: 1, wmM: 1}
}

func less(s1, m1, s2, m2 uint64) bool { return s1 < s2 || (s1 == s2 && m1 < m2) }

// Feed consumes one frame. It returns a completed packet (done=true), or an
// error class.
func (r *Reassembler) Feed(f Frame) (pkt Packet, done bool, ec ErrClass) {
	if less(f.Stream, f.Message, r.wmS, r.wmM) {
		return Packet{}, false, ErrMono
	}
	if !r.open || f.Stream != r.cur.Stream || f.Message != r.cur.Message {
		if r.open {
			r.Discarded++
		}
		r.open = true
		r.cur = Packet{Stream: f.Stream, Message: f.Message, Kind: f.Kind}
		r.wmS, r.wmM = f.Stream, f.Message
	} else if f.Kind != r.cur.Kind {
		return Packet{}, false, ErrKind
	}
	r.cur.Control = r.cur.Control || f.Control
	r.cur.Data = append(r.cur.Data, f.Data...)
	if len(r.cur.Data) > r.Max {
		return Packet{}, false, ErrOverflow
	}
	if f.Done {
		pkt = r.cur
		r.open = false
		r.cur = Packet{}
		// the lowest acceptable id is the successor of the finished one in (stream, message) order
		r.wmS, r.wmM = f.Stream, f.Message+1
		if r.wmM == 0 {
			r.wmS++
			if r.wmS == 0 {
				r.wmS, r.wmM = ^uint64(0), ^uint64(0) // the very last id: nothing lies beyond it
			}
		}
		return pkt, true, ErrNone
	}
	return Packet{}, false, ErrNone
}

// ReassembleBytes runs the reference over a complete byte stream. It returns
// the packets, the error class of the first error (ErrNone if none), and the
// number of trailing bytes that did not form a whole frame.
func ReassembleBytes(b []byte, max int) (pkts []Packet, ec ErrClass, trailing int) {
	r := NewReassembler(max)
	for len(b) > 0 {
		f, n, st := Decode(b)
		if st == Bad {
			return pkts, ErrMalform, len(b)
		}
		if st == NeedMore {
			return pkts, ErrNone, len(b)
		}
		b = b[n:]
		f.Data = append([]byte(nil), f.Data...)
		p, done, e := r.Feed(f)
		if e != ErrNone {
			return pkts, e, len(b)
		}
		if done {
			pkts = append(pkts, p)
		}
	}
	return pkts, ErrNone, 0
}
