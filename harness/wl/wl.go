// Package wl holds the deterministic single-threaded RPC workloads shared by the
// fault-enumeration checks (C05: transport faults, C12: close points).
package wl

import (
	"verifharness/prog"
)

// Workload is one deterministic program.
type Workload struct {
	Name    string
	Scripts func() []*prog.Script
	Wbuf    int
	Capn    int
}

// Manual reports whether the workload runs with ManualFlush on both endpoints.
func Manual(name string) bool { return name == "manual-flush-send-then-receive" }

// A builds an action.
func A(op byte, size int) prog.Act { return prog.Act{Op: op, Size: size} }

// Workloads is the table.
var Workloads = []Workload{
	{"unary-small", func() []*prog.Script {
		return []*prog.Script{{Tag: 1, Unary: true, ReqSize: 20, Handler: []prog.Act{A('r', 0), A('s', 30)}}}
	}, 0, -1},
	{"unary-multiframe", func() []*prog.Script {
		return []*prog.Script{{Tag: 1, Unary: true, ReqSize: 2500, Handler: []prog.Act{A('r', 0), A('s', 3000)}}}
	}, 0, -1},
	{"unary-metadata", func() []*prog.Script {
		return []*prog.Script{{Tag: 1, Unary: true, ReqSize: 20, Meta: map[string]string{"k": "v", "trace": "abc"}, Handler: []prog.Act{A('r', 0), A('s', 30)}}}
	}, 0, -1},
	{"unary-handler-error", func() []*prog.Script {
		return []*prog.Script{{Tag: 1, Unary: true, ReqSize: 20, Handler: []prog.Act{A('r', 0)}, Ret: &prog.ErrSpec{Msg: "nope", Code: 7}}}
	}, 0, -1},
	{"client-stream", func() []*prog.Script {
		return []*prog.Script{{Tag: 1, Client: []prog.Act{A('s', 10), A('s', 1500), A('s', 0), A('h', 0), A('R', 0)}, Handler: []prog.Act{A('R', 0), A('s', 40)}}}
	}, 0, -1},
	{"server-stream", func() []*prog.Script {
		return []*prog.Script{{Tag: 1, Client: []prog.Act{A('s', 10), A('h', 0), A('R', 0)}, Handler: []prog.Act{A('r', 0), A('s', 10), A('s', 1500), A('s', 0)}}}
	}, 0, -1},
	{"bidi-echo", func() []*prog.Script {
		return []*prog.Script{{Tag: 1, Client: []prog.Act{A('s', 10), A('r', 0), A('s', 1200), A('r', 0), A('h', 0), A('R', 0)}, Handler: []prog.Act{A('r', 0), A('s', 11), A('r', 0), A('s', 1300), A('R', 0)}}}
	}, 0, -1},
	{"bidi-handler-error", func() []*prog.Script {
		return []*prog.Script{{Tag: 1, Client: []prog.Act{A('s', 10), A('r', 0), A('s', 20), A('R', 0)}, Handler: []prog.Act{A('r', 0), A('s', 11)}, Ret: &prog.ErrSpec{Msg: "failed midway"}}}
	}, 0, -1},
	{"two-rpcs", func() []*prog.Script {
		return []*prog.Script{
			{Tag: 1, Unary: true, ReqSize: 20, Handler: []prog.Act{A('r', 0), A('s', 30)}},
			{Tag: 2, Client: []prog.Act{A('s', 10), A('s', 10), A('h', 0), A('R', 0)}, Handler: []prog.Act{A('R', 0), A('s', 40)}, Meta: map[string]string{"a": "b"}},
		}
	}, 0, -1},
	{"client-close-early", func() []*prog.Script {
		return []*prog.Script{
			{Tag: 1, Client: []prog.Act{A('s', 10), A('c', 0)}, Handler: []prog.Act{A('R', 0)}},
			{Tag: 2, Unary: true, ReqSize: 5, Handler: []prog.Act{A('r', 0), A('s', 5)}},
		}
	}, 0, -1},
	{"flush-per-frame-rendezvous", func() []*prog.Script {
		return []*prog.Script{{Tag: 1, Client: []prog.Act{A('s', 1100), A('r', 0), A('h', 0), A('R', 0)}, Handler: []prog.Act{A('r', 0), A('s', 1100), A('R', 0)}}}
	}, 1, 0},
	{"recv-first", func() []*prog.Script {
		// the client's first call is a receive: the buffered invoke goes out through the receive's own flush
		return []*prog.Script{{Tag: 1, Client: []prog.Act{A('r', 0), A('s', 10), A('h', 0), A('R', 0)}, Handler: []prog.Act{A('s', 20), A('r', 0), A('R', 0)}}}
	}, 0, -1},
	{"recv-only", func() []*prog.Script {
		// nothing but a receive on the client: no later call of the application helps the stream along
		return []*prog.Script{{Tag: 1, Client: []prog.Act{A('r', 0)}, Handler: []prog.Act{A('s', 20), A('R', 0)}}}
	}, 0, -1},
	{"handler-sends-after-client-close", func() []*prog.Script {
		return []*prog.Script{{Tag: 1, Client: []prog.Act{A('s', 10), A('c', 0)}, Handler: []prog.Act{A('r', 0), A('s', 30), A('s', 1500), A('s', 30)}}}
	}, 1, -1},
	{"undecodable-message", func() []*prog.Script {
		// one message in each direction that the receiver's decoder rejects; both sides carry on afterwards
		return []*prog.Script{{Tag: 1, Client: []prog.Act{A('s', 10), A('r', 0), A('u', 12), A('r', 0), A('h', 0), A('R', 0)}, Handler: []prog.Act{A('r', 0), A('u', 15), A('r', 0), A('s', 20), A('R', 0)}}}
	}, 0, -1},
	{"raw-receives", func() []*prog.Script {
		// both sides receive through the raw entry point (single receives and a drain)
		return []*prog.Script{{Tag: 1, Client: []prog.Act{A('s', 10), A('v', 0), A('s', 1200), A('v', 0), A('h', 0), A('V', 0)}, Handler: []prog.Act{A('v', 0), A('s', 11), A('v', 0), A('s', 1300), A('V', 0)}}}
	}, 0, -1},
	{"manual-flush-send-then-receive", func() []*prog.Script {
		// both endpoints leave flushing to the application, which never flushes: what was sent goes out
		// with the next receive, the half-close or the handler's return
		return []*prog.Script{{Tag: 1, Client: []prog.Act{A('s', 10), A('r', 0), A('s', 1200), A('r', 0), A('h', 0), A('R', 0)}, Handler: []prog.Act{A('r', 0), A('s', 11), A('r', 0), A('s', 1300), A('R', 0)}}}
	}, 0, -1},
	{"rendezvous-unary-big", func() []*prog.Script {
		return []*prog.Script{{Tag: 1, Unary: true, ReqSize: 6000, Handler: []prog.Act{A('r', 0), A('s', 6000)}}}
	}, 0, 0},
}
