// Package simnet is an instrumented in-memory duplex transport used by the
// runtime monitors: configurable buffering and read chunking, write gates the
// scenario can park and release, stall modes, fail-stop fault plans and a tap
// that records every Read/Write/Close with stamps from one logical clock.
package simnet

import (
	"fmt"
	"io"
	"net"
	"os"
	"sync"
	"sync/atomic"
	"syscall"
	"time"

	"verifharness/census"
)

// Errors returned by the transport.
var (
	ErrClosed       = fmt.Errorf("simnet: %w", net.ErrClosed) // what a real net.Conn reports after a local Close
	ErrPeer         = io.ErrClosedPipe
	ErrFault  error = &faultErr{}
	// ErrFaultTemporary is an injected fault that describes itself as a timeout / temporary
	// condition (like os.ErrDeadlineExceeded or ETIMEDOUT do); errors.Is(it, ErrFault) holds.
	ErrFaultTemporary error = &faultErr{temporary: true}
	// what a TCP connection returns after the peer's RST: a *net.OpError around ECONNRESET (code that
	// looks at the shape of transport errors must see the real shape)
	ErrReset error = &net.OpError{Op: "read", Net: "simnet", Err: os.NewSyscallError("read", syscall.ECONNRESET)}
)

var clock int64

// Tick advances and returns the process wide logical clock.
func Tick() int64 { census.Bump(); return atomic.AddInt64(&clock, 1) }

// Now returns the current logical clock value.
func Now() int64 { return atomic.LoadInt64(&clock) }

// Chunker limits how many bytes a single Read may return.
type Chunker interface {
	Next(avail, want int) int
}

// ChunkAll returns everything available.
type ChunkAll struct{}

// Next implements Chunker.
func (ChunkAll) Next(avail, want int) int { return min(avail, want) }

// ChunkK returns at most K bytes per read.
type ChunkK struct{ K int }

// Next implements Chunker.
func (c ChunkK) Next(avail, want int) int { return min(min(avail, want), c.K) }

// ChunkRand returns 1..K bytes chosen by a splitmix stream.
type ChunkRand struct {
	K     int
	State uint64
}

// Next implements Chunker.
func (c *ChunkRand) Next(avail, want int) int {
	c.State += 0x9e3779b97f4a7c15
	z := c.State
	z = (z ^ (z >> 30)) * 0xbf58476d1ce4e5b9
	z = (z ^ (z >> 27)) * 0x94d049bb133111eb
	z ^= z >> 31
	return min(min(avail, want), 1+int(z%uint64(c.K)))
}

type faultErr struct{ temporary bool }

func (f *faultErr) Error() string {
	if f.temporary {
		return "simnet: injected fault (i/o timeout)"
	}
	return "simnet: injected fault"
}
func (f *faultErr) Timeout() bool        { return f.temporary }
func (f *faultErr) Temporary() bool      { return f.temporary }
func (f *faultErr) Is(target error) bool { _, ok := target.(*faultErr); return ok }

// FaultKind enumerates injected fail-stop faults.
type FaultKind int

// Fault kinds. All are fail-stop: after the fault every later and every parked
// operation on the faulted endpoint fails, and the peer sees EOF (or reset)
// after the bytes that survived.
const (
	FaultNone         FaultKind = iota
	FaultWriteErr               // the write reaching the offset returns an error, nothing of it delivered
	FaultWritePartial           // bytes before the offset are delivered, then the write returns an error
	FaultReadErr                // the read that would return the byte at the offset returns (0, err)
	FaultReadDataErr            // bytes before the offset are returned together with the error (n>0, err)
	FaultPeerEOF                // the peer vanishes gracefully: local reads see EOF at the offset
	FaultPeerReset              // the peer vanishes: local reads fail at the offset, undelivered bytes dropped
	FaultLocalClose             // the local endpoint is closed by a third party when the offset is reached
	// The two kinds below are NOT fail-stop: only the one write fails (as with an expired write
	// deadline); the endpoint stays open, later writes go through and reads keep working.
	FaultWriteErrOnly     // the write reaching the offset returns an error, nothing of it delivered
	FaultWritePartialOnly // bytes before the offset are delivered, then the write returns an error
	// Not fail-stop either: the one read returns the bytes before the offset together with an
	// error (or (0, err) when there are none), as a read whose deadline expires mid-way does;
	// the endpoint stays open and later reads deliver the rest of the byte stream.
	FaultReadDataErrOnly
)

func (k FaultKind) String() string {
	return [...]string{"none", "write-err", "write-partial", "read-err", "read-data-err", "peer-eof", "peer-reset", "local-close", "write-err-only", "write-partial-only", "read-data-err-only"}[k]
}

// IsWrite reports whether the fault is positioned on the outgoing byte stream.
func (k FaultKind) IsWrite() bool {
	return k == FaultWriteErr || k == FaultWritePartial || k == FaultWriteErrOnly || k == FaultWritePartialOnly
}

// FailStop reports whether the endpoint is dead after the fault.
func (k FaultKind) FailStop() bool {
	return k != FaultWriteErrOnly && k != FaultWritePartialOnly && k != FaultReadDataErrOnly
}

// Fault is a fail-stop fault plan for one endpoint.
type Fault struct {
	Kind   FaultKind
	Offset int64 // byte offset in the outgoing (write kinds) or incoming (other kinds) stream
	// Temporary makes the injected read/write error describe itself as a timeout (Timeout() and
	// Temporary() report true). The endpoint is dead all the same.
	Temporary bool
	fired     bool
}

// Opts configures a Pair.
type Opts struct {
	// Cap is the number of bytes buffered per direction: 0 is a rendezvous
	// (a Write returns once the peer consumed all of it, like net.Pipe), >0 is
	// a bounded socket buffer, <0 is unbounded.
	Cap int
	// ChunkA / ChunkB are the read chunkers of the endpoints (nil = all).
	ChunkA, ChunkB Chunker
	// EmptyReadsA / EmptyReadsB: the endpoint's Read reports (0, nil) once before each piece of data
	// it hands out (io.Reader allows that, discourages it, and some wrappers do it); never twice in
	// a row and only when data is there, so a caller that simply reads again always makes progress.
	EmptyReadsA, EmptyReadsB bool
}

type pipe struct {
	mu      sync.Mutex
	cond    sync.Cond
	buf     []byte
	cap     int
	wclosed bool  // writer closed; reader drains and then gets werr
	werr    error // io.EOF or reset
	rclosed bool  // reader closed; writers fail
	total   int64 // bytes ever accepted
}

// WriteRec is one Write call seen by the tap.
type WriteRec struct {
	Idx        int
	Begin, End int64 // logical clock; End==0 while in flight
	Data       []byte
	N          int
	Err        error
}

// ReadRec is one Read call seen by the tap.
type ReadRec struct {
	Idx        int
	Begin, End int64
	Want, N    int
	Err        error
}

// When says on which side of the delivery a gate parks a write.
type When int

// Gate positions.
const (
	Before When = iota
	After
)

// Gate parks a selected Write call until released (or the endpoint closes).
type Gate struct {
	idx      int   // write index, or -1
	offset   int64 // write containing this outgoing offset, or -1
	when     When
	reached  chan struct{}
	release  chan struct{}
	once     sync.Once
	hit      bool
	Disabled bool
	// SucceedOnClose makes a write parked After its delivery return success when the endpoint is
	// closed meanwhile (its bytes are out: a real transport's Write that has handed everything to the
	// kernel returns nil whatever Close does concurrently). Default: it reports the close.
	SucceedOnClose bool
	// HoldThroughClose keeps the write parked even when one of the endpoints is closed: only Release
	// ends it (a Write whose bytes are out but which returns late, after the close has been processed).
	HoldThroughClose bool
}

// Reached is closed when a write parked at the gate.
func (g *Gate) Reached() <-chan struct{} { return g.reached }

// Release lets the parked write continue. Safe to call more than once and
// before the gate is reached (the gate then does not park).
func (g *Gate) Release() { g.once.Do(func() { census.Bump(); close(g.release) }) }

// End is one endpoint of a Pair. It implements drpc.Transport and net.Conn.
type End struct {
	Role string
	out  *pipe
	in   *pipe
	peer *End

	mu         sync.Mutex
	cond       sync.Cond
	closed     bool
	closeCount int
	chunk      Chunker
	writes     []*WriteRec
	reads      []*ReadRec
	closes     []int64
	gates      []*Gate
	stallW     bool
	stallR     bool
	fault      *Fault
	failed     error // set after a fail-stop fault: every op fails with it
	wOff, rOff int64
	wmu        sync.Mutex // serialises delivery of concurrent writes (their overlap is still counted)

	inW, inR, maxW, maxR int32
	parkedW              int32
	deadReads            int32 // reads issued after the endpoint had failed
	dead                 chan struct{}
	deadOnce             sync.Once

	emptyReads  bool // see Opts.EmptyReadsA
	lastEmpty   bool
	holdClose   chan struct{} // if set, the first Close returns only after ReleaseClose
	closeHeld   bool
	releaseOnce sync.Once
}

// HoldClose makes the first Close of the endpoint a slow one (as tls.Conn.Close writing its
// close_notify to a peer that does not read is): everything is torn down as usual, the peer and
// the local operations see it, but the call itself returns only after ReleaseClose.
func (e *End) HoldClose() {
	e.mu.Lock()
	e.holdClose = make(chan struct{})
	e.mu.Unlock()
}

// CloseHeld reports whether a Close call is being held right now or has been.
func (e *End) CloseHeld() bool {
	e.mu.Lock()
	defer e.mu.Unlock()
	return e.closeHeld
}

// ReleaseClose lets a held Close return.
func (e *End) ReleaseClose() {
	e.mu.Lock()
	ch := e.holdClose
	e.mu.Unlock()
	if ch != nil {
		e.releaseOnce.Do(func() { close(ch) })
	}
}

// Pair is a connected pair of endpoints.
type Pair struct{ A, B *End }

// New returns a connected pair. A is by convention the client, B the server.
func New(o Opts) *Pair {
	ab := &pipe{cap: o.Cap}
	ab.cond.L = &ab.mu
	ba := &pipe{cap: o.Cap}
	ba.cond.L = &ba.mu
	a := &End{Role: "client", out: ab, in: ba, chunk: o.ChunkA, dead: make(chan struct{}), emptyReads: o.EmptyReadsA}
	b := &End{Role: "server", out: ba, in: ab, chunk: o.ChunkB, dead: make(chan struct{}), emptyReads: o.EmptyReadsB}
	a.cond.L = &a.mu
	b.cond.L = &b.mu
	a.peer, b.peer = b, a
	if a.chunk == nil {
		a.chunk = ChunkAll{}
	}
	if b.chunk == nil {
		b.chunk = ChunkAll{}
	}
	return &Pair{A: a, B: b}
}

func (e *End) String() string { return "simnet:" + e.Role }

// SetFault installs a fail-stop fault plan (before traffic starts).
func (e *End) SetFault(f Fault) {
	e.mu.Lock()
	defer e.mu.Unlock()
	e.fault = &f
}

func (e *End) faultKind() FaultKind {
	e.mu.Lock()
	defer e.mu.Unlock()
	if e.fault == nil {
		return FaultNone
	}
	return e.fault.Kind
}

// FaultFired reports whether the fault plan has triggered.
func (e *End) FaultFired() bool {
	e.mu.Lock()
	defer e.mu.Unlock()
	return e.fault != nil && e.fault.fired
}

// GateWriteIdx parks the idx-th (0-based) Write call of this endpoint.
func (e *End) GateWriteIdx(idx int, when When) *Gate {
	g := &Gate{idx: idx, offset: -1, when: when, reached: make(chan struct{}), release: make(chan struct{})}
	e.mu.Lock()
	e.gates = append(e.gates, g)
	e.mu.Unlock()
	return g
}

// GateNextWrite parks the next Write call issued from now on.
func (e *End) GateNextWrite(when When) *Gate {
	e.mu.Lock()
	defer e.mu.Unlock()
	g := &Gate{idx: len(e.writes), offset: -1, when: when, reached: make(chan struct{}), release: make(chan struct{})}
	e.gates = append(e.gates, g)
	return g
}

// GateWriteOffset parks the Write call that carries outgoing byte offset off.
func (e *End) GateWriteOffset(off int64, when When) *Gate {
	g := &Gate{idx: -1, offset: off, when: when, reached: make(chan struct{}), release: make(chan struct{})}
	e.mu.Lock()
	e.gates = append(e.gates, g)
	e.mu.Unlock()
	return g
}

// StallWrites makes every Write block (until Close) while on.
func (e *End) StallWrites(on bool) {
	e.mu.Lock()
	e.stallW = on
	e.cond.Broadcast()
	e.mu.Unlock()
	census.Bump()
}

// StallReads makes every Read block (until Close) while on.
func (e *End) StallReads(on bool) {
	e.mu.Lock()
	e.stallR = on
	e.mu.Unlock()
	e.in.mu.Lock()
	e.in.cond.Broadcast()
	e.in.mu.Unlock()
	census.Bump()
}

func (e *End) stalledR() bool {
	e.mu.Lock()
	defer e.mu.Unlock()
	return e.stallR
}

func (e *End) isClosed() (bool, error) {
	e.mu.Lock()
	defer e.mu.Unlock()
	if e.closed {
		return true, ErrClosed
	}
	if e.failed != nil {
		return true, e.failed
	}
	return false, nil
}

// failStop marks the endpoint as failed: every current and later op fails; the
// peer sees EOF (reset=false) or a reset after the bytes already accepted.
func (e *End) failStop(err error, reset bool) {
	e.mu.Lock()
	if e.failed == nil {
		e.failed = err
	}
	e.cond.Broadcast()
	e.mu.Unlock()
	e.markDead()
	e.out.closeWriter(reset)
	e.in.closeReader()
	census.Bump()
}

func (p *pipe) closeWriter(reset bool) {
	p.mu.Lock()
	if !p.wclosed {
		p.wclosed = true
		p.werr = io.EOF
		if reset {
			p.werr = ErrReset
			p.buf = nil
		}
	}
	p.cond.Broadcast()
	p.mu.Unlock()
}

func (p *pipe) closeReader() {
	p.mu.Lock()
	p.rclosed = true
	p.buf = nil
	p.cond.Broadcast()
	p.mu.Unlock()
}

// Write implements io.Writer.
func (e *End) Write(p []byte) (n int, err error) {
	rec := &WriteRec{Data: append([]byte(nil), p...)}
	e.mu.Lock()
	rec.Idx = len(e.writes)
	rec.Begin = Tick()
	e.writes = append(e.writes, rec)
	off := e.wOff
	e.wOff += int64(len(p))
	var gate *Gate
	for _, g := range e.gates {
		if !g.hit && !g.Disabled && (g.idx == rec.Idx || (g.offset >= off && g.offset < off+int64(len(p)))) {
			g.hit = true
			gate = g
			break
		}
	}
	var ferr error
	data := p
	if f := e.fault; f != nil && f.Kind.IsWrite() && !f.fired && f.Offset >= off && f.Offset < off+int64(len(p)) {
		f.fired = true
		ferr = ErrFault
		if f.Temporary {
			ferr = ErrFaultTemporary
		}
		if f.Kind == FaultWritePartial || f.Kind == FaultWritePartialOnly {
			data = p[:f.Offset-off]
		} else {
			data = nil
		}
	}
	e.mu.Unlock()

	if w := atomic.AddInt32(&e.inW, 1); w > atomic.LoadInt32(&e.maxW) {
		atomic.StoreInt32(&e.maxW, w)
	}
	defer func() {
		atomic.AddInt32(&e.inW, -1)
		e.mu.Lock()
		rec.N, rec.Err = n, err
		rec.End = Tick()
		e.mu.Unlock()
	}()

	if c, cerr := e.isClosed(); c {
		return 0, cerr
	}

	if gate != nil && gate.when == Before {
		if err := e.park(gate); err != nil {
			return 0, err
		}
	}

	// stall
	e.mu.Lock()
	for e.stallW && !e.closed && e.failed == nil {
		e.cond.Wait()
	}
	e.mu.Unlock()
	if c, cerr := e.isClosed(); c {
		return 0, cerr
	}

	e.wmu.Lock()
	n, err = e.deliver(data)
	e.wmu.Unlock()
	if ferr != nil {
		if e.faultKind().FailStop() {
			e.failStop(ferr, false)
		}
		return n, ferr
	}
	if err != nil {
		return n, err
	}

	if gate != nil && gate.when == After {
		if err := e.park(gate); err != nil {
			// bytes were delivered; report them with the error as a real
			// transport interrupted by close would.
			return n, err
		}
	}
	return n, nil
}

func (e *End) park(g *Gate) error {
	atomic.AddInt32(&e.parkedW, 1)
	defer atomic.AddInt32(&e.parkedW, -1)
	census.Bump()
	close(g.reached)
	if g.HoldThroughClose {
		<-g.release
		census.Bump()
		if g.when == After && g.SucceedOnClose {
			return nil
		}
		if c, cerr := e.isClosed(); c {
			return cerr
		}
		return nil
	}
	select {
	case <-g.release:
	case <-e.dead:
	case <-e.peer.dead:
		// the peer went away: a real transport's blocked write ends too (it fails,
		// or has already succeeded if its bytes were delivered before it parked)
		census.Bump()
		if g.when == After {
			return nil
		}
		return ErrPeer
	}
	census.Bump()
	if c, cerr := e.isClosed(); c {
		if g.when == After && g.SucceedOnClose {
			return nil
		}
		return cerr
	}
	return nil
}

func (e *End) markDead() { e.deadOnce.Do(func() { close(e.dead) }) }

func (e *End) deliver(data []byte) (n int, err error) {
	p := e.out
	p.mu.Lock()
	defer p.mu.Unlock()
	for len(data) > 0 {
		if c, cerr := e.isClosed(); c {
			return n, cerr
		}
		if p.rclosed {
			return n, ErrPeer
		}
		if p.wclosed {
			return n, ErrClosed
		}
		space := len(data)
		if p.cap > 0 {
			space = p.cap - len(p.buf)
		}
		if space <= 0 {
			p.cond.Wait()
			continue
		}
		if space > len(data) {
			space = len(data)
		}
		p.buf = append(p.buf, data[:space]...)
		p.total += int64(space)
		data = data[space:]
		n += space
		census.Bump()
		p.cond.Broadcast()
	}
	if p.cap == 0 {
		// rendezvous: wait until the peer consumed everything.
		for len(p.buf) > 0 {
			if c, cerr := e.isClosed(); c {
				return n, cerr
			}
			if p.rclosed {
				return n, ErrPeer
			}
			p.cond.Wait()
		}
	}
	return n, nil
}

// Read implements io.Reader.
func (e *End) Read(b []byte) (n int, err error) {
	rec := &ReadRec{Want: len(b)}
	e.mu.Lock()
	rec.Idx = len(e.reads)
	rec.Begin = Tick()
	e.reads = append(e.reads, rec)
	fault := e.fault
	e.mu.Unlock()
	if r := atomic.AddInt32(&e.inR, 1); r > atomic.LoadInt32(&e.maxR) {
		atomic.StoreInt32(&e.maxR, r)
	}
	defer func() {
		atomic.AddInt32(&e.inR, -1)
		e.mu.Lock()
		rec.N, rec.Err = n, err
		rec.End = Tick()
		e.mu.Unlock()
	}()

	if len(b) == 0 {
		return 0, nil
	}

	p := e.in
	p.mu.Lock()
	defer p.mu.Unlock()
	for {
		if c, cerr := e.isClosed(); c {
			// a caller that keeps re-issuing reads on a dead endpoint gets the error a bounded number
			// of times; after that the read just hangs until Close (no busy loop, a state to judge)
			if n := atomic.AddInt32(&e.deadReads, 1); n > 50 {
				p.mu.Unlock()
				e.mu.Lock()
				for !e.closed {
					e.cond.Wait()
				}
				e.mu.Unlock()
				p.mu.Lock()
				return 0, ErrClosed
			}
			return 0, cerr
		}
		if !e.stalledR() {
			if len(p.buf) > 0 {
				break
			}
			if p.wclosed {
				return 0, p.werr
			}
		}
		p.cond.Wait()
	}

	if e.emptyReads && !e.lastEmpty {
		e.lastEmpty = true
		census.Bump()
		return 0, nil
	}
	e.lastEmpty = false
	lim := e.chunk.Next(len(p.buf), len(b))
	if lim < 1 {
		lim = 1
	}
	// incoming-side faults (the plan may have been installed while this read was waiting)
	e.mu.Lock()
	fault = e.fault
	e.mu.Unlock()
	if fault != nil && !fault.Kind.IsWrite() && fault.Kind != FaultNone && !fault.fired {
		if e.rOff+int64(lim) > fault.Offset {
			lim = int(fault.Offset - e.rOff)
			if lim < 0 {
				lim = 0
			}
			e.mu.Lock()
			fault.fired = true
			e.mu.Unlock()
			n = copy(b, p.buf[:lim])
			p.buf = p.buf[n:]
			e.rOff += int64(n)
			var ferr error
			switch fault.Kind {
			case FaultReadErr, FaultReadDataErr, FaultReadDataErrOnly:
				ferr = ErrFault
				if fault.Temporary {
					ferr = ErrFaultTemporary
				}
			case FaultPeerEOF:
				ferr = io.EOF
			case FaultPeerReset:
				ferr = ErrReset
			case FaultLocalClose:
				ferr = ErrClosed
			}
			p.mu.Unlock()
			if fault.Kind == FaultLocalClose {
				_ = e.close(false)
			} else if fault.Kind.FailStop() {
				e.failStop(ferr, false)
			}
			p.mu.Lock()
			if fault.Kind == FaultReadDataErrOnly {
				if len(p.buf) == 0 {
					p.buf = nil
				}
				census.Bump()
				p.cond.Broadcast()
				return n, ferr
			}
			if n > 0 && fault.Kind != FaultReadDataErr {
				// data first, the error on the next call (which fails by fail-stop)
				return n, nil
			}
			return n, ferr
		}
	}
	n = copy(b, p.buf[:lim])
	p.buf = p.buf[n:]
	if len(p.buf) == 0 {
		p.buf = nil
	}
	e.rOff += int64(n)
	census.Bump()
	p.cond.Broadcast()
	return n, nil
}

// Close implements io.Closer. The first call tears the endpoint down and
// releases every parked or blocked local operation.
func (e *End) Close() error { return e.close(true) }

func (e *End) close(mayHold bool) error {
	e.mu.Lock()
	e.closeCount++
	e.closes = append(e.closes, Tick())
	if e.closed {
		e.mu.Unlock()
		return ErrClosed
	}
	e.closed = true
	e.cond.Broadcast()
	e.mu.Unlock()
	e.markDead()
	e.out.closeWriter(false)
	e.in.closeReader()
	// wake local ops blocked on either pipe
	e.out.mu.Lock()
	e.out.cond.Broadcast()
	e.out.mu.Unlock()
	census.Bump()
	e.mu.Lock()
	hold := e.holdClose
	if !mayHold {
		hold = nil
	}
	if hold != nil {
		e.closeHeld = true
	}
	e.mu.Unlock()
	if hold != nil {
		<-hold
	}
	return nil
}

// Reset closes the endpoint abruptly: the peer's reads fail with a reset and
// undelivered bytes are dropped.
func (e *End) Reset() {
	e.mu.Lock()
	e.closeCount++
	already := e.closed
	e.closed = true
	e.cond.Broadcast()
	e.mu.Unlock()
	if already {
		return
	}
	e.markDead()
	e.out.closeWriter(true)
	e.in.closeReader()
	census.Bump()
}

// CloseCount returns how many times Close was called.
func (e *End) CloseCount() int {
	e.mu.Lock()
	defer e.mu.Unlock()
	return e.closeCount
}

// MaxInFlight returns the maximum number of overlapping Write and Read calls seen.
func (e *End) MaxInFlight() (w, r int) {
	return int(atomic.LoadInt32(&e.maxW)), int(atomic.LoadInt32(&e.maxR))
}

// InFlight returns the number of Write/Read calls currently executing.
func (e *End) InFlight() (w, r int) {
	return int(atomic.LoadInt32(&e.inW)), int(atomic.LoadInt32(&e.inR))
}

// Writes returns a copy of the write log.
func (e *End) Writes() []WriteRec {
	e.mu.Lock()
	defer e.mu.Unlock()
	out := make([]WriteRec, len(e.writes))
	for i, w := range e.writes {
		out[i] = *w
	}
	return out
}

// Reads returns a copy of the read log.
func (e *End) Reads() []ReadRec {
	e.mu.Lock()
	defer e.mu.Unlock()
	out := make([]ReadRec, len(e.reads))
	for i, r := range e.reads {
		out[i] = *r
	}
	return out
}

// Handed returns the concatenation of all bytes handed to Write so far (calls
// begun), in call order.
func (e *End) Handed() []byte {
	e.mu.Lock()
	defer e.mu.Unlock()
	var out []byte
	for _, w := range e.writes {
		out = append(out, w.Data...)
	}
	return out
}

// Accepted returns the bytes that completed writes reported as written.
func (e *End) Accepted() []byte {
	e.mu.Lock()
	defer e.mu.Unlock()
	var out []byte
	for _, w := range e.writes {
		if w.End != 0 {
			out = append(out, w.Data[:w.N]...)
		}
	}
	return out
}

// WriteCount returns the number of Write calls begun.
func (e *End) WriteCount() int {
	e.mu.Lock()
	defer e.mu.Unlock()
	return len(e.writes)
}

// OutTotal is the number of bytes this endpoint delivered into its pipe.
func (e *End) OutTotal() int64 {
	e.out.mu.Lock()
	defer e.out.mu.Unlock()
	return e.out.total
}

// net.Conn plumbing (deadlines are not supported and not used by drpc).

type addr string

func (a addr) Network() string { return "simnet" }
func (a addr) String() string  { return string(a) }

// LocalAddr implements net.Conn.
func (e *End) LocalAddr() net.Addr { return addr(e.Role) }

// RemoteAddr implements net.Conn.
func (e *End) RemoteAddr() net.Addr { return addr(e.peer.Role) }

// SetDeadline implements net.Conn.
func (e *End) SetDeadline(time.Time) error { return nil }

// SetReadDeadline implements net.Conn.
func (e *End) SetReadDeadline(time.Time) error { return nil }

// SetWriteDeadline implements net.Conn.
func (e *End) SetWriteDeadline(time.Time) error { return nil }

var _ net.Conn = (*End)(nil)

// Describe renders the options for evidence.
func (o Opts) Describe() string {
	return fmt.Sprintf("cap=%d chunkA=%T chunkB=%T", o.Cap, o.ChunkA, o.ChunkB)
}

func min(a, b int) int {
	if a < b {
		return a
	}
	return b
}
