module verifharness

go 1.19

require (
	drpcv0017 v0.0.0
	github.com/anishathalye/porcupine v1.3.0
	github.com/zeebo/errs v1.2.2
	google.golang.org/protobuf v1.27.1
	storj.io/drpc v0.0.0
)

require (
	github.com/gogo/protobuf v1.3.2 // indirect
	github.com/spacemonkeygo/monkit/v3 v3.0.7 // indirect
)

replace storj.io/drpc => /repo

replace drpcv0017 => ../third_party/drpc_v0017
