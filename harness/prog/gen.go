package prog

import (
	"fmt"

	"storj.io/drpc/drpcmanager"
	"storj.io/drpc/drpcstream"
	"storj.io/drpc/drpcwire"

	"verifharness/payload"
	"verifharness/simnet"
)

// Config dimensions.
var (
	SplitSizes  = []int{-1, 1, 2, 7, 64, 1024, 0}
	WriterSizes = []int{1, 16, 100, 0, 1 << 20}
	NetCaps     = []int{0, 64, 4096, -1}
)

// GenConfig draws one cell of the configuration product.
func GenConfig(r *payload.SplitMix, manualFlush bool) Config {
	split := payload.Pick(r, SplitSizes)
	wsize := payload.Pick(r, WriterSizes)
	soft := r.Intn(2) == 0
	capn := payload.Pick(r, NetCaps)
	maxbuf := payload.Pick(r, []int{0, 1 << 20})
	// the stream's own MaximumBufferSize only decides which marshal buffers are kept for reuse
	smax := payload.Pick(r, []int{0, 0, 0, 64, 1024, 65536})
	mk := func() drpcmanager.Options {
		return drpcmanager.Options{
			WriterBufferSize: wsize,
			SoftCancel:       soft,
			Reader:           drpcwire.ReaderOptions{MaximumBufferSize: maxbuf},
			Stream:           drpcstream.Options{SplitSize: split, ManualFlush: manualFlush, MaximumBufferSize: smax},
		}
	}
	chunk := func() simnet.Chunker {
		switch r.Intn(4) {
		case 0:
			return simnet.ChunkK{K: 1}
		case 1:
			return simnet.ChunkK{K: 1 + r.Intn(100)}
		case 2:
			return &simnet.ChunkRand{K: 1 + r.Intn(300), State: r.Next()}
		}
		return simnet.ChunkAll{}
	}
	ca, cb := chunk(), chunk()
	return Config{
		Net:    simnet.Opts{Cap: capn, ChunkA: ca, ChunkB: cb},
		Client: mk(), Server: mk(),
		Desc: fmt.Sprintf("split=%d wbuf=%d soft=%v manual=%v cap=%d maxbuf=%d keepbuf=%d chunkA=%T chunkB=%T", split, wsize, soft, manualFlush, capn, maxbuf, smax, ca, cb),
	}
}

// SizeClasses returns message sizes around the split and writer-buffer boundaries.
func SizeClasses(cfg Config, r *payload.SplitMix) int {
	split := cfg.Client.Stream.SplitSize
	if split <= 0 {
		split = 64 * 1024
	}
	w := cfg.Client.WriterBufferSize
	if w == 0 {
		w = 4096
	}
	if w > 1<<16 {
		w = 1 << 16
	}
	h := payload.HeaderLen
	adj := func(n int) int {
		if n < h {
			return 0
		}
		return n - h
	}
	switch r.Intn(12) {
	case 0:
		return 0
	case 1:
		return 1
	case 2:
		return adj(split - 1)
	case 3:
		return adj(split)
	case 4:
		return adj(split + 1)
	case 5:
		return adj(w - 30)
	case 6:
		return adj(w)
	case 7:
		return adj(w + 1)
	case 8:
		return adj(3*split + 5)
	case 9:
		if r.Intn(6) == 0 {
			return 200 * 1024
		}
		return r.Intn(5000)
	}
	return r.Intn(300)
}

// GenClean builds an RPC in which neither side aborts.
func GenClean(r *payload.SplitMix, tag uint64, cfg Config) *Script {
	s := &Script{Tag: tag, Clean: true}
	if r.Intn(3) == 0 {
		s.Meta = map[string]string{"rpc": fmt.Sprint(tag), fmt.Sprintf("k%d", tag): "v"}
	}
	sz := func() int {
		n := SizeClasses(cfg, r)
		if cfg.Client.Stream.SplitSize > 0 && cfg.Client.Stream.SplitSize < 8 && n > 3000 {
			n = r.Intn(3000) // tiny split sizes make huge messages very slow
		}
		return n
	}
	switch r.Intn(4) {
	case 0: // unary
		s.Unary = true
		s.ReqSize = sz()
		s.Handler = []Act{{Op: 'r'}, {Op: 's', Size: sz()}}
	case 1: // client streaming
		for i := 0; i < r.Intn(5); i++ {
			s.Client = append(s.Client, Act{Op: 's', Size: sz()})
		}
		s.Client = append(s.Client, Act{Op: 'h'}, Act{Op: 'R'})
		s.Handler = []Act{{Op: 'R'}, {Op: 's', Size: sz()}}
	case 2: // server streaming
		s.Client = []Act{{Op: 's', Size: sz()}, {Op: 'h'}, {Op: 'R'}}
		s.Handler = []Act{{Op: 'r'}}
		for i := 0; i < r.Intn(5); i++ {
			s.Handler = append(s.Handler, Act{Op: 's', Size: sz()})
		}
	default: // bidirectional, echo style then drain
		k := r.Intn(4)
		for i := 0; i < k; i++ {
			s.Client = append(s.Client, Act{Op: 's', Size: sz()}, Act{Op: 'r'})
			s.Handler = append(s.Handler, Act{Op: 'r'}, Act{Op: 's', Size: sz()})
		}
		s.Client = append(s.Client, Act{Op: 'h'}, Act{Op: 'R'})
		s.Handler = append(s.Handler, Act{Op: 'R'})
	}
	return s
}

// AbortKinds enumerates how an RPC can be cut short.
var AbortKinds = []string{"client-cancel", "client-close", "handler-error", "handler-early-return", "client-early-close-after-half"}

// GenAbort builds an RPC that one side ends early, at a seeded point.
func GenAbort(r *payload.SplitMix, tag uint64, cfg Config, kind string) *Script {
	for tries := 0; tries < 50; tries++ {
		s := GenClean(r, tag, cfg)
		s.Clean = false
		switch kind {
		case "client-cancel":
			if s.Unary {
				// a unary call can only be cancelled from outside while it runs; model it as a stream
				s.Unary = false
				s.Client = []Act{{Op: 's', Size: s.ReqSize}, {Op: 'h'}, {Op: 'R'}}
			}
			p := r.Intn(len(s.Client) + 1)
			s.Client = append(append(append([]Act{}, s.Client[:p]...), Act{Op: 'x'}), s.Client[p:]...)
		case "client-close":
			if s.Unary {
				s.Unary = false
				s.Client = []Act{{Op: 's', Size: s.ReqSize}, {Op: 'h'}, {Op: 'R'}}
			}
			p := r.Intn(len(s.Client) + 1)
			s.Client = append(append([]Act{}, s.Client[:p]...), Act{Op: 'c'})
		case "handler-error":
			p := r.Intn(len(s.Handler) + 1)
			s.Handler = append([]Act{}, s.Handler[:p]...)
			s.Ret = &ErrSpec{Msg: fmt.Sprintf("handler error for rpc %d", tag), Code: uint64(r.Intn(3)) * 41}
		case "handler-early-return":
			p := r.Intn(len(s.Handler) + 1)
			s.Handler = append([]Act{}, s.Handler[:p]...)
			if !s.Unary && r.Intn(2) == 0 {
				// the client half-closes only after the server's own half-close has arrived
				for i, a := range s.Client {
					if a.Op == 'h' {
						s.Client = append(append(append([]Act{}, s.Client[:i]...), Act{Op: 'q'}), s.Client[i:]...)
						break
					}
				}
			}
		case "client-early-close-after-half":
			if s.Unary {
				s.Unary = false
				s.Client = []Act{{Op: 's', Size: s.ReqSize}, {Op: 'h'}, {Op: 'R'}}
			}
			// half close, read a few, then close without draining
			var c []Act
			for _, a := range s.Client {
				if a.Op == 'R' {
					for i := 0; i < r.Intn(3); i++ {
						c = append(c, Act{Op: 'r'})
					}
					c = append(c, Act{Op: 'c'})
					break
				}
				c = append(c, a)
			}
			s.Client = c
		}
		if Validate(s) {
			return s
		}
	}
	return GenClean(r, tag, cfg)
}
