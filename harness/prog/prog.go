// Package prog executes scripted RPC programs (client behaviours x handler
// behaviours) over a real drpcconn.Conn / drpcserver.Server pair on simnet and
// records every application-level call with its result. The property monitors
// (isolation, order, completeness, error identity, wire validity, progress)
// judge the recorded events.
package prog

import (
	"bytes"
	"context"
	"errors"
	"fmt"
	"strconv"
	"strings"
	"sync"
	"time"

	"storj.io/drpc"
	"storj.io/drpc/drpcerr"
	"storj.io/drpc/drpcmanager"
	"storj.io/drpc/drpcmetadata"
	"storj.io/drpc/drpcstream"
	"storj.io/drpc/drpcwire"

	"verifharness/census"
	"verifharness/payload"
	"verifharness/rig"
	"verifharness/simnet"
)

// Act is one scripted action.
//
//	's' send one message of Size bytes      'r' receive one message
//	'R' receive until an error              'h' CloseSend
//	'c' Close                               'x' cancel the RPC context (client only)
//	'f' RawFlush                            'q' wait until the process is quiescent
//	'S' send Size messages of 10 bytes
//	'P' Size goroutines send 4 messages each, concurrently; wait for all
//	'Z' start a goroutine that issues CloseSend concurrently with what follows
//	'u' send one message that the peer's decoder rejects
//	'Q' Size goroutines receive until an error, concurrently; wait for all
//	'w' sleep Size milliseconds (real time: only for options that are about real time)
//	'v' receive one message through RawRecv and keep the returned slice (checked later: it must not change)
//	'm' send one message that the sender's own encoder rejects (the send fails locally, nothing is written)
//	'V' receive through RawRecv until an error
type Act struct {
	Op   byte
	Size int
}

// unmarshalable is a message type payload.Enc cannot marshal.
type unmarshalable struct{}

// ErrSpec describes the error a handler returns.
type ErrSpec struct {
	Msg  string
	Code uint64
	Wrap int // wrapping depth
}

func (e *ErrSpec) Error() error {
	if e == nil {
		return nil
	}
	var err error = errors.New(e.Msg)
	if e.Code != 0 {
		err = drpcerr.WithCode(err, e.Code)
	}
	for i := 0; i < e.Wrap; i++ {
		err = &wrapErr{err}
	}
	return err
}

type wrapErr struct{ in error }

func (w *wrapErr) Error() string { return w.in.Error() }
func (w *wrapErr) Unwrap() error { return w.in }

// Script is one RPC.
type Script struct {
	Tag     uint64
	Unary   bool
	ReqSize int // unary request body size
	Client  []Act
	Handler []Act
	Ret     *ErrSpec
	Meta    map[string]string
	Clean   bool // generator's claim: neither side aborts; must succeed completely on a healthy connection
	NoClose bool // do not append the implicit final Close on the client stream
	BadReq  bool // unary only: the request is a message the client's own encoder rejects
}

// Event is one recorded application-level call.
type Event struct {
	Tag       uint64
	Side      byte // 'c' client, 's' server (handler)
	Op        string
	Call, Ret int64
	Err       error
	Returned  bool
	Msg       payload.Msg // for successful receives
	MsgErr    error       // payload validation error of a received message
	Size      int
	Seq       uint32 // for sends: sequence number submitted
	Sender    uint16 // for sends: sending goroutine
	Rcv       uint16 // for receives: receiving goroutine (0 = the script's own)
}

// Cat is the error category of the event.
func (e *Event) Cat() string { return rig.Cat(e.Err) }

// RPCLog is what happened in one RPC.
type RPCLog struct {
	Script       *Script
	mu           sync.Mutex
	Events       []*Event
	HandlerRan   bool
	HandlerDone  bool
	HandlerErr   error
	HandlerMeta  map[string]string
	HandlerHasMD bool
	ClientDone   bool
	ClientStart  bool
	HandlerCtx   context.Context
	HandlerStr   drpc.Stream // handler's stream
	Stream       drpc.Stream // client stream (streaming RPCs)
	held         []heldSlice // slices returned by RawRecv that the application still holds
	Cancel       context.CancelFunc
}

func (l *RPCLog) begin(side byte, op string, size int, seq uint32) *Event {
	ev := &Event{Tag: l.Script.Tag, Side: side, Op: op, Size: size, Seq: seq}
	l.mu.Lock()
	ev.Call = simnet.Tick()
	l.Events = append(l.Events, ev)
	l.mu.Unlock()
	return ev
}

func (l *RPCLog) end(ev *Event, err error) {
	l.mu.Lock()
	ev.Ret = simnet.Tick()
	ev.Err = err
	ev.Returned = true
	l.mu.Unlock()
}

func (l *RPCLog) endMsg(ev *Event, err error, out []byte) {
	l.mu.Lock()
	ev.Ret = simnet.Tick()
	ev.Err = err
	if err == nil {
		ev.Msg, ev.MsgErr = payload.Parse(out)
		ev.Size = len(out)
	}
	ev.Returned = true
	l.mu.Unlock()
}

// HandlerMetadata returns the metadata the handler saw in its stream context.
func (l *RPCLog) HandlerMetadata() (map[string]string, bool) {
	l.mu.Lock()
	defer l.mu.Unlock()
	return l.HandlerMeta, l.HandlerHasMD
}

// ClientState reports whether the client side of the RPC started and whether it is done.
func (l *RPCLog) ClientState() (started, done bool) {
	l.mu.Lock()
	defer l.mu.Unlock()
	return l.ClientStart, l.ClientDone
}

// CancelRPC cancels the RPC's client context (if it has started).
func (l *RPCLog) CancelRPC() {
	l.mu.Lock()
	c := l.Cancel
	l.mu.Unlock()
	if c != nil {
		c()
	}
}

// CloseSide calls Close on one side's stream from the calling goroutine (an application goroutine
// other than the one running the script). It reports false if that side has no stream yet.
func (l *RPCLog) CloseSide(side byte) bool {
	l.mu.Lock()
	st := l.Stream
	if side == 's' {
		st = l.HandlerStr
	}
	l.mu.Unlock()
	if st == nil {
		return false
	}
	ev := l.begin(side, "close-other-goroutine", 0, 0)
	l.end(ev, st.Close())
	return true
}

type heldSlice struct {
	side       byte
	data, copy []byte
}

// HeldChanged reports the slices obtained from RawRecv whose contents changed afterwards.
func (l *RPCLog) HeldChanged() []string {
	l.mu.Lock()
	defer l.mu.Unlock()
	var out []string
	for i, h := range l.held {
		if string(h.data) != string(h.copy) {
			out = append(out, fmt.Sprintf("rpc %d (%c side): the %d bytes returned by RawRecv #%d were modified after the call returned (the application still holds the slice)", l.Script.Tag, h.side, len(h.copy), i))
		}
	}
	return out
}

// HandlerState reports whether the handler started and whether it returned.
func (l *RPCLog) HandlerState() (ran, done bool) {
	l.mu.Lock()
	defer l.mu.Unlock()
	return l.HandlerRan, l.HandlerDone
}

// Snapshot returns a copy of the events (safe while ops are in flight).
func (l *RPCLog) Snapshot() []Event {
	l.mu.Lock()
	defer l.mu.Unlock()
	out := make([]Event, len(l.Events))
	for i, e := range l.Events {
		out[i] = *e
	}
	return out
}

// Config of an execution.
type Config struct {
	Net    simnet.Opts
	Client drpcmanager.Options
	Server drpcmanager.Options
	Desc   string
	Real   func() (client, server drpc.Transport, cleanup func())
}

// Exec is a running program.
type Exec struct {
	// AfterSend, if set, is called right after every MsgSend returned.
	AfterSend func(l *RPCLog, side byte, msg []byte, err error)
	// AfterFlush, if set, is called after a call that must flush (RawFlush,
	// CloseSend, Close) returned nil, with the name of the call.
	AfterFlush func(l *RPCLog, side byte, op string)
	// OnQ, if set, is called by the 'q' action once the process is quiescent.
	OnQ func(l *RPCLog, side byte)

	Rig   *rig.Rig
	Cfg   Config
	mu    sync.Mutex
	logs  map[uint64]*RPCLog
	order []uint64
	Ops   []*rig.Op // client goroutines
}

// New builds the rig and registers the scripts.
func New(cfg Config, scripts []*Script) *Exec {
	x := &Exec{Cfg: cfg, logs: map[uint64]*RPCLog{}}
	for _, s := range scripts {
		x.logs[s.Tag] = &RPCLog{Script: s}
		x.order = append(x.order, s.Tag)
	}
	x.Rig = rig.New(rig.Config{Net: cfg.Net, Client: cfg.Client, Server: cfg.Server, Real: cfg.Real}, rig.HandlerFunc(x.handle))
	return x
}

// AddScript registers one more script (e.g. a probe) after New.
func (x *Exec) AddScript(s *Script) *RPCLog {
	x.mu.Lock()
	defer x.mu.Unlock()
	l := &RPCLog{Script: s}
	x.logs[s.Tag] = l
	x.order = append(x.order, s.Tag)
	return l
}

// Log returns the log of an RPC.
func (x *Exec) Log(tag uint64) *RPCLog {
	x.mu.Lock()
	defer x.mu.Unlock()
	return x.logs[tag]
}

// Logs returns all logs in registration order.
func (x *Exec) Logs() []*RPCLog {
	x.mu.Lock()
	defer x.mu.Unlock()
	var out []*RPCLog
	for _, t := range x.order {
		out = append(out, x.logs[t])
	}
	return out
}

// RPCName is the rpc string of a tag.
func RPCName(tag uint64) string { return "/t/" + strconv.FormatUint(tag, 10) }

func (x *Exec) handle(stream drpc.Stream, rpc string) error {
	tag, err := strconv.ParseUint(strings.TrimPrefix(rpc, "/t/"), 10, 64)
	if err != nil {
		return drpc.ProtocolError.New("unknown rpc: %q", rpc)
	}
	l := x.Log(tag)
	if l == nil {
		return drpc.ProtocolError.New("unknown rpc: %q", rpc)
	}
	md, ok := drpcmetadata.Get(stream.Context())
	l.mu.Lock()
	l.HandlerRan = true
	l.HandlerCtx = stream.Context()
	l.HandlerStr = stream
	l.HandlerHasMD = ok
	l.HandlerMeta = map[string]string{}
	for k, v := range md {
		l.HandlerMeta[k] = v
	}
	l.mu.Unlock()
	census.Bump()
	x.runActs(l, 's', stream, l.Script.Handler, nil)
	ret := l.Script.Ret.Error()
	l.mu.Lock()
	l.HandlerDone = true
	l.HandlerErr = ret
	l.mu.Unlock()
	census.Bump()
	return ret
}

func (x *Exec) runActs(l *RPCLog, side byte, st drpc.Stream, acts []Act, cancel context.CancelFunc) {
	dir := uint8(0)
	if side == 's' {
		dir = 1
	}
	var seq uint32
	send := func(size int) {
		m := payload.Make(l.Script.Tag, dir, 0, seq, size)
		ev := l.begin(side, "send", size, seq)
		seq++
		err := st.MsgSend(&m, payload.Enc{})
		l.end(ev, err)
		if x.AfterSend != nil {
			x.AfterSend(l, side, m, err)
		}
	}
	var bg sync.WaitGroup
	defer bg.Wait()
	recv := func() error {
		var out []byte
		ev := l.begin(side, "recv", 0, 0)
		err := st.MsgRecv(&out, payload.Enc{})
		l.endMsg(ev, err, out)
		return err
	}
	for _, a := range acts {
		switch a.Op {
		case 's':
			send(a.Size)
		case 'S':
			for i := 0; i < a.Size; i++ {
				send(10)
			}
		case 'u':
			m := payload.Undecodable(a.Size)
			ev := l.begin(side, "send-undecodable", a.Size, 0)
			l.end(ev, st.MsgSend(&m, payload.Enc{}))
		case 'm':
			ev := l.begin(side, "send-unmarshalable", 0, 0)
			l.end(ev, st.MsgSend(unmarshalable{}, payload.Enc{}))
		case 'r':
			recv()
		case 'w':
			time.Sleep(time.Duration(a.Size) * time.Millisecond)
		case 'v':
			ev := l.begin(side, "recv", 0, 0)
			rr, ok := st.(interface{ RawRecv() ([]byte, error) })
			if !ok {
				l.end(ev, fmt.Errorf("stream %T has no RawRecv", st))
				break
			}
			data, err := rr.RawRecv()
			cp := append([]byte(nil), data...)
			if err == nil {
				l.mu.Lock()
				l.held = append(l.held, heldSlice{side: side, data: data, copy: cp})
				l.mu.Unlock()
			}
			l.endMsg(ev, err, cp)
		case 'R':
			for i := 0; i < 100000; i++ {
				if recv() != nil {
					break
				}
			}
		case 'V':
			rr, ok := st.(interface{ RawRecv() ([]byte, error) })
			for i := 0; i < 100000; i++ {
				ev := l.begin(side, "recv", 0, 0)
				if !ok {
					l.end(ev, fmt.Errorf("stream %T has no RawRecv", st))
					break
				}
				data, err := rr.RawRecv()
				l.endMsg(ev, err, append([]byte(nil), data...))
				if err != nil {
					break
				}
			}
		case 'Q':
			var wg sync.WaitGroup
			for g := 1; g <= a.Size; g++ {
				g := g
				wg.Add(1)
				go func() {
					defer wg.Done()
					for i := 0; i < 100000; i++ {
						var out []byte
						ev := l.begin(side, "recv", 0, 0)
						l.mu.Lock()
						ev.Rcv = uint16(g)
						l.mu.Unlock()
						err := st.MsgRecv(&out, payload.Enc{})
						l.endMsg(ev, err, out)
						if err != nil {
							return
						}
					}
				}()
			}
			wg.Wait()
		case 'h':
			ev := l.begin(side, "closesend", 0, 0)
			err := st.CloseSend()
			l.end(ev, err)
			if err == nil && x.AfterFlush != nil {
				x.AfterFlush(l, side, "closesend")
			}
		case 'c':
			ev := l.begin(side, "close", 0, 0)
			err := st.Close()
			l.end(ev, err)
			if err == nil && x.AfterFlush != nil {
				x.AfterFlush(l, side, "close")
			}
		case 'x':
			if cancel != nil {
				ev := l.begin(side, "cancel", 0, 0)
				cancel()
				l.end(ev, nil)
			}
		case 'f':
			if f, ok := st.(interface{ RawFlush() error }); ok {
				ev := l.begin(side, "flush", 0, 0)
				err := f.RawFlush()
				l.end(ev, err)
				if err == nil && x.AfterFlush != nil {
					x.AfterFlush(l, side, "flush")
				}
			}
		case 'q':
			census.Quiesce(rig.Watchdog)
			if x.OnQ != nil {
				x.OnQ(l, side)
			}
		case 'P':
			var wg sync.WaitGroup
			for g := 1; g <= a.Size; g++ {
				g := g
				wg.Add(1)
				go func() {
					defer wg.Done()
					for k := 0; k < 4; k++ {
						size := int(payload.Hash(l.Script.Tag, uint64(g), uint64(k)) % 200)
						if k == 2 {
							size *= 40
						}
						m := payload.Make(l.Script.Tag, dir, uint16(g), uint32(k), size)
						ev := l.begin(side, "send", size, uint32(k))
						l.mu.Lock()
						ev.Sender = uint16(g)
						l.mu.Unlock()
						err := st.MsgSend(&m, payload.Enc{})
						l.end(ev, err)
						if x.AfterSend != nil {
							x.AfterSend(l, side, m, err)
						}
					}
				}()
			}
			wg.Wait()
		case 'Z':
			bg.Add(1)
			go func() {
				defer bg.Done()
				ev := l.begin(side, "closesend", 0, 0)
				l.end(ev, st.CloseSend())
			}()
		}
	}
}

// RunClient executes one script on the calling goroutine.
func (x *Exec) RunClient(s *Script) {
	l := x.Log(s.Tag)
	ctx, cancel := context.WithCancel(context.Background())
	for k, v := range s.Meta {
		ctx = drpcmetadata.Add(ctx, k, v)
	}
	l.mu.Lock()
	l.Cancel = cancel
	l.ClientStart = true
	l.mu.Unlock()
	defer func() {
		l.mu.Lock()
		l.ClientDone = true
		l.mu.Unlock()
		census.Bump()
	}()
	if s.Unary {
		in := payload.Make(s.Tag, 0, 0, 0, s.ReqSize)
		var out []byte
		for _, a := range s.Client {
			if a.Op == 'x' {
				cancel() // cancelled before the call is issued
			}
		}
		ev := l.begin('c', "invoke", s.ReqSize, 0)
		var err error
		if s.BadReq {
			err = x.Rig.Conn.Invoke(ctx, RPCName(s.Tag), payload.Enc{}, unmarshalable{}, &out)
		} else {
			err = x.Rig.Conn.Invoke(ctx, RPCName(s.Tag), payload.Enc{}, &in, &out)
		}
		l.endMsg(ev, err, out)
		return
	}
	ev := l.begin('c', "newstream", 0, 0)
	st, err := x.Rig.Conn.NewStream(ctx, RPCName(s.Tag), payload.Enc{})
	l.end(ev, err)
	if err != nil {
		return
	}
	l.mu.Lock()
	l.Stream = st
	l.mu.Unlock()
	x.runActs(l, 'c', st, s.Client, cancel)
	if !s.NoClose {
		ev := l.begin('c', "close", 0, 0)
		l.end(ev, st.Close())
	}
}

// Start runs the given groups of scripts, one goroutine per group, each group sequentially.
func (x *Exec) Start(groups [][]*Script) {
	for gi, g := range groups {
		g := g
		x.Ops = append(x.Ops, rig.Go(fmt.Sprintf("client%d", gi), func() (interface{}, error) {
			for _, s := range g {
				x.RunClient(s)
			}
			return nil, nil
		}))
	}
}

// WaitClients waits until every client goroutine returned or the process is
// quiescent. It reports "ready", "quiescent" or "watchdog".
func (x *Exec) WaitClients() string {
	for _, op := range x.Ops {
		st := rig.WaitAny(op.Done())
		if st != "ready" {
			return st
		}
	}
	return "ready"
}

// Probe issues a fresh unary RPC and reports how it ended: "ok", "failed:<cat>",
// "blocked" (process quiescent, probe pending) or "watchdog".
func (x *Exec) Probe(tag uint64) (string, *RPCLog) {
	s := &Script{Tag: tag, Unary: true, ReqSize: 9, Handler: []Act{{Op: 'r'}, {Op: 's', Size: 11}}, Clean: true}
	l := x.AddScript(s)
	op := rig.Go("probe", func() (interface{}, error) { x.RunClient(s); return nil, nil })
	st := rig.WaitAny(op.Done())
	if st == "quiescent" {
		return "blocked", l
	}
	if st != "ready" {
		return "watchdog", l
	}
	evs := l.Snapshot()
	if len(evs) == 0 {
		return "failed:no-event", l
	}
	inv := evs[0]
	if inv.Err != nil {
		return "failed:" + rig.Cat(inv.Err), l
	}
	if inv.MsgErr != nil || inv.Msg.Tag != tag || inv.Msg.Dir != 1 {
		return fmt.Sprintf("wrong-response(tag=%d dir=%d err=%v)", inv.Msg.Tag, inv.Msg.Dir, inv.MsgErr), l
	}
	return "ok", l
}

// Validate rejects scripts that deadlock by construction (both sides waiting to
// receive with nothing in flight). It is an abstract simulation of the two
// scripts with unbounded buffering.
func Validate(s *Script) bool { return validate(s, false) }

// ValidateStrict is Validate under the tightest buffering any configuration
// has: a send completes only once every earlier message of that direction has
// been received (or the peer is gone). A script that ends under this model ends
// under every looser one.
func ValidateStrict(s *Script) bool { return validate(s, true) }

func validate(s *Script, strict bool) bool {
	if s.Unary {
		return true
	}
	type side struct {
		acts             []Act
		pc               int
		sent, got        int
		half, ended      bool
		inR              bool
		remainingInBurst int
	}
	c := &side{acts: s.Client}
	h := &side{acts: s.Handler}
	step := func(me, peer *side, isClient bool) bool {
		if me.ended {
			return false
		}
		if me.pc >= len(me.acts) {
			if strict && !isClient && me.sent > peer.got && !peer.ended {
				return false // the handler's final packet queues behind its unreceived message
			}
			me.ended = true // client: implicit close; handler: return
			return true
		}
		a := me.acts[me.pc]
		if strict && (a.Op == 's' || a.Op == 'u' || a.Op == 'S' || a.Op == 'P') {
			if me.sent > peer.got && !peer.ended {
				return false
			}
			n := 1
			if a.Op == 'S' {
				n = a.Size
			} else if a.Op == 'P' {
				n = 4 * a.Size
			}
			if me.remainingInBurst == 0 {
				me.remainingInBurst = n
			}
			me.sent++
			me.remainingInBurst--
			if me.remainingInBurst == 0 {
				me.pc++
			}
			return true
		}
		if strict && (a.Op == 'h' || a.Op == 'c') && me.sent > peer.got && !peer.ended {
			return false // the control packet queues behind the unreceived message
		}
		switch a.Op {
		case 's', 'u':
			me.sent++
			me.pc++
		case 'S':
			me.sent += a.Size
			me.pc++
		case 'P':
			me.sent += 4 * a.Size
			me.pc++
		case 'Z':
			me.half = true
			me.pc++
		case 'r', 'R', 'Q', 'v', 'V':
			if peer.sent > me.got {
				me.got++
				if a.Op == 'r' || a.Op == 'v' {
					me.pc++
				}
			} else if peer.half || peer.ended {
				me.pc++
			} else {
				return false
			}
		case 'h':
			me.half = true
			me.pc++
		case 'c', 'x':
			me.ended = true
			me.pc++
		default:
			me.pc++
		}
		return true
	}
	for i := 0; i < 100000; i++ {
		p1 := step(c, h, true)
		p2 := step(h, c, false)
		if c.pc >= len(c.acts) {
			c.ended = true
		}
		if h.pc >= len(h.acts) && !(strict && h.sent > c.got && !c.ended) {
			h.ended = true
		}
		if c.ended && h.ended {
			return true
		}
		if !p1 && !p2 {
			return false
		}
	}
	return false
}

// ---- wire monitor (C07, used by every connection-level check) ----

// WireFindings checks the tap of one endpoint: whole frames per write,
// non-decreasing ids, one kind per id, nothing after a done frame, at most one
// write and one read in flight, at most one Close, and acceptance of the
// captured stream by a fresh real drpcwire.Reader.
func WireFindings(e *simnet.End) []string {
	var out []string
	maxW, maxR := e.MaxInFlight()
	if maxW > 1 {
		out = append(out, fmt.Sprintf("%s transport saw %d writes in flight at once", e.Role, maxW))
	}
	if maxR > 1 {
		out = append(out, fmt.Sprintf("%s transport saw %d reads in flight at once", e.Role, maxR))
	}
	if n := e.CloseCount(); n > 1 {
		out = append(out, fmt.Sprintf("%s transport closed %d times", e.Role, n))
	}
	var all, accepted []byte
	type id struct{ s, m uint64 }
	var last id
	lastDone := true
	var lastKind drpcwire.Kind
	first := true
	for _, w := range e.Writes() {
		data := w.Data
		all = append(all, data...)
		if w.N >= 0 && w.N <= len(w.Data) {
			accepted = append(accepted, w.Data[:w.N]...)
		}
		for len(data) > 0 {
			rem, fr, ok, err := drpcwire.ParseFrame(data)
			if err != nil || !ok {
				out = append(out, fmt.Sprintf("%s write #%d (%d bytes) is not a sequence of whole frames (ok=%v err=%v, %d bytes left)", e.Role, w.Idx, len(w.Data), ok, err, len(data)))
				break
			}
			cur := id{fr.ID.Stream, fr.ID.Message}
			switch {
			case first:
			case cur.s < last.s || (cur.s == last.s && cur.m < last.m):
				out = append(out, fmt.Sprintf("%s write #%d: frame id (s%d,m%d) after (s%d,m%d): ids go backwards", e.Role, w.Idx, cur.s, cur.m, last.s, last.m))
			case cur == last && lastDone:
				out = append(out, fmt.Sprintf("%s write #%d: frame for id (s%d,m%d) after its final frame", e.Role, w.Idx, cur.s, cur.m))
			case cur == last && fr.Kind != lastKind:
				out = append(out, fmt.Sprintf("%s write #%d: kind changes within id (s%d,m%d)", e.Role, w.Idx, cur.s, cur.m))
			}
			first = false
			last, lastDone, lastKind = cur, fr.Done, fr.Kind
			data = rem
		}
		if len(out) > 6 {
			return out
		}
	}
	// independent decode by the real reader
	rd := drpcwire.NewReaderWithOptions(&byteReader{b: all}, drpcwire.ReaderOptions{MaximumBufferSize: 64 << 20})
	for {
		_, err := rd.ReadPacket()
		if err != nil {
			if drpc.ProtocolError.Has(err) {
				out = append(out, fmt.Sprintf("a conforming reader rejects the bytes written by the %s: %v", e.Role, err))
			}
			break
		}
	}
	// what the peer actually gets: only the part of each write the transport accepted. After a write
	// that was cut short (an error after some of its bytes) nothing that follows may reach the peer,
	// or it reads the tail of one frame glued to the head of another.
	if !bytes.Equal(all, accepted) {
		rd := drpcwire.NewReaderWithOptions(&byteReader{b: accepted}, drpcwire.ReaderOptions{MaximumBufferSize: 64 << 20})
		for {
			_, err := rd.ReadPacket()
			if err != nil {
				if drpc.ProtocolError.Has(err) {
					out = append(out, fmt.Sprintf("a conforming reader rejects the bytes the transport accepted from the %s (writes went on after one that was cut short): %v", e.Role, err))
				}
				break
			}
		}
	}
	return out
}

type byteReader struct{ b []byte }

func (r *byteReader) Read(p []byte) (int, error) {
	if len(r.b) == 0 {
		return 0, errEOF
	}
	n := copy(p, r.b)
	r.b = r.b[n:]
	return n, nil
}

var errEOF = errors.New("end of captured stream")

var _ = drpcstream.Options{}
