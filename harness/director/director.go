// Package director drives scheduling at the drpcdebug.Point hooks: it can park
// the goroutine making the n-th hit of a named point (optionally for a given
// object) until the scenario releases it, and it can perturb schedules with
// seeded yields and short sleeps. It records the hit sequence so runs can
// report which interleavings were actually observed.
package director

import (
	"hash/fnv"
	"runtime"
	"sync"
	"sync/atomic"
	"time"

	"storj.io/drpc/drpcdebug"

	"verifharness/census"
)

// Park is a request to hold a goroutine at a point.
type Park struct {
	name    string
	who     interface{}
	nth     int // park the nth matching hit from now (1 = next)
	reached chan struct{}
	release chan struct{}
	once    sync.Once
	done    bool
	gid     int64
}

// Gid is the id of the goroutine parked here (0 if none yet).
func (p *Park) Gid() int64 { return atomic.LoadInt64(&p.gid) }

// Reached is closed when a goroutine is parked.
func (p *Park) Reached() <-chan struct{} { return p.reached }

// IsReached reports whether a goroutine has parked.
func (p *Park) IsReached() bool {
	select {
	case <-p.reached:
		return true
	default:
		return false
	}
}

// Release lets the parked goroutine continue (or disarms the park).
func (p *Park) Release() { p.once.Do(func() { census.Bump(); close(p.release) }) }

// Director is installed as the process-wide point hook.
type Director struct {
	mu      sync.Mutex
	parks   []*Park
	hits    map[string]int64
	sig     uint64 // rolling hash of (who-role, name) sequence
	nhits   int64
	perturb uint64 // seed; 0 = off
	rate    uint32 // perturb 1/rate hits
	roleOf  func(who interface{}) string
	ignore  func(name string) bool
	trace   []string
	tracing bool
}

var current atomic.Value // *Director

func init() {
	drpcdebug.SetPointHook(func(name string, who interface{}) {
		if d, _ := current.Load().(*Director); d != nil {
			d.hit(name, who)
		}
	})
}

// New returns a director. roleOf maps the point's object to a short role string
// for signatures (may be nil).
func New(roleOf func(who interface{}) string) *Director {
	return &Director{hits: map[string]int64{}, roleOf: roleOf}
}

// Install makes d the active director (nil disables).
func Install(d *Director) {
	if d == nil {
		current.Store((*Director)(nil))
		return
	}
	current.Store(d)
}

// Perturb turns on seeded schedule perturbation: about one in rate hits yields
// or sleeps a few microseconds, chosen by hash(seed, name, hit number).
func (d *Director) Perturb(seed uint64, rate uint32) {
	d.mu.Lock()
	d.perturb, d.rate = seed|1, rate
	d.mu.Unlock()
}

// Ignore makes the director skip points for which f returns true (cheaply).
func (d *Director) Ignore(f func(name string) bool) {
	d.mu.Lock()
	d.ignore = f
	d.mu.Unlock()
}

// ParkAt arranges for the nth matching hit (1 = next) of the point to block
// until Release. who==nil matches any object.
func (d *Director) ParkAt(name string, who interface{}, nth int) *Park {
	p := &Park{name: name, who: who, nth: nth, reached: make(chan struct{}), release: make(chan struct{})}
	d.mu.Lock()
	d.parks = append(d.parks, p)
	d.mu.Unlock()
	return p
}

// ReleaseAll releases every park (used at scenario teardown).
func (d *Director) ReleaseAll() {
	d.mu.Lock()
	ps := append([]*Park(nil), d.parks...)
	d.mu.Unlock()
	for _, p := range ps {
		p.Release()
	}
}

func (d *Director) hit(name string, who interface{}) {
	d.mu.Lock()
	if d.ignore != nil && d.ignore(name) {
		d.mu.Unlock()
		return
	}
	d.hits[name]++
	d.nhits++
	n := d.nhits
	role := ""
	if d.roleOf != nil {
		role = d.roleOf(who)
	}
	if d.tracing && len(d.trace) < 20000 {
		d.trace = append(d.trace, role+":"+name)
	}
	h := fnv.New64a()
	var b [8]byte
	for i := 0; i < 8; i++ {
		b[i] = byte(d.sig >> (8 * i))
	}
	h.Write(b[:])
	h.Write([]byte(role))
	h.Write([]byte(name))
	d.sig = h.Sum64()
	var park *Park
	for _, p := range d.parks {
		if p.done || p.name != name || (p.who != nil && p.who != who) {
			continue
		}
		p.nth--
		if p.nth <= 0 {
			p.done = true
			park = p
			break
		}
	}
	seed, rate := d.perturb, d.rate
	d.mu.Unlock()
	census.Bump()

	if park != nil {
		atomic.StoreInt64(&park.gid, census.Self())
		close(park.reached)
		<-park.release
		census.Bump()
		return
	}
	if seed != 0 {
		h := fnv.New64a()
		for i := 0; i < 8; i++ {
			b[i] = byte(seed >> (8 * i))
		}
		h.Write(b[:])
		h.Write([]byte(name))
		for i := 0; i < 8; i++ {
			b[i] = byte(uint64(n) >> (8 * i))
		}
		h.Write(b[:])
		v := h.Sum64()
		if rate == 0 {
			rate = 4
		}
		if uint32(v%uint64(rate)) == 0 {
			switch (v >> 32) % 4 {
			case 0, 1:
				for i := uint64(0); i < 1+(v>>40)%4; i++ {
					runtime.Gosched()
				}
			case 2:
				time.Sleep(time.Duration(1+(v>>40)%20) * time.Microsecond)
			case 3:
				time.Sleep(time.Duration(50+(v>>40)%200) * time.Microsecond)
			}
		}
	}
}

// StartTrace records the sequence of "role:name" hits (bounded) from now on.
func (d *Director) StartTrace() {
	d.mu.Lock()
	d.tracing = true
	d.mu.Unlock()
}

// Trace returns the recorded hit sequence.
func (d *Director) Trace() []string {
	d.mu.Lock()
	defer d.mu.Unlock()
	return append([]string(nil), d.trace...)
}

// Hits returns a copy of the per-point hit counters.
func (d *Director) Hits() map[string]int64 {
	d.mu.Lock()
	defer d.mu.Unlock()
	out := make(map[string]int64, len(d.hits))
	for k, v := range d.hits {
		out[k] = v
	}
	return out
}

// Signature returns the rolling hash of the (role, point) hit sequence.
func (d *Director) Signature() uint64 {
	d.mu.Lock()
	defer d.mu.Unlock()
	return d.sig
}
